#!/bin/bash
# usage: tools/seed_confirm.sh <seeded/ID dir> <logfile>
# In a scratch worktree of /repo HEAD: apply the seeded change, run the repository's whole suite with
# the guard off and compare with the baseline; build the release-like binary and run the seed's
# demo.py with it (must exit non-zero) and with the unchanged binary (must exit 0).
# One shared scratch target dir (/tmp/seed-target) keeps successive confirmations incremental.
D=$(realpath "$1"); LOG="$2"; ID=$(basename "$D")
WT=/tmp/seedc-wt-$$
git -C /repo worktree add -q "$WT" HEAD || exit 2
if ! git -C "$WT" apply "$D/patch.diff"; then echo "$ID PATCH-DOES-NOT-APPLY" >> "$LOG"; git -C /repo worktree remove --force "$WT"; exit 2; fi
( cd "$WT" && CARGO_TARGET_DIR=/tmp/seed-target timeout 3000 cargo nextest run --workspace --no-fail-fast --tool-config-file pb:/w/lib/nextest.toml --profile pb --test-threads 8 --offline > "$WT/nextest.log" 2>&1 )
J="$WT/target/nextest/pb/junit.xml"; [ -f "$J" ] || J=/tmp/seed-target/nextest/pb/junit.xml
RES=$(python3 /verif/tools/baseline_compare.py "$J" 2>&1 | head -1)
DEMO="no-demo.py"
if [ -f "$D/demo.py" ]; then
  ( cd "$WT" && CARGO_TARGET_DIR=/tmp/seed-target cargo build --offline --quiet --bin s4 --profile verif --config 'profile.verif.inherits="release"' --config 'profile.verif.lto=false' --config 'profile.verif.codegen-units=16' --config 'profile.verif.strip=false' > "$WT/build.log" 2>&1 )
  cp /tmp/seed-target/verif/s4 "$WT/s4-mut"
  [ -f "$D/../$(echo $ID | cut -d- -f1)-m1/demo_common.py" ] && cp "$D/../$(echo $ID | cut -d- -f1)-m1/demo_common.py" "$D/" 2>/dev/null
  ( cd "$D" && timeout 1200 python3 demo.py "$WT/s4-mut" /repo > "$WT/demo-mut.log" 2>&1 ); RM=$?
  ( cd "$D" && timeout 1200 python3 demo.py /verif/.cache/target-s4/verif/s4 /repo > "$WT/demo-orig.log" 2>&1 ); RO=$?
  DEMO="demo(with change)=exit$RM demo(without)=exit$RO"
fi
echo "$ID suite: $RES | $DEMO" >> "$LOG"
git -C /repo worktree remove --force "$WT"; rm -rf "$WT"
