#!/bin/bash
# usage: tools/seed_confirm.sh <patch.diff> <logfile>
# In a scratch worktree: apply the seeded change, run the repository's whole suite with the guard off,
# compare with the baseline; append the verdict to <logfile>.  Uses one shared scratch target dir
# (/tmp/seed-target) so that successive confirmations compile incrementally; remove it when done.
PATCH=$(realpath "$1"); LOG="$2"
WT=/tmp/seedc-wt-$$
git -C /repo worktree add -q "$WT" HEAD || exit 2
if ! git -C "$WT" apply "$PATCH"; then echo "$PATCH PATCH-DOES-NOT-APPLY" >> "$LOG"; git -C /repo worktree remove --force "$WT"; exit 2; fi
( cd "$WT" && CARGO_TARGET_DIR=/tmp/seed-target timeout 3000 cargo nextest run --workspace --no-fail-fast --tool-config-file pb:/w/lib/nextest.toml --profile pb --test-threads 8 --offline > "$WT/nextest.log" 2>&1 )
J="$WT/target/nextest/pb/junit.xml"; [ -f "$J" ] || J=/tmp/seed-target/nextest/pb/junit.xml
RES=$(python3 /verif/tools/baseline_compare.py "$J" 2>&1 | head -1)
echo "$PATCH suite: $RES" >> "$LOG"
git -C /repo worktree remove --force "$WT"; rm -rf "$WT"
