"""Shared machinery of /verif/check: builds, Coq runs, evidence, verdicts.

Verdict logic (DESIGN.md section 4), the same for every property:

  A. proof obligation   : regenerate tables from /repo, `make` the .vo closure of
                          Props/<id>.v, read `Print Assumptions`, grep for escapes.
  B. tie obligation     : implementation vs the *model* (vm_compute inside coqc)
                          on generated cases.
  C. failing-input search: implementation vs the *spec* (Coq spec functions that do
                          not depend on regenerated tables or on the model, or an
                          independent oracle) on in-domain cases.  Always run.

  C finds an in-domain failure  -> KNOWN-FINDING (if listed) or VIOLATION with the input
  A or B broken, C finds nothing -> VIOLATION ... no-failing-input-found
  otherwise                      -> exit 0
"""
import fcntl, glob, json, os, random, re, shutil, subprocess, sys, time, hashlib
from concurrent.futures import ThreadPoolExecutor

ROOT = os.path.dirname(os.path.dirname(os.path.abspath(__file__)))
REPO = os.environ.get("S4_REPO", "/repo")
CACHE = os.environ.get("S4_VERIF_CACHE", os.path.join(ROOT, ".cache"))   # override (with S4_REPO) to test a scratch worktree
OUT = os.environ.get("S4_VERIF_OUT", ROOT)                        # where evidence/ and replays/ are written
COQ = os.path.join(ROOT, "coq")
TARGET = os.path.join(CACHE, "target")
TARGET_S4 = os.path.join(CACHE, "target-s4")
S4_BIN = os.path.join(TARGET_S4, "verif", "s4")
NCPU = os.cpu_count() or 4

ALLOWED_AXIOMS = set()   # names that Print Assumptions may show; empty on purpose

FORBIDDEN = re.compile(
    r"\b(Admitted|admit|Axiom|Axioms|Parameter|Parameters|Conjecture|Abort All)\b"
    r"|Unset\s+Guard|bypass_check|Admit\s+Obligations|-type-in-type|impredicative-set"
    r"|Unset\s+Positivity|Unset\s+Universe")


def sh(cmd, timeout=1200, cwd=None, env=None, inp=None):
    e = dict(os.environ)
    e.setdefault("CARGO_NET_OFFLINE", "true")
    if env:
        e.update(env)
    try:
        p = subprocess.run(cmd, shell=isinstance(cmd, str), cwd=cwd, env=e, input=inp,
                           stdout=subprocess.PIPE, stderr=subprocess.STDOUT, timeout=timeout)
        return p.returncode, p.stdout.decode("utf-8", "replace")
    except subprocess.TimeoutExpired as ex:
        out = ex.stdout.decode("utf-8", "replace") if ex.stdout else ""
        return 124, out + "\n[timeout after %ss]" % timeout


def sh2(cmd, timeout=1200, cwd=None, env=None, inp=None):
    """separate stdout / stderr (bytes)"""
    e = dict(os.environ)
    e.setdefault("CARGO_NET_OFFLINE", "true")
    if env:
        e.update(env)
    try:
        p = subprocess.run(cmd, shell=isinstance(cmd, str), cwd=cwd, env=e, input=inp,
                           stdout=subprocess.PIPE, stderr=subprocess.PIPE, timeout=timeout)
        return p.returncode, p.stdout, p.stderr
    except subprocess.TimeoutExpired as ex:
        return 124, ex.stdout or b"", (ex.stderr or b"") + b"\n[timeout]"


class Lock:
    def __init__(self, name):
        os.makedirs(CACHE, exist_ok=True)
        self.path = os.path.join(CACHE, name + ".lock")

    def __enter__(self):
        self.f = open(self.path, "w")
        fcntl.flock(self.f, fcntl.LOCK_EX)
        return self

    def __exit__(self, *a):
        fcntl.flock(self.f, fcntl.LOCK_UN)
        self.f.close()


# ----------------------------------------------------------------------------- Coq

def coq_files():
    out = []
    for d in ("Base", "Gen", "Spec", "Model", "Proofs", "Props", "Corr"):
        out += sorted(glob.glob(os.path.join(COQ, d, "*.v")))
    return [os.path.relpath(p, COQ) for p in out]


def coq_prepare(generators=None):
    """regenerate tables (None = all generators, [] = none) + Makefile.  Returns (ok, log)."""
    log = []
    # generators: None = every generator in tools/gen; [] = none; [names] = those
    if generators is None or len(generators) > 0:
        cmd = [sys.executable, os.path.join(ROOT, "tools", "gen_tables.py")] + list(generators or [])
        rc, out = sh(cmd, timeout=600)
        log.append(out)
        if rc != 0:
            return False, "\n".join(log)
    files = coq_files()
    proj = "-Q . S4\n" + "\n".join(files) + "\n"
    pp = os.path.join(COQ, "_CoqProject")
    old = open(pp).read() if os.path.exists(pp) else None
    if old != proj or not os.path.exists(os.path.join(COQ, "Makefile")):
        with open(pp, "w") as f:
            f.write(proj)
        rc, out = sh("coq_makefile -f _CoqProject -o Makefile", cwd=COQ, timeout=120)
        log.append(out)
        if rc != 0:
            return False, "\n".join(log)
    return True, "\n".join(log)


def coq_make(targets, timeout=1500):
    """make the given .vo targets (relative to coq/). Returns (ok, log)."""
    rc, out = sh(["make", "-j%d" % NCPU] + list(targets), cwd=COQ, timeout=timeout)
    return rc == 0, out


def coq_props(prop_file, timeout=900):
    """(Re)compile Props/<file>.v and read Print Assumptions.
    Returns dict(ok, theorems, closed, axioms[list], log)."""
    vo = os.path.join(COQ, prop_file[:-2] + ".vo")
    if os.path.exists(vo):
        os.remove(vo)
    ok, out = coq_make([prop_file[:-2] + ".vo"], timeout=timeout)
    src = open(os.path.join(COQ, prop_file)).read()
    src_nc = re.sub(r"\(\*.*?\*\)", "", src, flags=re.S)
    theorems = re.findall(r"^\s*(?:Theorem|Lemma|Corollary|Example)\s+(\w+)", src_nc, flags=re.M)
    prints = re.findall(r"^\s*Print Assumptions\s+(\w+)", src_nc, flags=re.M)
    closed = len(re.findall(r"Closed under the global context", out))
    axioms = []
    for m in re.finditer(r"Axioms:\n((?:.+\n?)+?)(?=\n|\Z|COQC|make)", out):
        for line in m.group(1).splitlines():
            mm = re.match(r"^(\S+)\s*:", line)
            if mm:
                axioms.append(mm.group(1))
    bad_axioms = [a for a in axioms if a not in ALLOWED_AXIOMS]
    missing_print = [t for t in theorems if t not in prints]
    return dict(ok=ok and not bad_axioms and not missing_print and closed + (1 if axioms else 0) >= 1,
                compiled=ok, theorems=theorems, prints=prints, closed=closed, axioms=axioms,
                bad_axioms=bad_axioms, missing_print=missing_print, log=out)


def coq_forbidden():
    hits = []
    for rel in coq_files():
        src = open(os.path.join(COQ, rel)).read()
        src_nc = re.sub(r"\(\*.*?\*\)", lambda m: " " * len(m.group(0)), src, flags=re.S)
        for i, line in enumerate(src_nc.splitlines(), 1):
            if FORBIDDEN.search(line):
                hits.append("%s:%d: %s" % (rel, i, line.strip()))
    return hits


def coq_eval(workdir, name, text, timeout=900):
    """compile one generated .v file (outside coq/), return (rc, output)."""
    os.makedirs(workdir, exist_ok=True)
    p = os.path.join(workdir, name + ".v")
    with open(p, "w") as f:
        f.write(text)
    return sh(["coqc", "-noglob", "-Q", COQ, "S4", p], cwd=workdir, timeout=timeout)


def coq_eval_shards(workdir, texts, timeout=900):
    """texts: list of .v sources; run in parallel; returns list of (rc,out).
    The directory is private to this process and removed afterwards."""
    workdir = "%s-%d" % (workdir.rstrip("/"), os.getpid())
    if os.path.isdir(workdir):
        shutil.rmtree(workdir)
    os.makedirs(workdir, exist_ok=True)
    try:
        with ThreadPoolExecutor(max_workers=NCPU) as ex:
            futs = [ex.submit(coq_eval, workdir, "cases_%03d" % i, t, timeout) for i, t in enumerate(texts)]
            res = [f.result() for f in futs]
        # a coqc that was killed from outside (out of memory while 16 evaluate at once on a loaded
        # machine: non-zero status and no Coq error message) is evaluated again, alone
        for i, (rc, out) in enumerate(res):
            if rc != 0 and "Error" not in out and "rror:" not in out:
                res[i] = coq_eval(workdir, "cases_%03d" % i, texts[i], timeout)
        return res
    finally:
        shutil.rmtree(workdir, ignore_errors=True)


def parse_eval_pairs(out):
    """parse `= [(i, v); ...]` printed by Eval vm_compute (N numerals)."""
    m = re.search(r"=\s*(\[.*?\])\s*:\s*list", out, flags=re.S)
    if not m:
        return None
    body = m.group(1)
    return [tuple(int(x) for x in re.findall(r"\d+", t)) for t in re.findall(r"\(([^()]*)\)", body)]


COQ_PRINT_HDR = "Set Printing Width 1000000.\nSet Printing Depth 1000000.\n"


def shard(lst, n):
    n = max(1, min(n, len(lst)))
    k = (len(lst) + n - 1) // n
    return [lst[i:i + k] for i in range(0, len(lst), k)]


# ----------------------------------------------------------------------------- Rust builds

def harness_bin(name):
    return os.path.join(TARGET, "debug", name)


def build_harness(name, timeout=1800):
    """build harness/src/bin/<name>.rs (and s4lib from the current /repo tree, hooks on)"""
    with Lock("cargo-harness"):
        hdir = os.path.join(ROOT, "harness")
        lock = os.path.join(hdir, "Cargo.lock")
        if not os.path.exists(lock) or os.path.getmtime(lock) < os.path.getmtime(os.path.join(REPO, "Cargo.lock")):
            shutil.copy(os.path.join(REPO, "Cargo.lock"), lock)
        cmd = ["cargo", "build", "--offline", "--quiet", "--bin", name]
        if os.path.realpath(REPO) != "/repo":
            cmd += ["--config", 'paths=["%s"]' % os.path.realpath(REPO)]   # build against a scratch worktree
        rc, out = sh(cmd, cwd=hdir, timeout=timeout,
                     env={"CARGO_TARGET_DIR": TARGET, "RUSTFLAGS": "--cfg s4_verif -Awarnings"})
        return rc == 0 and os.path.exists(harness_bin(name)), out


def build_s4(timeout=1800):
    """release-like build of the real binary with hooks on, from the current tree"""
    with Lock("cargo-s4"):
        cmd = ["cargo", "build", "--offline", "--quiet", "--bin", "s4", "--profile", "verif",
               "--config", 'profile.verif.inherits="release"', "--config", "profile.verif.lto=false",
               "--config", "profile.verif.codegen-units=16", "--config", "profile.verif.strip=false"]
        rc, out = sh(cmd, cwd=REPO, timeout=timeout,
                     env={"CARGO_TARGET_DIR": TARGET_S4, "RUSTFLAGS": "--cfg s4_verif -Awarnings"})
        return rc == 0 and os.path.exists(S4_BIN), out


def harness(name, lines, timeout=600, args=(), env=None):
    """run harness binary <name> feeding lines on stdin; returns (output lines | None, stderr tail)"""
    inp = ("\n".join(lines) + "\n").encode()
    rc, out, err = sh2([harness_bin(name)] + list(args), inp=inp, timeout=timeout, env=env)
    if rc != 0:
        return None, err.decode("utf-8", "replace")[-2000:]
    return out.decode("utf-8", "replace").splitlines(), ""


def run_s4(args, timeout=60, env=None, cwd=None, inp=None):
    """run the hooked release-like s4 binary; returns (rc, stdout bytes, stderr bytes).
    rc 124 = timeout (a hang)."""
    return sh2([S4_BIN] + list(args), timeout=timeout, env=env, cwd=cwd, inp=inp)


def scratch_dir(prop):
    """per-property, per-process scratch directory under /verif/.cache (never /tmp);
    directories left by processes that no longer exist are removed"""
    base = os.path.join(CACHE, "scratch")
    os.makedirs(base, exist_ok=True)
    for n in os.listdir(base):
        if n == prop or n.startswith(prop + "-"):
            pid = n[len(prop) + 1:]
            alive = pid.isdigit() and os.path.exists("/proc/" + pid)
            if not alive:
                shutil.rmtree(os.path.join(base, n), ignore_errors=True)
    d = os.path.join(base, "%s-%d" % (prop, os.getpid()))
    if os.path.isdir(d):
        shutil.rmtree(d)
    os.makedirs(d)
    return d


# ----------------------------------------------------------------------------- context / verdicts

def known_findings():
    p = os.path.join(ROOT, "known_findings.json")
    if not os.path.exists(p):
        return []
    return json.load(open(p)).get("findings", [])


class Ctx:
    def __init__(self, prop, tier, seed):
        self.prop, self.tier, self.seed = prop, tier, seed
        self.t0 = time.time()
        self.rng = random.Random(seed)
        self.coverage = {}
        self.assumptions = []
        self.broken = []        # obligations (A/B) that no longer check: (kind, name, detail)
        self.failures = []      # concrete in-domain failing inputs: dict(case=..., expected=..., got=..., cls=...)
        self.known_hits = {}    # predicate -> count
        self.notes = []
        self.known = [k for k in known_findings() if k.get("property") == prop and k.get("kind") == "known"]

    def quick(self):
        return self.tier == "quick"

    def note(self, s):
        self.notes.append(s)
        print("  " + s, flush=True)

    def obligation_broken(self, kind, name, detail=""):
        self.broken.append(dict(kind=kind, name=name, detail=detail[-4000:]))
        print("  OBLIGATION-BROKEN %s %s" % (kind, name), flush=True)

    def failure(self, case, expected, got, classes=()):
        """an in-domain input on which implementation != spec.
        classes: names of known-finding predicates this input satisfies."""
        for k in self.known:
            if k["predicate"] in classes:
                self.known_hits[k["predicate"]] = self.known_hits.get(k["predicate"], 0) + 1
                if self.known_hits[k["predicate"]] == 1:
                    self.known_first = getattr(self, "known_first", {})
                    self.known_first[k["predicate"]] = dict(case=case, expected=expected, got=got)
                return
        self.failures.append(dict(case=case, expected=expected, got=got, classes=list(classes)))

    # -- final
    def finish(self, level="proof"):
        wall = time.time() - self.t0
        os.makedirs(os.path.join(OUT, "evidence"), exist_ok=True)
        os.makedirs(os.path.join(OUT, "replays"), exist_ok=True)
        rc = 0
        lines = []
        for k in self.known:
            if self.known_hits.get(k["predicate"]):
                lines.append("KNOWN-FINDING: property=%s %s" % (self.prop, k["what"]))
        replay = None
        if self.failures:
            replay = os.path.join(OUT, "replays", "%s-%d-input.json" % (self.prop, self.seed))
            json.dump(dict(property=self.prop, seed=self.seed, tier=self.tier, kind="input",
                           failures=self.failures[:20], broken=self.broken,
                           how_to_run="./check %s --replay %s" % (self.prop, replay)),
                      open(replay, "w"), indent=1)
            lines.append("VIOLATION property=%s replay=%s" % (self.prop, replay))
            rc = 1
        elif self.broken:
            replay = os.path.join(OUT, "replays", "%s-%d-obligation.json" % (self.prop, self.seed))
            json.dump(dict(property=self.prop, seed=self.seed, tier=self.tier, kind="obligation",
                           no_longer_checks=self.broken,
                           how_to_run="./check %s --tier %s" % (self.prop, self.tier)),
                      open(replay, "w"), indent=1)
            lines.append("VIOLATION property=%s replay=%s no-failing-input-found" % (self.prop, replay))
            rc = 1
        cov = dict(self.coverage)
        cov.setdefault("trusted_base", TRUSTED_BASE)
        cov["known_findings_hit"] = self.known_hits
        cov["obligations_broken"] = [b["kind"] + ":" + b["name"] for b in self.broken]
        ev = dict(property_id=self.prop, tier=self.tier, seed=self.seed, level=level,
                  coverage=cov, assumptions=self.assumptions, wall_s=round(wall, 2),
                  violations=len(self.failures) + (1 if (self.broken and not self.failures) else 0),
                  notes=self.notes)
        json.dump(ev, open(os.path.join(OUT, "evidence", self.prop + ".json"), "w"), indent=1)
        for l in lines:
            print(l, flush=True)
        print("%s %s tier=%s seed=%d wall=%.1fs" % (self.prop, "FAIL" if rc else "ok", self.tier, self.seed, wall), flush=True)
        return rc


TRUSTED_BASE = [
    "Coq 8.16.1 kernel (coqc; vm_compute used for finite-table obligations, refuted-witnesses and case evaluation; no native_compute)",
    "axioms: none (Print Assumptions must say 'Closed under the global context' for every Props theorem)",
    "translator tools/gen_tables.py (scrapes tables/constants from /repo into coq/Gen)",
    "correspondence harness /verif/harness (Rust, links s4lib built from /repo with --cfg s4_verif) and /verif/checks/*.py (generators, canonicalisation, comparison)",
    "hand-written Gallina models in coq/Model are transcriptions of the Rust code: tied by the correspondence run, not verified against the Rust source",
]


def proof_stage(ctx, prop_file, generators, extra_targets=()):
    """Obligation A for one property. Fills ctx.coverage proof keys."""
    with Lock("coq"):
        ok, log = coq_prepare(generators)
        if not ok:
            ctx.obligation_broken("translator", ",".join(generators or ["all"]), log)
            # keep going with the previously generated (committed) tables: the proof closure is still
            # built and the correspondence still runs, so a failing input can still be found
            coq_prepare([])
        targets = [prop_file[:-2] + ".vo"] + [t for t in extra_targets]
        okm, logm = coq_make(targets)
        res = coq_props(prop_file) if okm else dict(ok=False, compiled=False, theorems=[], prints=[], closed=0,
                                                   axioms=[], bad_axioms=[], missing_print=[], log=logm)
    if not okm:
        m = re.search(r'File "\./([^"]+)", line (\d+)', logm)
        where = "%s:%s" % (m.group(1), m.group(2)) if m else "coq build"
        ctx.obligation_broken("proof", where, logm)
    elif not res["ok"]:
        ctx.obligation_broken("assumptions", prop_file, json.dumps(dict(bad_axioms=res["bad_axioms"],
                              missing_print=res["missing_print"])) + res["log"])
    forb = coq_forbidden()
    if forb:
        ctx.obligation_broken("forbidden-construct", forb[0], "\n".join(forb))
    chk = None
    if okm and ctx.tier == "thorough":
        # independent re-check of the compiled closure and of its axioms
        mod = "S4." + prop_file[:-2].replace("/", ".")
        rc, out = sh(["coqchk", "-o", "-silent", "-Q", ".", "S4", mod], cwd=COQ, timeout=3000)
        clean = (rc == 0 and re.search(r"\* Axioms: <none>", out) is not None
                 and re.search(r"type-in-type: <none>", out) is not None
                 and re.search(r"unsafe \(co\)fixpoints: <none>", out) is not None
                 and re.search(r"positivity is assumed: <none>", out) is not None)
        chk = dict(cmd="coqchk -o -silent -Q . S4 " + mod, ok=clean)
        if not clean:
            ctx.obligation_broken("coqchk", mod, out)
    nth = len(res["theorems"])
    ctx.coverage.update(
        obligations=max(nth, 1),
        discharged=(nth if (okm and res["ok"] and not forb and (chk is None or chk["ok"])) else 0),
        checker_cmd="python3 tools/gen_tables.py; cd coq && coq_makefile -f _CoqProject -o Makefile && make -j%d %s  (full .vo; Print Assumptions read from the build log; forbidden-construct grep)" % (NCPU, " ".join(targets)),
        theorems=res["theorems"], assumptions_closed=res["closed"], axioms_seen=res["axioms"], coqchk=chk)
    return okm and res["ok"] and not forb
