#!/bin/bash
# usage: tools/seed_confirm_c16.sh <logfile>
# The C16 seeds demonstrate through an integration test (demo.rs copied to tests/demo_c16.rs).
# For each: scratch worktree of /repo HEAD, run the test WITHOUT the patch (must pass) and WITH it
# (must fail).  The suite result of these three was confirmed earlier (.cache/seed_confirm.log).
LOG="$1"
for k in 1 2 3; do
  D=/verif/seeded/C16-m$k
  WT=/tmp/seedc16-wt-$$-$k
  git -C /repo worktree add -q "$WT" HEAD || exit 2
  mkdir -p "$WT/tests"; cp "$D/demo.rs" "$WT/tests/demo_c16.rs"
  ( cd "$WT" && CARGO_TARGET_DIR=/tmp/seed-target timeout 2400 cargo test --offline --test demo_c16 > "$WT/orig.log" 2>&1 ); RO=$?
  git -C "$WT" apply "$D/patch.diff" || echo "C16-m$k PATCH-DOES-NOT-APPLY" >> "$LOG"
  ( cd "$WT" && CARGO_TARGET_DIR=/tmp/seed-target timeout 2400 cargo test --offline --test demo_c16 > "$WT/mut.log" 2>&1 ); RM=$?
  echo "C16-m$k demo(with change)=exit$RM demo(without)=exit$RO" >> "$LOG"
  git -C /repo worktree remove --force "$WT"; rm -rf "$WT"
done
