#!/usr/bin/env python3
"""Renders the detection table of the seeded changes (tools/seed_table.json, tools/seed_detect.json,
tools/seed_confirm.json) and puts it into DESIGN.md between the markers
<!-- SEED-MATRIX-BEGIN --> and <!-- SEED-MATRIX-END -->."""
import json, os, re
ROOT = os.path.dirname(os.path.dirname(os.path.abspath(__file__)))
tab = json.load(open(os.path.join(ROOT, "tools", "seed_table.json")))
det = json.load(open(os.path.join(ROOT, "tools", "seed_detect.json")))
conf = json.load(open(os.path.join(ROOT, "tools", "seed_confirm.json"))) if os.path.exists(os.path.join(ROOT, "tools", "seed_confirm.json")) else {}
sym = {"input": "**VIOLATION** (failing input)", "obligation": "**VIOLATION** (no-failing-input-found)", "missed": "missed", "error": "error"}
rows = ["| seeded change | what it does | needs, to manifest | confirmed (suite / demo) | checks run → verdict |",
        "|---|---|---|---|---|"]
n_in = n_ob = n_miss = 0
for sid in sorted(tab):
    t = tab[sid]
    d = {k: v for k, v in det.get(sid, {}).items() if k != "_"}
    verdicts = [v["verdict"] for v in d.values()]
    best = "input" if "input" in verdicts else "obligation" if "obligation" in verdicts else "missed" if verdicts else None
    n_in += best == "input"; n_ob += best == "obligation"; n_miss += best == "missed"
    c = conf.get(sid, {})
    cs = ("%d/%d pass, demo %s/%s" % (c.get("suite_passed", 0), c.get("baseline_stable_pass", 0),
                                      "fails" if c.get("demo_exit_with_change") else "?", "passes" if c.get("demo_exit_without_change") == 0 else "?")) if c else "pending"
    ds = "; ".join("%s → %s" % (k, sym.get(v["verdict"], v["verdict"])) for k, v in sorted(d.items())) or "not run yet"
    rows.append("| %s | %s | %s | %s | %s |" % (sid, t["change"].replace("|", "\\|"), t["needs"].replace("|", "\\|"), cs, ds))
head = ("%d seeded changes; best verdict per change: %d reported with a concrete failing input, %d as a broken obligation "
        "(no-failing-input-found), %d missed by the quick tier of the checks listed.\n\n" % (len(tab), n_in, n_ob, n_miss))
block = "<!-- SEED-MATRIX-BEGIN -->\n" + head + "\n".join(rows) + "\n<!-- SEED-MATRIX-END -->"
p = os.path.join(ROOT, "DESIGN.md")
s = open(p).read()
if "<!-- SEED-MATRIX-BEGIN -->" in s:
    s = re.sub(r"<!-- SEED-MATRIX-BEGIN -->.*?<!-- SEED-MATRIX-END -->", lambda m: block, s, flags=re.S)
else:
    s += "\n" + block + "\n"
open(p, "w").write(s)
print(head)
