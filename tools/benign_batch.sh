#!/bin/bash
# usage: tools/benign_batch.sh <logfile> <patch>:<prop>[,<prop>...] ...   (same as mutant_batch.sh, tags by benign id)
LOG="$1"; shift
for item in "$@"; do
  P="${item%%:*}"; PROPS="${item#*:}"
  echo "##### $(basename $(dirname $P)) -> $PROPS" >> "$LOG"
  /verif/tools/mutant_run.sh "$P" ${PROPS//,/ } 2>&1 | cut -c1-260 | grep -v "^KNOWN-FINDING" >> "$LOG"
done
echo "BATCH-DONE" >> "$LOG"
