#!/bin/bash
# usage: tools/mutant_run.sh <patch.diff> <prop-id> [<prop-id> ...]
# Applies a seeded change to a scratch worktree of /repo, copies /verif (with its build caches) to a
# scratch place, runs the quick checks of the given properties there against the worktree, prints
# their last lines, and removes everything.  /repo and /verif themselves are not touched.
set -u
PATCH=$(realpath "$1"); shift
TAG=$$
WT=/tmp/mut-wt-$TAG
VC=/tmp/mut-verif-$TAG
git -C /repo worktree add -q "$WT" HEAD || exit 2
if ! git -C "$WT" apply "$PATCH"; then echo "PATCH-DOES-NOT-APPLY"; git -C /repo worktree remove --force "$WT"; exit 2; fi
mkdir -p "$VC"
rsync -a --exclude .git --exclude .cache/scratch --exclude .cache/cases --exclude .cache/mutants --exclude .cache/runlogs --exclude replays /verif/ "$VC"/
# the copy must be the COMMITTED /verif (builders may be editing the working tree): put every file
# that differs from HEAD back to its committed content (fresh mtime, so make rebuilds what depends
# on it) and remove untracked files
git -C /verif status --porcelain --untracked-files=all | while IFS= read -r line; do
  st="${line:0:2}"; f="${line:3}"
  case "$st" in
    "??") rm -f "$VC/$f" ;;
    *) if git -C /verif cat-file -e "HEAD:$f" 2>/dev/null; then git -C /verif show "HEAD:$f" > "$VC/$f"; else rm -f "$VC/$f"; fi ;;
  esac
done
for P in "$@"; do
  echo "=== mutant $(basename "$PATCH") check $P"
  ( cd "$VC" && S4_REPO="$WT" timeout 1500 ./check "$P" 2>&1 | grep -E "VIOLATION|KNOWN-FINDING|OBLIGATION|ok tier|FAIL tier" | cut -c1-300 )
  if ls "$VC"/replays/$P-* >/dev/null 2>&1; then
    mkdir -p /verif/.cache/mutant-replays; cp "$VC"/replays/$P-* /verif/.cache/mutant-replays/ 2>/dev/null
  fi
done
git -C /repo worktree remove --force "$WT"
rm -rf "$WT" "$VC"
