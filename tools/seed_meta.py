#!/usr/bin/env python3
"""Writes seeded/<id>/meta.json for every seeded change from tools/seed_table.json (what the change
is, what it needs to manifest), the confirmation logs written by tools/seed_confirm.sh (suite
unchanged, demonstration fails with / passes without the change) and tools/seed_detect.json (what
the checks reported when run against it with tools/mutant_run.sh)."""
import glob, json, os, re, sys
ROOT = os.path.dirname(os.path.dirname(os.path.abspath(__file__)))
table = json.load(open(os.path.join(ROOT, "tools", "seed_table.json")))
detect = json.load(open(os.path.join(ROOT, "tools", "seed_detect.json")))
confirm = json.load(open(os.path.join(ROOT, "tools", "seed_confirm.json"))) if os.path.exists(os.path.join(ROOT, "tools", "seed_confirm.json")) else {}
n = 0
for d in sorted(glob.glob(os.path.join(ROOT, "seeded", "C*-m*"))):
    sid = os.path.basename(d)
    t = table.get(sid, {})
    demo = [f for f in ("demo.py", "demo.sh", "demo.rs") if os.path.exists(os.path.join(d, f))]
    meta = dict(
        id=sid, property=t.get("property", sid[:3]),
        change=t.get("change", "see README.md"),
        needs_to_manifest=t.get("needs", "see README.md"),
        origin=t.get("origin", "written by a fresh sub-agent that was given only the property text and its own scratch worktree of /repo (nothing from /verif)"),
        files=dict(patch="patch.diff", demonstration=demo, readme="README.md"),
        confirmed_by_coordinator=confirm.get(sid, dict(status="pending")),
        how_confirmed="tools/seed_confirm.sh seeded/%s <log>: scratch worktree of /repo HEAD + patch; whole test suite with the guard off compared by name with /root/.vp/BASELINE.json (tools/baseline_compare.py); release-like build; demonstration run with the changed binary (must exit non-zero) and with the unchanged binary (must exit 0)" % sid,
        detection={chk: v for chk, v in detect.get(sid, {}).items()},
        how_detection_was_run="tools/mutant_run.sh seeded/%s/patch.diff <check ids>: scratch worktree + copy of the committed /verif, quick tier; verdict 'input' = VIOLATION with a concrete failing input as replay, 'obligation' = VIOLATION ... no-failing-input-found, 'missed' = check exited 0" % sid)
    json.dump(meta, open(os.path.join(d, "meta.json"), "w"), indent=1)
    n += 1
print("meta.json written:", n)
