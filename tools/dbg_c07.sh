#!/bin/bash
export CARGO_NET_OFFLINE=true VERIF_SEED=1 VERIF_TIER=quick
./check --setup > dbg_setup.log 2>&1; tail -2 dbg_setup.log | cut -c1-200
./check C07 | tail -3
python3 -c "import json;e=json.load(open('evidence/C07.json'));c=e['coverage'];print(c['obligations'],c['discharged'],c['theorems'],c.get('assumptions_closed'),c.get('axioms_seen'),c.get('obligations_broken'))"
