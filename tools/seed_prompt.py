#!/usr/bin/env python3
"""usage: tools/seed_prompt.py <Cxx> <worktree> [n_changes]  -> prints the prompt for a fresh seed agent
(property text only; nothing from /verif)."""
import json, os, sys
ROOT = os.path.dirname(os.path.dirname(os.path.abspath(__file__)))
pid, wt = sys.argv[1], sys.argv[2]
n = sys.argv[3] if len(sys.argv) > 3 else "THREE"
tpl = open(os.path.join(ROOT, "tools", "seed_prompt_template.txt")).read()
for l in open(os.path.join(ROOT, "properties.jsonl")):
    p = json.loads(l)
    if p["id"] == pid:
        break
else:
    sys.exit("no such property")
s = (tpl.replace("@WT@", wt).replace("@TITLE@", p["title"]).replace("@STATEMENT@", p["statement"])
        .replace("@QUANT@", p["quantifier"]["text"]).replace("@FILES@", ", ".join(p["anchors"]["files"])))
if n != "THREE":
    s = s.replace("produce THREE different", "produce %s different" % n).replace("Make the three as different", "Make them as different").replace("For each change k = 1..3", "For each change k = 1..%s" % {"TWO": "2", "ONE": "1"}.get(n, "3")).replace("If you cannot find three", "If you cannot find that many")
print(s)
