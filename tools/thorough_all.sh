#!/bin/bash
# usage: tools/thorough_all.sh <id> ...   — setup, then the thorough tier of each given check, one after the other
export CARGO_NET_OFFLINE=true
./check --setup > thorough_setup.log 2>&1 || { echo "SETUP FAILED"; tail -5 thorough_setup.log; exit 2; }
rc=0
for id in "$@"; do
  /usr/bin/time -f "%es" ./check $id --tier thorough > thorough_$id.log 2>&1; r=$?
  echo "$id rc=$r $(grep -E 'VIOLATION|tier=thorough' thorough_$id.log | tail -2 | tr '\n' ' ')"
  [ $r -ne 0 ] && rc=1
done
exit $rc
