#!/usr/bin/env python3
"""Assemble /verif/MANIFEST.json from checks/<id>.json fragments.
Every property of properties.jsonl without a fragment is listed under not_applicable
with the reason in tools/not_claimed.json (or 'check not built yet')."""
import glob, json, os
ROOT = os.path.dirname(os.path.dirname(os.path.abspath(__file__)))
props = [json.loads(l)["id"] for l in open(os.path.join(ROOT, "properties.jsonl")) if l.strip()]
frags = {}
for p in sorted(glob.glob(os.path.join(ROOT, "checks", "C*.json"))):
    f = json.load(open(p))
    frags[f["property_id"]] = f
nc_path = os.path.join(ROOT, "tools", "not_claimed.json")
not_claimed = json.load(open(nc_path)) if os.path.exists(nc_path) else {}
hooks_path = os.path.join(ROOT, "tools", "hooks.json")
hooks = json.load(open(hooks_path))
checks = []
for pid in props:
    if pid in frags:
        f = frags[pid]
        c = dict(property_id=pid,
                 quick_cmd="./check %s --tier quick" % pid,
                 thorough_cmd="./check %s --tier thorough" % pid,
                 evidence_file="/verif/evidence/%s.json" % pid,
                 replay_cmd_template="./check %s --replay {path}" % pid,
                 engine="coq+correspondence",
                 level_claimed=f["level_claimed"], level_note=f["level_note"], technique=f["technique"])
        checks.append(c)
na = [dict(property_id=pid, reason=not_claimed.get(pid, "check not built yet (in progress); nothing is claimed for this property"))
      for pid in props if pid not in frags]
man = dict(version=1, setup_cmd="./check --setup", hooks=hooks,
           engines=[dict(name="coq+correspondence", path="/verif/check",
                         serves_properties=[c["property_id"] for c in checks],
                         kind_free_text="Coq 8.16 theorems about hand-written Gallina models (coq/Model, coq/Proofs, coq/Props) with tables regenerated from /repo (tools/gen_tables.py); models tied to the code by a correspondence run: Rust harness (harness/) and the s4 binary vs the model evaluated by vm_compute inside coqc; failing-input search against Coq spec functions")],
           checks=checks, not_applicable=na,
           notes="See DESIGN.md. known_findings.json lists recorded defects; replays/ holds violation replays.")
json.dump(man, open(os.path.join(ROOT, "MANIFEST.json"), "w"), indent=1)
# merge known_findings.d/*.json -> known_findings.json (the committed list the checks read)
kf = []
for p in sorted(glob.glob(os.path.join(ROOT, "known_findings.d", "*.json"))):
    kf += json.load(open(p)).get("findings", [])
json.dump({"comment": "Committed list of genuine defects of the unchanged tree: kind=known (recorded, not repaired; the check prints KNOWN-FINDING and exits 0 for inputs in the class named by 'predicate', a decidable class implemented in that property's check) and kind=fixed (repaired by a fix: commit; suppresses nothing). Assembled from known_findings.d/*.json by tools/mkmanifest.py; never written at run time.",
           "findings": kf}, open(os.path.join(ROOT, "known_findings.json"), "w"), indent=1)
print("MANIFEST.json: %d checks, %d not claimed" % (len(checks), len(na)))
