#!/bin/bash
# usage: tools/mutant_run_worktree.sh <patch.diff> <prop-id> [<prop-id> ...]
# Like tools/mutant_run.sh, but tests the CURRENT WORKING TREE of /verif (uncommitted work included) instead of
# the committed one: applies the change to a scratch worktree of /repo, copies /verif (with its build caches)
# to a scratch place, runs the quick checks there against the worktree, prints their verdict lines, removes
# everything.  /repo and /verif themselves are not touched.  VERIF_SEED is passed through.
set -u
PATCH=$(realpath "$1"); shift
TAG=$$
WT=/tmp/mutw-wt-$TAG
VC=/tmp/mutw-verif-$TAG
git -C /repo worktree add -q "$WT" HEAD || exit 2
if ! git -C "$WT" apply "$PATCH"; then echo "PATCH-DOES-NOT-APPLY"; git -C /repo worktree remove --force "$WT"; exit 2; fi
mkdir -p "$VC"
rsync -a --exclude .git --exclude .cache/scratch --exclude .cache/cases --exclude .cache/mutants --exclude .cache/runlogs --exclude replays /verif/ "$VC"/
for P in "$@"; do
  echo "=== mutant $(basename "$(dirname "$PATCH")")/$(basename "$PATCH") check $P (working tree)"
  ( cd "$VC" && S4_REPO="$WT" timeout 1800 ./check "$P" 2>&1 | grep -E "VIOLATION|KNOWN-FINDING|OBLIGATION|ok tier|FAIL tier" | cut -c1-220 )
  if ls "$VC"/replays/$P-* >/dev/null 2>&1; then
    mkdir -p /verif/.cache/mutant-replays; cp "$VC"/replays/$P-* /verif/.cache/mutant-replays/ 2>/dev/null
  fi
done
git -C /repo worktree remove --force "$WT"
rm -rf "$WT" "$VC"
