#!/bin/bash
# usage: tools/quick_seeds.sh <seed> ...   — setup, then every check's quick tier at each given seed
export CARGO_NET_OFFLINE=true VERIF_TIER=quick
./check --setup > quick_setup.log 2>&1 || { echo "SETUP FAILED"; tail -5 quick_setup.log; exit 2; }
rc=0
for s in "$@"; do
  for id in C01 C02 C03 C04 C05 C06 C07 C08 C09 C10 C11 C12 C13 C14 C15 C16 C17 C18 C19; do
    VERIF_SEED=$s ./check $id > quick_${id}_s$s.log 2>&1; r=$?
    echo "seed=$s $id rc=$r $(grep -E 'VIOLATION|tier=quick' quick_${id}_s$s.log | tail -2 | tr '\n' ' ' | cut -c1-200)"
    [ $r -ne 0 ] && rc=1
  done
done
exit $rc
