#!/usr/bin/env python3
"""Compare a nextest junit.xml (default <repo>/target/nextest/pb/junit.xml) with /root/.vp/BASELINE.json.
usage: baseline_compare.py [junit.xml]   -> exit 0 iff every stable_pass test passed."""
import json, sys, xml.etree.ElementTree as ET
junit = sys.argv[1] if len(sys.argv) > 1 else "/repo/target/nextest/pb/junit.xml"
base = set(json.load(open("/root/.vp/BASELINE.json"))["stable_pass"])
passed, failed = set(), set()
for tc in ET.parse(junit).getroot().iter("testcase"):
    tid = (tc.get("classname") or "") + "::" + (tc.get("name") or "")
    bad = any(ch.tag in ("failure", "error") for ch in tc)
    (failed if bad else passed).add(tid)
passed -= failed
missing = sorted(base - passed)
print("passed=%d failed=%d baseline=%d baseline-not-passing=%d" % (len(passed), len(failed), len(base), len(missing)))
for m in missing[:40]:
    print("  NOT PASSING:", m)
sys.exit(1 if missing else 0)
