"""Generator: datetime tables -> coq/Gen/DatetimeTables.v  (+ datetime_tables.json for checks/c04.py, c11.py)

Sources, both from the CURRENT /repo tree:
  * harness binary c04_tables (links the freshly compiled s4lib): the COMPILED `pub` tables
    MAP_TZZ_TO_TZz (all pairs) and DATETIME_PARSE_DATAS (index, nine DTFS fields, strftime pattern,
    slice range, source line, first/last group, regex text);
  * a scraper of src/data/datetime.rs for what is private or test-only:
    the arms of month_bB_to_month_m_bytes with the MONTH_* constants (spelling -> "MM"),
    the documented example lines `_test_cases` of every DTPD! entry (string literals),
    the O_* offset constants those examples use.
"""
import os, re, json, sys
from common import *

HERE = os.path.dirname(os.path.abspath(__file__))
sys.path.insert(0, os.path.dirname(HERE))

YEAR = {"Y": "Y_Y", "y": "Y_y", "_fill": "Y_fill", "_none": "Y_none"}
MONTH = {"m": "Mo_m", "ms": "Mo_ms", "b": "Mo_b", "B": "Mo_B", "_none": "Mo_none"}
DAY = {"_e_or_d": "D_ed", "_none": "D_none"}
HOUR = {"H": "H_H", "k": "H_k", "I": "H_I", "l": "H_l", "_none": "H_none"}
MINUTE = {"M": "Mi_M", "_none": "Mi_none"}
SECOND = {"S": "S_S", "_fill": "S_fill", "_none": "S_none"}
FRAC = {"f": "F_f", "_none": "F_none"}
TZ = {"z": "Tz_z", "zc": "Tz_zc", "zp": "Tz_zp", "Z": "Tz_Z", "_fill": "Tz_fill", "_none": "Tz_none"}
EPOCH = {"s": "E_s", "_none": "E_none"}


def coq_str(s):
    for ch in s:
        if ord(ch) > 126 or ord(ch) < 32 or ch == '"':
            raise ScrapeError("string with unsupported character: %r" % s)
    return '"%s"' % s


# ---------------------------------------------------------------- compiled tables
def compiled_tables():
    import vlib
    ok, log = vlib.build_harness("c04_tables")
    if not ok:
        raise ScrapeError("cannot build harness c04_tables: " + log[-1500:])
    rc, out, err = vlib.sh2([vlib.harness_bin("c04_tables")], timeout=120)
    if rc != 0:
        raise ScrapeError("c04_tables failed: " + err.decode("utf-8", "replace")[-500:])
    tz, rows, ln = [], [], None
    for line in out.decode("utf-8").split("\n"):
        if not line:
            continue
        f = line.split("\t")
        if f[0] == "TZ":
            tz.append((f[1], f[2] if len(f) > 2 else ""))
        elif f[0] == "LEN":
            ln = int(f[1])
        elif f[0] == "ROW":
            if len(f) != 18:
                raise ScrapeError("ROW with %d fields" % len(f))
            try:
                rows.append(dict(index=int(f[1]), year=YEAR[f[2]], month=MONTH[f[3]], day=DAY[f[4]], hour=HOUR[f[5]],
                                 minute=MINUTE[f[6]], second=SECOND[f[7]], frac=FRAC[f[8]], tz=TZ[f[9]], epoch=EPOCH[f[10]],
                                 pattern=f[11], start=int(f[12]), end=int(f[13]), line=int(f[14]),
                                 first=f[15], last=f[16], regex=bytes.fromhex(f[17]).decode("utf-8")))
            except KeyError as e:
                raise ScrapeError("unknown DTFS variant %s in row %s" % (e, f[1]))
        else:
            raise ScrapeError("unexpected line from c04_tables: %r" % line[:80])
    if ln is None or ln != len(rows) or [r["index"] for r in rows] != list(range(len(rows))):
        raise ScrapeError("DATETIME_PARSE_DATAS rows inconsistent: LEN %s, %d rows" % (ln, len(rows)))
    if not tz:
        raise ScrapeError("empty MAP_TZZ_TO_TZz")
    return tz, rows


# ---------------------------------------------------------------- a small Rust lexer for literals
def decode_escapes(s):
    out = []
    i = 0
    while i < len(s):
        c = s[i]
        if c != "\\":
            out.append(c)
            i += 1
            continue
        n = s[i + 1]
        if n == "n": out.append("\n"); i += 2
        elif n == "t": out.append("\t"); i += 2
        elif n == "r": out.append("\r"); i += 2
        elif n == "0": out.append("\0"); i += 2
        elif n == "\\": out.append("\\"); i += 2
        elif n == '"': out.append('"'); i += 2
        elif n == "'": out.append("'"); i += 2
        elif n == "x": out.append(chr(int(s[i + 2:i + 4], 16))); i += 4
        elif n == "u":
            j = s.index("}", i)
            out.append(chr(int(s[i + 3:j], 16))); i = j + 1
        elif n == "\n":
            i += 2
            while i < len(s) and s[i] in " \t\r\n":
                i += 1
        else:
            raise ScrapeError("unknown escape \\%s" % n)
    return "".join(out)


def lex(src):
    """remove comments; replace every string literal by \\x00<k>\\x00; return (text, [decoded strings])"""
    out, lits = [], []
    i, n = 0, len(src)
    while i < n:
        c = src[i]
        if src.startswith("//", i):
            j = src.find("\n", i)
            i = n if j < 0 else j
        elif src.startswith("/*", i):
            depth, j = 1, i + 2
            while j < n and depth:
                if src.startswith("/*", j): depth += 1; j += 2
                elif src.startswith("*/", j): depth -= 1; j += 2
                else: j += 1
            i = j
        elif c in "rb" and re.match(r'(?:br|r)(#*)"', src[i:i + 12]) and (i == 0 or not (src[i - 1].isalnum() or src[i - 1] == "_")):
            m = re.match(r'(?:br|r)(#*)"', src[i:i + 12])
            close = '"' + m.group(1)
            j = src.index(close, i + m.end())
            lits.append(src[i + m.end():j])
            out.append("\x00%d\x00" % (len(lits) - 1))
            i = j + len(close)
        elif c == '"' or (c == "b" and src.startswith('b"', i) and (i == 0 or not (src[i - 1].isalnum() or src[i - 1] == "_"))):
            if c == "b":
                i += 1
            j = i + 1
            while src[j] != '"':
                j += 2 if src[j] == "\\" else 1
            lits.append(decode_escapes(src[i + 1:j]))
            out.append("\x00%d\x00" % (len(lits) - 1))
            i = j + 1
        elif c == "'":
            # char literal or lifetime
            m = re.match(r"'(\\.[^']*|[^'\\])'", src[i:i + 12])
            if m:
                out.append(src[i:i + m.end()])
                i += m.end()
            else:
                out.append(c)
                i += 1
        else:
            out.append(c)
            i += 1
    return "".join(out), lits


def bal(text, i, o="(", c=")"):
    assert text[i] == o
    d = 0
    while i < len(text):
        if text[i] == o: d += 1
        elif text[i] == c:
            d -= 1
            if d == 0:
                return i + 1
        i += 1
    raise ScrapeError("unbalanced " + o)


def eval_const(expr, env):
    e = expr.strip()
    if not re.fullmatch(r"[\w\s\+\-\*\(\)]+", e):
        raise ScrapeError("offset constant expression not understood: %r" % e)
    try:
        return int(eval(e, {"__builtins__": {}}, dict(env)))
    except Exception as ex:
        raise ScrapeError("cannot evaluate %r: %s" % (e, ex))


def scrape_source():
    src = read("src/data/datetime.rs")
    text, lits = lex(src)
    # ---- offset constants used by the examples
    env = {}
    for m in re.finditer(r"const\s+(O_\w+)\s*:\s*fos\s*=\s*([^;]+);", text):
        if m.group(1) == "O_L":
            continue          # marker "the local / fallback zone"
        env[m.group(1)] = eval_const(m.group(2), env)
    # ---- month spellings
    consts = {}
    for m in re.finditer(r"const\s+(MONTH_\w+)\s*:\s*&\[u8\]\s*=\s*\x00(\d+)\x00\s*;", text):
        consts[m.group(1)] = lits[int(m.group(2))]
    a = text.find("fn month_bB_to_month_m_bytes(")
    if a < 0:
        raise ScrapeError("month_bB_to_month_m_bytes not found")
    b = text.index("{", text.index("match data", a))
    body = text[b + 1:bal(text, b, "{", "}") - 1]
    months = []
    arms = 0
    for m in re.finditer(r"((?:MONTH_\w+\s*\|\s*)*MONTH_\w+)\s*=>\s*buffer\.copy_from_slice\(\s*(MONTH_\w+)\s*\)", body):
        arms += 1
        v = consts.get(m.group(2))
        if v is None or not re.fullmatch(r"\d\d", v):
            raise ScrapeError("month arm value %s" % m.group(2))
        for k in re.findall(r"MONTH_\w+", m.group(1)):
            if k not in consts:
                raise ScrapeError("unknown month constant " + k)
            months.append((consts[k], v))
    rest = re.sub(r"((?:MONTH_\w+\s*\|\s*)*MONTH_\w+)\s*=>\s*buffer\.copy_from_slice\(\s*(MONTH_\w+)\s*\)\s*,?", "", body)
    rest = re.sub(r"data_\s*=>\s*\{[^{}]*\}", "", rest).strip()
    if rest or arms < 12:
        raise ScrapeError("month_bB_to_month_m_bytes has arms of an unknown shape: %r" % rest[:120])
    # first arm wins in a Rust match: keep the first occurrence of a key
    seen, mt = set(), []
    for k, v in months:
        if k not in seen:
            seen.add(k)
            mt.append((k, v))
    # ---- documented examples of every DTPD! entry
    a = text.find("pub const DATETIME_PARSE_DATAS:")
    if a < 0:
        raise ScrapeError("DATETIME_PARSE_DATAS not found")
    b = text.index("[", text.index("=", a))
    arr = text[b:bal(text, b, "[", "]")]
    entries = []
    i = 0
    while True:
        j = arr.find("DTPD!(", i)
        if j < 0:
            break
        e = bal(arr, j + 5)
        body = arr[j + 6:e - 1]
        entries.append(body)
        i = e
    tests = []
    for body in entries:
        k = body.find("&[")
        if k < 0:
            raise ScrapeError("DTPD! entry without a test-case list")
        lst = body[k + 1:bal(body, k + 1, "[", "]")]
        cases = []
        p = 1
        while True:
            q = lst.find("(", p)
            if q < 0:
                break
            r = bal(lst, q)
            tup = lst[q + 1:r - 1]
            m = re.fullmatch(r"\s*(\d+)\s*,\s*(\d+)\s*,\s*\(\s*(\w+)\s*,\s*(\w+)\s*,\s*(\d+)\s*,\s*(\d+)\s*,\s*(\d+)\s*,\s*(\d+)\s*,\s*(\d+)\s*,\s*(\d+)\s*,?\s*\)\s*,\s*\x00(\d+)\x00\s*,?\s*", tup, flags=re.S)
            if not m:
                raise ScrapeError("test case of unknown shape: %r" % tup[:100])
            off = m.group(3)
            if off == "O_L":
                offv = None
            elif off in env:
                offv = env[off]
            else:
                raise ScrapeError("unknown offset constant " + off)
            cases.append(dict(beg=int(m.group(1)), end=int(m.group(2)), off=offv,
                              fields=[year_field(m.group(4))] + [int(m.group(g)) for g in range(5, 11)], text=lits[int(m.group(11))]))
            p = r
        tests.append(cases)
    return mt, tests


def year_field(t):
    if t.isdigit():
        return int(t)
    if t == "YD":
        return None          # "year dummy": the notation carries no year
    raise ScrapeError("unknown year token in a test case: " + t)


def b2coq(s):
    """bytes of a python str (UTF-8) as a Coq list literal via s2b when printable ASCII"""
    return "s2b " + coq_str(s)


def generate():
    tz, rows = compiled_tables()
    mt, tests = scrape_source()
    if len(tests) != len(rows):
        raise ScrapeError("%d DTPD! entries scraped but %d compiled rows" % (len(tests), len(rows)))
    L = []
    L.append("(* GENERATED by tools/gen/datetime.py from the compiled s4lib tables (harness c04_tables) and")
    L.append("   src/data/datetime.rs — do not edit. *)")
    L.append("From Coq Require Import String.")
    L.append("From S4.Base Require Import Bytes.")
    L.append("From S4.Model Require Import Normalise.")
    L.append("Open Scope string_scope.")
    L.append("(* MAP_TZZ_TO_TZz: every pair, sorted by key *)")
    L.append("Definition tz_table : list (bytes * bytes) := [")
    L.append(";\n".join("  (%s, %s)" % (b2coq(k), b2coq(v)) for k, v in tz))
    L.append("].")
    L.append("(* month_bB_to_month_m_bytes: spelling -> two-digit month, in arm order *)")
    L.append("Definition month_table : list (bytes * bytes) := [")
    L.append(";\n".join("  (%s, %s)" % (b2coq(k), b2coq(v)) for k, v in mt))
    L.append("].")
    L.append("(* DATETIME_PARSE_DATAS: index, DTFSSet (nine fields + pattern), slice range, source line *)")
    L.append("Definition dt_table : list dt_row := [")
    L.append(";\n".join("  mkRow %d (mkDtfs %s %s %s %s %s %s %s %s %s %s) %d %d %d" % (
        r["index"], r["year"], r["month"], r["day"], r["hour"], r["minute"], r["second"], r["frac"], r["tz"],
        r["epoch"], coq_str(r["pattern"]), r["start"], r["end"], r["line"]) for r in rows))
    L.append("]%N.")
    L.append("")
    changed = write_if_changed(os.path.join(GEN, "DatetimeTables.v"), "\n".join(L))
    for r, t in zip(rows, tests):
        r["tests"] = t
    with open(os.path.join(GEN, "datetime_tables.json"), "w") as f:
        json.dump(dict(tz=tz, months=mt, rows=rows), f)
    return changed
