"""Generator: which temporary-file protocol the current tree implements -> coq/Gen/TempProto.v

Reads src/readers/filedecompressor.rs (decompress_to_ntf) and src/bin/s4.rs (signal handler, main's
final sweep) and decides between the three protocols of Model/TempFiles.v:

  Pfixed : the temp file is created AND pushed to NAMED_TEMP_FILES while the write lock of that
           list is held, creation is refused once NAMED_TEMP_FILES_CLOSED is set, and both the
           handler and main's final sweep set that flag while holding the lock, before removing
  Pcur   : tempfile() first, push under the lock afterwards; main sweeps the list before exiting
  Pold   : as Pcur but main does not sweep

Anything else is a ScrapeError (the model would not be the code)."""
import os, re
from common import *


def body_of(src, header_re):
    m = re.search(header_re, src)
    if not m:
        raise ScrapeError("not found: %s" % header_re)
    i = src.find("{", m.end() - 1)
    depth, j = 0, i
    while j < len(src):
        if src[j] == "{":
            depth += 1
        elif src[j] == "}":
            depth -= 1
            if depth == 0:
                return src[i:j + 1]
        j += 1
    raise ScrapeError("unbalanced braces after %s" % header_re)


def pos(s, pat, what):
    m = re.search(pat, s)
    if not m:
        raise ScrapeError("%s: no match for %r" % (what, pat))
    return m.start()


def scrape():
    lib = strip_comments(read("src/readers/filedecompressor.rs"))
    binsrc = strip_comments(read("src/bin/s4.rs"))
    dn = body_of(lib, r"pub\s+fn\s+decompress_to_ntf\s*\(")
    p_create = pos(dn, r"\.tempfile\s*\(\s*\)", "decompress_to_ntf tempfile()")
    p_push = pos(dn, r"\.push_back\s*\(\s*fpath_ntf\s*\)", "decompress_to_ntf push")
    locks = [m.start() for m in re.finditer(r"NAMED_TEMP_FILES\s*\)?\s*\.write\s*\(\s*\)", dn)]
    if len(locks) != 1:
        raise ScrapeError("decompress_to_ntf: expected one NAMED_TEMP_FILES.write(), found %d" % len(locks))
    p_lock = locks[0]
    closed_check = [m.start() for m in re.finditer(r"NAMED_TEMP_FILES_CLOSED\s*\.load\s*\(", dn)]
    unlock = [m.start() for m in re.finditer(r"\bdrop\s*\(\s*ntfs\s*\)", dn)]
    handler = body_of(binsrc, r"ctrlc::set_handler\s*\(\s*move\s*\|\|")
    sweep = body_of(binsrc, r"fn\s+remove_named_temp_files\s*\(\s*\)")
    mainfn = body_of(binsrc, r"pub\s+fn\s+main\s*\(\s*\)")
    main_sweeps = re.search(r"\bremove_named_temp_files\s*\(\s*\)", mainfn) is not None

    def closes_before_remove(b, what):
        st = re.search(r"NAMED_TEMP_FILES_CLOSED\s*\.store\s*\(\s*true", b)
        lk = re.search(r"NAMED_TEMP_FILES\s*\)?\s*\.write\s*\(\s*\)", b)
        rm = re.search(r"remove_file\s*\(", b)
        if not (lk and rm):
            raise ScrapeError("%s: lock/remove_file not found" % what)
        return st is not None and lk.start() < st.start() < rm.start()

    if p_lock < p_create < p_push:
        # creation and registration under one lock
        if not (closed_check and p_lock < closed_check[0] < p_create):
            raise ScrapeError("creation under the lock but NAMED_TEMP_FILES_CLOSED is not checked before tempfile()")
        if not (unlock and unlock[0] > p_push):
            raise ScrapeError("the registry lock is not released after the push (drop(ntfs) not found)")
        if not closes_before_remove(handler, "signal handler"):
            raise ScrapeError("signal handler does not close the registry (under the lock) before removing")
        if not closes_before_remove(sweep, "remove_named_temp_files"):
            raise ScrapeError("remove_named_temp_files does not close the registry (under the lock) before removing")
        if not main_sweeps:
            raise ScrapeError("main does not call remove_named_temp_files()")
        return "Pfixed"
    if p_create < p_lock < p_push:
        return "Pcur" if main_sweeps else "Pold"
    raise ScrapeError("decompress_to_ntf: unexpected order of tempfile()/lock/push")


def scrape_select():
    """does the coordinator's wait on the channels time out (so that the read lock of the channel map
    is released regularly and the signal handler, which needs the write lock, can run)?"""
    binsrc = strip_comments(read("src/bin/s4.rs"))
    body = body_of(binsrc, r"fn\s+recv_many_chan\s*<")
    # messages and comments mention `select.select()` too: look at code only
    body = re.sub(r'"(?:[^"\\]|\\.)*"', '""', body)
    body = re.sub(r"//[^\n]*", "", body)
    plain = re.search(r"\bselect\s*\.\s*select\s*\(\s*\)", body) is not None
    timed = re.search(r"\bselect\s*\.\s*select_timeout\s*\(", body) is not None
    if plain == timed:
        raise ScrapeError("recv_many_chan: expected exactly one of select.select() / select.select_timeout(..)")
    if not timed:
        return False
    if not re.search(r"return\s+RecvMany::Timeout", body):
        raise ScrapeError("recv_many_chan: select_timeout without `return RecvMany::Timeout`")
    loop = body_of(binsrc, r"fn\s+processing_loop\s*\(")
    m = re.search(r"RecvMany::Timeout\s*=>\s*\{([^{}]*)\}", loop)
    if not m or not re.search(r"\bcontinue\s*;", m.group(1)):
        raise ScrapeError("processing_loop: the RecvMany::Timeout arm does not `continue` the loop")
    a = loop.find("loop {")
    if a < 0 or not re.search(r"exit_early_check!\s*\(\s*\)", loop[a:a + 400]):
        raise ScrapeError("processing_loop: exit_early_check!() is not at the top of the main loop")
    return True


def scrape_flag_first():
    """does the signal handler set EXIT_EARLY before it asks for the write lock of the channel map?"""
    binsrc = strip_comments(read("src/bin/s4.rs"))
    handler = body_of(binsrc, r"ctrlc::set_handler\s*\(\s*move\s*\|\|")
    handler = re.sub(r'"(?:[^"\\]|\\.)*"', '""', handler)
    handler = re.sub(r"//[^\n]*", "", handler)
    fl = re.search(r"EXIT_EARLY\s*\.\s*write\s*\(", handler)
    mp = re.search(r"MAP_PATHID_CHANRECVDATUM\s*\.\s*write\s*\(", handler)
    if not fl or not mp:
        raise ScrapeError("signal handler: EXIT_EARLY.write() / MAP_PATHID_CHANRECVDATUM.write() not found")
    return fl.start() < mp.start()


def generate():
    proto = scrape()
    timed = scrape_select()
    flag_first = scrape_flag_first()
    text = "\n".join([
        "(* GENERATED by tools/gen_tables.py (tools/gen/tempproto.py) from src/readers/filedecompressor.rs and",
        "   src/bin/s4.rs — do not edit.  Which protocol of Model/TempFiles.v the current tree implements. *)",
        "From S4.Model Require Import TempFiles.",
        "Definition current_proto : proto := %s." % proto,
        "(* does recv_many_chan wait with a timeout and the main loop re-check EXIT_EARLY afterwards? *)",
        "Definition current_select_has_timeout : bool := %s." % ("true" if timed else "false"),
        "(* does the signal handler set EXIT_EARLY before it asks for the write lock of the channel map? *)",
        "Definition current_handler_flag_first : bool := %s." % ("true" if flag_first else "false"),
        ""])
    import json
    with open(os.path.join(GEN, "tempproto.json"), "w") as f:
        json.dump({"proto": proto, "select_has_timeout": timed, "handler_flag_first": flag_first}, f)
    return write_if_changed(os.path.join(GEN, "TempProto.v"), text)
