"""Generator: datetime-filter tables of src/bin/s4.rs and the zone table of
src/data/datetime.rs -> coq/Gen/CliDtTables.v  (definitions only).

Scraped: CLI_FILTER_PATTERNS rows (count checked against CLI_FILTER_PATTERNS_COUNT),
CLI_DT_FILTER_APPEND_TIME_{VALUE,PATTERN}, the CGP_DUR_OFFSET_* pieces and the way
REGEX_DUR_OFFSET is assembled from them (anchors included; these are string constants: data),
and every entry of MAP_TZZ_TO_TZz.
PROBED on the built binary (probe_dur; independent of how the functions are written): how many
seconds each unit letter stands for, that '+' adds / '-' subtracts / '@' is relative to the other
bound, and whether "+%s" is read in UTC whatever --tz-offset.  The old scrape of the shape of
string_wdhms_to_duration / process_dt is kept only as a cross-check recorded in clidt_tables.json
(body_crosscheck), never raising.
Anything of unexpected shape in the DATA, or a probe answer that cannot be encoded, raises ScrapeError."""
import os, re, json
from common import *


def coq_str(s):
    for ch in s:
        if ord(ch) > 126 or ord(ch) < 32 or ch == '"' or ch == "\\":
            raise ScrapeError("string with unsupported character: %r" % s)
    return '"%s"' % s


def const_block(src, header_re, close):
    m = re.search(header_re, src)
    if not m:
        raise ScrapeError("not found: " + header_re)
    i = m.end()
    j = src.find(close, i)
    if j < 0:
        raise ScrapeError("unterminated: " + header_re)
    return src[i:j]


def fn_body(src, name):
    m = re.search(r"\bfn\s+%s\s*\(" % re.escape(name), src)
    if not m:
        raise ScrapeError("fn %s not found" % name)
    i = src.index("{", m.end())
    # the signature may contain `{` only inside the body; find the body's opening brace after the `)`/return type
    depth = 0
    k = m.end() - 1
    while True:
        c = src[k]
        if c == "(":
            depth += 1
        elif c == ")":
            depth -= 1
            if depth == 0:
                break
        k += 1
    i = src.index("{", k)
    return src[i:balanced(src, i)]


def scrape_patterns(src):
    m = re.search(r"const\s+CLI_FILTER_PATTERNS_COUNT\s*:\s*usize\s*=\s*(\d+)\s*;", src)
    if not m:
        raise ScrapeError("CLI_FILTER_PATTERNS_COUNT not found")
    count = int(m.group(1))
    body = const_block(src, r"const\s+CLI_FILTER_PATTERNS\s*:\s*\[[^\]]*\]\s*=\s*\[", "];")
    rows = re.findall(r'\(\s*"((?:[^"\\]|\\.)*)"\s*,\s*(true|false)\s*,\s*(true|false)\s*,\s*(true|false)\s*,\s*(true|false)\s*,?\s*\)', body)
    rest = re.sub(r'\(\s*"((?:[^"\\]|\\.)*)"\s*,\s*(true|false)\s*,\s*(true|false)\s*,\s*(true|false)\s*,\s*(true|false)\s*,?\s*\)', "", body)
    if rest.replace(",", "").strip():
        raise ScrapeError("CLI_FILTER_PATTERNS: unrecognised text %r" % rest.strip()[:80])
    if len(rows) != count:
        raise ScrapeError("CLI_FILTER_PATTERNS: %d rows, count constant %d" % (len(rows), count))
    for r in rows:
        if "\\" in r[0]:
            raise ScrapeError("escape in pattern %r" % r[0])
    return [(r[0], r[1] == "true", r[2] == "true", r[3] == "true", r[4] == "true") for r in rows]


def str_const(src, name):
    m = re.search(r'const\s+%s\s*:\s*&str\s*=\s*"((?:[^"\\]|\\.)*)"\s*;' % name, src)
    if not m or "\\" in m.group(1):
        raise ScrapeError(name + " not found / has escapes")
    return m.group(1)


UNIT_FN = {"try_seconds": 0, "try_minutes": 1, "try_hours": 2, "try_days": 3, "try_weeks": 4}


def scrape_dur(src):
    names = dict(re.findall(r'const\s+(CGN_DUR_OFFSET_\w+)\s*:\s*&str\s*=\s*"(\w+)"\s*;', src))
    pieces = {}
    for m in re.finditer(r'const\s+(CGP_DUR_OFFSET_\w+)\s*:\s*&str\s*=\s*concatcp!\(\s*"\(\?P<"\s*,\s*(CGN_DUR_OFFSET_\w+)\s*,\s*r"((?:[^"])*)"\s*\)\s*;', src):
        pieces[m.group(1)] = (m.group(2), m.group(3))
    need = ["TYPE", "ADDSUB", "SECONDS", "MINUTES", "HOURS", "DAYS", "WEEKS"]
    for n in need:
        if "CGP_DUR_OFFSET_" + n not in pieces or pieces["CGP_DUR_OFFSET_" + n][0] != "CGN_DUR_OFFSET_" + n:
            raise ScrapeError("CGP_DUR_OFFSET_%s missing or not built from its CGN constant" % n)
        if "CGN_DUR_OFFSET_" + n not in names:
            raise ScrapeError("CGN_DUR_OFFSET_%s missing" % n)
    if len(set(names[k] for k in names)) != len(names):
        raise ScrapeError("capture group names not distinct")
    if pieces["CGP_DUR_OFFSET_TYPE"][1] != ">[@]?)":
        raise ScrapeError("offset type piece is %r" % pieces["CGP_DUR_OFFSET_TYPE"][1])
    if pieces["CGP_DUR_OFFSET_ADDSUB"][1] != r">[+\-])":
        raise ScrapeError("addsub piece is %r" % pieces["CGP_DUR_OFFSET_ADDSUB"][1])
    letters = {}
    for n in need[2:]:
        mm = re.fullmatch(r">\[\\d\]\+([a-z])\)", pieces["CGP_DUR_OFFSET_" + n][1])
        if not mm:
            raise ScrapeError("unit piece %s is %r" % (n, pieces["CGP_DUR_OFFSET_" + n][1]))
        letters[n] = mm.group(1)
    if len(set(letters.values())) != 5:
        raise ScrapeError("unit letters not distinct")
    # assembly of REGEX_DUR_OFFSET
    m = re.search(r"static\s+REGEX_DUR_OFFSET\s*:\s*Regex\s*=\s*\{", src)
    if not m:
        raise ScrapeError("REGEX_DUR_OFFSET not found")
    i = src.index("{", m.end() - 1)
    blk = src[i:balanced(src, i)]
    m = re.search(r"Regex::new\(\s*concatcp!\(", blk)
    if not m:
        raise ScrapeError("Regex::new(concatcp!( not found")
    j = blk.index("(", m.end() - 1)
    args = blk[j + 1:balanced(blk, j, "(", ")") - 1]
    toks = re.findall(r'"((?:[^"\\]|\\.)*)"|(\w+)', args)
    seq = [("S", a) if not b else ("I", b) for a, b in toks]
    anchor_start = False
    anchor_end = False
    if seq and seq[0] == ("S", "^"):
        anchor_start = True
        seq = seq[1:]
    tail = seq[-1] if seq else None
    if tail == ("S", ")+$"):
        anchor_end = True
    elif tail != ("S", ")+"):
        raise ScrapeError("expression does not end with )+ or )+$ : %r" % (tail,))
    seq = seq[:-1]
    if len(seq) < 4 or seq[0] != ("I", "CGP_DUR_OFFSET_TYPE") or seq[1] != ("I", "CGP_DUR_OFFSET_ADDSUB") or seq[2] != ("S", "("):
        raise ScrapeError("expression head of unexpected shape: %r" % seq[:3])
    alt = seq[3:]
    order = []
    for k, t in enumerate(alt):
        if k % 2 == 0:
            mm = re.fullmatch(r"CGP_DUR_OFFSET_(\w+)", t[1]) if t[0] == "I" else None
            if not mm or mm.group(1) not in letters:
                raise ScrapeError("alternation member %r" % (t,))
            order.append(mm.group(1))
        elif t != ("S", "|"):
            raise ScrapeError("alternation separator %r" % (t,))
    if len(alt) % 2 != 1 or sorted(order) != sorted(letters):
        raise ScrapeError("alternation does not list each unit once: %r" % order)
    return dict(letters=letters, order=order, anchor_start=anchor_start, anchor_end=anchor_end)


def scrape_dur_body(src, letters, order):
    """OLD way (kept as a cross-check only, never raising to the caller): which capture group feeds which
    Duration constructor, read off the shape of fn string_wdhms_to_duration"""
    body = fn_body(src, "string_wdhms_to_duration")
    body_ns = re.sub(r'"((?:[^"\\]|\\.)*)"', '""', body)
    unit_code = {}
    for n in order:
        seg = re.search(r"captures\.name\(\s*CGN_DUR_OFFSET_%s\s*\)(.*?)(?=captures\.name\(|let\s+duration\b)" % n, body_ns, flags=re.S)
        if not seg:
            raise ScrapeError("no use of group %s" % n)
        mv = re.search(r"\b(\w+)\s*=\s*val\s*\*\s*addsub\s*;", seg.group(1))
        if not mv:
            raise ScrapeError("group %s: assignment not found" % n)
        if not re.search(r"\.replace\(\s*'%s'\s*,\s*\"\"\s*\)" % letters[n], seg.group(1)):
            raise ScrapeError("group %s: letter removal not found" % n)
        if "from_str_radix" not in seg.group(1) or "std::process::exit" not in seg.group(1):
            raise ScrapeError("group %s: parse / exit shape changed" % n)
        mf = re.search(r"Duration::(try_\w+)\(\s*%s\s*\)" % mv.group(1), body_ns)
        if not mf or mf.group(1) not in UNIT_FN:
            raise ScrapeError("group %s: Duration constructor not found" % n)
        unit_code[n] = UNIT_FN[mf.group(1)]
    if sorted(unit_code.values()) != [0, 1, 2, 3, 4]:
        raise ScrapeError("Duration constructors not one per unit")
    if not re.search(r"Some\(\s*'@'\s*\)\s*=>\s*DUR_OFFSET_TYPE::Other", src):
        raise ScrapeError("'@' => Other not found")
    if not (re.search(r"Some\(\s*'\+'\s*\)\s*=>\s*DUR_OFFSET_ADDSUB::Add", src) and re.search(r"Some\(\s*'-'\s*\)\s*=>\s*DUR_OFFSET_ADDSUB::Sub", src)):
        raise ScrapeError("sign mapping not found")
    return [(ord(letters[n]), unit_code[n]) for n in order]


# ----------------------------------------------------------------------------- probing the built binary
SECS_CODE = {1: 0, 60: 1, 3600: 2, 86400: 3, 604800: 4}
_UTC_RE = re.compile(rb"\(([+-]?\d+)-(\d\d)-(\d\d) (\d\d):(\d\d):(\d\d) \+00:00\)")


def _days_from_civil(y, m, d):
    y2 = y - 1 if m <= 2 else y
    era = y2 // 400
    yoe = y2 - era * 400
    mp = (m + 9) % 12
    doy = (153 * mp + 2) // 5 + d - 1
    doe = yoe * 365 + yoe // 4 - yoe // 100 + doy
    return era * 146097 + doe - 719468


def _utc_secs(line):
    m = _UTC_RE.search(line)
    if not m:
        return None
    y, mo, d, h, mi, s = (int(x) for x in m.groups())
    return _days_from_civil(y, mo, d) * 86400 + h * 3600 + mi * 60 + s


def probe_dur(letters, order):
    """Meaning of the relative-offset expression's pieces by PROBING the built binary (independent of how
    string_wdhms_to_duration is written): `s4 --summary -a=+1<letter>` on a probe log, reading the
    'Datetime filter -a/-b' and 'Datetime Now' lines:
        +1<l>            : filter -a  -  now   = seconds of the unit that letter <l> sets   (and '+' adds)
        -1<l>            : now  -  filter -a   = the same number                            ('-' subtracts)
        -a X -b=@+1<l>   : filter -b  -  filter -a = the same number   ('@' = relative to the other bound)
        -b X -a=@-1<l>   : filter -b  -  filter -a = the same number
    -> ([(letter byte, unit code)] in alternation order, the raw observations)"""
    import sys
    sys.path.insert(0, os.path.dirname(os.path.dirname(os.path.abspath(__file__))))
    import vlib
    ok, log = vlib.build_s4()
    if not ok:
        raise ScrapeError("s4 does not build: " + log[-500:])
    d = os.path.join(vlib.CACHE, "gen-probe")
    os.makedirs(d, exist_ok=True)
    probe = os.path.join(d, "clidt-%d.log" % os.getpid())
    with open(probe, "w") as f:
        f.write("2000-01-01 00:00:00.100 +00:00 a\n2000-01-01 00:00:00.500 +00:00 b\n")

    def run(a, b, tzs="+00:00"):
        args = ["--color", "never", "--summary", "--tz-offset=" + tzs]
        if a is not None:
            args.append("--dt-after=" + a)
        if b is not None:
            args.append("--dt-before=" + b)
        rc, out, err = vlib.run_s4(args + [probe], timeout=60, env={"TZ": "UTC"})
        fa = fb = now = None
        for line in err.split(b"\n"):
            if line.startswith(b"Datetime filter -a"):
                fa = _utc_secs(line)
            elif line.startswith(b"Datetime filter -b"):
                fb = _utc_secs(line)
            elif line.startswith(b"Datetime Now"):
                now = _utc_secs(line)
        return rc, fa, fb, now

    X = "20000102T030405"
    obs = {}
    units = []
    try:
        for n in order:
            l = letters[n]
            rc1, fa1, _, now1 = run("+1" + l, None)
            rc2, fa2, _, now2 = run("-1" + l, None)
            rc3, fa3, fb3, _ = run(X, "@+1" + l)
            rc4, fa4, fb4, _ = run("@-1" + l, X)
            o = dict(plus=None if None in (fa1, now1) else fa1 - now1, minus=None if None in (fa2, now2) else now2 - fa2,
                     at_plus=None if None in (fa3, fb3) else fb3 - fa3, at_minus=None if None in (fa4, fb4) else fb4 - fa4,
                     rc=[rc1, rc2, rc3, rc4])
            obs[l] = o
            vals = set([o["plus"], o["minus"], o["at_plus"], o["at_minus"]])
            if o["rc"] != [0, 0, 0, 0] or len(vals) != 1 or o["plus"] not in SECS_CODE:
                raise ScrapeError("probe of unit letter %r: observations %r are not one known unit with '+' adding, '-' subtracting and '@' relative to the other bound" % (l, o))
            units.append((ord(l), SECS_CODE[o["plus"]]))
        # '+%s' read as UTC whatever --tz-offset ?
        rc, fa, _, _ = run("+0", None, "+05:30")
        if rc != 0 or fa not in (0, -19800):
            raise ScrapeError("probe of '+0' under --tz-offset=+05:30: rc=%s filter -a=%r" % (rc, fa))
        obs["epoch_plus0_tz0530"] = fa
    finally:
        try:
            os.remove(probe)
        except OSError:
            pass
    return units, fa == 0, obs


def scrape_epoch_utc(src):
    """cross-check only"""
    try:
        body = fn_body(src, "process_dt")
        return bool(re.search(r'contains\(\s*"%s"\s*\)', body))
    except Exception:
        return None


def scrape_tz(src):
    m = re.search(r"pub\s+static\s+MAP_TZZ_TO_TZz\s*:[^=]*=\s*phf_map!\s*\{", src)
    if not m:
        raise ScrapeError("MAP_TZZ_TO_TZz not found")
    i = src.index("{", m.end() - 1)
    body = src[i + 1:balanced(src, i) - 1]
    ents = re.findall(r'"((?:[^"\\]|\\.)*)"\s*=>\s*"((?:[^"\\]|\\.)*)"\s*,', body)
    rest = re.sub(r'"((?:[^"\\]|\\.)*)"\s*=>\s*"((?:[^"\\]|\\.)*)"\s*,', "", body)
    if rest.strip():
        raise ScrapeError("MAP_TZZ_TO_TZz: unrecognised text %r" % rest.strip()[:80])
    if len(ents) < 10:
        raise ScrapeError("MAP_TZZ_TO_TZz: too few entries")
    return ents


def scrape_all():
    s4 = strip_comments(read("src/bin/s4.rs"))
    dtm = strip_comments(read("src/data/datetime.rs"))
    t = dict(patterns=scrape_patterns(s4),
             append_value=str_const(s4, "CLI_DT_FILTER_APPEND_TIME_VALUE"),
             append_pattern=str_const(s4, "CLI_DT_FILTER_APPEND_TIME_PATTERN"),
             epoch_utc=scrape_epoch_utc(s4),
             tz=scrape_tz(dtm))
    dur = scrape_dur(s4)                       # the expression itself: data (string constants)
    units, epoch_probe, obs = probe_dur(dur["letters"], dur["order"])
    # cross-checks against the old scrape of the functions' shape: recorded, never raising
    try:
        body_units = scrape_dur_body(s4, dur["letters"], dur["order"])
        cross = dict(ok=True, units=body_units, agrees=(body_units == units))
    except Exception as ex:                    # a harmless rewrite of the function is not an error
        cross = dict(ok=False, error=str(ex), agrees=None)
    cross["epoch_utc_scraped"] = t["epoch_utc"]
    cross["epoch_utc_agrees"] = (t["epoch_utc"] == epoch_probe)
    t["epoch_utc"] = epoch_probe
    t.update(units=units, anchor_start=dur["anchor_start"], anchor_end=dur["anchor_end"],
             unit_probe=obs, body_crosscheck=cross)
    return t


def cb(b):
    return "true" if b else "false"


def generate():
    t = scrape_all()
    L = []
    L.append("(* GENERATED by tools/gen/clidt.py from src/bin/s4.rs and src/data/datetime.rs — do not edit. *)")
    L.append("From Coq Require Import String List NArith.\nFrom S4.Base Require Import Bytes.\nFrom S4.Model Require Import CliDt.")
    L.append("Open Scope string_scope.")
    L.append("Definition cli_patterns : list (string * bool * bool * bool * bool) := [")
    L.append(";\n".join("  (%s, %s, %s, %s, %s)" % (coq_str(p), cb(a), cb(b), cb(c), cb(d)) for p, a, b, c, d in t["patterns"]))
    L.append("].")
    L.append("Definition cli_rows : list row := mkrows cli_patterns.")
    L.append("Definition append_value : bytes := s2b %s." % coq_str(t["append_value"]))
    L.append("Definition append_pattern : bytes := s2b %s." % coq_str(t["append_pattern"]))
    L.append("Definition tz_table_s : list (string * string) := [")
    L.append(";\n".join("  (%s, %s)" % (coq_str(k), coq_str(v)) for k, v in t["tz"]))
    L.append("].")
    L.append("Definition tz_table : list (bytes * bytes) := map (fun kv => (s2b (fst kv), s2b (snd kv))) tz_table_s.")
    L.append("Definition dur_at : N := 64%N.\nDefinition dur_plus : N := 43%N.\nDefinition dur_minus : N := 45%N.")
    L.append("(* (unit letter, unit: 0 s, 1 m, 2 h, 3 d, 4 w) in alternation order *)")
    L.append("Definition dur_units : list (N * N) := [%s]%%N." % "; ".join("(%d, %d)" % u for u in t["units"]))
    L.append("Definition dur_anchor_start : bool := %s." % cb(t["anchor_start"]))
    L.append("Definition dur_anchor_end : bool := %s." % cb(t["anchor_end"]))
    L.append("Definition epoch_utc : bool := %s." % cb(t["epoch_utc"]))
    L.append("")
    changed = write_if_changed(os.path.join(GEN, "CliDtTables.v"), "\n".join(L))
    with open(os.path.join(GEN, "clidt_tables.json"), "w") as f:
        json.dump(t, f)
    return changed
