"""Generator `blocks`: block-size and block-zero-gate constants -> coq/Gen/BlockConsts.v.
Scraped from src/readers/blockreader.rs, src/readers/syslogprocessor.rs, src/readers/syslinereader.rs,
src/data/datetime.rs, src/common.rs."""
import os, re
from common import ScrapeError, read, write_if_changed, GEN


def _const(src, pat, what):
    m = re.search(pat, src)
    if not m:
        raise ScrapeError("blocks: constant not found: " + what)
    return int(m.group(1), 0)


def scrape():
    br = read("src/readers/blockreader.rs")
    sp = read("src/readers/syslogprocessor.rs")
    cm = read("src/common.rs")
    num = r"(0x[0-9A-Fa-f_]+|[0-9_]+)"
    t = {}
    t["BLOCKSZ_MIN"] = _const(br, r"pub const BLOCKSZ_MIN: BlockSz = %s;" % num, "BLOCKSZ_MIN")
    t["BLOCKSZ_MAX"] = _const(br, r"pub const BLOCKSZ_MAX: BlockSz = %s;" % num, "BLOCKSZ_MAX")
    t["BLOCKSZ_DEF"] = _const(br, r"pub const BLOCKSZ_DEF: usize = %s;" % num, "BLOCKSZ_DEF")
    t["SP_BLOCKSZ_MIN"] = _const(sp, r"cfg\(not\(any\(debug_assertions, test\)\)\)\]\s*pub const BLOCKSZ_MIN: BlockSz = %s;" % num,
                                 "SyslogProcessor::BLOCKSZ_MIN (release)")
    t["BYTES_MIN"] = _const(sp, r"pub const BLOCKZERO_ANALYSIS_BYTES_MIN: BlockSz = %s;" % num, "BLOCKZERO_ANALYSIS_BYTES_MIN")
    t["BYTES_NULL_MAX"] = _const(sp, r"pub const BLOCKZERO_ANALYSIS_BYTES_NULL_MAX: usize = %s;" % num, "BLOCKZERO_ANALYSIS_BYTES_NULL_MAX")
    t["SYSLOG_SZ_MAX"] = _const(cm, r"pub const SYSLOG_SZ_MAX: usize = %s;" % num, "SYSLOG_SZ_MAX")
    t["FILE_TOO_SMALL_SZ"] = _const(cm, r"pub const FILE_TOO_SMALL_SZ: FileSz = %s;" % num, "FILE_TOO_SMALL_SZ")
    # the pattern analysis of block zero (SyslineReader)
    sl = read("src/readers/syslinereader.rs")
    dt = read("src/data/datetime.rs")
    t["DATETIME_STR_MIN"] = _const(sl, r"const DATETIME_STR_MIN: usize = %s;" % num, "SyslineReader::DATETIME_STR_MIN")
    t["DT_PATTERN_MAX"] = _const(sl, r"pub\(crate\) const DT_PATTERN_MAX: usize = %s;" % num, "SyslineReader::DT_PATTERN_MAX")
    t["PARSE_LRU_SZ"] = _const(sl, r"const PARSE_DATETIME_IN_LINE_LRU_CACHE_SZ: usize = %s;" % num, "PARSE_DATETIME_IN_LINE_LRU_CACHE_SZ")
    t["DT_ROWS"] = _const(dt, r"pub const DATETIME_PARSE_DATAS_LEN: usize = %s;" % num, "DATETIME_PARSE_DATAS_LEN")
    # shapes the model relies on: the tie rule of dt_patterns_analysis and the try order of parse_datetime_in_line
    for pat, what in ((r"self\.dt_patterns_counts\s*\.retain\(\|_, v\| \*v >= max_\);", "dt_patterns_analysis: retain(v >= max)"),
                      (r"while self\.dt_patterns_counts\.len\(\) > SyslineReader::DT_PATTERN_MAX \{\s*let rm_key: DateTimeParseInstrsIndex = self\.dt_patterns_counts\.pop_last\(\)",
                       "dt_patterns_analysis: pop_last on ties"),
                      (r"\.sorted_by\(\s*\|a, b\| Ord::cmp\(&b\.1, &a\.1\), // sort by value", "parse_datetime_in_line: sorted_by count descending"),
                      (r"if patt_count_a > 1 \{", "blockzero_analysis_syslines: second pass when patt_count_a > 1")):
        if not re.search(pat, sl if "patt_count_a" not in pat else sp):
            raise ScrapeError("blocks: code shape not found: " + what)
    # the two range maps: (start expression, end expression, count) rows
    def rows(name):
        m = re.search(r"pub static ref %s: MapBszRangeToCount = \{(.*?)\n\s*m\n" % name, sp, flags=re.S)
        if not m:
            raise ScrapeError("blocks: map not found: " + name)
        out = []
        for a, b, c in re.findall(r"m\.insert\(BszRange\{start: ([^,]+), end: ([^}]+)\}, (\d+)\);", m.group(1)):
            def ev(e):
                e = e.strip().replace("SYSLOG_SZ_MAX_BSZ", str(t["SYSLOG_SZ_MAX"])).replace("BlockSz::MAX", str(2 ** 64 - 1))
                if not re.fullmatch(r"[0-9 *]+", e):
                    raise ScrapeError("blocks: range bound not understood: " + e)
                v = 1
                for x in e.split("*"):
                    v *= int(x)
                return v
            out.append((ev(a), ev(b), int(c)))
        if not out:
            raise ScrapeError("blocks: no rows in " + name)
        return out
    # --blocksz argument forms (src/bin/s4.rs cli_process_blocksz): prefix -> radix, in the order tested
    s4 = read("src/bin/s4.rs")
    m = re.search(r"fn cli_process_blocksz\(blockszs: &String\)(.*?)\n}\n", s4, flags=re.S)
    if not m:
        raise ScrapeError("blocks: cli_process_blocksz not found")
    body = m.group(1)
    forms = re.findall(r'blockszs\.starts_with\("(\w+)"\) \{\s*blocksz_ = match BlockSz::from_str_radix\(blockszs\.trim_start_matches\("(\w+)"\), (\d+)\)', body)
    if not forms or any(a != b for a, b, _ in forms) or "blockszs.parse::<BlockSz>()" not in body \
            or "std::cmp::max(BLOCKSZ_MIN, SyslogProcessor::BLOCKSZ_MIN)" not in body \
            or "max_min <= blocksz_ && blocksz_ <= BLOCKSZ_MAX" not in body:
        raise ScrapeError("blocks: cli_process_blocksz has a shape the model does not know")
    t["BLOCKSZ_FORMS"] = [(a, int(r)) for a, _, r in forms]
    t["LINE_MIN"] = rows("BLOCKZERO_ANALYSIS_LINE_COUNT_MIN_MAP")
    t["SYSLINE_MIN"] = rows("BLOCKZERO_ANALYSIS_SYSLINE_COUNT_MIN_MAP")
    return t


def generate():
    t = scrape()
    L = ["(* GENERATED by tools/gen_tables.py (generator `blocks`) from src/readers/{blockreader,syslogprocessor}.rs",
         "   and src/common.rs — do not edit. *)",
         "From Coq Require Import List NArith.", "Import ListNotations.", "Open Scope N_scope.", ""]
    for k in ("BLOCKSZ_MIN", "BLOCKSZ_MAX", "BLOCKSZ_DEF", "SP_BLOCKSZ_MIN", "BYTES_MIN", "BYTES_NULL_MAX", "SYSLOG_SZ_MAX", "FILE_TOO_SMALL_SZ",
              "DATETIME_STR_MIN", "DT_PATTERN_MAX", "PARSE_LRU_SZ", "DT_ROWS"):
        L.append("Definition %s : N := %d." % (k.lower(), t[k]))
    for k in ("LINE_MIN", "SYSLINE_MIN"):
        L.append("(* (range start, range end (exclusive), minimum count) *)")
        L.append("Definition %s_map : list (N * N * N) := [%s]." % (k.lower(), "; ".join("(%d, %d, %d)" % r for r in t[k])))
    L.append("(* --blocksz forms of cli_process_blocksz: (prefix bytes, radix), in the order tested; no prefix = decimal *)")
    L.append("Definition blocksz_forms : list (list N * N) := [%s]." %
             "; ".join("([%s], %d)" % ("; ".join(str(ord(c)) for c in a), r) for a, r in t["BLOCKSZ_FORMS"]))
    L.append("")
    return write_if_changed(os.path.join(GEN, "BlockConsts.v"), "\n".join(L))
