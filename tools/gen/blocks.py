"""Generator `blocks`: block-size and block-zero-gate constants -> coq/Gen/BlockConsts.v.
Scraped from src/readers/blockreader.rs, src/readers/syslogprocessor.rs, src/readers/syslinereader.rs,
src/data/datetime.rs, src/common.rs."""
import os, re
from common import ScrapeError, read, write_if_changed, GEN


def _const(src, pat, what):
    m = re.search(pat, src)
    if not m:
        raise ScrapeError("blocks: constant not found: " + what)
    return int(m.group(1), 0)


def scrape():
    br = read("src/readers/blockreader.rs")
    sp = read("src/readers/syslogprocessor.rs")
    cm = read("src/common.rs")
    num = r"(0x[0-9A-Fa-f_]+|[0-9_]+)"
    t = {}
    t["BLOCKSZ_MIN"] = _const(br, r"pub const BLOCKSZ_MIN: BlockSz = %s;" % num, "BLOCKSZ_MIN")
    t["BLOCKSZ_MAX"] = _const(br, r"pub const BLOCKSZ_MAX: BlockSz = %s;" % num, "BLOCKSZ_MAX")
    t["BLOCKSZ_DEF"] = _const(br, r"pub const BLOCKSZ_DEF: usize = %s;" % num, "BLOCKSZ_DEF")
    t["SP_BLOCKSZ_MIN"] = _const(sp, r"cfg\(not\(any\(debug_assertions, test\)\)\)\]\s*pub const BLOCKSZ_MIN: BlockSz = %s;" % num,
                                 "SyslogProcessor::BLOCKSZ_MIN (release)")
    t["BYTES_MIN"] = _const(sp, r"pub const BLOCKZERO_ANALYSIS_BYTES_MIN: BlockSz = %s;" % num, "BLOCKZERO_ANALYSIS_BYTES_MIN")
    t["BYTES_NULL_MAX"] = _const(sp, r"pub const BLOCKZERO_ANALYSIS_BYTES_NULL_MAX: usize = %s;" % num, "BLOCKZERO_ANALYSIS_BYTES_NULL_MAX")
    t["SYSLOG_SZ_MAX"] = _const(cm, r"pub const SYSLOG_SZ_MAX: usize = %s;" % num, "SYSLOG_SZ_MAX")
    t["FILE_TOO_SMALL_SZ"] = _const(cm, r"pub const FILE_TOO_SMALL_SZ: FileSz = %s;" % num, "FILE_TOO_SMALL_SZ")
    # the pattern analysis of block zero (SyslineReader)
    sl = read("src/readers/syslinereader.rs")
    dt = read("src/data/datetime.rs")
    t["DATETIME_STR_MIN"] = _const(sl, r"const DATETIME_STR_MIN: usize = %s;" % num, "SyslineReader::DATETIME_STR_MIN")
    t["DT_PATTERN_MAX"] = _const(sl, r"pub\(crate\) const DT_PATTERN_MAX: usize = %s;" % num, "SyslineReader::DT_PATTERN_MAX")
    t["PARSE_LRU_SZ"] = _const(sl, r"const PARSE_DATETIME_IN_LINE_LRU_CACHE_SZ: usize = %s;" % num, "PARSE_DATETIME_IN_LINE_LRU_CACHE_SZ")
    t["DT_ROWS"] = _const(dt, r"pub const DATETIME_PARSE_DATAS_LEN: usize = %s;" % num, "DATETIME_PARSE_DATAS_LEN")
    # shapes the model relies on: the tie rule of dt_patterns_analysis and the try order of parse_datetime_in_line
    for pat, what in ((r"self\.dt_patterns_counts\s*\.retain\(\|_, v\| \*v >= max_\);", "dt_patterns_analysis: retain(v >= max)"),
                      (r"while self\.dt_patterns_counts\.len\(\) > SyslineReader::DT_PATTERN_MAX \{\s*let rm_key: DateTimeParseInstrsIndex = self\.dt_patterns_counts\.pop_last\(\)",
                       "dt_patterns_analysis: pop_last on ties"),
                      (r"\.sorted_by\(\s*\|a, b\| Ord::cmp\(&b\.1, &a\.1\), // sort by value", "parse_datetime_in_line: sorted_by count descending"),
                      (r"if patt_count_a > 1 \{", "blockzero_analysis_syslines: second pass when patt_count_a > 1")):
        if not re.search(pat, sl if "patt_count_a" not in pat else sp):
            raise ScrapeError("blocks: code shape not found: " + what)
    # the two range maps: (start expression, end expression, count) rows
    def rows(name):
        m = re.search(r"pub static ref %s: MapBszRangeToCount = \{(.*?)\n\s*m\n" % name, sp, flags=re.S)
        if not m:
            raise ScrapeError("blocks: map not found: " + name)
        out = []
        for a, b, c in re.findall(r"m\.insert\(BszRange\{start: ([^,]+), end: ([^}]+)\}, (\d+)\);", m.group(1)):
            def ev(e):
                e = e.strip().replace("SYSLOG_SZ_MAX_BSZ", str(t["SYSLOG_SZ_MAX"])).replace("BlockSz::MAX", str(2 ** 64 - 1))
                if not re.fullmatch(r"[0-9 *]+", e):
                    raise ScrapeError("blocks: range bound not understood: " + e)
                v = 1
                for x in e.split("*"):
                    v *= int(x)
                return v
            out.append((ev(a), ev(b), int(c)))
        if not out:
            raise ScrapeError("blocks: no rows in " + name)
        return out
    # --blocksz argument forms: prefix -> radix, decided by PROBING the built binary (robust against any rewrite of
    # cli_process_blocksz); the source scrape of the function is only a cross-check reported in block_consts.json
    t["BLOCKSZ_PROBE"] = probe_blocksz(t)
    t["BLOCKSZ_FORMS"] = t["BLOCKSZ_PROBE"]["forms"]
    try:
        t["BLOCKSZ_PROBE"]["scrape_agrees"] = (scrape_blocksz_forms(read("src/bin/s4.rs")) == t["BLOCKSZ_FORMS"])
    except Exception as e:                       # never raises: the probe decides
        t["BLOCKSZ_PROBE"]["scrape_agrees"] = "scrape failed: %s" % e
    t["LINE_MIN"] = rows("BLOCKZERO_ANALYSIS_LINE_COUNT_MIN_MAP")
    t["SYSLINE_MIN"] = rows("BLOCKZERO_ANALYSIS_SYSLINE_COUNT_MIN_MAP")
    return t


def scrape_blocksz_forms(s4):
    """(prefix, radix) pairs read off the TEXT of cli_process_blocksz (cross-check only)"""
    m = re.search(r"fn cli_process_blocksz\(blockszs: &String\)(.*?)\n}\n", s4, flags=re.S)
    if not m:
        raise ScrapeError("cli_process_blocksz not found")
    forms = re.findall(r'starts_with\("(\w+)"\) \{\s*blocksz_ = match BlockSz::from_str_radix\(blockszs\.trim_start_matches\("\w+"\), (\d+)\)', m.group(1))
    if not forms:
        raise ScrapeError("no starts_with/from_str_radix pairs recognised")
    return [(a, int(r)) for a, r in forms]


def probe_blocksz(t):
    """What `--blocksz` ARGUMENTS the built binary accepts, by running it: for every two-character candidate prefix
    "0<letter>" (and the empty prefix) the numerals "100" and "1000000" are offered; the value shown in the `block size`
    line of --summary is r^2 or r^6 for the radix r the prefix selects (no other r in 2..36 gives that value), a
    rejected pair means `not a prefix`; the digit set is confirmed with the numeral of the largest digit and of the
    first non-digit.  Also recorded (not used by the table): the quirks (repeated prefix, '+' after the prefix, leading
    '+'), and the accepted range by bisection on decimal values, compared with the compiled constants."""
    import sys, string, concurrent.futures
    sys.path.insert(0, os.path.dirname(os.path.dirname(os.path.abspath(__file__))))
    import vlib
    ok, log = vlib.build_s4()
    if not ok:
        raise ScrapeError("blocks: the s4 binary does not build (needed to probe --blocksz): " + log[-500:])
    d = vlib.scratch_dir("gen-blocks")
    path = os.path.join(d, "probe.log")
    with open(path, "wb") as f:
        f.write(b"2020-01-01T00:00:01 hello\n2020-01-01T00:00:02 hello\n")

    def ask(arg):
        rc, o, e = vlib.run_s4(["--color", "never", "--summary", "--blocksz=" + arg, path], timeout=60, env={"TZ": "UTC"})
        m = re.search(rb"block size\s*:\s*(\d+) \(0x[0-9A-Fa-f]+\)", e)
        if rc == 0 and m:
            return int(m.group(1))
        if rc == 2 and o == b"":
            return None
        raise ScrapeError("blocks: probing --blocksz=%r: unexpected rc=%s" % (arg, rc))

    def ask_all(args):
        with concurrent.futures.ThreadPoolExecutor(max_workers=8) as ex:
            return dict(zip(args, ex.map(ask, args)))
    prefixes = [""] + ["0" + c for c in string.ascii_letters]
    ans = ask_all([p + n for p in prefixes for n in ("100", "1000000")])
    DIG = string.digits + string.ascii_lowercase
    forms, dec_radix, goods = [], None, {}
    for p in prefixes:
        v2, v6 = ans[p + "100"], ans[p + "1000000"]
        rs = set()
        for r in range(2, 37):
            if v2 == r * r or v6 == r ** 6:
                rs.add(r)
        if p and v2 is None and v6 is None:
            continue                                  # not a prefix (or the letter is no digit): rejected as decimal
        if len(rs) != 1:
            raise ScrapeError("blocks: probing --blocksz: prefix %r gives %r / %r: no single radix" % (p, v2, v6))
        r = rs.pop()
        # confirm the digit set of radix r behind this prefix
        hi_d, bad_d = DIG[r - 1], (DIG[r] if r < 36 else "_")
        k = 1
        while int("1" + hi_d * k, r) < max(t["BLOCKSZ_MIN"], t["SP_BLOCKSZ_MIN"]):
            k += 1
        good, bad = "1" + hi_d * k, "1" + hi_d * (k - 1) + bad_d
        chk = ask_all([p + good, p + bad])
        if chk[p + good] != int(good, r) or chk[p + bad] is not None:
            raise ScrapeError("blocks: probing --blocksz: prefix %r radix %d: digit set not confirmed (%r)" % (p, r, chk))
        if p == "":
            dec_radix = r
        else:
            forms.append((p, r))
            goods[p] = good
    if dec_radix != 10:
        raise ScrapeError("blocks: probing --blocksz: a numeral without prefix is read in radix %r (the model reads it as decimal)" % dec_radix)
    forms.sort(key=lambda pr: -pr[1])                 # deterministic order (the prefixes found do not overlap)
    for a, _ in forms:
        for b, _ in forms:
            if a != b and (a.startswith(b) or b.startswith(a)):
                raise ScrapeError("blocks: probing --blocksz: overlapping prefixes %r %r: the order of the tests matters" % (a, b))
    quirks = {}
    qa = []
    for p, r in forms:
        g = goods[p]
        qa += [p + p + g, p + "+" + g, "+" + p + g, p.upper() + g]
    qa += ["+100", "++100", "-100", "100 ", " 100", "1_00"]
    qv = ask_all(qa)
    quirks = {k: qv[k] for k in qa}
    # accepted range by bisection on decimal values (monotone: rejected below lo and above hi)
    def bisect(lo, hi, accepted_high):
        # smallest accepted in (lo, hi] when accepted_high else largest accepted in [lo, hi)
        while hi - lo > 1:
            mid = (lo + hi) // 2
            a = ask(str(mid)) is not None
            if a == accepted_high:
                hi = mid
            else:
                lo = mid
        return hi if accepted_high else lo
    some = 100 if ask("100") is not None else None
    rng = None
    if some is not None:
        lo = 0 if ask("0") is not None else bisect(0, some, True)
        top = 1 << 62
        hi = top if ask(str(top)) is not None else bisect(some, top, False)
        rng = [lo, hi]
    want = [max(t["BLOCKSZ_MIN"], t["SP_BLOCKSZ_MIN"]), t["BLOCKSZ_MAX"]]
    return dict(forms=forms, quirks=quirks, range_probed=rng, range_constants=want, range_agrees=(rng == want))


def generate():
    t = scrape()
    L = ["(* GENERATED by tools/gen_tables.py (generator `blocks`) from src/readers/{blockreader,syslogprocessor}.rs",
         "   and src/common.rs — do not edit. *)",
         "From Coq Require Import List NArith.", "Import ListNotations.", "Open Scope N_scope.", ""]
    for k in ("BLOCKSZ_MIN", "BLOCKSZ_MAX", "BLOCKSZ_DEF", "SP_BLOCKSZ_MIN", "BYTES_MIN", "BYTES_NULL_MAX", "SYSLOG_SZ_MAX", "FILE_TOO_SMALL_SZ",
              "DATETIME_STR_MIN", "DT_PATTERN_MAX", "PARSE_LRU_SZ", "DT_ROWS"):
        L.append("Definition %s : N := %d." % (k.lower(), t[k]))
    for k in ("LINE_MIN", "SYSLINE_MIN"):
        L.append("(* (range start, range end (exclusive), minimum count) *)")
        L.append("Definition %s_map : list (N * N * N) := [%s]." % (k.lower(), "; ".join("(%d, %d, %d)" % r for r in t[k])))
    L.append("(* --blocksz forms (prefix bytes, radix), PROBED on the built binary; no prefix = decimal *)")
    L.append("Definition blocksz_forms : list (list N * N) := [%s]." %
             "; ".join("([%s], %d)" % ("; ".join(str(ord(c)) for c in a), r) for a, r in t["BLOCKSZ_FORMS"]))
    L.append("")
    import json
    with open(os.path.join(GEN, "block_consts.json"), "w") as f:
        json.dump({k: (v if not isinstance(v, list) else [list(x) if isinstance(x, tuple) else x for x in v]) for k, v in t.items()}, f, indent=1, default=str)
    return write_if_changed(os.path.join(GEN, "BlockConsts.v"), "\n".join(L))
