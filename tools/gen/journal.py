"""Generator: constants and tables of the journal renderings -> coq/Gen/JournalTables.v (definitions only).

Scraped from src/readers/journalreader.rs and src/data/journal.rs (comments stripped):
  * DATETIME_FORMAT_{SHORT,SHORT_PRECISE,SHORT_ISO,SHORT_ISO_PRECISE,SHORT_FULL,SHORT_UNIX,VERBOSE};
  * the arms of `next_dispatch` (which next_* function, which format constant, the monotonic flag) for every
    JournalOutput variant, and the variant list of the enum itself;
  * FIELD_ORDER_VERBOSE (byte-string literals and KEY_*_BYTES names, length checked against the array type),
    FIELD_BEG_VERBOSE, the KEY_* string constants;
  * in next_short: which KEY_*_BYTES arm fills which of the six slots, the found-tuple and the tuple pattern that
    ends the enumeration, the emergency bound of the enumeration loop, `mu as f64 / <div>`, the format!
    width/precision of the monotonic field and the blank placeholder;
  * in next_verbose / next_export: the emergency bound; in next_verbose the bytes trimmed from _SELINUX_CONTEXT;
  * DT_USES_SOURCE_OVERRIDE; whether get_monotonic_usec calls call_sd_id128_get_boot before asking the journal;
  * whether next_verbose collects the data objects in a HashMap (one value per name) or a Vec (all of them).
Anything of unexpected shape raises ScrapeError."""
import os, re
from common import *

OUTPUTS = ["Short", "ShortPrecise", "ShortIso", "ShortIsoPrecise", "ShortFull", "ShortMonotonic", "ShortUnix",
           "Verbose", "Export", "Cat"]
SLOTS = ["hostname", "syslog_identifier", "syslog_pid", "comm", "pid", "message"]
SLOT_FIELD = dict(hostname="cfg_k_host", syslog_identifier="cfg_k_ident", syslog_pid="cfg_k_spid", comm="cfg_k_comm",
                  pid="cfg_k_pid", message="cfg_k_msg")


def coq_str(s):
    for ch in s:
        if ord(ch) > 126 or ord(ch) < 32 or ch == '"' or ch == "\\":
            raise ScrapeError("string with unsupported character: %r" % s)
    return '"%s"' % s


def fn_body(src, name):
    m = re.search(r"\bfn\s+%s\s*\(" % re.escape(name), src)
    if not m:
        raise ScrapeError("fn %s not found" % name)
    k = m.end() - 1
    k = balanced(src, k, "(", ")")
    i = src.index("{", k)
    return src[i:balanced(src, i)]


def str_consts(src):
    out = {}
    for name, val in re.findall(r'\bconst\s+(\w+)\s*:\s*&str\s*=\s*"((?:[^"\\]|\\.)*)"\s*;', src):
        if "\\" in val:
            raise ScrapeError("escape in string constant %s" % name)
        if name in out and out[name] != val:
            raise ScrapeError("string constant %s defined twice with different values" % name)
        out[name] = val
    return out


def bytes_aliases(src):
    """`const KEY_X_BYTES: &[u8] = KEY_X.as_bytes();` -> {KEY_X_BYTES: KEY_X}"""
    return dict(re.findall(r'\bconst\s+(\w+)\s*:\s*&\[u8\]\s*=\s*(\w+)\.as_bytes\(\)\s*;', src))


def one(rx, text, what):
    m = re.findall(rx, text)
    if len(m) != 1:
        raise ScrapeError("%s: expected exactly one match, found %d" % (what, len(m)))
    return m[0]


def scrape():
    src = strip_comments(read("src/readers/journalreader.rs"))
    srcd = strip_comments(read("src/data/journal.rs"))
    consts = str_consts(src)
    aliases = bytes_aliases(src)

    def key_of(name):
        base = aliases.get(name)
        if base is None or base not in consts:
            raise ScrapeError("cannot resolve byte-string constant %s" % name)
        return consts[base]

    # the enum
    m = re.search(r"\benum\s+JournalOutput\s*\{", src)
    if not m:
        raise ScrapeError("enum JournalOutput not found")
    i = src.index("{", m.start())
    body = src[i + 1:balanced(src, i) - 1]
    variants = re.findall(r"^\s*(?:#\[[^\]]*\]\s*)*(\w+)\s*,", body, flags=re.M)
    if variants != OUTPUTS:
        raise ScrapeError("JournalOutput variants %r, expected %r" % (variants, OUTPUTS))

    # next_dispatch
    nd = fn_body(src, "next_dispatch")
    arms = re.findall(r"JournalOutput::(\w+)\s*=>\s*\{\s*self\.(next_\w+)\(\s*rts_filter_before\s*(?:,\s*&?\s*([\w\"]+)\s*,\s*(true|false)\s*)?\)\s*\}", nd)
    if [a[0] for a in arms] != OUTPUTS or len(re.findall(r"JournalOutput::", nd)) != len(OUTPUTS):
        raise ScrapeError("next_dispatch: arms %r" % [a[0] for a in arms])
    dispatch = {}
    for var, fn, fmt, mono in arms:
        if fn == "next_short":
            if mono == "true":
                if fmt != '""':
                    raise ScrapeError("next_dispatch %s: monotonic with a format %r" % (var, fmt))
                dispatch[var] = ("short", "", True)
            else:
                if fmt not in consts:
                    raise ScrapeError("next_dispatch %s: unknown format constant %r" % (var, fmt))
                dispatch[var] = ("short", consts[fmt], False)
        elif fn in ("next_verbose", "next_export", "next_cat") and not fmt:
            dispatch[var] = (fn[5:], None, None)
        else:
            raise ScrapeError("next_dispatch %s: unexpected call %s" % (var, fn))

    # FIELD_ORDER_VERBOSE
    m = re.search(r"const\s+FIELD_ORDER_VERBOSE\s*:\s*\[\s*&'static\s*\[u8\]\s*;\s*(\d+)\s*\]\s*=\s*\[", src)
    if not m:
        raise ScrapeError("FIELD_ORDER_VERBOSE not found")
    n_order = int(m.group(1))
    j = src.index("]", m.end())
    items = [x.strip() for x in src[m.end():j].split(",") if x.strip()]
    order = []
    for it in items:
        mm = re.fullmatch(r'b"((?:[^"\\]|\\.)*)"', it)
        if mm:
            if "\\" in mm.group(1):
                raise ScrapeError("escape in FIELD_ORDER_VERBOSE item %r" % it)
            order.append(mm.group(1))
        elif re.fullmatch(r"\w+", it):
            order.append(key_of(it))
        else:
            raise ScrapeError("FIELD_ORDER_VERBOSE: item %r" % it)
    if len(order) != n_order:
        raise ScrapeError("FIELD_ORDER_VERBOSE: %d items, array type says %d" % (len(order), n_order))

    # next_short
    ns = fn_body(src, "next_short")
    slot_key = {}
    for kc, a, b in re.findall(r"(\w+_BYTES)\s*=>\s*\{\s*key_(\w+)_found\s*=\s*true\s*;\s*data_(\w+)\s*=\s*Some\(\s*&data\[keyn\.\.\]\s*\)\s*;\s*\}", ns):
        if a != b or a in slot_key:
            raise ScrapeError("next_short: arm %s fills key_%s_found / data_%s" % (kc, a, b))
        slot_key[a] = key_of(kc)
    if sorted(slot_key) != sorted(SLOTS):
        raise ScrapeError("next_short: slots %r" % sorted(slot_key))
    tup = one(r"match\s*\(\s*((?:key_\w+_found\s*,?\s*)+)\)\s*\{", ns, "next_short found-tuple")
    tup_slots = re.findall(r"key_(\w+)_found", tup)
    if tup_slots != SLOTS:
        raise ScrapeError("next_short: found-tuple order %r" % tup_slots)
    pat = one(r"\(\s*((?:(?:true|false|_)\s*,?\s*){6})\)\s*=>\s*\{[^{}]*break\s*;", ns, "next_short break pattern")
    need = [x == "true" for x in re.findall(r"true|false|_", pat)]
    if "false" in pat:
        raise ScrapeError("next_short: break pattern with `false`")
    emerg_short = int(one(r"while\s+emerg_stop_data_enumerate\s*<\s*(\d+)", ns, "next_short emergency bound"))
    div = one(r"mu\s+as\s+f64\s*/\s*([0-9_]+)\.0\s*;", ns, "next_short monotonic divisor")
    width, prec = one(r'format!\(\s*"\{:>(\d+)\.(\d+)\}"\s*,\s*mud\s*\)', ns, "next_short monotonic format")
    blank = one(r'None\s*=>\s*\{[^{}]*?buffer\.push_str\(\s*"(\[ *\])"\s*\)', ns, "next_short monotonic placeholder")
    if not re.search(r"buffer\.push\(b'\['\)\s*;\s*let\s+mud", ns) or not re.search(r"buffer\.push\(b'\]'\)", ns):
        raise ScrapeError("next_short: brackets of the monotonic field not found")

    nv = fn_body(src, "next_verbose")
    emerg_verbose = int(one(r"while\s+emerg_stop_data_enumerate\s*<\s*(\d+)", nv, "next_verbose emergency bound"))
    # the collection of next_verbose: one value per name (HashMap, insert) or every data object (Vec, push)
    if re.search(r"let\s+mut\s+fields\s*:\s*HashMap<\s*&\[u8\]\s*,\s*&\[u8\]\s*>", nv) and re.search(r"fields\.insert\(\s*key\s*,\s*value\s*\)", nv):
        verbose_multi = False
    elif (re.search(r"let\s+mut\s+fields\s*:\s*Vec<\s*\(\s*&\[u8\]\s*,\s*&\[u8\]\s*\)\s*>", nv) and re.search(r"fields\.push\(\s*\(\s*key\s*,\s*value\s*\)\s*\)", nv)
          and re.search(r"fields\.retain\(", nv) and re.search(r"\.sorted\(\)", nv)):
        verbose_multi = True
    else:
        raise ScrapeError("next_verbose: the collection `fields` is neither the HashMap nor the Vec the model knows")
    trim_blk = one(r"if\s+key\s*==\s*(\w+)\s*\{\s*while\s+((?:value\.ends_with\(b\"(?:[^\"\\]|\\.)*\"\)\s*(?:\|\|)?\s*)+)\{", nv, "next_verbose trim")
    selinux = key_of(trim_blk[0])
    trims = []
    for lit in re.findall(r'ends_with\(b"((?:[^"\\]|\\.)*)"\)', trim_blk[1]):
        v = {"\\0": 0, "\\r": 13, "\\n": 10, "\\t": 9, " ": 32}.get(lit)
        if v is None:
            if len(lit) == 1 and 32 <= ord(lit) < 127:
                v = ord(lit)
            else:
                raise ScrapeError("next_verbose: trimmed byte literal %r" % lit)
        trims.append(v)
    gm = fn_body(src, "get_monotonic_usec")
    if "call_sd_journal_get_monotonic_usec" not in gm:
        raise ScrapeError("get_monotonic_usec: no call of call_sd_journal_get_monotonic_usec")
    needs_host = "call_sd_id128_get_boot" in gm
    ne = fn_body(src, "next_export")
    emerg_export = int(one(r"while\s+emerg_stop_data_enumerate\s*<\s*(\d+)", ne, "next_export emergency bound"))
    if "KEY_MESSAGE_CSTR" not in fn_body(src, "next_cat") or not re.search(r"KEY_MESSAGE_CSTR\s*:\s*CString\s*=\s*CString::new\(KEY_MESSAGE\)", src):
        raise ScrapeError("next_cat: KEY_MESSAGE_CSTR")
    if not re.search(r"KEY_SOURCE_REALTIME_TIMESTAMP_CSTR\s*:\s*CString\s*=\s*CString::new\(KEY_SOURCE_REALTIME_TIMESTAMP\)", src):
        raise ScrapeError("KEY_SOURCE_REALTIME_TIMESTAMP_CSTR")
    ov = one(r"const\s+DT_USES_SOURCE_OVERRIDE\s*:\s*Option<DtUsesSource>\s*=\s*(None|Some\(\s*DtUsesSource::\w+\s*\))\s*;", srcd, "DT_USES_SOURCE_OVERRIDE")
    if ov == "None":
        override = "None"
    else:
        v = re.search(r"::(\w+)", ov).group(1)
        override = {"RealtimeTimestamp": "(Some DsRealtime)", "SourceRealtimeTimestamp": "(Some DsSource)"}.get(v)
        if override is None:
            raise ScrapeError("DT_USES_SOURCE_OVERRIDE: %r" % ov)
    for k in ("DATETIME_FORMAT_VERBOSE", "FIELD_BEG_VERBOSE", "KEY_SOURCE_REALTIME_TIMESTAMP", "KEY__MONOTONIC_TIMESTAMP", "KEY_MESSAGE"):
        if k not in consts:
            raise ScrapeError("constant %s not found" % k)
    return dict(consts=consts, dispatch=dispatch, order=order, slot_key=slot_key, need=need, emerg_short=emerg_short,
                emerg_verbose=emerg_verbose, emerg_export=emerg_export, div=int(div.replace("_", "")), width=int(width), prec=int(prec),
                blank=blank, selinux=selinux, trims=trims, override=override, needs_host=needs_host, verbose_multi=verbose_multi)


def generate():
    t = scrape()
    c = t["consts"]
    L = ["(* GENERATED by tools/gen_tables.py (tools/gen/journal.py) from src/readers/journalreader.rs and src/data/journal.rs — do not edit. *)",
         "From Coq Require Import String List NArith ZArith.",
         "From S4.Base Require Import Bytes.",
         "From S4.Model Require Import JournalRender.",
         "Import ListNotations.",
         "Open Scope string_scope.",
         ""]
    arms = []
    for var in OUTPUTS:
        kind, fmt, mono = t["dispatch"][var]
        if kind == "short":
            arms.append("  | O%s => DShort (s2b %s) %s" % (var, coq_str(fmt), "true" if mono else "false"))
        else:
            arms.append("  | O%s => D%s" % (var, kind.capitalize()))
    L.append("(* next_dispatch *)")
    L.append("Definition src_dispatch (o : output) : dispatch :=\n  match o with\n%s\n  end." % "\n".join(arms))
    L.append("")
    L.append("(* FIELD_ORDER_VERBOSE: %d entries *)" % len(t["order"]))
    L.append("Definition src_order : list bytes := map s2b [\n  %s\n]." % ";\n  ".join(coq_str(k) for k in t["order"]))
    L.append("")
    fields = [
        ("cfg_override", t["override"]),
        ("cfg_dispatch", "src_dispatch"),
        ("cfg_fmt_verbose", "s2b " + coq_str(c["DATETIME_FORMAT_VERBOSE"])),
        ("cfg_order", "src_order"),
        ("cfg_field_beg", "s2b " + coq_str(c["FIELD_BEG_VERBOSE"])),
        ("cfg_emerg_short", "%d%%nat" % t["emerg_short"]),
        ("cfg_emerg_verbose", "%d%%nat" % t["emerg_verbose"]),
        ("cfg_emerg_export", "%d%%nat" % t["emerg_export"]),
    ]
    for s in SLOTS:
        fields.append((SLOT_FIELD[s], "s2b " + coq_str(t["slot_key"][s])))
    fields += [
        ("cfg_short_need", "[%s]" % "; ".join("true" if b else "false" for b in t["need"])),
        ("cfg_k_selinux", "s2b " + coq_str(t["selinux"])),
        ("cfg_trim", "[%s]" % "; ".join("%d%%N" % b for b in t["trims"])),
        ("cfg_k_source_rt", "s2b " + coq_str(c["KEY_SOURCE_REALTIME_TIMESTAMP"])),
        ("cfg_k_mono", "s2b " + coq_str(c["KEY__MONOTONIC_TIMESTAMP"])),
        ("cfg_k_cat", "s2b " + coq_str(c["KEY_MESSAGE"])),
        ("cfg_mono_div", "%d%%Z" % t["div"]),
        ("cfg_mono_width", "%d%%nat" % t["width"]),
        ("cfg_mono_prec", "%d%%nat" % t["prec"]),
        ("cfg_mono_blank", "s2b " + coq_str(t["blank"])),
        ("cfg_mono_needs_host", "true" if t["needs_host"] else "false"),
        ("cfg_verbose_multi", "true" if t["verbose_multi"] else "false"),
    ]
    L.append("Definition src_cfg : jcfg := {|\n%s\n|}." % ";\n".join("  %s := %s" % kv for kv in fields))
    L.append("")
    return write_if_changed(os.path.join(GEN, "JournalTables.v"), "\n".join(L))
