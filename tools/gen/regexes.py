"""Generator: the 173 compiled timestamp regexes -> coq/Gen/RegexTables.v  (+ regex_tables.json)

Source: the COMPILED pattern strings of DATETIME_PARSE_DATAS (harness binary c04_tables links the
freshly built s4lib and prints them), i.e. the `concatcp!` products of the CGP_*/RP_* constants as the
`regex` crate receives them in `regex::bytes::Regex::new` (Unicode mode ON, no other flags).

The parser below accepts exactly the syntax the project's patterns use and raises ScrapeError on
anything else (so new syntax breaks the obligation instead of being mis-modelled):
  literals (ASCII and non-ASCII code points), escapes of punctuation and \\t \\n \\r,
  bracket classes with ranges, POSIX [:name:] / [:^name:], leading ^, nested non-negated classes,
  `.`, `^`, `$`, `|`, capture groups `( )` and `(?P<name> )` / `(?<name> )`, non-capturing `(?: )`,
  flag directives `(?i)` / `(?-i)` (scoped to the enclosing group, persisting across `|` like the crate),
  repetition `?` `*` `+` `{n}` `{n,}` `{n,m}` with optional lazy `?`.
NOT accepted: \\b \\d \\w \\s \\p{..} \\x.. \\u.. backreferences, look-around, class set operations
(&& -- ~~), flags other than i, x-mode, a star/plus/open repetition of a nullable body, a
case-insensitive region containing anything but ASCII.
"""
import json, os, sys
from common import *

POSIX = ["alnum", "alpha", "ascii", "blank", "cntrl", "digit", "graph", "lower", "print", "punct", "space", "upper", "word", "xdigit"]
FIELDS = ["year", "month", "day", "hour", "minute", "second", "fractional", "tz", "epoch", "dayIgnore"]
PUNCT_ESC = set("\\.+*?()|[]{}^$#&-~/ \"':,<>=!@%_`;")


class P:
    def __init__(self, s):
        self.s = s
        self.i = 0
        self.ncap = 0
        self.names = {}

    def err(self, msg):
        raise ScrapeError("regex syntax not modelled: %s at offset %d of %r" % (msg, self.i, self.s[max(0, self.i - 20):self.i + 20]))

    def peek(self, k=0):
        j = self.i + k
        return self.s[j] if j < len(self.s) else ""

    def eat(self, lit):
        if self.s.startswith(lit, self.i):
            self.i += len(lit)
            return True
        return False

    # ---- alternation inside a group; `ci` is the flag state, returned updated (flags persist across `|`)
    def alt(self, ci):
        branches = []
        seq, ci = self.seq(ci)
        branches.append(seq)
        while self.eat("|"):
            seq, ci = self.seq(ci)
            branches.append(seq)
        return (branches[0] if len(branches) == 1 else ("alt", branches)), ci

    def seq(self, ci):
        items = []
        while self.i < len(self.s) and self.peek() not in "|)":
            if self.s.startswith("(?", self.i) and self.peek(2) in "i-" :
                # flag directive (?i) (?-i); (?i:...) is a group
                j = self.s.index(")", self.i)
                body = self.s[self.i + 2:j]
                if body == "i":
                    ci = True
                    self.i = j + 1
                    continue
                if body == "-i":
                    ci = False
                    self.i = j + 1
                    continue
                self.err("flag group (?%s)" % body)
            atom = self.atom(ci)
            atom = self.repeat(atom)
            items.append(atom)
        if not items:
            return ("eps",), ci
        return (items[0] if len(items) == 1 else ("seq", items)), ci

    def repeat(self, atom):
        while True:
            c = self.peek()
            if c == "?":
                self.i += 1
                mn, mx = 0, 1
            elif c == "*":
                self.i += 1
                mn, mx = 0, None
            elif c == "+":
                self.i += 1
                mn, mx = 1, None
            elif c == "{":
                j = self.s.find("}", self.i)
                if j < 0:
                    self.err("unclosed {")
                body = self.s[self.i + 1:j]
                parts = body.split(",")
                if not all(p.isdigit() or (k == 1 and p == "") for k, p in enumerate(parts)) or len(parts) > 2 or not parts[0].isdigit():
                    self.err("repetition {%s}" % body)
                mn = int(parts[0])
                mx = mn if len(parts) == 1 else (None if parts[1] == "" else int(parts[1]))
                if mx is not None and mx < mn:
                    self.err("repetition {%s}" % body)
                self.i = j + 1
            else:
                return atom
            if atom[0] in ("bol", "eol"):
                self.err("repetition of an anchor")
            greedy = True
            if self.peek() == "?":
                self.i += 1
                greedy = False
            if mx is None and nullable(atom):
                self.err("unbounded repetition of a nullable expression (the crate's empty-iteration rule is not modelled)")
            if mx is not None and mx > 64:
                self.err("repetition bound > 64")
            atom = ("rep", mn, mx, greedy, atom)

    def atom(self, ci):
        c = self.peek()
        if c == "(":
            return self.group(ci)
        if c == "[":
            neg, items = self.cls()
            if ci:
                self.check_ci_items(items, neg)
            return ("class", ci, neg, items)
        if c == ".":
            self.i += 1
            return ("dot",)
        if c == "^":
            self.i += 1
            return ("bol",)
        if c == "$":
            self.i += 1
            return ("eol",)
        if c == "\\":
            cp = self.escape()
            return self.lit(ci, cp)
        if c in "*+?{}]":
            self.err("unexpected %r" % c)
        self.i += 1
        return self.lit(ci, ord(c))

    def lit(self, ci, cp):
        if ci and cp >= 128:
            self.err("non-ASCII literal in a case-insensitive region")
        if 0xD800 <= cp <= 0xDFFF or cp > 0x10FFFF:
            self.err("literal is not a scalar value")
        return ("char", ci, cp)

    def check_ci_items(self, items, neg):
        if neg:
            self.err("negated class in a case-insensitive region")
        for it in items:
            if it[0] == "range" and it[2] >= 128:
                self.err("non-ASCII class member in a case-insensitive region")
            if it[0] == "posix" and it[1]:
                self.err("negated POSIX class in a case-insensitive region")

    def escape(self):
        assert self.peek() == "\\"
        c = self.peek(1)
        if c == "":
            self.err("trailing backslash")
        self.i += 2
        if c == "t":
            return 9
        if c == "n":
            return 10
        if c == "r":
            return 13
        if c in PUNCT_ESC or c == "−":
            return ord(c)
        self.i -= 2
        self.err("escape \\%s" % c)

    def group(self, ci):
        assert self.peek() == "("
        self.i += 1
        name = None
        cap = True
        if self.eat("?P<") or (self.peek() == "?" and self.peek(1) == "<" and self.peek(2) not in "=!" and self.eat("?<")):
            j = self.s.index(">", self.i)
            name = self.s[self.i:j]
            if not name.replace("_", "a").isalnum():
                self.err("group name %r" % name)
            self.i = j + 1
        elif self.eat("?:"):
            cap = False
        elif self.peek() == "?":
            self.err("group of unknown kind")
        idx = self.newcap(name) if cap else None
        node, _ = self.alt(ci)          # flags set inside are dropped at the closing parenthesis
        if not self.eat(")"):
            self.err("unclosed group")
        if not cap:
            return node
        return ("group", idx, name, node)

    def newcap(self, name):
        self.ncap += 1
        if name is not None:
            if name in self.names:
                self.err("duplicate group name " + name)
            self.names[name] = self.ncap
        return self.ncap

    def cls(self):
        """bracket class at self.i; returns (negated, [items]); nested non-negated classes are flattened"""
        assert self.peek() == "["
        self.i += 1
        neg = False
        if self.peek() == "^":
            neg = True
            self.i += 1
        items = []
        first = True
        while True:
            c = self.peek()
            if c == "":
                self.err("unclosed class")
            if c == "]" and not first:
                self.i += 1
                break
            first = False
            if c == "[":
                if self.peek(1) == ":":
                    j = self.s.find(":]", self.i + 2)
                    if j < 0:
                        self.err("unclosed POSIX class")
                    nm = self.s[self.i + 2:j]
                    pneg = nm.startswith("^")
                    if pneg:
                        nm = nm[1:]
                    if nm not in POSIX:
                        self.err("POSIX class [:%s:]" % nm)
                    items.append(("posix", pneg, nm))
                    self.i = j + 2
                    continue
                nneg, nitems = self.cls()
                if nneg:
                    self.err("negated nested class")
                items += nitems
                continue
            if c in "&~" and self.peek(1) == c:
                self.err("class set operation")
            if c == "-" and self.peek(1) == "-":
                self.err("class set operation")
            lo = self.cls_char()
            if self.peek() == "-" and self.peek(1) not in ("]", ""):
                if self.peek(1) == "-":
                    self.err("class set operation")
                self.i += 1
                if self.peek() == "[":
                    self.err("range ending in a class")
                hi = self.cls_char()
                if hi < lo:
                    self.err("inverted range")
                items.append(("range", lo, hi))
            else:
                items.append(("range", lo, lo))
        if not items:
            self.err("empty class")
        for it in items:
            if it[0] == "range" and (it[1] <= 0xDFFF and it[2] >= 0xD800):
                self.err("class range across surrogates")
        return neg, items

    def cls_char(self):
        c = self.peek()
        if c == "\\":
            return self.escape()
        self.i += 1
        return ord(c)


def nullable(n):
    k = n[0]
    if k in ("eps", "bol", "eol"):
        return True
    if k in ("char", "class", "dot", "bytes"):
        return False
    if k == "seq":
        return all(nullable(x) for x in n[1])
    if k == "alt":
        return any(nullable(x) for x in n[1])
    if k == "rep":
        return n[1] == 0 or nullable(n[4])
    if k == "group":
        return nullable(n[3])
    raise ScrapeError("nullable: " + k)


def parse(pattern):
    p = P(pattern)
    node, _ = p.alt(False)
    if p.i != len(pattern):
        p.err("unbalanced )")
    return node, p.ncap, p.names


# ---------------------------------------------------------------- simplification: literal runs -> byte strings
def utf8(cp):
    return list(chr(cp).encode("utf-8"))


def simplify(n):
    k = n[0]
    if k == "seq":
        out = []
        for x in n[1]:
            x = simplify(x)
            if x[0] == "bytes":
                if out and out[-1][0] == "bytes":
                    out[-1] = ("bytes", out[-1][1] + x[1])
                else:
                    out.append(x)
            elif x[0] == "seq":
                out += x[1]
            else:
                out.append(x)
        return out[0] if len(out) == 1 else ("seq", out)
    if k == "alt":
        return ("alt", [simplify(x) for x in n[1]])
    if k == "rep":
        return ("rep", n[1], n[2], n[3], simplify(n[4]))
    if k == "group":
        return ("group", n[1], n[2], simplify(n[3]))
    if k == "char" and not n[1]:
        return ("bytes", utf8(n[2]))
    return n


# ---------------------------------------------------------------- Coq emission with sharing
class Emit:
    """bottom-up printer; a subterm gets its own Definition when its text is long, or when it occurs
    more than once and is not tiny (the CGP_* constants recur in most rows)"""

    def __init__(self):
        self.defs = []          # (name, text)
        self.memo = {}
        self.counts = {}
        self.prefix = "re_"

    def count(self, n):
        key = json.dumps(n)
        self.counts[key] = self.counts.get(key, 0) + 1
        k = n[0]
        if k in ("seq", "alt"):
            for x in n[1]:
                self.count(x)
        elif k == "rep":
            self.count(n[4])
        elif k == "group":
            self.count(n[3])

    def share(self, n, text):
        key = json.dumps(n)
        if key in self.memo:
            return self.memo[key]
        if len(text) > 160 or (self.counts.get(key, 0) > 1 and len(text) > 40):
            name = "%s%d" % (self.prefix, len(self.defs))
            self.defs.append((name, text))
            self.memo[key] = name
            return name
        return "(%s)" % text

    @staticmethod
    def bool(b):
        return "true" if b else "false"

    def cls_item(self, it):
        if it[0] == "range":
            return "CRange %d %d" % (it[1], it[2])
        return "CPosix %s P_%s" % (self.bool(it[1]), it[2])

    def term(self, n):
        """coq text usable as an argument"""
        k = n[0]
        if k == "eps":
            return "REps"
        if k == "bol":
            return "RBol"
        if k == "eol":
            return "REol"
        if k == "dot":
            return "RDot"
        if k == "char":
            return "(RChar %s %d)" % (self.bool(n[1]), n[2])
        if k == "bytes":
            return "(RBytes [%s])" % ";".join(str(b) for b in n[1])
        if k == "class":
            return "(RClass %s (mkCls %s [%s]))" % (self.bool(n[1]), self.bool(n[2]), "; ".join(self.cls_item(i) for i in n[3]))
        if k in ("seq", "alt"):
            parts = [self.term(x) for x in n[1]]
            return self.share(n, "%s [%s]" % ("seqs" if k == "seq" else "alts", "; ".join(parts)))
        if k == "rep":
            return self.share(n, "RRep %d%%nat %s %s %s" % (n[1], "None" if n[2] is None else "(Some %d%%nat)" % n[2], self.bool(n[3]), self.term(n[4])))
        if k == "group":
            return self.share(n, "RGroup %d %s" % (n[1], self.term(n[3])))
        raise ScrapeError("emit: " + k)


def compiled_rows():
    import vlib
    ok, log = vlib.build_harness("c04_tables")
    if not ok:
        raise ScrapeError("cannot build harness c04_tables: " + log[-1500:])
    rc, out, err = vlib.sh2([vlib.harness_bin("c04_tables")], timeout=120)
    if rc != 0:
        raise ScrapeError("c04_tables failed: " + err.decode("utf-8", "replace")[-500:])
    rows = []
    for line in out.decode("utf-8").split("\n"):
        f = line.split("\t")
        if f[0] == "ROW":
            if len(f) != 18:
                raise ScrapeError("ROW with %d fields" % len(f))
            rows.append(dict(index=int(f[1]), start=int(f[12]), end=int(f[13]), first=f[15], last=f[16],
                             regex=bytes.fromhex(f[17]).decode("utf-8")))
    if not rows or [r["index"] for r in rows] != list(range(len(rows))):
        raise ScrapeError("DATETIME_PARSE_DATAS rows inconsistent")
    return rows


def generate():
    HERE = os.path.dirname(os.path.abspath(__file__))
    sys.path.insert(0, os.path.dirname(HERE))
    rows = compiled_rows()
    em = Emit()
    parsed = []
    for r in rows:
        node, ncap, names = parse(r["regex"])
        node = simplify(node)
        for nm in names:
            if nm not in FIELDS:
                raise ScrapeError("row %d: capture group name %r is not one the model knows" % (r["index"], nm))
        for nm in (r["first"], r["last"]):
            if nm not in names:
                raise ScrapeError("row %d: cgn_first/cgn_last %r is not a group of the pattern" % (r["index"], nm))
        parsed.append((r, node, ncap, names))
        em.count(node)
    L = []
    L.append("(* GENERATED by tools/gen/regexes.py from the compiled pattern strings of DATETIME_PARSE_DATAS")
    L.append("   (harness c04_tables) — do not edit.  One regex AST per row; repeated subterms are shared. *)")
    L.append("From Coq Require Import List NArith ZArith.")
    L.append("Import ListNotations.")
    L.append("From S4.Model Require Import Regex.")
    L.append("Open Scope N_scope.")
    body = []
    for r, node, ncap, names in parsed:
        t = em.term(node)
        nm = "; ".join("(%d, %d)" % (FIELDS.index(k), v) for k, v in sorted(names.items(), key=lambda kv: kv[1]))
        body.append("  mkRx %d %s %d [%s] %d %d %d %d" % (r["index"], t, ncap, nm, r["start"], r["end"],
                                                         names[r["first"]], names[r["last"]]))
    for name, text in em.defs:
        L.append("Definition %s : re := %s." % (name, text))
    # documented examples (string literals `_test_cases` of every DTPD! entry; scraped by the datetime generator)
    import datetime as dtgen
    _, tests = dtgen.scrape_source()
    if len(tests) != len(rows):
        raise ScrapeError("%d DTPD! entries scraped but %d compiled rows" % (len(tests), len(rows)))
    exs = []
    for r, cases in zip(rows, tests):
        for tc in cases:
            y = tc["fields"][0]
            exs.append('  mkEx %d "%s"%%hex %d %d %s %s (%s)' % (
                r["index"], tc["text"].encode("utf-8").hex(), tc["beg"], tc["end"],
                "None" if tc["off"] is None else "(Some (%d)%%Z)" % tc["off"],
                "None" if y is None else "(Some %d%%Z)" % y,
                ", ".join("%d%%Z" % v for v in tc["fields"][1:])))
    L.append("(* row index, pattern, number of capture groups, (field id, capture index) of the named groups")
    L.append("   (field ids: %s)," % ", ".join("%d=%s" % (i, f) for i, f in enumerate(FIELDS)))
    L.append("   slice range start/end, capture index of cgn_first / cgn_last *)")
    L.append("Definition rx_table : list rx_row := [")
    L.append(";\n".join(body))
    L.append("].")
    L.append("(* the documented examples: row, text (hex), dt_beg, dt_end, offset (None = O_L), year (None = YD), month .. ns *)")
    L.append("Definition rx_examples : list rx_example := [")
    L.append(";\n".join(exs))
    L.append("].")
    L.append("")
    changed = write_if_changed(os.path.join(GEN, "RegexTables.v"), "\n".join(L))
    # competitor lists (Model/RegexNum.competitors), sharded so that `make -j16` evaluates them in parallel:
    # shard k holds the rows with index = k mod NSHARD (thorough tier; the quick tier keeps four rows)
    NSHARD = 16
    for k in range(NSHARD):
        idx = [r["index"] for r in rows if r["index"] % NSHARD == k]
        S = []
        S.append("(* GENERATED by tools/gen/regexes.py — do not edit.  Shard %d of %d of the competitor lists:" % (k, NSHARD))
        S.append("   evaluated once (Eval vm_compute) and re-checked by the kernel (the lemma). *)")
        S.append("From Coq Require Import List NArith.")
        S.append("Import ListNotations.")
        S.append("From S4.Model Require Import Regex RegexPlan RegexDt RegexNum.")
        S.append("From S4.Gen Require Import RegexTables.")
        S.append("Open Scope N_scope.")
        S.append("Definition comp_idx_%02d : list N := [%s]." % (k, "; ".join(str(i) for i in idx)))
        S.append("Definition comp_rows_%02d : list (N * list N) :=" % k)
        S.append("  Eval vm_compute in map (fun i => (i, competitors rx_table (rx_at rx_table i))) comp_idx_%02d." % k)
        S.append("Lemma comp_rows_%02d_ok :" % k)
        S.append("  forallb (fun p => list_eqb (competitors rx_table (rx_at rx_table (fst p))) (snd p)) comp_rows_%02d = true." % k)
        S.append("Proof. vm_cast_no_check (eq_refl true). Qed.")
        S.append("")
        write_if_changed(os.path.join(GEN, "RegexCompShard_%02d.v" % k), "\n".join(S))
    with open(os.path.join(GEN, "regex_tables.json"), "w") as f:
        json.dump(dict(rows=[dict(index=r["index"], ncap=ncap, names=names, start=r["start"], end=r["end"], regex=r["regex"])
                             for r, node, ncap, names in parsed]), f)
    return changed
