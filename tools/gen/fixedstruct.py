"""Generator: every FixedStructType's (size, offset_tv, size_tv), the byte map of its time
field, the ENTRY_SZ_* / TIMEVAL_SZ_MAX constants and the candidate lists of filesz_to_types
-> coq/Gen/FixedStructTables.v

Sources: (1) the harness binary `c08 layouts`, linked against s4lib compiled from the
current /repo tree: compiled constants + black-box probe of tv_pair_from_buffer;
(2) a scrape of `fn filesz_to_types` in src/data/fixedstruct.rs (which types are tried for a
file size, which get the name bonus)."""
import os, re, json, subprocess, sys
from common import *

HERE = os.path.dirname(os.path.abspath(__file__))
sys.path.insert(0, os.path.dirname(HERE))

KINDS = ["Acct", "AcctV3", "Lastlog", "Lastlogx", "Utmp", "Utmpx"]


def harness_layouts():
    import vlib
    ok, log = vlib.build_harness("c08")
    if not ok:
        raise ScrapeError("harness c08 does not build: " + log[-1500:])
    p = subprocess.run([vlib.harness_bin("c08"), "layouts"], stdout=subprocess.PIPE, stderr=subprocess.PIPE, timeout=60)
    if p.returncode != 0:
        raise ScrapeError("c08 layouts failed: " + p.stderr.decode("utf-8", "replace")[-500:])
    rows, consts = [], None
    for line in p.stdout.decode().splitlines():
        v = line.split("\t")
        if v[0] == "L":
            name, size, off, sztv, probe, fields = v[1], int(v[2]), int(v[3]), int(v[4]), v[5], v[6]
            items, sneg, uneg = probe.split(";")
            items = items.split(",")
            if len(items) != sztv:
                raise ScrapeError("probe length for " + name)
            sec = [(j, int(it[1:])) for j, it in enumerate(items) if it.startswith("s")]
            usec = [(j, int(it[1:])) for j, it in enumerate(items) if it.startswith("u")]
            if any(it not in ("-",) and it[0] not in "su" for it in items):
                raise ScrapeError("probe of %s not understood: %s" % (name, probe))

            def run(lst):
                if not lst:
                    return (0, 0)
                j0 = lst[0][0]
                for n, (j, k) in enumerate(lst):
                    if j != j0 + n or k != n:
                        raise ScrapeError("time field of %s is not contiguous little-endian: %s" % (name, probe))
                return (j0, len(lst))
            so, sl = run(sec)
            uo, ul = run(usec)
            if sl == 0:
                raise ScrapeError("no seconds bytes for " + name)
            rows.append(dict(name=name, size=size, offset_tv=off, size_tv=sztv, sec_off=so, sec_len=sl,
                             sec_signed=(sneg == "sneg=1"), usec_off=uo, usec_len=ul,
                             fields=[dict(zip(("label", "kind", "offset", "size"), f.split(":"))) for f in fields.split(",")]))
        elif v[0] == "C":
            consts = [int(x) for x in v[1:4]]
    if len(rows) < 1 or consts is None:
        raise ScrapeError("c08 layouts printed nothing usable")
    return rows, consts


def scrape_filesz_to_types():
    src = strip_comments(read("src/data/fixedstruct.rs"))
    a = src.find("fn filesz_to_types(")
    if a < 0:
        raise ScrapeError("filesz_to_types not found")
    b = src.index("{", src.index("->", a))
    body = src[b:balanced(src, b)]
    m = re.search(r"match\s+file_type_fixed_struct\s*\{", body)
    if not m:
        raise ScrapeError("match file_type_fixed_struct not found")
    ms = body.index("{", m.end() - 1)
    me = balanced(body, ms)
    match_body, rest = body[ms:me], body[me:]
    guard_re = r"if\s+filesz\s*%%\s*(\w+)::(\w+)_SZ_FO\s*==\s*0\s*\{\s*set\.%s\(\s*FixedStructType::(\w+)\s*%s"
    bonus, guards = [], []
    for k in KINDS:
        mk = re.search(r"FileTypeFixedStruct::%s\s*=>\s*\{" % k, match_body)
        if not mk:
            raise ScrapeError("arm for kind %s not found" % k)
        s0 = match_body.index("{", mk.end() - 1)
        arm = match_body[s0:balanced(match_body, s0)]
        found = re.findall(guard_re % ("insert", r",\s*BONUS\s*\)"), arm)
        if arm.count("set.insert") != len(found):
            raise ScrapeError("arm %s: insert statements of unexpected shape" % k)
        for mod, const, typ in found:
            bonus.append((KINDS.index(k), typ))
            guards.append((mod + "_" + const, typ))
    found = re.findall(guard_re % ("entry", r"\)\s*\.or_insert\(\s*0\s*\)"), rest)
    if rest.count("set.entry") != len(found) or not found:
        raise ScrapeError("try-all section of unexpected shape")
    tryall = []
    for mod, const, typ in found:
        tryall.append(typ)
        guards.append((mod + "_" + const, typ))
    return bonus, tryall, guards



# ----------------------------------------------------------------------------- as_bytes / score_fixedstruct
def harness_fields():
    """`c08 fields`: every field of every struct (path -> kind, offset, size) from the compiled
    structs, the pub constants and tables used by as_bytes / score_fixedstruct"""
    import vlib
    p = subprocess.run([vlib.harness_bin("c08"), "fields"], stdout=subprocess.PIPE, stderr=subprocess.PIPE, timeout=60)
    if p.returncode != 0:
        raise ScrapeError("c08 fields failed: " + p.stderr.decode("utf-8", "replace")[-500:])
    structs, consts, uttypes, utnames, discr = {}, {}, {}, {}, {}
    for line in p.stdout.decode().splitlines():
        v = line.split("\t")
        if v[0] == "F":
            fl = {}
            for f in v[3].split(","):
                path, kind, off, size = f.split(":")
                fl[path] = (kind, int(off), int(size))
            structs[v[1]] = (v[2], fl)
        elif v[0] == "O":
            discr[v[1]] = int(v[2])
        elif v[0] == "K":
            consts[v[1]] = int(v[2])
        elif v[0] == "T":
            uttypes[v[1]] = [int(x) for x in v[2].split(",")]
        elif v[0] == "N":
            utnames[int(v[1])] = v[2]
    if len(structs) < 1 or not utnames:
        raise ScrapeError("c08 fields printed nothing usable")
    names = [utnames[i] for i in range(len(utnames))]
    if set(discr) != set(structs) or len(set(discr.values())) != len(discr):
        raise ScrapeError("c08 fields: enum discriminants missing or not distinct")
    consts["__order__"] = [t for t, _ in sorted(discr.items(), key=lambda kv: kv[1])]
    return structs, consts, uttypes, names


def statements(body):
    """split a block body (without its outer braces) into statements:
    ('let', text) | ('macro', name, [args]) | ('assign', text) | ('if', cond, then_body, else_body or None)"""
    out = []
    i, n = 0, len(body)
    while True:
        while i < n and body[i] in " \t\r\n;":
            i += 1
        if i >= n:
            return out
        m = re.compile(r"let\b").match(body, i)
        if m:
            j = body.index(";", i)
            out.append(("let", body[i:j].strip()))
            i = j + 1
            continue
        m = re.compile(r"if\b").match(body, i)
        if m:
            b = body.index("{", i)
            cond = body[m.end():b].strip()
            e = balanced(body, b)
            then = body[b + 1:e - 1]
            k = e
            while k < n and body[k] in " \t\r\n":
                k += 1
            els = None
            if body.startswith("else", k):
                b2 = body.index("{", k)
                if body[k + 4:b2].strip():
                    raise ScrapeError("else-if not understood: %r" % body[k:k + 60])
                e2 = balanced(body, b2)
                els = body[b2 + 1:e2 - 1]
                e = e2
            out.append(("if", cond, then, els))
            i = e
            continue
        m = re.compile(r"(\w+)!\s*\(").match(body, i)
        if m:
            b = m.end() - 1
            e = balanced(body, b, "(", ")")
            out.append(("macro", m.group(1), split_args(body[b + 1:e - 1])))
            i = e
            continue
        m = re.compile(r"[\w\.]+\s*(?:-=|\+=|=)[^=]").match(body, i)
        if m:
            j = body.index(";", i)
            out.append(("assign", re.sub(r"\s+", " ", body[i:j].strip())))
            i = j + 1
            continue
        raise ScrapeError("statement not understood: %r" % body[i:i + 80])


def split_args(text):
    """split macro arguments at top-level commas (string / char literals and brackets respected)"""
    args, depth, cur, i, n = [], 0, [], 0, len(text)
    while i < n:
        c = text[i]
        if c == '"':
            j = i + 1
            while text[j] != '"':
                j += 2 if text[j] == "\\" else 1
            cur.append(text[i:j + 1])
            i = j + 1
            continue
        if c == "'" and (text.startswith("'\\", i) and text[i + 3:i + 4] == "'"):
            cur.append(text[i:i + 4])
            i += 4
            continue
        if c == "'" and text[i + 2:i + 3] == "'":
            cur.append(text[i:i + 3])
            i += 3
            continue
        if c in "([{":
            depth += 1
        elif c in ")]}":
            depth -= 1
        if c == "," and depth == 0:
            args.append("".join(cur).strip())
            cur = []
        else:
            cur.append(c)
        i += 1
    if "".join(cur).strip():
        args.append("".join(cur).strip())
    return args


def rust_str(lit):
    """bytes of a Rust string literal "..." or byte literal b'.'"""
    m = re.fullmatch(r'"((?:[^"\\]|\\.)*)"', lit)
    if m:
        body = m.group(1)
    else:
        m = re.fullmatch(r"b'((?:[^'\\]|\\.))'", lit)
        if not m:
            raise ScrapeError("literal not understood: %r" % lit)
        body = m.group(1)
    out, i = [], 0
    esc = {"n": 10, "0": 0, "t": 9, "r": 13, "\\": 92, "'": 39, '"': 34}
    while i < len(body):
        if body[i] == "\\":
            if body[i + 1] not in esc:
                raise ScrapeError("escape not understood in %r" % lit)
            out.append(esc[body[i + 1]])
            i += 2
        else:
            out += list(body[i].encode("utf-8"))
            i += 1
    return out


def fn_body(src, header_re, what):
    m = re.search(header_re, src)
    if not m:
        raise ScrapeError(what + " not found")
    b = src.index("{", m.end() - 1)
    return src[b:balanced(src, b)]


def type_arms(fnbody, scrutinee_re):
    """arms `FixedStructType::X => { ... }` of the match on the type inside a function body"""
    m = re.search(scrutinee_re, fnbody)
    if not m:
        raise ScrapeError("match on the fixedstruct type not found")
    b = fnbody.index("{", m.end() - 1)
    e = balanced(fnbody, b)
    body = fnbody[b + 1:e - 1]
    arms, i, n = {}, 0, len(body)
    while True:
        while i < n and body[i] in " \t\r\n,":
            i += 1
        if i >= n:
            break
        m = re.compile(r"FixedStructType::(\w+)\s*=>\s*\{").match(body, i)
        if not m:
            raise ScrapeError("arm not understood: %r" % body[i:i + 60])
        b2 = m.end() - 1
        e2 = balanced(body, b2)
        if m.group(1) in arms:
            raise ScrapeError("two arms for " + m.group(1))
        arms[m.group(1)] = body[b2 + 1:e2 - 1]
        i = e2
    return arms, fnbody[e:]


def cstr_accessors(src):
    """(module, struct, accessor) -> field whose address CStr::from_ptr receives"""
    acc = {}
    for mm in re.finditer(r"pub\s+mod\s+(\w+)\s*\{", src):
        mb = mm.end() - 1
        mod_body = src[mb:balanced(src, mb)]
        for im in re.finditer(r"\bimpl\s+(\w+)\s*\{", mod_body):
            ib = im.end() - 1
            ibody = mod_body[ib:balanced(mod_body, ib)]
            for fm in re.finditer(r"pub\s+fn\s+(\w+)\s*\(\s*&self\s*\)\s*->\s*&CStr\s*\{", ibody):
                fb = fm.end() - 1
                fbody = ibody[fb:balanced(ibody, fb)]
                m = re.fullmatch(r"\{\s*unsafe\s*\{\s*CStr::from_ptr\(\s*self\.(\w+)(?:\[\.\.\w+\])?\.as_ptr\(\)\s*\)\s*\}\s*\}", fbody)
                if not m:
                    raise ScrapeError("CStr accessor %s::%s::%s of unexpected shape" % (mm.group(1), im.group(1), fm.group(1)))
                acc[(mm.group(1), im.group(1), fm.group(1))] = m.group(1)
    return acc


def bind_var(stmts, what):
    """the leading `let v: &module::st = x.as_...();` of an arm -> (var, module, struct)"""
    if not stmts or stmts[0][0] != "let":
        raise ScrapeError(what + ": arm does not start with a let")
    m = re.fullmatch(r"let\s+(\w+)\s*:\s*&(\w+)::(\w+)\s*=\s*\w+\.as_(\w+)\(\)", stmts[0][1])
    if not m or m.group(4) != (m.group(2) + "_" + m.group(3)).lower():
        raise ScrapeError(what + ": binding not understood: " + stmts[0][1])
    return m.group(1), m.group(2), m.group(3)


def field_of(expr, var, fields, what):
    m = re.fullmatch(re.escape(var) + r"\.([\w\.]+)", expr)
    if not m or m.group(1) not in fields:
        raise ScrapeError("%s: field expression %r not among the compiled struct's fields" % (what, expr))
    return (m.group(1),) + fields[m.group(1)]


def scrape_as_bytes(src, structs, consts, utnames):
    body = fn_body(src, r"pub\s+fn\s+as_bytes\s*\(\s*self\s*:\s*&FixedStruct\s*,\s*buffer\s*:\s*&mut\s*\[u8\]\s*\)\s*->\s*InfoAsBytes\s*\{", "fn as_bytes")
    arms, rest = type_arms(body, r"match\s+entry\.fixedstruct_type\(\)\s*\{")
    tail = []
    mend = re.search(r"InfoAsBytes::Ok\(\s*at\s*,\s*dt_beg\s*,\s*dt_end\s*\)\s*\}\s*$", rest)
    if not mend:
        raise ScrapeError("as_bytes does not end with InfoAsBytes::Ok(at, dt_beg, dt_end)")
    for st in statements(rest[:mend.start()]):
        if st[0] == "macro" and st[1] == "set_buffer_at_or_err_u8" and st[2][:2] == ["buffer", "at"]:
            tail += rust_str(st[2][2])
        elif st[0] == "macro" and st[1] in ("debug_assert_le",):
            continue
        elif st[0] == "macro" and st[1] == "Ok" or (st[0] == "assign"):
            raise ScrapeError("as_bytes tail not understood")
        elif st[0] == "macro":
            raise ScrapeError("as_bytes tail: unexpected macro " + st[1])
    progs = {}
    for typ, abody in arms.items():
        if typ not in structs:
            raise ScrapeError("as_bytes arm for unknown type " + typ)
        stname, fields = structs[typ]
        stmts = statements(abody)
        var, mod, st = bind_var(stmts, "as_bytes " + typ)
        if stname != "%s::%s" % (mod, st):
            raise ScrapeError("as_bytes %s binds %s::%s, the harness lists %s" % (typ, mod, st, stname))
        items = []
        dt = {}

        def lit(bs):
            if items and items[-1][0] == "lit":
                items[-1] = ("lit", items[-1][1] + bs)
            else:
                items.append(("lit", list(bs)))
        for sx in stmts[1:]:
            what = "as_bytes %s" % typ
            if sx[0] == "assign":
                m = re.fullmatch(r"(dt_beg|dt_end) = at", sx[1])
                if not m or m.group(1) in dt:
                    raise ScrapeError("%s: assignment not understood: %s" % (what, sx[1]))
                dt[m.group(1)] = len(items)
                items.append(("mark", m.group(1)))
                continue
            if sx[0] == "macro":
                name, a = sx[1], sx[2]
                if a[:2] != ["buffer", "at"]:
                    raise ScrapeError("%s: macro %s without (buffer, at, ..)" % (what, name))
                if name in ("set_buffer_at_or_err_str", "set_buffer_at_or_err_u8") and len(a) == 3:
                    lit(rust_str(a[2]))
                elif name == "set_buffer_at_or_err_cstrn" and len(a) == 3:
                    p, k, off, sz = field_of(a[2], var, fields, what)
                    if k not in ("c", "b"):
                        raise ScrapeError("%s: cstrn of non-array field %s" % (what, p))
                    items.append(("cstr", off, sz, k == "c", p))
                elif name == "set_buffer_at_or_err_number" and len(a) == 4:
                    p, k, off, sz = field_of(a[2], var, fields, what)
                    if k not in ("i", "u") or sz > 8:
                        raise ScrapeError("%s: number of field %s kind %s" % (what, p, k))
                    items.append(("num", off, sz, k == "i", p))
                elif name == "set_buffer_at_or_err_number_f32" and len(a) == 4:
                    p, k, off, sz = field_of(a[2], var, fields, what)
                    if k != "f" or sz != 4:
                        raise ScrapeError("%s: f32 of field %s kind %s" % (what, p, k))
                    items.append(("f32", off, p))
                elif name == "set_buffer_at_or_err_number_bin4" and len(a) == 4:
                    p, k, off, sz = field_of(a[2], var, fields, what)
                    if sz != 1:
                        raise ScrapeError("%s: bin4 of field %s size %d" % (what, p, sz))
                    items.append(("bin4", off, p))
                elif name in ("set_buffer_at_or_err_ut_type_i16", "set_buffer_at_or_err_ut_type_u16") and len(a) == 3:
                    p, k, off, sz = field_of(a[2], var, fields, what)
                    if sz != 2 or (k == "i") != name.endswith("i16"):
                        raise ScrapeError("%s: ut_type macro %s on field %s kind %s size %d" % (what, name, p, k, sz))
                    items.append(("uttype", off, sz, k == "i", p))
                else:
                    raise ScrapeError("%s: macro %s not understood" % (what, name))
                continue
            if sx[0] == "if":
                cond, then, els = sx[1], statements(sx[2]), (statements(sx[3]) if sx[3] is not None else None)
                m = re.fullmatch(re.escape(var) + r"\.(\w+)\s*!=\s*0", cond)
                if m and els is None:
                    # the flag-name list
                    p, k, off, sz = field_of(var + "." + m.group(1), var, fields, what)
                    if sz != 1:
                        raise ScrapeError("%s: flag field %s size %d" % (what, p, sz))
                    opn, names, cls, phase = [], [], [], 0
                    for t in then:
                        if t[0] == "macro" and t[1] == "set_buffer_at_or_err_str" and t[2][:2] == ["buffer", "at"] and len(t[2]) == 3:
                            if phase == 0:
                                opn += rust_str(t[2][2])
                            elif phase == 2:
                                cls += rust_str(t[2][2])
                            else:
                                raise ScrapeError("%s: flag block: literal in the middle" % what)
                        elif t[0] == "if" and t[3] is None:
                            m2 = re.fullmatch(re.escape(var) + r"\." + re.escape(m.group(1)) + r"\s*&\s*(\w+::\w+)\s*!=\s*0", t[1])
                            if m2:
                                if phase > 1 or m2.group(1) not in consts:
                                    raise ScrapeError("%s: flag block: test %s" % (what, t[1]))
                                phase = 1
                                inner = statements(t[2])
                                if len(inner) != 1 or inner[0][0] != "macro" or inner[0][1] != "set_buffer_at_or_err_str":
                                    raise ScrapeError("%s: flag block: body of %s" % (what, t[1]))
                                names.append((consts[m2.group(1)], rust_str(inner[0][2][2])))
                            elif re.fullmatch(r"buffer\[at - 1\]\s*==\s*b'\|'", t[1]):
                                inner = statements(t[2])
                                if inner != [("assign", "at -= 1")] or phase != 1:
                                    raise ScrapeError("%s: flag block: trailing-bar rewrite" % what)
                                phase = 2
                            else:
                                raise ScrapeError("%s: flag block: condition %s" % (what, t[1]))
                        else:
                            raise ScrapeError("%s: flag block: statement %r" % (what, t[:2]))
                    if phase != 2 or any(nm[-1:] != [124] for _, nm in names):
                        raise ScrapeError("%s: flag block incomplete" % what)
                    items.append(("flaglist", off, opn, names, cls, p))
                    continue
                m = re.fullmatch(re.escape(var) + r"\.(\w+)\[1\.\.4\]\.iter\(\)\.all\(\|&x\|\s*x\s*==\s*0\)", cond)
                if m and els is not None:
                    p, k, off, sz = field_of(var + "." + m.group(1), var, fields, what)
                    if k != "a4" or sz != 16:
                        raise ScrapeError("%s: address field %s kind %s size %d" % (what, p, k, sz))

                    def two(block, mac, argre):
                        if (len(block) != 2 or block[0][0] != "macro" or block[0][1] != "set_buffer_at_or_err_str"
                                or block[1][0] != "macro" or block[1][1] != mac
                                or not re.fullmatch(argre, block[1][2][2])):
                            raise ScrapeError("%s: address block not understood" % what)
                        return rust_str(block[0][2][2])
                    l4 = two(then, "set_buffer_at_or_err_ipv4", re.escape(var + "." + m.group(1)) + r"\[0\]")
                    l6 = two(els, "set_buffer_at_or_err_ipv6", re.escape(var + "." + m.group(1)))
                    items.append(("addr", off, l4, l6, p))
                    continue
                raise ScrapeError("%s: if (%s) not understood" % (what, cond))
            raise ScrapeError("%s: statement %r not understood" % (what, sx[:2]))
        if set(dt) != {"dt_beg", "dt_end"} or dt["dt_beg"] > dt["dt_end"]:
            raise ScrapeError("as_bytes %s: dt_beg/dt_end marks" % typ)
        progs[typ] = items
    return progs, tail


SCORE_MACROS = {
    "score_fixedstruct_cstr": "cstr", "score_fixedstruct_cstr_no_data_after_null": "nodata",
    "score_fixedstruct_cstr_null_terminator": "nullterm", "score_fixedstruct_buffer_all_null": "allnull",
    "score_fixedstruct_value_not_zero": "notzero", "score_fixedstruct_ut_type": "uttype",
    "score_fixedstruct_ac_flags": "acflags", "score_fixedstruct_time_range": "time",
}


def scrape_score(src, structs, consts, uttypes):
    body = fn_body(src, r"pub\s+fn\s+score_fixedstruct\s*\(\s*fixedstructptr\s*:\s*&FixedStructDynPtr\s*,\s*bonus\s*:\s*Score\s*\)\s*->\s*Score\s*\{", "fn score_fixedstruct")
    head = body[:re.search(r"match\s+fixedstructptr\.fixedstruct_type\(\)\s*\{", body).start()]
    if not re.search(r"let\s+mut\s+score\s*:\s*Score\s*=\s*0\s*;", head) or not re.search(r"if\s+bonus\s*>\s*0\s*\{\s*score\s*\+=\s*bonus\s*;", re.sub(r"def\w+!\([^;]*;", "", head)):
        raise ScrapeError("score_fixedstruct prologue (score = 0; if bonus > 0 { score += bonus }) not found")
    arms, rest = type_arms(body, r"match\s+fixedstructptr\.fixedstruct_type\(\)\s*\{")
    if not re.fullmatch(r"\s*(?:def\w+!\([^;]*;\s*)*score\s*\}\s*", rest):
        raise ScrapeError("score_fixedstruct does not end with `score`")
    acc = cstr_accessors(src)
    low = re.search(r"const\s+EPOCH_SECOND_LOW\s*:\s*tv_sec_type\s*=\s*(\d+)\s*;", src)
    high = re.search(r"const\s+EPOCH_SECOND_HIGH\s*:\s*tv_sec_type\s*=\s*(\d+)\s*;", src)
    if not low or not high:
        raise ScrapeError("EPOCH_SECOND_LOW/HIGH not found")
    low, high = int(low.group(1)), int(high.group(1))
    progs = {}
    for typ, abody in arms.items():
        if typ not in structs:
            raise ScrapeError("score arm for unknown type " + typ)
        stname, fields = structs[typ]
        stmts = statements(abody)
        var, mod, st = bind_var(stmts, "score " + typ)
        if stname != "%s::%s" % (mod, st):
            raise ScrapeError("score %s binds %s::%s, the harness lists %s" % (typ, mod, st, stname))
        items = []
        for sx in stmts[1:]:
            what = "score %s" % typ
            if sx[0] != "macro" or sx[1] not in SCORE_MACROS or sx[2][0] != "score":
                raise ScrapeError("%s: statement %r not understood" % (what, sx[:2]))
            k, a = SCORE_MACROS[sx[1]], sx[2]
            if k == "cstr":
                m = re.fullmatch(re.escape(var) + r"\.(\w+)\(\)", a[1])
                if not m or (mod, st, m.group(1)) not in acc:
                    raise ScrapeError("%s: CStr accessor %s" % (what, a[1]))
                p, kind, off, sz = field_of(var + "." + acc[(mod, st, m.group(1))], var, fields, what)
                items.append(("cstr", off, p))
            elif k in ("nodata", "nullterm", "allnull"):
                p, kind, off, sz = field_of(a[1], var, fields, what)
                if kind not in ("c", "b") or sz < 1:
                    raise ScrapeError("%s: %s of non-array field %s" % (what, k, p))
                items.append((k, off, sz, p))
            elif k == "notzero":
                p, kind, off, sz = field_of(a[1], var, fields, what)
                items.append((k, off, sz, p))
            elif k == "uttype":
                p, kind, off, sz = field_of(a[1], var, fields, what)
                m = re.fullmatch(r"(\w+)::UT_TYPES", a[2])
                if not m or m.group(1) not in uttypes or kind not in ("i", "u"):
                    raise ScrapeError("%s: ut_type table %s" % (what, a[2]))
                items.append((k, off, sz, kind == "i", uttypes[m.group(1)], p))
            elif k == "acflags":
                p, kind, off, sz = field_of(a[1], var, fields, what)
                if a[2] not in consts or sz != 1:
                    raise ScrapeError("%s: flag mask %s" % (what, a[2]))
                items.append((k, off, consts[a[2]], p))
            elif k == "time":
                p, kind, off, sz = field_of(a[1], var, fields, what)
                if kind not in ("i", "u") or sz > 8 or (kind == "u" and sz == 8):
                    raise ScrapeError("%s: time field %s kind %s size %d" % (what, p, kind, sz))
                items.append((k, off, sz, kind == "i", low, high, p))
        progs[typ] = items
    return progs


# the bodies of these macros / functions are transcribed by hand into Model/RecordRender.v and
# Model/LayoutDetect.v (and tied by the correspondence run); a change of their text must be noticed
HAND_TRANSCRIBED = [
    "set_buffer_at_or_err_u8", "set_buffer_at_or_err_i8", "set_buffer_at_or_err_u8_array", "set_buffer_at_or_err_str",
    "set_buffer_at_or_err_string", "set_buffer_at_or_err_cstrn", "set_buffer_at_or_err_ut_type",
    "set_buffer_at_or_err_ut_type_i16", "set_buffer_at_or_err_ut_type_u16", "set_buffer_at_or_err_number",
    "set_buffer_at_or_err_number_f32", "set_buffer_at_or_err_number_bin4", "set_buffer_at_or_err_ipv4",
    "set_buffer_at_or_err_ipv6", "score_fixedstruct_cstr", "score_fixedstruct_cstr_no_data_after_null",
    "score_fixedstruct_cstr_null_terminator", "score_fixedstruct_buffer_all_null", "score_fixedstruct_value_not_zero",
    "score_fixedstruct_ut_type", "score_fixedstruct_ac_flags", "score_fixedstruct_time_range",
]
FROZEN_FINGERPRINT = "9d746bfec833af83f3f7e41acd542f2a"


def transcribed_fingerprint(src, src_reader):
    import hashlib
    h = hashlib.sha256()
    for name in HAND_TRANSCRIBED:
        m = re.search(r"macro_rules!\s+%s\s*\{" % name, src)
        if not m:
            raise ScrapeError("macro %s not found" % name)
        b = m.end() - 1
        text = src[b:balanced(src, b)]
        text = re.sub(r"def\w+!\s*\((?:[^()]|\([^()]*\))*\)\s*;", "", text)      # debug traces
        h.update(re.sub(r"\s+", "", text).encode())
    sf = fn_body(src_reader, r"pub\s+fn\s+score_file\s*\(", "fn score_file")
    sf = re.sub(r"def\w+!\s*\((?:[^()]|\([^()]*\))*\)\s*;", "", sf)
    sf = re.sub(r"#\[cfg\(debug_assertions\)\]\s*\{(?:[^{}]|\{(?:[^{}]|\{[^{}]*\})*\})*\}", "", sf)
    h.update(re.sub(r"\s+", "", sf).encode())
    b2f = fn_body(src, r"pub\s+fn\s+buffer_to_fixedstructptr\s*\(", "fn buffer_to_fixedstructptr")
    b2f = b2f[:b2f.index("let entry: FixedStructDynPtr")] if "let entry: FixedStructDynPtr" in b2f else b2f
    b2f = re.sub(r"def\w+!\s*\((?:[^()]|\([^()]*\))*\)\s*;", "", b2f)
    h.update(re.sub(r"\s+", "", b2f).encode())
    return h.hexdigest()[:32]


def scrape_candidate_order(src_reader):
    """score_file must sort the candidates by `*fixedstructtype as usize` before its loop (fix commit
    a9566a30); without that statement the order is that of a HashMap: unspecified"""
    sf = fn_body(src_reader, r"pub\s+fn\s+score_file\s*\(", "fn score_file")
    m = re.search(r"let\s+mut\s+types_to_bonus\s*:\s*Vec<\(FixedStructType,\s*Score\)>\s*=\s*types_to_bonus\.into_iter\(\)\.collect\(\)\s*;\s*"
                  r"types_to_bonus\.sort_by_key\(\|\(fixedstructtype,\s*_bonus\)\|\s*\*fixedstructtype\s+as\s+usize\)\s*;", sf)
    loop = re.search(r"for\s*\(fixedstructtype,\s*bonus\)\s*in\s*types_to_bonus\.into_iter\(\)", sf)
    if not loop:
        raise ScrapeError("score_file: the loop over types_to_bonus not found")
    return bool(m and m.end() <= loop.start())


def scrape_score_file_consts(src, src_reader):
    m = re.search(r"const\s+BONUS\s*:\s*Score\s*=\s*(\d+)\s*;", fn_body(src, r"fn\s+filesz_to_types\s*\(", "fn filesz_to_types"))
    if not m:
        raise ScrapeError("BONUS not found in filesz_to_types")
    sf = fn_body(src_reader, r"pub\s+fn\s+score_file\s*\(", "fn score_file")
    m2 = re.search(r"#\[cfg\(not\(test\)\)\]\s*const\s+COUNT_FOUND_ENTRIES_MAX\s*:\s*usize\s*=\s*(\d+)\s*;", sf)
    if not m2:
        raise ScrapeError("COUNT_FOUND_ENTRIES_MAX (cfg(not(test))) not found in score_file")
    return int(m.group(1)), int(m2.group(1))


def cbytes(bs):
    if bs and all(0x20 <= b <= 0x7E and b != 0x22 for b in bs):
        return '(s2b "%s")' % bytes(bs).decode()
    return "[%s]" % "; ".join(str(b) for b in bs)


def cbool(b):
    return "true" if b else "false"


def coq_ritem(it, utnames):
    k = it[0]
    if k == "lit":
        return "RLit %s" % cbytes(it[1])
    if k == "cstr":
        return "RCstr %d %d %s" % (it[1], it[2], cbool(it[3]))
    if k == "num":
        return "RNum %d %d %s" % (it[1], it[2], cbool(it[3]))
    if k == "uttype":
        return "RUtType %d %d %s ut_type_names" % (it[1], it[2], cbool(it[3]))
    if k == "bin4":
        return "RBin4 %d" % it[1]
    if k == "flaglist":
        return "RFlagList %d %s [%s] %s" % (it[1], cbytes(it[2]), "; ".join("(%d, %s)" % (m, cbytes(n)) for m, n in it[3]), cbytes(it[4]))
    if k == "f32":
        return "RF32 %d" % it[1]
    if k == "addr":
        return "RAddr %d %s %s" % (it[1], cbytes(it[2]), cbytes(it[3]))
    raise ScrapeError("item kind " + k)


def coq_sitem(it):
    k = it[0]
    if k == "cstr":
        return "SCstr %d" % it[1]
    if k == "nodata":
        return "SNoDataAfterNull %d %d" % (it[1], it[2])
    if k == "nullterm":
        return "SNullTerm %d %d" % (it[1], it[2])
    if k == "allnull":
        return "SAllNull %d %d" % (it[1], it[2])
    if k == "notzero":
        return "SValueNotZero %d %d" % (it[1], it[2])
    if k == "uttype":
        return "SUtType %d %d %s ([%s])%%Z" % (it[1], it[2], cbool(it[3]), "; ".join("%d" % v for v in it[4]))
    if k == "acflags":
        return "SAcFlags %d %d" % (it[1], it[2])
    if k == "time":
        return "STimeRange %d %d %s %d %d" % (it[1], it[2], cbool(it[3]), it[4], it[5])
    raise ScrapeError("score item kind " + k)


def cs(s):
    if not re.fullmatch(r"[A-Za-z0-9_]+", s):
        raise ScrapeError("unexpected identifier %r" % s)
    return '(s2b "%s")' % s


def generate():
    rows, consts = harness_layouts()
    bonus, tryall, guards = scrape_filesz_to_types()
    structs, kconsts, uttypes, utnames = harness_fields()
    szfo = {}
    for g, _ in guards:
        key = None
        for k in kconsts:
            if k.endswith("_SZ_FO") and (k.replace("::", "_")[:-len("_SZ_FO")] == g):
                key = k
        if key is None:
            raise ScrapeError("the harness does not print the constant of guard " + g)
        szfo[g] = kconsts[key]
    src = strip_comments(read("src/data/fixedstruct.rs"))
    src_reader = strip_comments(read("src/readers/fixedstructreader.rs"))
    rprogs, rtail = scrape_as_bytes(src, structs, kconsts, utnames)
    sprogs = scrape_score(src, structs, kconsts, uttypes)
    bonus_val, count_max = scrape_score_file_consts(src, src_reader)
    order_fixed = scrape_candidate_order(src_reader)
    order = kconsts["__order__"]
    m = re.search(r"let\s+mut\s+buffer_utmp\s*:\s*\[u8;\s*ENTRY_SZ_MAX\s*\*\s*(\d+)\s*\]", strip_comments(read("src/bin/s4.rs")))
    if not m:
        raise ScrapeError("the print buffer `buffer_utmp: [u8; ENTRY_SZ_MAX * k]` not found in src/bin/s4.rs")
    print_cap = int(m.group(1)) * consts[1]
    fp = transcribed_fingerprint(src, src_reader)
    if fp != FROZEN_FINGERPRINT:
        raise ScrapeError("the text of the hand-transcribed macros / score_file / buffer_to_fixedstructptr changed "
                          "(fingerprint %s, frozen %s): re-read them against Model/RecordRender.v and Model/LayoutDetect.v" % (fp, FROZEN_FINGERPRINT))
    names = [r["name"] for r in rows]
    if set(rprogs) != set(names) or set(sprogs) != set(names):
        raise ScrapeError("as_bytes / score_fixedstruct arms do not cover exactly the FixedStructType variants")
    L = []
    L.append("(* GENERATED by tools/gen/fixedstruct.py from the compiled constants of s4lib (harness `c08 layouts`, `c08 fields`),")
    L.append("   from fn filesz_to_types, fn as_bytes and fn score_fixedstruct in src/data/fixedstruct.rs and from")
    L.append("   fn score_file in src/readers/fixedstructreader.rs — do not edit. *)")
    L.append("From Coq Require Import String List NArith ZArith.\nImport ListNotations.")
    L.append("From S4.Base Require Import Bytes.\nFrom S4.Model Require Import Records RecordRender LayoutDetect.")
    L.append("Open Scope string_scope.\nOpen Scope N_scope.")
    L.append("(* mklayout name size offset_tv size_tv sec_off sec_len sec_signed usec_off usec_len *)")
    L.append("Definition fixedstruct_layouts : list layout := [")
    L.append(";\n".join("  mklayout %s %d %d %d %d %d %s %d %d" % (cs(r["name"]), r["size"], r["offset_tv"], r["size_tv"],
                        r["sec_off"], r["sec_len"], "true" if r["sec_signed"] else "false", r["usec_off"], r["usec_len"]) for r in rows))
    L.append("].")
    L.append("Definition entry_sz_min : N := %d.\nDefinition entry_sz_max : N := %d.\nDefinition timeval_sz_max : N := %d." % tuple(consts))
    L.append("(* filesz_to_types: (kind, type) pairs that receive the name bonus; kinds: %s *)" % ", ".join("%d=%s" % (i, k) for i, k in enumerate(KINDS)))
    L.append("Definition filesz_bonus : list (N * bytes) := [")
    L.append(";\n".join("  (%d, %s)" % (k, cs(t)) for k, t in bonus))
    L.append("].")
    L.append("(* filesz_to_types: types tried for every name when their size divides the file size *)")
    L.append("Definition filesz_try_all : list bytes := [")
    L.append(";\n".join("  %s" % cs(t) for t in tryall))
    L.append("].")
    L.append("(* (module_CONST of the `filesz %% module::CONST_SZ_FO == 0` guard, type inserted under it) *)")
    L.append("Definition filesz_guards : list (bytes * bytes) := [")
    L.append(";\n".join("  (%s, %s)" % (cs(g), cs(t)) for g, t in guards))
    L.append("].")
    L.append("(* filesz_to_types: const BONUS; score_file: COUNT_FOUND_ENTRIES_MAX (cfg(not(test))) *)")
    L.append("Definition score_bonus : Z := %d.\nDefinition count_found_entries_max : nat := %d." % (bonus_val, count_max))
    L.append("(* src/bin/s4.rs: the buffer as_bytes writes into, `buffer_utmp: [u8; ENTRY_SZ_MAX * k]` *)")
    L.append("Definition print_buffer_cap : nat := %d." % print_cap)
    L.append("(* the `module::NAME_SZ_FO` constants of the filesz_to_types guards, as compiled *)")
    L.append("Definition filesz_guard_consts : list (bytes * N) := [")
    L.append(";\n".join("  (%s, %d)" % (cs(g), szfo[g]) for g in sorted(set(g for g, _ in guards))))
    L.append("].")
    L.append("(* score_file: are the candidates sorted by `*fixedstructtype as usize` before the loop (true), or met in the")
    L.append("   order of a HashMap (false)?  and the types in ascending discriminant order (compiled enum) *)")
    L.append("Definition score_file_order_fixed : bool := %s." % cbool(order_fixed))
    L.append("Definition candidate_order : list bytes := [%s]." % "; ".join(cs(t) for t in order))
    L.append("(* UT_TYPE_VAL_TO_STR *)")
    L.append("Definition ut_type_names : list bytes := [%s]." % "; ".join(cs(n) for n in utnames))
    L.append("(* fn as_bytes: per type, the sequence of writes (field offsets, sizes and signedness from the compiled structs) *)")
    L.append("Definition as_bytes_tail : bytes := %s." % cbytes(rtail))
    L.append("Definition fixedstruct_render : list (bytes * list ritem) := [")
    L.append(";\n".join("  (%s, [\n%s])" % (cs(n), ";\n".join("     %s" % coq_ritem(it, utnames) for it in rprogs[n] if it[0] != "mark")) for n in names))
    L.append("].")
    L.append("(* fn score_fixedstruct: per type, the sequence of scoring macros *)")
    L.append("Definition fixedstruct_score : list (bytes * list sitem) := [")
    L.append(";\n".join("  (%s, [\n%s])" % (cs(n), ";\n".join("     %s" % coq_sitem(it) for it in sprogs[n])) for n in names))
    L.append("].")
    L.append("")
    changed = write_if_changed(os.path.join(GEN, "FixedStructTables.v"), "\n".join(L))
    with open(os.path.join(GEN, "fixedstruct_tables.json"), "w") as f:
        json.dump(dict(layouts=rows, consts=consts, bonus=bonus, try_all=tryall, guards=guards,
                       print_buffer_cap=print_cap, guard_consts=szfo, order_fixed=order_fixed, candidate_order=order, score_bonus=bonus_val, count_found_entries_max=count_max, ut_type_names=utnames,
                       as_bytes_tail=rtail, render={n: [list(it) for it in rprogs[n]] for n in names},
                       score={n: [list(it) for it in sprogs[n]] for n in names},
                       structs={n: dict(struct=structs[n][0], fields={p: list(v) for p, v in structs[n][1].items()}) for n in names}), f)
    return changed
