"""Generator that generates nothing: named by properties whose Coq development has no
regenerated table (so that their proof stage does not run every other generator)."""


def generate():
    return False
