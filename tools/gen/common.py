"""Translator: regenerate coq/Gen/*.v from the *current* /repo working tree.

Each generator scrapes the Rust source (tolerant of reformatting, intolerant of
structure it does not understand: it raises, and the check then reports the
obligation as broken) and writes definitions only.  A file is rewritten only
when its content changes, so `make` re-checks the dependent theorems exactly
when the tables changed.
"""
import os, re, sys, json

REPO = os.environ.get("S4_REPO", "/repo")
GEN = os.path.join(os.path.dirname(os.path.dirname(os.path.dirname(os.path.abspath(__file__)))), "coq", "Gen")


class ScrapeError(Exception):
    pass


def read(rel):
    with open(os.path.join(REPO, rel), encoding="utf-8") as f:
        return f.read()


def write_if_changed(path, text):
    old = None
    if os.path.exists(path):
        with open(path, encoding="utf-8") as f:
            old = f.read()
    if old != text:
        os.makedirs(os.path.dirname(path), exist_ok=True)
        with open(path, "w", encoding="utf-8") as f:
            f.write(text)
        return True
    return False


def strip_comments(src):
    # remove // comments and /* */ comments, keep string literals intact
    out = []
    i = 0
    n = len(src)
    while i < n:
        c = src[i]
        if c == '"':
            j = i + 1
            while j < n and src[j] != '"':
                j += 2 if src[j] == "\\" else 1
            out.append(src[i:j + 1])
            i = j + 1
        elif src.startswith("//", i):
            j = src.find("\n", i)
            i = n if j < 0 else j
        elif src.startswith("/*", i):
            j = src.find("*/", i)
            i = n if j < 0 else j + 2
        elif c == "'" and i + 2 < n and (src[i + 2] == "'" or (src[i + 1] == "\\" and i + 3 < n and src[i + 3] == "'")):
            j = i + (3 if src[i + 2] == "'" else 4)
            out.append(src[i:j])
            i = j
        else:
            out.append(c)
            i += 1
    return "".join(out)


def balanced(src, i, open_c="{", close_c="}"):
    """src[i] == open_c; return index just after the matching close."""
    assert src[i] == open_c
    depth = 0
    n = len(src)
    while i < n:
        c = src[i]
        if c == '"':
            j = i + 1
            while j < n and src[j] != '"':
                j += 2 if src[j] == "\\" else 1
            i = j + 1
            continue
        if c == open_c:
            depth += 1
        elif c == close_c:
            depth -= 1
            if depth == 0:
                return i + 1
        i += 1
    raise ScrapeError("unbalanced braces")


def match_arms(src, header_re):
    """Return [(patterns:[str] or None for '_', body:str)] of `match X {`."""
    m = re.search(header_re, src)
    if not m:
        raise ScrapeError("match header not found: " + header_re)
    start = src.index("{", m.end() - 1)
    end = balanced(src, start)
    body = src[start + 1:end - 1]
    arms = []
    i = 0
    n = len(body)
    while True:
        while i < n and body[i] in " \t\r\n,":
            i += 1
        if i >= n:
            break
        j = body.find("=>", i)
        if j < 0:
            raise ScrapeError("arm without =>")
        pat = body[i:j].strip()
        k = j + 2
        while body[k] in " \t\r\n":
            k += 1
        if body[k] == "{":
            e = balanced(body, k)
            arm_body = body[k:e]
        else:
            e = body.find(",", k)
            if e < 0:
                e = n
            arm_body = body[k:e]
        if pat == "_":
            arms.append((None, arm_body))
        else:
            lits = re.findall(r'"((?:[^"\\]|\\.)*)"', pat)
            rest = re.sub(r'"((?:[^"\\]|\\.)*)"', "", pat).replace("|", "").strip()
            if rest or not lits:
                raise ScrapeError("arm pattern not a list of string literals: %r" % pat)
            arms.append((lits, arm_body))
        i = e
    return arms


