"""Generator: classifier word tables and junk sets -> coq/Gen/ClassifyTables.v"""
import os, re, json
from common import *

FTA = ["Normal", "Bz2", "Gz", "Lz4", "Tar", "Xz"]
FIXED = ["Acct", "AcctV3", "Lastlog", "Lastlogx", "Utmp", "Utmpx"]


def classify_action(body, for_suffix):
    # string literals (trace messages) must not influence the reading of an arm
    b = re.sub(r'"((?:[^"\\]|\\.)*)"', '""', body)
    if "pathbuf_to_filetype_impl" in b:
        m = re.search(r"Some\(\s*FileTypeArchive::(\w+)\s*\)", b)
        if not m or m.group(1) not in FTA:
            raise ScrapeError("recursive arm without a literal container: %r" % b[:200])
        return "SCompress " + m.group(1)
    if "PathToFiletypeResult::Archive" in b:
        if "FileTypeArchiveMultiple::Tar" not in b:
            raise ScrapeError("archive arm not Tar")
        return "STar"
    kinds = []
    if re.search(r"FileType::Evtx\b", b):
        kinds.append("SEvtx")
    if re.search(r"FileType::Journal\b", b):
        kinds.append("SJournal")
    if re.search(r"FileType::Text\b", b):
        kinds.append("SText")
    m = re.search(r"FileTypeFixedStruct::(\w+)", b)
    if re.search(r"FileType::FixedStruct\b", b):
        if not m or m.group(1) not in FIXED:
            raise ScrapeError("FixedStruct arm without known kind")
        kinds.append("(SFixed %s)" % m.group(1))
    if "RET_FALLBACK_UNPARSABLE" in b or "RET_FALLBACK_TEXT" in b:
        if not ("RET_FALLBACK_UNPARSABLE" in b and "RET_FALLBACK_TEXT" in b and "unparseable_are_text" in b):
            raise ScrapeError("fallback arm of unexpected shape")
        kinds.append("SUnparsable")
    if len(kinds) != 1:
        raise ScrapeError("arm with %d recognised results: %r" % (len(kinds), b[:200]))
    k = kinds[0]
    if "archival_type" in b and not re.search(r"archival_type:\s*fta\b", b):
        raise ScrapeError("arm does not pass the container through: %r" % b[:200])
    if not for_suffix:
        tr = {"SText": "NText", "SJournal": "NJournal"}
        if k in tr:
            return tr[k]
        if k.startswith("(SFixed"):
            return k.replace("SFixed", "NFixed")
        raise ScrapeError("whole-name arm with result %s" % k)
    return k


def char_list(src, name):
    m = re.search(r"const\s+%s\s*:\s*&\[char\]\s*=\s*&\[([^\]]*)\]" % name, src)
    if not m:
        raise ScrapeError(name + " not found")
    chars = re.findall(r"'(\\.|[^'])'", m.group(1))
    if not chars:
        raise ScrapeError(name + " empty")
    out = []
    for c in chars:
        if len(c) != 1 or ord(c) > 127:
            raise ScrapeError("non-ASCII or escaped junk char %r" % c)
        out.append(ord(c))
    return out


def coq_str(s):
    for ch in s:
        if ord(ch) > 126 or ord(ch) < 32 or ch == '"' or ch == "\\":
            raise ScrapeError("word with unsupported character: %r" % s)
    return '"%s"' % s


def scrape_classify():
    src = strip_comments(read("src/readers/filepreprocessor.rs"))
    a = src.find("fn pathbuf_to_filetype_impl(")
    b = src.find("pub fn pathbuf_to_filetype(")
    if a < 0 or b < 0 or b < a:
        raise ScrapeError("pathbuf_to_filetype_impl not found")
    fn = src[a:b]
    sfx = match_arms(fn, r"match\s+file_suffix\.as_str\(\)\s*\{")
    nam = match_arms(fn, r"match\s+file_name_s\s*\{")
    sfx_rows, nam_rows = [], []
    for pats, body in sfx:
        if pats is None:
            continue
        act = classify_action(body, True)
        for w in pats:
            sfx_rows.append((w, act))
    for pats, body in nam:
        if pats is None:
            continue
        act = classify_action(body, False)
        for w in pats:
            nam_rows.append((w, act))
    junk = char_list(fn, "JUNK_CHARS")
    junk_lead = char_list(fn, "JUNK_CHARS_LEAD")
    return {"sfx": sfx_rows, "name": nam_rows, "junk": junk, "junk_lead": junk_lead}


def probe_classify():
    """Word tables by PROBING the compiled classifier (robust against restructuring of the match
    statements): every lower-case alphanumeric string literal of filepreprocessor.rs is a candidate
    word w; path_to_filetype is asked (walked mode) about `zq9.<w>`, `syslog.<w>` and `<w>`, and the
    answers determine w's action as a suffix and as a whole name:
        zq9.w -> Evtx/Journal/Text/FixedStruct k/Archive Tar : that suffix action
        zq9.w -> Unparsable and syslog.w -> Text in container X != Normal : SCompress X
        zq9.w -> Unparsable and syslog.w -> Unparsable               : SUnparsable (known non-log suffix)
        zq9.w -> Unparsable and syslog.w -> Text/Normal              : not a suffix word (skipped component)
        w     -> Text/Journal/FixedStruct k (Normal)                 : that whole-name action
    (that this reading of the answers is right is what the model-vs-code correspondence of C16 checks
    on thousands of names; a wrong table cannot go unnoticed there)."""
    import sys
    sys.path.insert(0, os.path.dirname(os.path.dirname(os.path.abspath(__file__))))
    import vlib
    src = strip_comments(read("src/readers/filepreprocessor.rs"))
    cands = sorted(set(w.lower() for w in re.findall(r'"([A-Za-z0-9]{1,16})"', src)))
    if len(cands) < 20:
        raise ScrapeError("too few candidate words in filepreprocessor.rs: %d" % len(cands))
    ok, log = vlib.build_harness("c16")
    if not ok:
        raise ScrapeError("harness c16 does not build: " + log[-500:])
    hx = lambda b: b.encode().hex()
    lines = []
    for w in cands:
        lines += ["%s\t0" % hx("wtmp." + w), "%s\t0" % hx("lastlog." + w), "%s\t0" % hx(w)]
    out, err = vlib.harness("c16", lines)
    if out is None or len(out) != len(lines) or not all(o.isdigit() for o in out):
        raise ScrapeError("probe run failed: " + (err or "")[-300:])
    FTAN = {0: "Normal", 1: "Bz2", 2: "Gz", 3: "Lz4", 4: "Tar", 5: "Xz"}
    FIXN = {0: "Acct", 1: "AcctV3", 2: "Lastlog", 3: "Lastlogx", 4: "Utmp", 5: "Utmpx"}

    def sfx_act(code, skipped):
        """action shown by <stem>.<w>; `skipped` = what the stem alone classifies to"""
        if code == skipped:
            return "skip"
        if code == 100:
            return "SEvtx"
        if code == 300:
            return "SJournal"
        if code == 400:
            return "SText"
        if code == 500:
            return "SUnparsable"
        if code == 600:
            return "STar"
        if 200 <= code < 300 and code % 10 == 0:
            return "(SFixed %s)" % FIXN[(code - 200) // 10]
        if code - skipped in (1, 2, 3, 5):
            return "SCompress " + FTAN[code - skipped]
        raise ScrapeError("probe: unexpected answer %d (stem alone gives %d)" % (code, skipped))

    sfx_rows, nam_rows = [], []
    for k, w in enumerate(cands):
        d, e, c = (int(out[3 * k]), int(out[3 * k + 1]), int(out[3 * k + 2]))
        ad, ae = sfx_act(d, 240), sfx_act(e, 220)
        if ad == "skip" and ae == "skip":
            act = None
        elif ad == "skip":            # a suffix word whose own action is what `wtmp` alone gives
            act = ae
        elif ae == "skip":
            act = ad
        elif ad == ae:
            act = ad
        else:
            raise ScrapeError("probe: word %r: wtmp.w -> %d, lastlog.w -> %d" % (w, d, e))
        if act:
            sfx_rows.append((w, act))
        if c == 300:
            nam_rows.append((w, "NJournal"))
        elif 200 <= c < 300 and c % 10 == 0:
            nam_rows.append((w, "(NFixed %s)" % FIXN[(c - 200) // 10]))
        elif c not in (400, 500, 600):
            raise ScrapeError("probe: whole name %r -> %d" % (w, c))
    # whole-name words that mean "text" are NOT observable (an unknown name is text as well): they are
    # taken from the `match file_name_s` statement when it can be read, and left out otherwise
    try:
        ntext = [w for w, a in scrape_classify()["name"] if a == "NText"]
    except ScrapeError:
        ntext = []
    nam_rows = [(w, "NText") for w in ntext if w not in dict(nam_rows)] + nam_rows
    fn_a = src.find("fn pathbuf_to_filetype_impl(")
    junk = char_list(src[fn_a:] if fn_a >= 0 else src, "JUNK_CHARS")
    junk_lead = char_list(src[fn_a:] if fn_a >= 0 else src, "JUNK_CHARS_LEAD")
    return {"sfx": sfx_rows, "name": nam_rows, "junk": junk, "junk_lead": junk_lead, "candidates": len(cands)}


def generate():
    t = probe_classify()
    try:
        ts = scrape_classify()
        t["scrape_agrees"] = (sorted(map(tuple, ts["sfx"])) == sorted(t["sfx"]) and sorted(map(tuple, ts["name"])) == sorted(t["name"])
                              and ts["junk"] == t["junk"] and ts["junk_lead"] == t["junk_lead"])
    except ScrapeError as e:
        t["scrape_agrees"] = "scrape failed: %s" % e
    lines = []
    lines.append("(* GENERATED by tools/gen_tables.py (tools/gen/classify.py) by probing the compiled path_to_filetype with the string literals of src/readers/filepreprocessor.rs — do not edit. *)")
    lines.append("From S4.Base Require Import Bytes.\nFrom S4.Model Require Import Classify.")
    lines.append("From Coq Require Import String.")
    lines.append("Open Scope string_scope.")
    lines.append("Definition sfx_table : list (bytes * sfx_action) := [")
    lines.append(";\n".join("  (s2b %s, %s)" % (coq_str(w), a) for w, a in t["sfx"]))
    lines.append("].")
    lines.append("Definition name_table : list (bytes * name_action) := [")
    lines.append(";\n".join("  (s2b %s, %s)" % (coq_str(w), a) for w, a in t["name"]))
    lines.append("].")
    lines.append("Definition junk : list N := [%s]%%N." % "; ".join(str(c) for c in t["junk"]))
    lines.append("Definition junk_lead : list N := [%s]%%N." % "; ".join(str(c) for c in t["junk_lead"]))
    lines.append("")
    changed = write_if_changed(os.path.join(GEN, "ClassifyTables.v"), "\n".join(lines))
    with open(os.path.join(GEN, "classify_tables.json"), "w") as f:
        json.dump(t, f)
    return changed


