#!/usr/bin/env python3
"""usage: tools/seed_confirm_import.py <seed_confirm log> ...  -> tools/seed_confirm.json"""
import json, os, re, sys
ROOT = os.path.dirname(os.path.dirname(os.path.abspath(__file__)))
P = os.path.join(ROOT, "tools", "seed_confirm.json")
db = json.load(open(P)) if os.path.exists(P) else {}
for log in sys.argv[1:]:
    for line in open(log, errors="replace"):
        m = re.match(r"(C\d\d-m\d+) suite: passed=(\d+) failed=(\d+) baseline=(\d+) baseline-not-passing=(\d+)(?: \| demo\(with change\)=exit(\d+) demo\(without\)=exit(\d+))?", line)
        if not m:
            continue
        sid = m.group(1)
        e = dict(suite_passed=int(m.group(2)), suite_failed=int(m.group(3)), baseline_stable_pass=int(m.group(4)),
                 baseline_tests_not_passing=int(m.group(5)))
        if m.group(6) is not None:
            e["demo_exit_with_change"] = int(m.group(6)); e["demo_exit_without_change"] = int(m.group(7))
        e["status"] = ("confirmed" if e["baseline_tests_not_passing"] == 0 and e.get("demo_exit_with_change", 0) != 0
                       and e.get("demo_exit_without_change", 1) == 0 else "not-confirmed")
        db[sid] = e
json.dump(db, open(P, "w"), indent=1, sort_keys=True)
print({k: v["status"] for k, v in db.items()})
