#!/bin/sh
# usage: coqgoals.sh <file.v relative to coq/> <line>   — show the goals open at <line> (a Qed/bullet line)
cd /verif/coq && awk -v L="$2" 'NR==L{print "Show. Abort."; exit} {print}' "$1" > /tmp/_goals_$$.v && timeout 300 coqc -noglob -Q . S4 -o /tmp/_goals_$$.vo /tmp/_goals_$$.v 2>&1 | tail -${3:-60}; rm -f /tmp/_goals_$$.*
