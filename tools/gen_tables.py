#!/usr/bin/env python3
"""Translator: regenerate coq/Gen/*.v from the *current* /repo working tree.

Each generator scrapes the Rust source (tolerant of reformatting, intolerant of
structure it does not understand: it raises, and the check then reports the
obligation as broken) and writes definitions only.  A file is rewritten only
when its content changes, so `make` re-checks the dependent theorems exactly
when the tables changed.
"""
import os, re, sys, json

REPO = os.environ.get("S4_REPO", "/repo")
GEN = os.path.join(os.path.dirname(os.path.abspath(__file__)), "..", "coq", "Gen")


class ScrapeError(Exception):
    pass


def read(rel):
    with open(os.path.join(REPO, rel), encoding="utf-8") as f:
        return f.read()


def write_if_changed(path, text):
    old = None
    if os.path.exists(path):
        with open(path, encoding="utf-8") as f:
            old = f.read()
    if old != text:
        os.makedirs(os.path.dirname(path), exist_ok=True)
        with open(path, "w", encoding="utf-8") as f:
            f.write(text)
        return True
    return False


def strip_comments(src):
    # remove // comments and /* */ comments, keep string literals intact
    out = []
    i = 0
    n = len(src)
    while i < n:
        c = src[i]
        if c == '"':
            j = i + 1
            while j < n and src[j] != '"':
                j += 2 if src[j] == "\\" else 1
            out.append(src[i:j + 1])
            i = j + 1
        elif src.startswith("//", i):
            j = src.find("\n", i)
            i = n if j < 0 else j
        elif src.startswith("/*", i):
            j = src.find("*/", i)
            i = n if j < 0 else j + 2
        elif c == "'" and i + 2 < n and (src[i + 2] == "'" or (src[i + 1] == "\\" and i + 3 < n and src[i + 3] == "'")):
            j = i + (3 if src[i + 2] == "'" else 4)
            out.append(src[i:j])
            i = j
        else:
            out.append(c)
            i += 1
    return "".join(out)


def balanced(src, i, open_c="{", close_c="}"):
    """src[i] == open_c; return index just after the matching close."""
    assert src[i] == open_c
    depth = 0
    n = len(src)
    while i < n:
        c = src[i]
        if c == '"':
            j = i + 1
            while j < n and src[j] != '"':
                j += 2 if src[j] == "\\" else 1
            i = j + 1
            continue
        if c == open_c:
            depth += 1
        elif c == close_c:
            depth -= 1
            if depth == 0:
                return i + 1
        i += 1
    raise ScrapeError("unbalanced braces")


def match_arms(src, header_re):
    """Return [(patterns:[str] or None for '_', body:str)] of `match X {`."""
    m = re.search(header_re, src)
    if not m:
        raise ScrapeError("match header not found: " + header_re)
    start = src.index("{", m.end() - 1)
    end = balanced(src, start)
    body = src[start + 1:end - 1]
    arms = []
    i = 0
    n = len(body)
    while True:
        while i < n and body[i] in " \t\r\n,":
            i += 1
        if i >= n:
            break
        j = body.find("=>", i)
        if j < 0:
            raise ScrapeError("arm without =>")
        pat = body[i:j].strip()
        k = j + 2
        while body[k] in " \t\r\n":
            k += 1
        if body[k] == "{":
            e = balanced(body, k)
            arm_body = body[k:e]
        else:
            e = body.find(",", k)
            if e < 0:
                e = n
            arm_body = body[k:e]
        if pat == "_":
            arms.append((None, arm_body))
        else:
            lits = re.findall(r'"((?:[^"\\]|\\.)*)"', pat)
            rest = re.sub(r'"((?:[^"\\]|\\.)*)"', "", pat).replace("|", "").strip()
            if rest or not lits:
                raise ScrapeError("arm pattern not a list of string literals: %r" % pat)
            arms.append((lits, arm_body))
        i = e
    return arms


FTA = ["Normal", "Bz2", "Gz", "Lz4", "Tar", "Xz"]
FIXED = ["Acct", "AcctV3", "Lastlog", "Lastlogx", "Utmp", "Utmpx"]


def classify_action(body, for_suffix):
    # string literals (trace messages) must not influence the reading of an arm
    b = re.sub(r'"((?:[^"\\]|\\.)*)"', '""', body)
    if "pathbuf_to_filetype_impl" in b:
        m = re.search(r"Some\(\s*FileTypeArchive::(\w+)\s*\)", b)
        if not m or m.group(1) not in FTA:
            raise ScrapeError("recursive arm without a literal container: %r" % b[:200])
        return "SCompress " + m.group(1)
    if "PathToFiletypeResult::Archive" in b:
        if "FileTypeArchiveMultiple::Tar" not in b:
            raise ScrapeError("archive arm not Tar")
        return "STar"
    kinds = []
    if re.search(r"FileType::Evtx\b", b):
        kinds.append("SEvtx")
    if re.search(r"FileType::Journal\b", b):
        kinds.append("SJournal")
    if re.search(r"FileType::Text\b", b):
        kinds.append("SText")
    m = re.search(r"FileTypeFixedStruct::(\w+)", b)
    if re.search(r"FileType::FixedStruct\b", b):
        if not m or m.group(1) not in FIXED:
            raise ScrapeError("FixedStruct arm without known kind")
        kinds.append("(SFixed %s)" % m.group(1))
    if "RET_FALLBACK_UNPARSABLE" in b or "RET_FALLBACK_TEXT" in b:
        if not ("RET_FALLBACK_UNPARSABLE" in b and "RET_FALLBACK_TEXT" in b and "unparseable_are_text" in b):
            raise ScrapeError("fallback arm of unexpected shape")
        kinds.append("SUnparsable")
    if len(kinds) != 1:
        raise ScrapeError("arm with %d recognised results: %r" % (len(kinds), b[:200]))
    k = kinds[0]
    if "archival_type" in b and not re.search(r"archival_type:\s*fta\b", b):
        raise ScrapeError("arm does not pass the container through: %r" % b[:200])
    if not for_suffix:
        tr = {"SText": "NText", "SJournal": "NJournal"}
        if k in tr:
            return tr[k]
        if k.startswith("(SFixed"):
            return k.replace("SFixed", "NFixed")
        raise ScrapeError("whole-name arm with result %s" % k)
    return k


def char_list(src, name):
    m = re.search(r"const\s+%s\s*:\s*&\[char\]\s*=\s*&\[([^\]]*)\]" % name, src)
    if not m:
        raise ScrapeError(name + " not found")
    chars = re.findall(r"'(\\.|[^'])'", m.group(1))
    if not chars:
        raise ScrapeError(name + " empty")
    out = []
    for c in chars:
        if len(c) != 1 or ord(c) > 127:
            raise ScrapeError("non-ASCII or escaped junk char %r" % c)
        out.append(ord(c))
    return out


def coq_str(s):
    for ch in s:
        if ord(ch) > 126 or ord(ch) < 32 or ch == '"' or ch == "\\":
            raise ScrapeError("word with unsupported character: %r" % s)
    return '"%s"' % s


def scrape_classify():
    src = strip_comments(read("src/readers/filepreprocessor.rs"))
    a = src.find("fn pathbuf_to_filetype_impl(")
    b = src.find("pub fn pathbuf_to_filetype(")
    if a < 0 or b < 0 or b < a:
        raise ScrapeError("pathbuf_to_filetype_impl not found")
    fn = src[a:b]
    sfx = match_arms(fn, r"match\s+file_suffix\.as_str\(\)\s*\{")
    nam = match_arms(fn, r"match\s+file_name_s\s*\{")
    sfx_rows, nam_rows = [], []
    for pats, body in sfx:
        if pats is None:
            continue
        act = classify_action(body, True)
        for w in pats:
            sfx_rows.append((w, act))
    for pats, body in nam:
        if pats is None:
            continue
        act = classify_action(body, False)
        for w in pats:
            nam_rows.append((w, act))
    junk = char_list(fn, "JUNK_CHARS")
    junk_lead = char_list(fn, "JUNK_CHARS_LEAD")
    return {"sfx": sfx_rows, "name": nam_rows, "junk": junk, "junk_lead": junk_lead}


def gen_classify():
    t = scrape_classify()
    lines = []
    lines.append("(* GENERATED by tools/gen_tables.py from src/readers/filepreprocessor.rs — do not edit. *)")
    lines.append("From S4.Base Require Import Bytes.\nFrom S4.Model Require Import Classify.")
    lines.append("From Coq Require Import String.")
    lines.append("Open Scope string_scope.")
    lines.append("Definition sfx_table : list (bytes * sfx_action) := [")
    lines.append(";\n".join("  (s2b %s, %s)" % (coq_str(w), a) for w, a in t["sfx"]))
    lines.append("].")
    lines.append("Definition name_table : list (bytes * name_action) := [")
    lines.append(";\n".join("  (s2b %s, %s)" % (coq_str(w), a) for w, a in t["name"]))
    lines.append("].")
    lines.append("Definition junk : list N := [%s]%%N." % "; ".join(str(c) for c in t["junk"]))
    lines.append("Definition junk_lead : list N := [%s]%%N." % "; ".join(str(c) for c in t["junk_lead"]))
    lines.append("")
    changed = write_if_changed(os.path.join(GEN, "ClassifyTables.v"), "\n".join(lines))
    with open(os.path.join(GEN, "classify_tables.json"), "w") as f:
        json.dump(t, f)
    return changed


GENERATORS = {"classify": gen_classify}


def main(argv):
    names = argv[1:] or list(GENERATORS)
    for n in names:
        ch = GENERATORS[n]()
        print("gen %s: %s" % (n, "rewritten" if ch else "unchanged"))


if __name__ == "__main__":
    try:
        main(sys.argv)
    except ScrapeError as e:
        print("SCRAPE-ERROR: %s" % e)
        sys.exit(3)
