#!/usr/bin/env python3
"""Translator driver: regenerate coq/Gen/*.v from the *current* /repo working tree.

  tools/gen_tables.py [name ...]      (no name = every generator in tools/gen/)

Each generator is a module tools/gen/<name>.py with a function generate() -> bool
(True when the generated file changed).  Generators scrape the Rust source or ask
the harness for compiled constants; they write definitions only.  A file is
rewritten only when its content changes, so `make` re-checks the dependent theorems
exactly when the tables changed.  A generator that does not understand what it
reads raises ScrapeError: exit status 3, and the check reports the obligation as broken.
"""
import glob, importlib, os, sys
HERE = os.path.dirname(os.path.abspath(__file__))
sys.path.insert(0, os.path.join(HERE, "gen"))
sys.path.insert(0, HERE)
from common import ScrapeError


def main(argv):
    names = argv[1:] or sorted(os.path.basename(p)[:-3] for p in glob.glob(os.path.join(HERE, "gen", "*.py"))
                               if os.path.basename(p) not in ("common.py", "__init__.py"))
    for n in names:
        mod = importlib.import_module(n)
        ch = mod.generate()
        print("gen %s: %s" % (n, "rewritten" if ch else "unchanged"))


if __name__ == "__main__":
    try:
        main(sys.argv)
    except ScrapeError as e:
        print("SCRAPE-ERROR: %s" % e)
        sys.exit(3)
