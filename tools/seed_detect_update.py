#!/usr/bin/env python3
"""usage: tools/seed_detect_update.py <verif-commit> <mutant_batch log> ...
Parses logs written by tools/mutant_batch.sh and records, per seeded change and check, the latest
verdict in tools/seed_detect.json: 'input' (VIOLATION with a concrete failing input),
'obligation' (VIOLATION ... no-failing-input-found), 'missed' (check exited 0), 'error'."""
import json, os, re, sys
ROOT = os.path.dirname(os.path.dirname(os.path.abspath(__file__)))
P = os.path.join(ROOT, "tools", "seed_detect.json")
db = json.load(open(P)) if os.path.exists(P) else {}
commit = sys.argv[1]
for log in sys.argv[2:]:
    cur = None
    pending = {}
    for line in open(log, errors="replace"):
        m = re.match(r"##### (?:.*/)?(C\d\d-m\d+)/patch\.diff -> (\S+)", line)
        if m:
            cur = m.group(1)
            continue
        if cur is None:
            continue
        m = re.match(r"VIOLATION property=(C\d\d) (?:replay=)?\S+( no-failing-input-found)?", line)
        if m:
            pending[m.group(1)] = "obligation" if m.group(2) else "input"
            continue
        m = re.match(r"(C\d\d) (ok|FAIL) tier=(\w+) seed=(\d+) wall=([\d.]+)s", line)
        if m:
            chk, okf = m.group(1), m.group(2)
            verdict = "missed" if okf == "ok" else pending.get(chk, "error")
            db.setdefault(cur, {})[chk] = dict(verdict=verdict, tier=m.group(3), seed=int(m.group(4)),
                                              wall_s=float(m.group(5)), verif_commit=commit)
            pending.pop(chk, None)
        if "PATCH-DOES-NOT-APPLY" in line:
            db.setdefault(cur, {})["_"] = dict(verdict="patch-does-not-apply", verif_commit=commit)
json.dump(db, open(P, "w"), indent=1, sort_keys=True)
print("seeds recorded:", len(db))
