#!/usr/bin/env python3
"""corpus/C05/gen_witnesses.py — byte recipes of the C05 container witnesses (stdlib only).

  tar_member_mtime_out_of_range   one regular member whose header mtime field is the base-256 form
                                  (first byte 0x80, then the value big-endian in the remaining 11 bytes)
                                  of a number >= 2^63: BlockReader::mtime() / decompress_to_ntf panic in
                                  UNIX_EPOCH.checked_add(..).unwrap() / `UNIX_EPOCH + Duration` and s4 aborts
                                  (SIGABRT) — known finding tar_member_mtime_out_of_range (C05, C07)
  tar_duplicate_member_path       two regular members with the same path: both are read as the FIRST
                                  — known finding tar_duplicate_member_path

usage:  gen_witnesses.py <dir>     writes big_mtime.tar, max_mtime.tar, dup_path.tar, x.log, y.log there
Imported by checks/c05_glue.py (same bytes in the check and in the corpus).
"""
import os, sys


def octal(v, w):
    return ("%0*o" % (w - 1, v)).encode() + b"\0"


def base256(v, w=12):
    """tar numeric extension: high bit of the first byte set, value big-endian in the other w-1 bytes"""
    return bytes([0x80]) + v.to_bytes(w - 1, "big")


def tar_header(name, size=0, typ=b"0", mtime=0, link=b"", prefix=b"", mode=0o644, magic=b"ustar\x0000", size_field=None, mtime_field=None):
    """one 512-byte ustar header; *_field override the octal encoding of a numeric field"""
    h = bytearray(512)
    h[0:len(name[:100])] = name[:100]
    h[100:108] = octal(mode, 8)
    h[108:116] = octal(0, 8)
    h[116:124] = octal(0, 8)
    sf = size_field if size_field is not None else octal(size, 12)
    mf = mtime_field if mtime_field is not None else octal(mtime, 12)
    assert len(sf) == 12 and len(mf) == 12
    h[124:136] = sf
    h[136:148] = mf
    h[148:156] = b" " * 8
    h[156:157] = typ
    h[157:157 + len(link[:100])] = link[:100]
    h[257:265] = magic
    h[345:345 + len(prefix[:155])] = prefix[:155]
    assert len(h) == 512
    ck = sum(h)
    h[148:156] = ("%06o" % ck).encode() + b"\0 "
    return bytes(h)


def tar_raw(entries):
    """entries: [(header bytes, data bytes)] -> archive (data padded to 512, two zero blocks at the end)"""
    out = bytearray()
    for h, d in entries:
        out += h + d + bytes((-len(d)) % 512)
    return bytes(out) + bytes(1024)


def tar_member_mtime(data, mtime, name=b"a.log"):
    """archive with ONE regular member whose mtime field holds `mtime` in base-256"""
    return tar_raw([(tar_header(name, len(data), mtime_field=base256(mtime)), data)])


def tar_duplicate_path(first, second, name=b"a.log", mt1=100, mt2=200):
    return tar_raw([(tar_header(name, len(first), mtime=mt1), first), (tar_header(name, len(second), mtime=mt2), second)])


X = b"".join(b"2024-01-01 00:00:%02d first member line %d\n" % (i, i) for i in range(5))
Y = b"".join(b"2024-01-01 00:01:%02d second member line %d\n" % (i, i) for i in range(3))

if __name__ == "__main__":
    d = sys.argv[1] if len(sys.argv) > 1 else "."
    os.makedirs(d, exist_ok=True)
    for fn, blob in (("x.log", X), ("y.log", Y), ("big_mtime.tar", tar_member_mtime(X, 2 ** 63)), ("max_mtime.tar", tar_member_mtime(X, 2 ** 63 - 1)),
                     ("dup_path.tar", tar_duplicate_path(X, Y))):
        with open(os.path.join(d, fn), "wb") as f:
            f.write(blob)
    print("s4 --color never big_mtime.tar   # aborts (rc 134) before the repair; x.log's lines after it")
    print("s4 --color never dup_path.tar    # prints x.log twice, never y.log")
