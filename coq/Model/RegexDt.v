(* Model/RegexDt.v — C04: bytes_to_regex_to_datetime as ONE function of the line:
   slice -> regex search (Model/Regex.v) -> named groups -> captures record -> normalise + chrono parse
   (Model/Normalise.model_instant).  Definitions only.  Tables are parameters (instantiated with the
   regenerated Gen/RegexTables.rx_table, Gen/DatetimeTables.{dt_table,month_table,tz_table}). *)
From S4.Base Require Import Bytes.
From S4.Model Require Import Calendar Normalise Regex RegexPlan.
Open Scope N_scope.

Definition sub (line : bytes) (sp : N * N) : bytes :=
  firstn (N.to_nat (snd sp - fst sp)) (skipn (N.to_nat (fst sp)) line).

Fixpoint assocN {A} (k : N) (l : list (N * A)) : option A :=
  match l with [] => None | (k', v) :: r => if k' =? k then Some v else assocN k r end.

(* span of the named group of field f (0 year .. 8 epoch, 9 dayIgnore) among Captures::get(0..n) *)
Definition field_span (row : rx_row) (spans : list (option (N * N))) (f : N) : option (N * N) :=
  match assocN f (rx_names row) with
  | Some g => nth (N.to_nat g) spans None
  | None => None
  end.
Definition field_text (row : rx_row) (line : bytes) (spans : list (option (N * N))) (f : N) : option bytes :=
  option_map (sub line) (field_span row spans f).

(* captures.name("year") ... captures.name("epoch") as captures_to_buffer_bytes reads them *)
Definition caps_of (row : rx_row) (line : bytes) (spans : list (option (N * N))) : caps :=
  let ft := field_text row line spans in
  mkCaps (ft 0) (ft 1) (ft 2) (ft 3) (ft 4) (ft 5) (ft 6) (ft 7) (ft 8).

(* bytes_to_regex_to_datetime(slice of line, row): the instant, plus dt_beg / dt_end *)
Definition dated_model (mt tzt : list (bytes * bytes)) (row : rx_row) (d : dtfs) (line : bytes)
           (yo : option Z) (off : Z) : option (Z * N * N) :=
  match row_spans row line with
  | Match (Some spans) =>
      match model_instant mt tzt d (caps_of row line spans) yo off with
      | Some t =>
          let b := match nth (N.to_nat (rx_first row)) spans None with Some (a, _) => a | None => 0 end in
          let e := match nth (N.to_nat (rx_last row)) spans None with Some (_, z) => z | None => 0 end in
          Some (t, b, e)
      | None => None
      end
  | _ => None
  end.

(* ------------------------------------------------------------------ where a plan puts a group *)
Definition absent (g : N) (sg : seg) : bool :=
  forallb (fun a => match cap_lookup g (a_caps a) with None => true | Some _ => false end) sg.
Definition owns (g : N) (sg : seg) : bool :=
  forallb (fun a => match cap_lookup g (a_caps a) with
                    | Some (x, y) => (x =? 0) && (y =? N.of_nat (length (a_shape a)))
                    | None => false end) sg.
(* index of the item whose whole text is group g in every rendering of the plan *)
Fixpoint group_seg (p : plan) (g : N) : option nat :=
  match p with
  | [] => None
  | sg :: p' => match group_seg p' g with
                | Some j => Some (S j)
                | None => if owns g sg && forallb (absent g) p' then Some O else None
                end
  end.
(* a group that no rendering of the plan records *)
Definition group_never (p : plan) (g : N) : bool := forallb (absent g) p.

(* the text of field f in a rendering, read off the plan p: Some (Some t) / Some None = never captured /
   None = the plan does not pin the group to one item *)
Definition plan_field (row : rx_row) (p : plan) (texts : list bytes) (f : N) : option (option bytes) :=
  match assocN f (rx_names row) with
  | None => Some None
  | Some g => match group_seg p g with
              | Some j => Some (Some (nth j texts []))
              | None => if group_never p g then Some None else None
              end
  end.
Definition fields_located (row : rx_row) (p : plan) : bool :=
  forallb (fun f => match assocN f (rx_names row) with
                    | None => true
                    | Some g => match group_seg p g with
                                | Some _ => true
                                | None => group_never p g end
                    end) [0; 1; 2; 3; 4; 5; 6; 7; 8].
Definition oo (x : option (option bytes)) : option bytes := match x with Some y => y | None => None end.
Definition plan_caps (row : rx_row) (p : plan) (texts : list bytes) : caps :=
  let pf f := oo (plan_field row p texts f) in
  mkCaps (pf 0) (pf 1) (pf 2) (pf 3) (pf 4) (pf 5) (pf 6) (pf 7) (pf 8).

(* the rows the universal theorem covers: plan checked, every segment non-empty, every named group
   pinned to one item (or never captured), slice starts at 0 *)
Definition plan_covers_at (o : org) (row : rx_row) (p : plan) : bool :=
  chain_ok o (rx_re row) p && forallb (fun sg => match sg with [] => false | _ => true end) p
  && fields_located row p && (rx_start row =? 0).
Definition plan_covers (row : rx_row) (p : plan) : bool := plan_covers_at OAbs row p.
Definition row_covered (row : rx_row) : bool := plan_covers row (row_plan row).

(* ------------------------------------------------------------------ decomposing a concrete slice along a plan
   (used to exhibit members of the universal theorems' domain and to measure how many generated lines
   lie in it; the theorems themselves quantify over texts with [texts_ok]) *)
Fixpoint fit (p : plan) (s : bytes) : option (list bytes) :=
  match p with
  | [] => Some []
  | sg :: p' =>
      (fix try (l : list alt) : option (list bytes) :=
         match l with
         | [] => None
         | a :: l' =>
             let n := length (a_shape a) in
             let t := firstn n s in
             let r := skipn n s in
             if in_shape (a_shape a) t && la_holds (a_la a) r then
               match fit p' r with
               | Some ts => Some (t :: ts)
               | None => try l'
               end
             else try l'
         end) sg
  end.
(* texts, rest of a slice, when it lies in the plan's domain *)
Definition in_domain (p : plan) (sl : bytes) : option (list bytes * bytes) :=
  match fit p sl with
  | Some ts => let rest := skipn (length (concat ts)) sl in
               if texts_ok p ts rest then Some (ts, rest) else None
  | None => None
  end.

(* the same with a dead prefix in front (unanchored rows): the number of leading offsets that are dead, and
   the first cut k >= 1 after which the slice decomposes along the plan for offsets >= 1 *)
Fixpoint dead_run (r : re) (o : org) (s : bytes) : nat :=
  match s with
  | b1 :: l => if dead_at r o b1 (hd_opt l) then S (dead_run r ONz l) else O
  | [] => O
  end.
Fixpoint first_cut (p : plan) (s : bytes) (k kmax : nat) : option (nat * (list bytes * bytes)) :=
  match kmax with
  | O => None
  | S km => match s with
            | [] => None
            | _ :: l => match in_domain p l with
                        | Some d => Some (S k, d)
                        | None => first_cut p l (S k) km
                        end
            end
  end.
Definition in_domain_pre (r : re) (pnz : plan) (sl : bytes) : option (nat * (list bytes * bytes)) :=
  first_cut pnz sl 0 (dead_run r OAbs sl).
