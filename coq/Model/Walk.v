(* Model/Walk.v — executable model of path expansion (property C15):
     src/readers/filepreprocessor.rs :: process_path, process_path_tar
     src/bin/s4.rs :: cli_process_args (splicing stdin lines at "-"), main (flattening)
   Definitions only.  The classifier is property C16's model (Model/Classify.v).

   The filesystem is an oracle: a [tree] is what stat / readdir / readlink / canonicalize answer.
   Symbolic links are PRE-RESOLVED: [Link cname t] is a link whose final target is the node [t] and
   whose canonical (fully resolved) file name is [cname].  Loop-free filesystems unfold to such
   finite trees; symlink loops, permission errors and races are not exhibited. *)
From S4.Base Require Export Bytes.
From S4.Model Require Export Classify.
Open Scope N_scope.

Definition name := bytes.
Definition path := list name.          (* components below the root the user named *)

(* a tar entry: member path (may contain '/'), size, is a regular-file entry *)
Definition tmember := (bytes * N * bool)%type.

Inductive tree :=
| File (members : list tmember)        (* regular file; [members] = its tar entries if it is read as tar *)
| Dir (children : list (name * tree))  (* children in readdir order (arbitrary) *)
| Link (cname : name) (target : tree)  (* symlink, resolved *)
| Other.                               (* broken symlink (canonicalize fails; jwalk yields an error) *)

(* ---- byte-lexicographic order of names = Ord for OsString on Unix (what jwalk sorts by) ---- *)
Fixpoint bytes_ltb (a b : bytes) : bool :=
  match a, b with
  | [], [] => false
  | [], _ :: _ => true
  | _ :: _, [] => false
  | x :: a', y :: b' => if x <? y then true else if y <? x then false else bytes_ltb a' b'
  end.

(* jwalk WalkDir .sort(true): the children of every directory sorted by file name.
   Insertion sort (names of siblings are distinct, so stability is irrelevant). *)
Fixpoint insert_child (x : name * tree) (l : list (name * tree)) : list (name * tree) :=
  match l with
  | [] => [x]
  | y :: r => if bytes_ltb (fst y) (fst x) then y :: insert_child x r else x :: l
  end.
Definition sort_children (l : list (name * tree)) : list (name * tree) :=
  fold_right insert_child [] l.

Fixpoint sort_tree (t : tree) : tree :=
  match t with
  | Dir cs => Dir (sort_children (map (fun nc => let '(n, c) := nc in (n, sort_tree c)) cs))
  | Link c x => Link c (sort_tree x)
  | File ms => File ms
  | Other => Other
  end.

(* follow_links(true): what a link stands for *)
Fixpoint resolve (t : tree) : tree :=
  match t with Link _ x => resolve x | _ => t end.
(* file name of the canonical path of an entry called [n] *)
Fixpoint canon_name (n : name) (t : tree) : name :=
  match t with Link c x => canon_name c x | _ => n end.

(* every entry strictly below [t], depth first, a directory before its content, children in
   list order; entry = (components, node) *)
Fixpoint below (p : path) (t : tree) : list (path * tree) :=
  match t with
  | Dir cs => flat_map (fun nc => let '(n, c) := nc in (p ++ [n], c) :: below (p ++ [n]) c) cs
  | Link _ x => below p x
  | File _ => []
  | Other => []
  end.
(* the walk jwalk performs from a root: DFS pre-order, children sorted by name *)
Definition walk (p : path) (t : tree) : list (path * tree) := below p (sort_tree t).

(* "sorted path order": lexicographic on COMPONENTS, each compared as bytes; a proper prefix first *)
Fixpoint path_ltb (p q : path) : bool :=
  match p, q with
  | [], [] => false
  | [], _ :: _ => true
  | _ :: _, [] => false
  | a :: p', b :: q' => if bytes_ltb a b then true else if bytes_ltb b a then false else path_ltb p' q'
  end.
Definition path_lt (p q : path) : Prop := path_ltb p q = true.

(* the joined string "a/b/c" *)
Definition slash : N := 47.
Definition join (p : path) : bytes :=
  match p with [] => [] | a :: r => a ++ flat_map (fun n => slash :: n) r end.

Fixpoint lookup (p : path) (t : tree) {struct p} : option tree :=
  match p with
  | [] => Some t
  | n :: r =>
      match resolve t with
      | Dir cs =>
          match find (fun nc => beqb (fst nc) n) cs with
          | Some nc => lookup r (snd nc)
          | None => None
          end
      | _ => None
      end
  end.

(* last component of a '/'-separated byte string (tar member paths) *)
Fixpoint base_name_aux (acc s : bytes) : bytes :=
  match s with
  | [] => acc
  | c :: r => if c =? slash then base_name_aux [] r else base_name_aux (acc ++ [c]) r
  end.
Definition base_name (s : bytes) : bytes := base_name_aux [] s.

(* ProcessPathResult, canonicalised *)
Inductive ppr :=
| PValid (p : bytes) (t : ftype)
| PEmpty (p : bytes)            (* FileErrEmpty: tar member of size 0 *)
| PNotSupported (p : bytes)
| PNotAFile (p : bytes)
| PNotExist (p : bytes)
| PFuel.

Definition retar (t : ftype) : option ftype :=
  match t with
  | Evtx Normal => Some (Evtx Tar)
  | Fixed Normal ft => Some (Fixed Tar ft)
  | Journal Normal => Some (Journal Tar)
  | Text Normal => Some (Text Tar)
  | _ => None
  end.

Section Walk.
  Variable sfx_table : list (bytes * sfx_action).
  Variable name_table : list (bytes * name_action).
  Variable junk junk_lead : list N.
  Variable root_str : bytes.     (* the path string the user typed for the root *)

  Definition cls (uat : bool) (n : name) : result :=
    classify_top sfx_table name_table junk junk_lead uat n.

  Definition pstr (p : path) : bytes := root_str ++ flat_map (fun n => slash :: n) p.

  (* process_path_tar(path, unparseable_are_text) *)
  Definition tar_results (uat : bool) (arch : bytes) (ms : list tmember) : list ppr :=
    flat_map (fun m =>
      let '(mp, sz, isf) := m in
      let full := arch ++ [124] ++ mp in
      if negb isf then []
      else if sz =? 0 then [PEmpty full]
      else match cls uat (base_name mp) with
           | RFile ft => match retar ft with
                         | Some ft' => [PValid full ft']
                         | None => [PNotSupported full]
                         end
           | RArchiveTar _ => [PNotSupported full]
           | ROutOfFuel => [PFuel]
           end) ms.

  Definition last_name (p : path) : name := last p [].

  (* a file named on the command line: classified from the CANONICAL name, unparseable_are_text =
     true, always attempted *)
  Definition explicit_result (uat : bool) (e : path * tree) : list ppr :=
    let '(p, t) := e in
    match resolve t with
    | File ms =>
        match cls true (canon_name (last_name p) t) with
        | RFile ft => [PValid (pstr p) ft]
        | RArchiveTar _ => tar_results uat (pstr p) ms
        | ROutOfFuel => [PFuel]
        end
    | Other => [PNotExist (pstr p)]
    | _ => []
    end.

  (* an entry met while walking: classified from the ENTRY's name, unparseable_are_text = false;
     known non-log types are reported NotSupported (dropped); directories are skipped *)
  Definition walked_result (uat : bool) (e : path * tree) : list ppr :=
    let '(p, t) := e in
    match resolve t with
    | File ms =>
        match cls false (last_name p) with
        | RFile Unparsable => [PNotSupported (pstr p)]
        | RFile ft => [PValid (pstr p) ft]
        | RArchiveTar _ => tar_results uat (pstr p) ms
        | ROutOfFuel => [PFuel]
        end
    | _ => []       (* directories are skipped; jwalk reports a broken link as an error: skipped *)
    end.

  (* process_path(path, unparseable_are_text) for the path made of components [req] below [root] *)
  Definition process_path_m (root : tree) (uat : bool) (req : path) : list ppr :=
    match lookup req root with
    | None => [PNotExist (pstr req)]
    | Some t =>
        match resolve t with
        | Dir _ => flat_map (walked_result uat) (walk req t)
        | _ => explicit_result uat (req, t)
        end
    end.

  (* main: processed_paths = concatenation over the path list; PathId = position *)
  Definition run_m (root : tree) (paths : list path) : list ppr :=
    flat_map (process_path_m root true) paths.
End Walk.

(* cli_process_args: the first "-" is replaced by the lines of stdin, later "-" are ignored *)
Section MainPaths.
  Variable A : Type.
  Variable is_dash : A -> bool.
  Fixpoint main_paths_aux (seen : bool) (args stdin : list A) : list A :=
    match args with
    | [] => []
    | a :: r =>
        if is_dash a
        then (if seen then main_paths_aux true r stdin else stdin ++ main_paths_aux true r stdin)
        else a :: main_paths_aux seen r stdin
    end.
  Definition main_paths (args stdin : list A) : list A := main_paths_aux false args stdin.
End MainPaths.

(* what the run depends on: the FileValid entries in order (others only produce stderr lines) *)
Definition is_valid (r : ppr) : bool := match r with PValid _ _ => true | _ => false end.
Definition valids (l : list ppr) : list ppr := filter is_valid l.
