(* Model/Walk.v — executable model of path expansion (property C15):
     src/readers/filepreprocessor.rs :: process_path, process_path_tar
     src/bin/s4.rs :: cli_process_args (splicing stdin lines at "-"), main (flattening)
   Definitions only.  The classifier is property C16's model (Model/Classify.v).

   The filesystem is an oracle: a [tree] is what stat / readdir / readlink / canonicalize answer.
   Symbolic links are PRE-RESOLVED: [Link cpath t] is a link whose final target is the node [t] and
   whose canonical (fully resolved, link-free) location is the component list [cpath] below the
   model root.  Loop-free filesystems unfold to such finite trees; symlink loops, permission errors
   and races are not exhibited.

   Two levels:
   * component level ([process_path_m]): the request is a list of components below a root whose
     path string is [root_str] (the original model, kept);
   * STRING level ([process_path_s], work package L): the request is the byte string the user
     typed, relative to the working directory = the model root; [lookup_str] is the kernel's path
     resolution (split at '/', empty and "." components, "..", trailing slash, links followed in
     the middle of a path and at its end when something follows), [walk_base]/[rjoin] are the path
     strings jwalk builds for what it finds (PathBuf::push; the normalisation parent().join(
     file_name()) that jwalk applies to a root that is a symlink or not a directory).
   * stdin at the BYTE level ([stdin_lines]: BufRead::lines), [args_of]. *)
From S4.Base Require Export Bytes.
From S4.Model Require Export Classify.
Open Scope N_scope.

Definition name := bytes.
Definition path := list name.          (* components below the root the user named *)

(* a tar entry: member path (may contain '/'), size, is a regular-file entry *)
Definition tmember := (bytes * N * bool)%type.

Inductive tree :=
| File (members : list tmember)        (* regular file; [members] = its tar entries if it is read as tar *)
| Dir (children : list (name * tree))  (* children in readdir order (arbitrary) *)
| Link (cpath : path) (target : tree)  (* symlink, resolved; [cpath] = canonical components of the target *)
| Other                                (* broken symlink (canonicalize fails; jwalk yields an error) *)
| Special.                             (* fifo, socket, device: exists, neither file nor directory *)

(* ---- byte-lexicographic order of names = Ord for OsString on Unix (what jwalk sorts by) ---- *)
Fixpoint bytes_ltb (a b : bytes) : bool :=
  match a, b with
  | [], [] => false
  | [], _ :: _ => true
  | _ :: _, [] => false
  | x :: a', y :: b' => if x <? y then true else if y <? x then false else bytes_ltb a' b'
  end.

(* jwalk WalkDir .sort(true): the children of every directory sorted by file name.
   Insertion sort (names of siblings are distinct, so stability is irrelevant). *)
Fixpoint insert_child (x : name * tree) (l : list (name * tree)) : list (name * tree) :=
  match l with
  | [] => [x]
  | y :: r => if bytes_ltb (fst y) (fst x) then y :: insert_child x r else x :: l
  end.
Definition sort_children (l : list (name * tree)) : list (name * tree) :=
  fold_right insert_child [] l.

Fixpoint sort_tree (t : tree) : tree :=
  match t with
  | Dir cs => Dir (sort_children (map (fun nc => let '(n, c) := nc in (n, sort_tree c)) cs))
  | Link c x => Link c (sort_tree x)
  | File ms => File ms
  | Other => Other
  | Special => Special
  end.

(* jwalk's default skip_hidden = true (process_path does not change it): an entry read from a
   directory whose file name, as a str, starts with '.' is dropped — with everything below it.
   `file_name.to_str().map(|s| s.starts_with('.')).unwrap_or(false)` *)
Definition dot : N := 46.
Definition is_hidden (n : name) : bool :=
  match n with c :: _ => (c =? dot) && utf8_valid n | [] => false end.
Fixpoint prune (t : tree) : tree :=
  match t with
  | Dir cs => Dir (flat_map (fun nc => let '(n, c) := nc in if is_hidden n then [] else [(n, prune c)]) cs)
  | Link c x => Link c (prune x)
  | File ms => File ms
  | Other => Other
  | Special => Special
  end.

(* follow_links(true): what a link stands for *)
Fixpoint resolve (t : tree) : tree :=
  match t with Link _ x => resolve x | _ => t end.
(* file name of the canonical path of an entry called [n] *)
Fixpoint canon_name (n : name) (t : tree) : name :=
  match t with Link c x => canon_name (last c []) x | _ => n end.

(* every entry strictly below [t], depth first, a directory before its content, children in
   list order; entry = (components, node) *)
Fixpoint below (p : path) (t : tree) : list (path * tree) :=
  match t with
  | Dir cs => flat_map (fun nc => let '(n, c) := nc in (p ++ [n], c) :: below (p ++ [n]) c) cs
  | Link _ x => below p x
  | File _ => []
  | Other => []
  | Special => []
  end.
(* the walk jwalk performs from a root: DFS pre-order, hidden entries dropped, children sorted by name *)
Definition walk (p : path) (t : tree) : list (path * tree) := below p (sort_tree (prune t)).

(* "sorted path order": lexicographic on COMPONENTS, each compared as bytes; a proper prefix first *)
Fixpoint path_ltb (p q : path) : bool :=
  match p, q with
  | [], [] => false
  | [], _ :: _ => true
  | _ :: _, [] => false
  | a :: p', b :: q' => if bytes_ltb a b then true else if bytes_ltb b a then false else path_ltb p' q'
  end.
Definition path_lt (p q : path) : Prop := path_ltb p q = true.

(* the joined string "a/b/c" *)
Definition slash : N := 47.
Definition join (p : path) : bytes :=
  match p with [] => [] | a :: r => a ++ flat_map (fun n => slash :: n) r end.

Fixpoint lookup (p : path) (t : tree) {struct p} : option tree :=
  match p with
  | [] => Some t
  | n :: r =>
      match resolve t with
      | Dir cs =>
          match find (fun nc => beqb (fst nc) n) cs with
          | Some nc => lookup r (snd nc)
          | None => None
          end
      | _ => None
      end
  end.

(* last component of a '/'-separated byte string (tar member paths) *)
Fixpoint base_name_aux (acc s : bytes) : bytes :=
  match s with
  | [] => acc
  | c :: r => if c =? slash then base_name_aux [] r else base_name_aux (acc ++ [c]) r
  end.
Definition base_name (s : bytes) : bytes := base_name_aux [] s.

(* ProcessPathResult, canonicalised *)
Inductive ppr :=
| PValid (p : bytes) (t : ftype)
| PEmpty (p : bytes)            (* FileErrEmpty: tar member of size 0 *)
| PNotSupported (p : bytes)
| PNotAFile (p : bytes)
| PNotExist (p : bytes)
| PFuel
| PErr (p : bytes)              (* FileErr: canonicalize failed with another error (ENOTDIR) *)
| PEscape.                      (* the path leaves the modelled tree (absolute, ".." above the root) *)

Definition retar (t : ftype) : option ftype :=
  match t with
  | Evtx Normal => Some (Evtx Tar)
  | Fixed Normal ft => Some (Fixed Tar ft)
  | Journal Normal => Some (Journal Tar)
  | Text Normal => Some (Text Tar)
  | _ => None
  end.

(* ================================================================ path strings *)

(* the components of a path string: split at every '/' ("a//b/" = a, "", b, "") *)
Fixpoint split_slash (s : bytes) : list bytes :=
  match s with
  | [] => [[]]
  | c :: r =>
      if c =? slash then [] :: split_slash r
      else match split_slash r with
           | h :: t => (c :: h) :: t
           | [] => [[c]]
           end
  end.

Definition is_dotdot (c : bytes) : bool := beqb c [dot; dot].
(* components that name the directory they are looked up in: "" (repeated or trailing slash) and "." *)
Definition is_junk (c : bytes) : bool := is_empty c || beqb c [dot].
Definition has_slash (c : bytes) : bool := existsb (N.eqb slash) c.
(* what a directory entry can be called *)
Definition proper (n : name) : bool := negb (is_junk n) && negb (is_dotdot n) && negb (has_slash n).

(* result of resolving a path string: the node the LAST component names (a symlink there is NOT
   followed: the lstat view) and the canonical components of where it was found *)
Inductive look :=
| Found (cp : path) (t : tree)
| NoEnt          (* ENOENT *)
| NotDir         (* ENOTDIR *)
| Escape.        (* leaves the model *)

(* follow the links at a node, tracking the canonical location *)
Fixpoint resolve_at (cp : path) (t : tree) : path * tree :=
  match t with Link c x => resolve_at c x | _ => (cp, t) end.

(* the node at a canonical (link-free) location *)
Fixpoint node_at (t : tree) (cp : path) {struct cp} : option tree :=
  match cp with
  | [] => Some t
  | n :: r =>
      match t with
      | Dir cs =>
          match find (fun nc => beqb (fst nc) n) cs with
          | Some nc => node_at (snd nc) r
          | None => None
          end
      | _ => None
      end
  end.

(* one component: what the kernel does with component [c] at the node (cp, t) reached so far.
   The node is first resolved (a link in the middle of a path is followed) and must be a directory.
   ".." is the parent of the RESOLVED directory, i.e. of its canonical location. *)
Definition step (root : tree) (cp : path) (t : tree) (c : bytes) : look :=
  let '(cp', t') := resolve_at cp t in
  match t' with
  | Dir cs =>
      if is_junk c then Found cp' t'
      else if is_dotdot c then
        match cp' with
        | [] => Escape
        | _ => match node_at root (removelast cp') with
               | Some (Dir ds) => Found (removelast cp') (Dir ds)
               | _ => Escape
               end
        end
      else match find (fun nc => beqb (fst nc) c) cs with
           | Some nc => Found (cp' ++ [c]) (snd nc)
           | None => NoEnt
           end
  | Other => NoEnt
  | _ => NotDir
  end.

Fixpoint lookup_comps (root : tree) (cp : path) (t : tree) (cs : list bytes) : look :=
  match cs with
  | [] => Found cp t
  | c :: r =>
      match step root cp t c with
      | Found cp' t' => lookup_comps root cp' t' r
      | e => e
      end
  end.

(* a path string relative to the working directory = the model root *)
Definition lookup_str (root : tree) (s : bytes) : look :=
  match split_slash s with
  | [[]] => NoEnt                 (* "" *)
  | [] :: _ => Escape             (* absolute *)
  | cs => lookup_comps root [] root cs
  end.

(* PathBuf::push of a relative component: a separator unless the buffer is empty or ends with one *)
Definition push (acc n : bytes) : bytes :=
  match acc with
  | [] => n
  | _ => if last acc 0 =? slash then acc ++ n else acc ++ slash :: n
  end.
(* parent_path.join(name).join(name)... : the path string of the entry [p] below [base] *)
Definition rjoin (base : bytes) (p : path) : bytes := fold_left push p base.

(* Path::parent().join(Path::file_name()) of a relative path string whose last component is a normal
   name: empty and "." components between the last component and what precedes it disappear
   (Components::as_path trims them from the back), the first component is kept *)
Fixpoint drop_trailing_junk (l : list bytes) : list bytes :=
  match l with
  | [] => []
  | c :: r => match drop_trailing_junk r with
              | [] => if is_junk c then [] else [c]
              | r' => c :: r'
              end
  end.
Definition norm_root (typed : bytes) : bytes :=
  let cs := split_slash typed in
  match removelast cs with
  | [] => last cs []
  | h :: t => join (h :: drop_trailing_junk t ++ [last cs []])
  end.

(* the path jwalk reads the children of the root from: the string as typed when lstat says
   directory; parent().join(file_name()) when the root is a symlink (DirEntry::follow_symlink) *)
Definition walk_base (typed : bytes) (t : tree) : bytes :=
  match t with Link _ _ => norm_root typed | _ => typed end.

(* DirEntry::path() of a walk entry: parent_path.join(file_name).  An entry that is itself a
   symlink was re-created by follow_symlink from that joined path, which takes parent() and
   file_name() of it again: empty and "." components at the end of the parent disappear
   ("top//" holding the link l gives "top/l", next to "top//a.log") *)
Definition entry_str (base : bytes) (e : path * tree) : bytes :=
  let s := rjoin base (fst e) in
  match snd e with Link _ _ => norm_root s | _ => s end.

Section Walk.
  Variable sfx_table : list (bytes * sfx_action).
  Variable name_table : list (bytes * name_action).
  Variable junk junk_lead : list N.
  Variable root_str : bytes.     (* the path string the user typed for the root (component level) *)

  Definition cls (uat : bool) (n : name) : result :=
    classify_top sfx_table name_table junk junk_lead uat n.

  Definition pstr (p : path) : bytes := root_str ++ flat_map (fun n => slash :: n) p.

  (* process_path_tar(path, unparseable_are_text) *)
  Definition tar_results (uat : bool) (arch : bytes) (ms : list tmember) : list ppr :=
    flat_map (fun m =>
      let '(mp, sz, isf) := m in
      let full := arch ++ [124] ++ mp in
      if negb isf then []
      else if sz =? 0 then [PEmpty full]
      else match cls uat (base_name mp) with
           | RFile ft => match retar ft with
                         | Some ft' => [PValid full ft']
                         | None => [PNotSupported full]
                         end
           | RArchiveTar _ => [PNotSupported full]
           | ROutOfFuel => [PFuel]
           end) ms.

  Definition last_name (p : path) : name := last p [].

  (* a file named on the command line, reported under the string [ps]: classified from the
     CANONICAL name [cname], unparseable_are_text = true, always attempted *)
  Definition explicit_gen (ps : bytes) (cname : name) (uat : bool) (t : tree) : list ppr :=
    match resolve t with
    | File ms =>
        match cls true cname with
        | RFile ft => [PValid ps ft]
        | RArchiveTar _ => tar_results uat ps ms
        | ROutOfFuel => [PFuel]
        end
    | Other => [PNotExist ps]
    | Special => [PNotAFile ps]     (* jwalk yields the root entry itself: not a file, not a dir *)
    | _ => []
    end.

  (* an entry met while walking, reported under the string [ps]: classified from the ENTRY's name
     [ename], unparseable_are_text = false; known non-log types are reported NotSupported
     (dropped); directories are skipped; fifos/sockets are reported NotAFile *)
  Definition walked_gen (ps : bytes) (ename : name) (uat : bool) (t : tree) : list ppr :=
    match resolve t with
    | File ms =>
        match cls false ename with
        | RFile Unparsable => [PNotSupported ps]
        | RFile ft => [PValid ps ft]
        | RArchiveTar _ => tar_results uat ps ms
        | ROutOfFuel => [PFuel]
        end
    | Special => [PNotAFile ps]
    | _ => []       (* directories are skipped; jwalk reports a broken link as an error: skipped *)
    end.

  Definition explicit_result (uat : bool) (e : path * tree) : list ppr :=
    let '(p, t) := e in explicit_gen (pstr p) (canon_name (last_name p) t) uat t.

  Definition walked_result (uat : bool) (e : path * tree) : list ppr :=
    let '(p, t) := e in walked_gen (pstr p) (last_name p) uat t.

  (* process_path(path, unparseable_are_text) for the path made of components [req] below [root] *)
  Definition process_path_m (root : tree) (uat : bool) (req : path) : list ppr :=
    match lookup req root with
    | None => [PNotExist (pstr req)]
    | Some t =>
        match resolve t with
        | Dir _ => flat_map (walked_result uat) (walk req t)
        | _ => explicit_result uat (req, t)
        end
    end.

  (* main: processed_paths = concatenation over the path list; PathId = position *)
  Definition run_m (root : tree) (paths : list path) : list ppr :=
    flat_map (process_path_m root true) paths.

  (* ---------------------------------------------------------------- string level *)

  (* an entry [p] of the walk below the root typed as [typed], whose lstat node is [t0] *)
  Definition walked_s (typed : bytes) (t0 : tree) (uat : bool) (e : path * tree) : list ppr :=
    walked_gen (entry_str (walk_base typed t0) e) (last_name (fst e)) uat (snd e).

  (* process_path(typed, unparseable_are_text): canonicalize (ENOENT / other error), is_file =>
     classify the canonical name; otherwise jwalk from the string as typed *)
  Definition process_path_s (root : tree) (uat : bool) (typed : bytes) : list ppr :=
    match lookup_str root typed with
    | NoEnt => [PNotExist typed]
    | NotDir => [PErr typed]
    | Escape => [PEscape]
    | Found cp t =>
        let '(cp', t') := resolve_at cp t in
        match t' with
        | Dir _ => flat_map (walked_s typed t uat) (walk [] t)
        | File _ => explicit_gen typed (last cp' []) uat t'   (* the canonical path's file name *)
        | Other => [PNotExist typed]
        | Special => [PNotAFile (norm_root typed)]
        | Link _ _ => [PEscape]            (* not reachable: resolve_at never ends at a link *)
        end
    end.

  Definition run_s (root : tree) (paths : list bytes) : list ppr :=
    flat_map (process_path_s root true) paths.
End Walk.

(* cli_process_args: the first "-" is replaced by the lines of stdin, later "-" are ignored *)
Section MainPaths.
  Variable A : Type.
  Variable is_dash : A -> bool.
  Fixpoint main_paths_aux (seen : bool) (args stdin : list A) : list A :=
    match args with
    | [] => []
    | a :: r =>
        if is_dash a
        then (if seen then main_paths_aux true r stdin else stdin ++ main_paths_aux true r stdin)
        else a :: main_paths_aux seen r stdin
    end.
  Definition main_paths (args stdin : list A) : list A := main_paths_aux false args stdin.
End MainPaths.

(* ================================================================ stdin, byte level *)
(* std::io::stdin().lock().lines(): read_line reads through the next '\n' (or to the end of the
   stream); the chunk must be valid UTF-8; a trailing "\n" is removed and then ONE trailing "\r";
   nothing is trimmed otherwise; an empty line is an empty String; a last line without "\n" is a
   line (when not empty).  cli_process_args pushes every Ok line and BREAKS at the first Err
   (invalid UTF-8): that chunk and everything after it are dropped. *)
Definition nl : N := 10.
Definition cr : N := 13.

(* the chunks of read_line: (content before the terminator, was it terminated by '\n') *)
Fixpoint raw_lines (s : bytes) : list (bytes * bool) :=
  match s with
  | [] => []
  | c :: r =>
      if c =? nl then ([], true) :: raw_lines r
      else match raw_lines r with
           | (l, tm) :: rest => (c :: l, tm) :: rest
           | [] => [([c], false)]
           end
  end.

Definition chunk_of (lt : bytes * bool) : bytes := fst lt ++ (if snd lt then [nl] else []).
(* Lines::next: pop "\n", then pop "\r" — only when the chunk ended with "\n" *)
Definition strip_line (lt : bytes * bool) : bytes :=
  let '(l, tm) := lt in
  if tm then (match rev l with c :: r => if c =? cr then rev r else l | [] => l end) else l.

Fixpoint until_invalid (ls : list (bytes * bool)) : list bytes :=
  match ls with
  | [] => []
  | lt :: r => if utf8_valid (chunk_of lt) then strip_line lt :: until_invalid r else []
  end.

Definition stdin_lines (s : bytes) : list bytes := until_invalid (raw_lines s).

Definition dash : bytes := [45].
Definition is_dash_b (a : bytes) : bool := beqb a dash.
(* the path list main() iterates over *)
Definition args_of (argv : list bytes) (stdin : bytes) : list bytes :=
  main_paths bytes is_dash_b argv (stdin_lines stdin).

(* the byte stream that carries a path list: the paths joined by "\n", with or without a final "\n" *)
Fixpoint join_lines (paths : list bytes) (final : bool) : bytes :=
  match paths with
  | [] => []
  | p :: r => match r with
              | [] => p ++ (if final then [nl] else [])
              | _ => p ++ nl :: join_lines r final
              end
  end.
(* a path that survives the trip through stdin: valid UTF-8, no "\n", not ending in "\r" *)
Definition line_safe (p : bytes) : bool :=
  utf8_valid p && negb (existsb (N.eqb nl) p) && negb (last p 0 =? cr).

(* what the run depends on: the FileValid entries in order (others only produce stderr lines) *)
Definition is_valid (r : ppr) : bool := match r with PValid _ _ => true | _ => false end.
Definition valids (l : list ppr) : list ppr := filter is_valid l.
