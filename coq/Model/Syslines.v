(* Model/Syslines.v — executable model of SyslineReader::find_sysline_year
   (src/readers/syslinereader.rs, loops A and B) and of the stage driver
   exec_syslogprocessor (src/bin/s4.rs: first call at 0, then at each returned fo_next until
   Done / is_last).  Definitions only.

   `dated` is the timestamp oracle (parse_datetime_in_line_cached on the bytes of a Line).
   Not modelled: find_sysline LRU cache, `syslines`, `syslines_by_range` (check_store and the
   "ran into prior processed sysline" shortcut of loop A, which only fires on a cache hit).
   With no datetime filter find_sysline_between_datetime_filters(fo) = find_sysline(fo)
   (binary search returns on `Pass` in its first iteration; linear search likewise). *)
From S4.Base Require Import Bytes Chunk.
From S4.Model Require Import Lines.
Open Scope N_scope.

Definition sysline := (Z * list line)%type.        (* instant, lines (head line first) *)

Section Dated.
  Variable dated : list N -> option Z.

  (* loop A: find the line with datetime A.  Result: (dt, that line, fo1 = its end + 1) *)
  Fixpoint loop_a (fuel : nat) (bs : N) (f : file) (fo1 : N) (fo_zero_tried : bool)
                  (fo_a_max : N) : res (Z * line * N) :=
    match fuel with
    | O => OutOfFuel
    | S k =>
        match find_line_m bs f fo1 with
        | Found (fo2, ln) =>
            let fo_a_max := N.max fo_a_max fo2 in
            match dated (bytes_of bs f ln) with
            | Some dt =>
                match line_fo_end bs ln with
                | Some e => Found (dt, ln, e + 1)
                | None => Panic
                end
            | None =>
                match line_fo_begin bs ln with
                | None => Panic
                | Some line_beg =>
                    if fo_zero_tried then loop_a k bs f fo_a_max true fo_a_max
                    else if 1 <? line_beg then loop_a k bs f (line_beg - 1) false fo_a_max
                    else loop_a k bs f 0 true fo_a_max
                end
            end
        | Done => Done
        | OutOfFuel => OutOfFuel
        | Panic => Panic
        end
    end.

  (* loop B: append the following undated lines.  Result: (fo_b, lines of the sysline) *)
  Fixpoint loop_b (fuel : nat) (bs : N) (f : file) (fo1 : N) (acc : list line)
    : res (N * list line) :=
    match fuel with
    | O => OutOfFuel
    | S k =>
        match find_line_m bs f fo1 with
        | Found (fo2, ln) =>
            match dated (bytes_of bs f ln) with
            | None => loop_b k bs f fo2 (acc ++ [ln])
            | Some _ => Found (fo1, acc)
            end
        | Done => Found (fo1, acc)
        | OutOfFuel => OutOfFuel
        | Panic => Panic
        end
    end.

  Definition find_sysline_fuel (fuel : nat) (bs : N) (f : file) (fo : N) : res (N * sysline) :=
    match loop_a fuel bs f fo false 0 with
    | Found (dt, ln, fo1) =>
        match loop_b fuel bs f fo1 [ln] with
        | Found (fo_b, lns) => Found (fo_b, (dt, lns))
        | Done => Done
        | OutOfFuel => OutOfFuel
        | Panic => Panic
        end
    | Done => Done
    | OutOfFuel => OutOfFuel
    | Panic => Panic
    end.

  (* loop A visits every line at most twice (backwards, then forwards) *)
  Definition find_sysline_m (bs : N) (f : file) (fo : N) : res (N * sysline) :=
    find_sysline_fuel (2 * length f + 3) bs f fo.

  (* Sysline::fileoffset_end *)
  Definition sysline_fo_end (bs : N) (sl : sysline) : option N :=
    match rev (snd sl) with
    | [] => None
    | ln :: _ => line_fo_end bs ln
    end.
  Definition sysline_fo_begin (bs : N) (sl : sysline) : option N :=
    match snd sl with
    | [] => None
    | ln :: _ => line_fo_begin bs ln
    end.
  (* Sysline::verif_bytes *)
  Definition sysline_bytes (bs : N) (f : file) (sl : sysline) : list N :=
    concat (map (bytes_of bs f) (snd sl)).

  (* SyslineReader::is_sysline_last : fileoffset_end == filesz - 1 *)
  Definition is_sysline_last (bs : N) (f : file) (sl : sysline) : bool :=
    match sysline_fo_end bs sl, fileoffset_last (lenN f) with
    | Some e, Some l => e =? l
    | _, _ => false
    end.

  (* the stage driver: messages sent to the printer, in order *)
  Fixpoint stream_loop (fuel : nat) (bs : N) (f : file) (fo : N) (acc : list sysline)
    : res (list sysline) :=
    match fuel with
    | O => OutOfFuel
    | S k =>
        match find_sysline_m bs f fo with
        | Found (fo_next, sl) =>
            if is_sysline_last bs f sl then Found (acc ++ [sl])
            else stream_loop k bs f fo_next (acc ++ [sl])
        | Done => Found acc
        | OutOfFuel => OutOfFuel
        | Panic => Panic
        end
    end.

  Definition stream_m (bs : N) (f : file) : res (list sysline) :=
    stream_loop (S (length f)) bs f 0 [].
End Dated.
