(* Model/Merge.v — the k-way merge that C01 is about (definitions only).

   A message is (source index, position in its source, instant).  Instants are Z
   (nanoseconds since the epoch), so two timestamps written with different UTC
   offsets that denote the same instant are equal by construction.

   [merge Ss]: while some source is non-empty, emit the pending head (the first
   not yet emitted message of a source) with the smallest instant; on equal
   instants the FIRST such source in list order.  This is what
   `map_pathid_datum.iter_mut().min_by(|x, y| x.dt().cmp(y.dt()))` does in
   `processing_loop`: BTreeMap iterates in PathId order and `Iterator::min_by`
   folds from the left keeping the accumulator unless the new element is
   strictly smaller (first minimum). *)
From Coq Require Import List ZArith Bool Sorted.
Import ListNotations.
Local Open Scope Z_scope.

Record msg : Type := mkMsg { m_src : nat; m_pos : nat; m_inst : Z }.

(* ---- Iterator::min_by over the pending heads, in source order ---- *)
Fixpoint first_min_from (i : nat) (hs : list (option msg)) (best : option (nat * msg))
  : option (nat * msg) :=
  match hs with
  | [] => best
  | None :: r => first_min_from (S i) r best
  | Some m :: r =>
      match best with
      | None => first_min_from (S i) r (Some (i, m))
      | Some (_, b) =>
          if m_inst m <? m_inst b
          then first_min_from (S i) r (Some (i, m))
          else first_min_from (S i) r best
      end
  end.

Definition first_min (hs : list (option msg)) : option (nat * msg) :=
  first_min_from 0 hs None.

Definition heads (Ss : list (list msg)) : list (option msg) := map (@hd_error msg) Ss.

(* which source is emitted next, and its head *)
Definition pick (Ss : list (list msg)) : option (nat * msg) := first_min (heads Ss).

(* remove the head of source i *)
Fixpoint pop (i : nat) (Ss : list (list msg)) : list (list msg) :=
  match Ss, i with
  | [], _ => []
  | l :: r, O => tl l :: r
  | l :: r, S i' => l :: pop i' r
  end.

Definition total (Ss : list (list msg)) : nat := length (concat Ss).

Inductive fueled (A : Type) : Type :=
| Done (a : A)
| OutOfFuel.
Arguments Done {A} a.
Arguments OutOfFuel {A}.

Definition fueled_map {A B} (f : A -> B) (x : fueled A) : fueled B :=
  match x with Done a => Done (f a) | OutOfFuel => OutOfFuel end.

Fixpoint merge_fuel (fuel : nat) (Ss : list (list msg)) : fueled (list msg) :=
  match pick Ss with
  | None => Done []
  | Some (i, m) =>
      match fuel with
      | O => OutOfFuel
      | S f => fueled_map (cons m) (merge_fuel f (pop i Ss))
      end
  end.

(* fuel = total number of messages; MergeProofs.merge_fuel_enough shows it suffices *)
Definition merge (Ss : list (list msg)) : list msg :=
  match merge_fuel (total Ss) Ss with
  | Done l => l
  | OutOfFuel => []
  end.

(* the sources that remain after the first k emissions *)
Fixpoint after (k : nat) (Ss : list (list msg)) : list (list msg) :=
  match k with
  | O => Ss
  | S k' =>
      match pick Ss with
      | None => Ss
      | Some (i, _) => after k' (pop i Ss)
      end
  end.

(* ---- the closed form of the tie rule: a stable sort by instant ---- *)
Fixpoint insert_stable (x : msg) (l : list msg) : list msg :=
  match l with
  | [] => [x]
  | y :: r => if m_inst x <=? m_inst y then x :: y :: r else y :: insert_stable x r
  end.

(* x precedes every element of l in the input, so it is placed before the
   elements of equal instant: equal instants keep their input order *)
Definition stable_sort (l : list msg) : list msg := fold_right insert_stable [] l.

Definition le_inst (a b : msg) : Prop := m_inst a <= m_inst b.
Definition sorted_inst (l : list msg) : Prop := StronglySorted le_inst l.

(* ---- tagging: sources given as lists of instants ---- *)
Fixpoint tag_from (i p : nat) (l : list Z) : list msg :=
  match l with
  | [] => []
  | t :: r => mkMsg i p t :: tag_from i (S p) r
  end.

Fixpoint tag_srcs_from (i : nat) (Ss : list (list Z)) : list (list msg) :=
  match Ss with
  | [] => []
  | l :: r => tag_from i 0 l :: tag_srcs_from (S i) r
  end.

Definition tag_srcs (Ss : list (list Z)) : list (list msg) := tag_srcs_from 0 Ss.

(* every message sits in the source its tag names *)
Definition well_tagged (Ss : list (list msg)) : Prop :=
  forall i m, In m (nth i Ss []) -> m_src m = i.

Definition from_src (i : nat) (m : msg) : bool := Nat.eqb (m_src m) i.
Definition at_inst (k : Z) (m : msg) : bool := Z.eqb (m_inst m) k.

(* the head h of a pending source compared with the emitted message m *)
Definition hd_gt (m : msg) (l : list msg) : Prop :=
  match l with [] => True | h :: _ => m_inst m < m_inst h end.
Definition hd_ge (m : msg) (l : list msg) : Prop :=
  match l with [] => True | h :: _ => m_inst m <= m_inst h end.

(* X' is X with empty sources inserted anywhere *)
Inductive nil_ext : list (list msg) -> list (list msg) -> Prop :=
| ne_nil : nil_ext [] []
| ne_cons l X X' : nil_ext X X' -> nil_ext (l :: X) (l :: X')
| ne_skip X X' : nil_ext X X' -> nil_ext X ([] :: X').

(* l' is l, or [] when every message of l fails P: S' is S where every source whose messages all fail P has been emptied
   (a failing source); the other sources consist of messages satisfying P *)
Definition emptied (P : msg -> bool) (l l' : list msg) : Prop :=
  (l' = l /\ Forall (fun m => P m = true) l) \/ (l' = [] /\ Forall (fun m => P m = false) l).

(* message m, head of source i, is the earliest pending head of R, first-minimum on ties *)
Definition earliest_at (R : list (list msg)) (i : nat) (m : msg) : Prop :=
  hd_error (nth i R []) = Some m /\
  (forall j h, hd_error (nth j R []) = Some h -> m_inst m <= m_inst h) /\
  (forall j h, (j < i)%nat -> hd_error (nth j R []) = Some h -> m_inst m < m_inst h).

Definition nonempty (l : list msg) : bool := match l with [] => false | _ => true end.
