(* Model/Containers.v — byte-level model of the container handling that s4 does ITSELF before the
   first read_block (WP-J), definitions only.

   src/readers/blockreader.rs  BlockReader::new, per FileTypeArchive:
     Gz   size guard (8 <= file size <= GZ_MAX_SZ), CRC32 / ISIZE taken from the LAST 8 bytes of the
          file (dword_to_u32), flate2 GzDecoder::new on a second handle (header parsed eagerly; a
          header error is NOT an error of new: header() is None, mtime 0), GzData.mtime
     Bz2  size guard (>= 12), full pre-pass with 32786-byte reads that counts the plain bytes
     Lz4  full pre-pass (same loop, no size guard)
     Xz   the 14 header bytes s4 reads itself (magic, stream flags, CRC32, block header size/flags;
          the two multibyte integers are read and discarded), then the xz_decompress loop + slicing
     Tar  rsplit_once('|'), enumerate the crate's entries, first entry whose path equals the
          sub-path gives entry_index / filesz_actual / mtime
   filesz(), count_blocks / blockn, mtime() (header MTIME, 0 -> the container file's mtime; tar: also
   when seconds_to_systemtime_checked refuses the header time)
   src/readers/filepreprocessor.rs process_path_tar  (which entries become `archive|member` paths)
   src/readers/filedecompressor.rs decompress_to_ntf (what is extracted, its size and mtime)

   Crate code that s4 relies on for header fields is transcribed too, because the values s4 uses
   (mtime, where DEFLATE data starts) come out of it:
     flate2 1.1.0 src/gz/mod.rs  GzHeaderParser::parse, read_to_nul  ->  gz_parse_header
     tar 0.4.44 src/archive.rs next_entry_raw + src/header.rs octal_from / path_bytes, for plain
       (old / ustar / gnu) headers without 'L' 'K' 'x' 'S' entries           ->  tar_ref_entries
   Decoders proper (DEFLATE, BWT, LZ4, LZMA2) stay oracles: Section variables. *)
From S4.Base Require Export Bytes.
From S4.Spec Require Export ContainersSpec.
From S4.Model Require Export Assemble.
Open Scope N_scope.

(* ---------------------------------------------------------------------------------- helpers *)
(* read_exact / flate2 read_into loop on a file: k bytes or UnexpectedEof *)
Definition take (k : nat) (r : bytes) : option (bytes * bytes) :=
  if (length r <? k)%nat then None else Some (firstn k r, skipn k r).
Definition byte_at (l : bytes) (i : nat) : N := nth i l 0.
(* (b0 as u32) << 0 | (b1 as u32) << 8 | ...  — for bytes < 256 the ORs of disjoint bit ranges
   are sums *)
Definition le16 (l : bytes) : N := byte_at l 0 + 256 * byte_at l 1.
Definition le32 (l : bytes) : N :=
  byte_at l 0 + 256 * byte_at l 1 + 65536 * byte_at l 2 + 16777216 * byte_at l 3.
Definition has_flag (flags bit : N) : bool := negb (N.land flags bit =? 0).

(* ------------------------------------------------------ flate2: GzHeaderParser::parse (gz/mod.rs) *)
Inductive gzerr :=
| GzEof          (* UnexpectedEof *)
| GzBadHeader    (* "invalid gzip header": ID1/ID2, CM != 8, reserved FLG bit *)
| GzTooLong      (* "gzip header field too long": name / comment over MAX_HEADER_BUF *)
| GzCorrupt.     (* header CRC16 mismatch *)
Inductive gzres (A : Type) := GOk (a : A) | GErr (e : gzerr).
Arguments GOk {A} a.
Arguments GErr {A} e.

Record gz_header := mk_gzh {
  gh_extra : option bytes; gh_filename : option bytes; gh_comment : option bytes;
  gh_os : N; gh_mtime : N }.

Definition FRESERVED : N := 224.          (* 1<<5 | 1<<6 | 1<<7 *)
Definition MAX_HEADER_BUF : N := 65535.

(* read_to_nul: push bytes up to the first NUL; a non-NUL byte arriving when the buffer already holds
   MAX_HEADER_BUF bytes is an error.  [n] = buffer.len() so far.  Returns (field, rest after NUL). *)
Fixpoint read_to_nul (r : bytes) (n : N) : gzres (bytes * bytes) :=
  match r with
  | [] => GErr GzEof
  | b :: r' =>
      if b =? 0 then GOk ([], r')
      else if n =? MAX_HEADER_BUF then GErr GzTooLong
      else match read_to_nul r' (n + 1) with
           | GOk (s, rest) => GOk (b :: s, rest)
           | GErr e => GErr e
           end
  end.

(* the header CRC is a running crc32 over every header byte consumed so far (Option<Box<Crc>>) *)
Definition crc_opt_update (crc : option N) (l : bytes) : option N :=
  match crc with Some c => Some (crc_update c l) | None => None end.

(* GzHeaderState::Crc *)
Definition gz_stage_crc (crc : option N) (hd : gz_header) (r : bytes) : gzres (gz_header * bytes) :=
  match crc with
  | Some c =>
      match take 2 r with
      | None => GErr GzEof
      | Some (buffer, r') =>
          if le16 buffer =? crc_finish c mod 65536      (* crc.sum() as u16 *)
          then GOk (hd, r') else GErr GzCorrupt
      end
  | None => GOk (hd, r)
  end.
(* GzHeaderState::Comment *)
Definition gz_stage_comment (flags : N) (crc : option N) (hd : gz_header) (r : bytes)
  : gzres (gz_header * bytes) :=
  if has_flag flags FCOMMENT then
    match read_to_nul r 0 with
    | GErr e => GErr e
    | GOk (s, r') =>
        gz_stage_crc (crc_opt_update (crc_opt_update crc s) [0])
          (mk_gzh (gh_extra hd) (gh_filename hd) (Some s) (gh_os hd) (gh_mtime hd)) r'
    end
  else gz_stage_crc crc hd r.
(* GzHeaderState::Filename *)
Definition gz_stage_filename (flags : N) (crc : option N) (hd : gz_header) (r : bytes)
  : gzres (gz_header * bytes) :=
  if has_flag flags FNAME then
    match read_to_nul r 0 with
    | GErr e => GErr e
    | GOk (s, r') =>
        gz_stage_comment flags (crc_opt_update (crc_opt_update crc s) [0])
          (mk_gzh (gh_extra hd) (Some s) (gh_comment hd) (gh_os hd) (gh_mtime hd)) r'
    end
  else gz_stage_comment flags crc hd r.
(* GzHeaderState::Xlen and ::Extra *)
Definition gz_stage_extra (flags : N) (crc : option N) (hd : gz_header) (r : bytes)
  : gzres (gz_header * bytes) :=
  if has_flag flags FEXTRA then
    match take 2 r with
    | None => GErr GzEof
    | Some (buffer, r1) =>
        let xlen := le16 buffer in
        match take (N.to_nat xlen) r1 with
        | None => GErr GzEof
        | Some (extra, r2) =>
            gz_stage_filename flags (crc_opt_update (crc_opt_update crc buffer) extra)
              (mk_gzh (Some extra) (gh_filename hd) (gh_comment hd) (gh_os hd) (gh_mtime hd)) r2
        end
    end
  else gz_stage_filename flags crc hd r.
(* GzHeaderState::Start, then the rest.  Returns the header and the input positioned after it:
   that is where flate2 starts the DEFLATE decoder. *)
Definition gz_parse_header (r : bytes) : gzres (gz_header * bytes) :=
  match take 10 r with
  | None => GErr GzEof
  | Some (buffer, r1) =>
      if negb (byte_at buffer 0 =? 0x1f) || negb (byte_at buffer 1 =? 0x8b) then GErr GzBadHeader
      else if negb (byte_at buffer 2 =? 8) then GErr GzBadHeader
      else
        let flags := byte_at buffer 3 in
        if negb (N.land flags FRESERVED =? 0) then GErr GzBadHeader
        else
          let mtime := le32 (skipn 4 buffer) in
          let crc := if has_flag flags FHCRC then Some (crc_update CRC_INIT buffer) else None in
          gz_stage_extra flags crc (mk_gzh None None None (byte_at buffer 9) mtime) r1
  end.

(* --------------------------------------------------------------------------- s4: results of new *)
Inductive cerr :=
| CGzTooSmall        (* "gzip file size .. is too small" *)
| CGzTooLarge        (* "Cannot handle gzip files larger than semi-arbitrary .." *)
| CBz2TooSmall       (* "bzip2 file size .. is too small" *)
| CDecoder           (* a decoder read / xz_decompress failed *)
| CXzShort           (* read_exact of one of the xz header pieces failed *)
| CXzMagic           (* "failed to find XZ stream header magic bytes" *)
| CXzReserved        (* "xz stream header flag check type .. has reserved bits set" *)
| CNoSeparator       (* archived type but no '|' in the path *)
| CEntrySize.        (* tar: entry.header().size() failed *)
Inductive cres (A : Type) := COk (a : A) | CErr (e : cerr) | CFuel.
Arguments COk {A} a.
Arguments CErr {A} e.
Arguments CFuel {A}.

(* BlockReader::mtime(): a header time in seconds, or the modification time of the container file *)
Inductive mtime_v := MSecs (s : N) | MFile | MPanic.
Definition I64_MAX : N := 9223372036854775807.
(* seconds_to_systemtime: SystemTime::UNIX_EPOCH.checked_add(Duration::from_secs(s)).unwrap();
   on Linux SystemTime holds i64 seconds: None (=> panic) when s > i64::MAX *)
Definition seconds_to_systemtime (s : N) : mtime_v := if I64_MAX <? s then MPanic else MSecs s.
(* the Gz arm of mtime() (a u32 cannot overflow) *)
Definition mtime_of_header (m : N) : mtime_v := if m =? 0 then MFile else seconds_to_systemtime m.
(* seconds_to_systemtime_checked: None unless the seconds fit i64, DateTime::<Utc>::from_timestamp(secs + 86400, 0)
   is Some (chrono's MAX_UTC is 8210266876799 s: +262142-12-31T23:59:59) and UNIX_EPOCH.checked_add succeeds *)
Definition CHRONO_MAX_SECS : N := 8210266876799.
Definition seconds_to_systemtime_checked (s : N) : option N :=
  if CHRONO_MAX_SECS <? s + 86400 then None else Some s.
(* the Tar arm of mtime(): 0 or an unrepresentable header time -> the archive file's own mtime *)
Definition tar_mtime_of_header (m : N) : mtime_v :=
  if m =? 0 then MFile
  else match seconds_to_systemtime_checked m with Some s => MSecs s | None => MFile end.

(* ---------------------------------------------------------------------- s4: BlockReader::new, Gz *)
Definition GZ_MAX_SZ : N := 0x20000000.
(* dword_to_u32: bytes reversed into a scratch array, then u32::from_be_bytes *)
Definition from_be32 (l : bytes) : N :=
  16777216 * byte_at l 0 + 65536 * byte_at l 1 + 256 * byte_at l 2 + byte_at l 3.
Definition dword_to_u32 (buf : bytes) : N :=
  from_be32 [byte_at buf 3; byte_at buf 2; byte_at buf 1; byte_at buf 0].

Record gz_data := mk_gzd {
  gd_filesz : N;                 (* filesz_actual = GzData.filesz: the trailer's ISIZE *)
  gd_mtime : N;                  (* GzData.mtime: header MTIME, 0 when there is no parsed header *)
  gd_crc32 : N;                  (* GzData.crc32: from the trailer, never checked by s4 *)
  gd_header : option gz_header;  (* GzDecoder::header() *)
  gd_rest : bytes }.             (* where the DEFLATE decoder is positioned ([] without a header) *)

Definition gz_new (f : bytes) : cres gz_data :=
  let filesz := lenN f in
  if filesz <? 8 then CErr CGzTooSmall
  else if GZ_MAX_SZ <? filesz then CErr CGzTooLarge
  else
    (* seek(End(-8)), take(8): CRC32 then SIZE *)
    let tail := skipn (length f - 8) f in
    let crc32 := dword_to_u32 (firstn 4 tail) in
    let size := dword_to_u32 (firstn 4 (skipn 4 tail)) in
    (* GzDecoder::new(second handle): header parsed now; error => state Err, header() = None *)
    match gz_parse_header f with
    | GOk (h, rest) => COk (mk_gzd size (gh_mtime h) crc32 (Some h) rest)
    | GErr _ => COk (mk_gzd size 0 crc32 None [])
    end.

(* result kinds of read_block as the harness reports them *)
Inductive bres := BFound (b : list N) | BDone | BErr | BFuel.
Definition bres_of (a : ares (list N)) : bres :=
  match a with AOk b => BFound b | ADone => BDone | AErr _ => BErr | AOutOfFuel => BFuel end.

Section Decoders.
  (* a decoder oracle as in Model/Assemble.v, plus how it is set up on the bytes it starts at *)
  Variable dstate : Type.
  Variable read : dstate -> N -> dstate * list N.
  Variable mkdec : bytes -> dstate.

  (* read_block(i) on a fresh reader of the .gz file f.  With an unparsable header every decoder read
     fails, so every block that is not past the declared end is Err. *)
  Definition gz_read_block (bs : N) (f : bytes) (i : N) : cres bres :=
    match gz_new f with
    | CErr e => CErr e
    | CFuel => CFuel
    | COk d =>
        let n := gd_filesz d in
        match gd_header d with
        | Some _ => COk (bres_of (assemble_gz dstate read bs n (mkdec (gd_rest d)) i))
        | None => COk (if blockoffset_last n bs <? i then BDone else if n =? 0 then BDone else BErr)
        end
    end.

  (* Bz2 / Lz4: loop { sz = read(buf[32786]); 0 => break; filesz_uncompressed += sz } *)
  Definition PREPASS_BUF : N := 32786.
  Definition prepass_new (fuel : nat) (f : bytes) : cres N :=
    match prepass_size dstate read fuel PREPASS_BUF (mkdec f) with
    | AOk n => COk n
    | AOutOfFuel => CFuel
    | _ => CErr CDecoder
    end.
  Definition bz2_new (fuel : nat) (f : bytes) : cres N :=
    if lenN f <? 12 then CErr CBz2TooSmall else prepass_new fuel f.
  Definition lz4_new (fuel : nat) (f : bytes) : cres N := prepass_new fuel f.
End Decoders.

(* ---------------------------------------------------------------------- s4: BlockReader::new, Xz
   Through a Take(1024) on the file: 6 magic bytes, 2 stream-flag bytes (reserved high nibble of the
   second => error), 4 CRC bytes (not checked), 2 bytes block-header size / flags; then Compressed
   Size (if flagged) and Uncompressed Size are read by read_multibyte_integer, whose result is
   discarded and whose failure (EOF) is tolerated — so nothing after the 14th byte can make new fail
   before the decoder runs.  (read_multibyte_integer itself stops after one byte: a continuation
   byte breaks the loop, a final byte ends it; the shift amount is always 0.) *)
Definition XZ_MAGIC : bytes := [0xFD; 0x37; 0x7A; 0x58; 0x5A; 0x00].
Definition xz_precheck (f : bytes) : option cerr :=
  let a := firstn 1024 f in
  match take 6 a with
  | None => Some CXzShort
  | Some (magic, a1) =>
      if negb (beqb magic XZ_MAGIC) then Some CXzMagic
      else match take 2 a1 with
           | None => Some CXzShort
           | Some (sflags, a2) =>
               if negb (N.land (byte_at sflags 1) 0xF0 =? 0) then Some CXzReserved
               else match take 4 a2 with
                    | None => Some CXzShort
                    | Some (_, a3) =>
                        match take 2 a3 with
                        | None => Some CXzShort
                        | Some _ => None
                        end
                    end
           end
  end.

(* what successive calls of lzma_rs::xz_decompress(&mut bufreader, &mut buffer) do (oracle):
   decode one stream and APPEND its bytes to buffer; fail with IoError(UnexpectedEof) (=> break);
   fail with another IoError or a format error (=> new returns Err).  lzma-rs 0.3.0 rejects anything
   after the first stream ("Unexpected data after last XZ block"), and at end of input its header
   read fails with UnexpectedEof. *)
Inductive xz_out := XzOk (data : bytes) | XzEofErr | XzOtherErr.
(* blocks.insert overwrites: the newest binding is found first *)
Fixpoint xz_new_loop (outs : list xz_out) (bs : N) (buffer : bytes) (blocks : list (N * list N)) (count : N)
  : cres (list (N * list N) * N) :=
  match outs with
  | [] => CFuel
  | XzOk data :: r =>
      let buffer' := buffer ++ data in
      if is_nil buffer' then COk (blocks, count)
      else match xz_slices bs buffer' with
           | Some sl => xz_new_loop r bs buffer' (sl ++ blocks) (count + xz_filesz sl)
           | None => CFuel
           end
  | XzEofErr :: _ => COk (blocks, count)
  | XzOtherErr :: _ => CErr CDecoder
  end.
(* (pre-sliced blocks, filesz_actual = count_bytes_read) *)
Definition xz_new (bs : N) (f : bytes) (outs : list xz_out) : cres (list (N * list N) * N) :=
  match xz_precheck f with
  | Some e => CErr e
  | None => xz_new_loop outs bs [] [] 0
  end.

(* ------------------------------------------------------- s4 on the tar crate's entry list (oracle)
   One item per element of archive.entries_with_seek() / entries() (the crate has already folded
   GNU long-name and pax records into the entry they describe). *)
Record tar_oent := mk_toe {
  toe_path : option bytes;   (* entry.path() as to_string_lossy bytes; None = Err *)
  toe_type : N;              (* header().entry_type().as_byte() as read from the header *)
  toe_esize : N;             (* entry.size() *)
  toe_hsize : option N;      (* entry.header().size(); None = Err *)
  toe_mtime : option N;      (* entry.header().mtime(); None = Err *)
  toe_data : bytes }.        (* what reading the entry yields *)
Inductive tar_item := TItem (e : tar_oent) | TItemErr.      (* TItemErr: the iterator yielded Err *)

(* EntryType::new(byte).is_file(): Regular = '0' or NUL *)
Definition tar_is_file (t : N) : bool := (t =? 0) || (t =? 48).

(* process_path_tar: which entries become paths "archive|member" *)
Inductive ppr := PListed (fullpath : bytes)    (* FileValid / FileErrNotSupported by the member's name *)
               | PEmpty (fullpath : bytes)     (* FileErrEmpty *)
               | PFileErr.                     (* FileErr(archive path, ..) *)
Fixpoint process_path_tar_m (archive : bytes) (es : list tar_item) : list ppr :=
  match es with
  | [] => []
  | TItemErr :: r => PFileErr :: process_path_tar_m archive r
  | TItem e :: r =>
      if negb (tar_is_file (toe_type e)) then process_path_tar_m archive r
      else match toe_path e with
           | None => PFileErr :: process_path_tar_m archive r
           | Some p =>
               (if toe_esize e =? 0 then PEmpty (archive ++ SUBPATH_SEP :: p)
                else PListed (archive ++ SUBPATH_SEP :: p)) :: process_path_tar_m archive r
           end
  end.

(* BlockReader::new, Tar: for (index, entry_res) in entries.enumerate() { entry_index = index; Err =>
   continue; path Err => continue; path != subpath => continue; size (Err => return Err); mtime (Err
   => 0); break }.  Returns (entry_index, filesz_actual, TarData.mtime); [last] = entry_index so far. *)
Fixpoint tar_find (sub : bytes) (idx last : N) (es : list tar_item) : cres (N * N * N) :=
  match es with
  | [] => COk (last, 0, 0)
  | TItemErr :: r => tar_find sub (idx + 1) idx r
  | TItem e :: r =>
      match toe_path e with
      | None => tar_find sub (idx + 1) idx r
      | Some p =>
          if beqb sub p then
            match toe_hsize e with
            | None => CErr CEntrySize
            | Some sz => COk (idx, sz, match toe_mtime e with Some m => m | None => 0 end)
            end
          else tar_find sub (idx + 1) idx r
      end
  end.
Record tar_data := mk_tard { td_path : bytes; td_index : N; td_filesz : N; td_mtime : N }.
Definition tar_new (path_subpath : bytes) (es : list tar_item) : cres tar_data :=
  match rsplit_once SUBPATH_SEP path_subpath with
  | None => CErr CNoSeparator
  | Some (path, sub) =>
      match tar_find sub 0 0 es with
      | COk (idx, sz, m) => COk (mk_tard path idx sz m)
      | CErr e => CErr e
      | CFuel => CFuel
      end
  end.

Section TarRead.
  Variable dstate : Type.
  Variable read : dstate -> N -> dstate * list N.
  Variable mkdec : bytes -> dstate.      (* tar::Entry as a reader over the member's data *)

  (* read_block(i) on a fresh tar reader: read_block's past-the-end test, then read_block_FileTar:
     entries.nth(entry_index) (None / Err => Err), filesz_actual == 0 => Done, read ALL blocks *)
  Definition tar_read_block (bs : N) (es : list tar_item) (d : tar_data) (i : N) : bres :=
    let n := td_filesz d in
    if blockoffset_last n bs <? i then BDone
    else match nth_error es (N.to_nat (td_index d)) with
         | Some (TItem e) =>
             if n =? 0 then BDone
             else bres_of (assemble_tar_member dstate read bs n (mkdec (toe_data e)) i)
         | _ => BErr
         end.

  (* decompress_to_ntf (journal / evtx members and files): copy loop with a 65536-byte buffer.
     Returns (bytes written to the temporary file, mtime_opt as returned); the returned size is the
     length of the temporary file. *)
  Definition NTF_BUF : N := 65536.
  Definition ntf_copy (fuel : nat) (src : bytes) : cres bytes :=
    match drain dstate read fuel NTF_BUF (mkdec src) [] with
    | AOk l => COk l
    | AOutOfFuel => CFuel
    | _ => CErr CDecoder
    end.
  (* Gz arm: header mtime (mtime_as_datetime: None when 0) else the compressed file's mtime;
     an unparsable header makes the first decoder.read fail *)
  Definition ntf_gz (fuel : nat) (f : bytes) : cres (bytes * mtime_v) :=
    match gz_parse_header f with
    | GErr _ => CErr CDecoder
    | GOk (h, rest) =>
        match ntf_copy fuel rest with
        | COk l => COk (l, if gh_mtime h =? 0 then MFile else MSecs (gh_mtime h))
        | CErr e => CErr e
        | CFuel => CFuel
        end
    end.
  (* Bz2 / Lz4 / Xz arms: no header time, always the compressed file's mtime *)
  Definition ntf_plain (fuel : nat) (f : bytes) : cres (bytes * mtime_v) :=
    match ntf_copy fuel f with
    | COk l => COk (l, MFile)
    | CErr e => CErr e
    | CFuel => CFuel
    end.
  (* Tar arm: first entry whose path equals the sub-path; none => Ok(None).  mtime 0 or not
     representable (seconds_to_systemtime_checked) => None (no fall-back to the archive's mtime here) *)
  Fixpoint tar_first (sub : bytes) (es : list tar_item) : option tar_oent :=
    match es with
    | [] => None
    | TItemErr :: r => tar_first sub r
    | TItem e :: r =>
        match toe_path e with
        | Some p => if beqb sub p then Some e else tar_first sub r
        | None => tar_first sub r
        end
    end.
  Definition ntf_tar (fuel : nat) (path_subpath : bytes) (es : list tar_item)
    : cres (option (bytes * option mtime_v)) :=
    match rsplit_once SUBPATH_SEP path_subpath with
    | None => CErr CNoSeparator
    | Some (_, sub) =>
        match tar_first sub es with
        | None => COk None
        | Some e =>
            match toe_hsize e with
            | None => CErr CEntrySize
            | Some _ =>
                match ntf_copy fuel (toe_data e) with
                | COk l =>
                    let m := match toe_mtime e with Some m => m | None => 0 end in
                    COk (Some (l, if m =? 0 then None
                                  else match seconds_to_systemtime_checked m with Some s => Some (MSecs s) | None => None end))
                | CErr e' => CErr e'
                | CFuel => CFuel
                end
            end
        end
    end.
End TarRead.

(* ------------------------------------- tar 0.4.44: the crate's entry list for plain headers
   Reference transcription of Archive::next_entry_raw / Header accessors, used (a) by the format
   theorem parse (encode entries) = entries and (b) by correspondence run B, which compares it with
   the crate's own listing of ustar archives.  Not covered (the item is TUnsupported and B skips the
   archive): typeflags 'L' 'K' (GNU long name / link), 'x' (pax), 'S' (sparse), base-256 numbers. *)
Fixpoint truncate_nul (l : bytes) : bytes :=
  match l with [] => [] | b :: r => if b =? 0 then [] else b :: truncate_nul r end.
(* str::trim, ASCII white space only (bytes >= 0x80 make from_utf8 / from_str_radix fail anyway
   unless they spell U+0085 / U+00A0 ...: not modelled) *)
Definition is_ws (b : N) : bool := (b =? 32) || ((9 <=? b) && (b <=? 13)).
Fixpoint trim_left (l : bytes) : bytes :=
  match l with b :: r => if is_ws b then trim_left r else l | [] => [] end.
Definition trim (l : bytes) : bytes := rev (trim_left (rev (trim_left l))).
Fixpoint oct_value (acc : N) (l : bytes) : option N :=
  match l with
  | [] => Some acc
  | b :: r => if (48 <=? b) && (b <=? 55) then oct_value (8 * acc + (b - 48)) r else None
  end.
(* octal_from: truncate at NUL, trim, u64::from_str_radix(.., 8) (accepts one leading '+') *)
Definition octal_from (fld : bytes) : option N :=
  match trim (truncate_nul fld) with
  | [] => None
  | 43 :: [] => None
  | 43 :: r => oct_value 0 r
  | l => oct_value 0 l
  end.
Definition sub_bytes (l : bytes) (a k : nat) : bytes := firstn k (skipn a l).
Definition is_ustar (h : bytes) : bool := beqb (sub_bytes h 257 8) TMAGIC.
(* Header::path_bytes *)
Definition hdr_path (h : bytes) : bytes :=
  let name := truncate_nul (sub_bytes h 0 100) in
  if is_ustar h then
    let prefix := truncate_nul (sub_bytes h 345 155) in
    if is_nil prefix then name else prefix ++ 47 :: name
  else name.
Inductive tar_ritem :=
| RItem (path : bytes) (typ size : N) (mtime : option N) (file_pos : N) (data : bytes)
| RErr                    (* checksum mismatch, bad size field, partial block *)
| RUnsupported.
Fixpoint tar_ref_entries (fuel : nat) (f : bytes) (next : nat) : list tar_ritem :=
  match fuel with
  | O => []
  | S k =>
      let rest := skipn next f in
      match rest with
      | [] => []                                        (* try_read_all read nothing: end *)
      | _ =>
          if (length rest <? 512)%nat then [RErr]       (* "failed to read entire block" *)
          else
            let h := firstn 512 rest in
            if forallb (fun b => b =? 0) h then []      (* all zeros: end of archive *)
            else
              let sum := sum_bytes (sub_bytes h 0 148) + sum_bytes (sub_bytes h 156 356) + 8 * 32 in
              match octal_from (sub_bytes h 148 8) with
              | None => [RErr]
              | Some ck =>
                  if negb (sum =? ck mod TWO32) then [RErr]
                  else
                    let typ := byte_at h 156 in
                    if (128 <=? byte_at h 124) || (128 <=? byte_at h 136)
                       || (typ =? 76) || (typ =? 75) || (typ =? 120) || (typ =? 83)
                    then [RUnsupported]
                    else match octal_from (sub_bytes h 124 12) with
                         | None => [RErr]
                         | Some size =>
                             let file_pos := (next + 512)%nat in
                             RItem (hdr_path h) typ size (octal_from (sub_bytes h 136 12))
                                   (N.of_nat file_pos) (sub_bytes f file_pos (N.to_nat size))
                             :: tar_ref_entries k f
                                  (file_pos + N.to_nat ((size + 511) / 512 * 512))%nat
                         end
              end
      end
  end.
Definition tar_ref_list (f : bytes) : list tar_ritem := tar_ref_entries (S (length f / 512)) f 0.
(* as an oracle value for the s4 side *)
Definition ritem_to_item (r : tar_ritem) : tar_item :=
  match r with
  | RItem p t sz m _ d => TItem (mk_toe (Some p) t sz (Some sz) m d)
  | _ => TItemErr
  end.
