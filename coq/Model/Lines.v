(* Model/Lines.v — executable model of LineReader::find_line (src/readers/linereader.rs).
   Definitions only.  Bytes are read ONLY through `block bs f bo` (what read_block returns).

   Not modelled (memoisation of the results modelled here): the LRU cache, `lines`,
   `foend_to_fobeg` (check_store_LRU, check_store, shortcuts A1a/A1b).  The correspondence
   check therefore drives the real reader with operation SEQUENCES.

   Rust                         model
   ---------------------------  ---------------------------------------------------------
   LinePart(blockp, beg, end)   part = (blockoffset, bi_beg, bi_end); its fileoffset is
                                blockoffset*bs + bi_beg (LinePart::new asserts exactly that)
   Line.lineparts               list part (file order)
   loop over one block          find_nl / rfind_nl over the block (memchr / memrchr)
   loops over blocks            fwd_blocks / bwd_blocks on explicit fuel
   panics (index, underflow)    Panic                                                      *)
From S4.Base Require Import Bytes Chunk.
Open Scope N_scope.

Inductive res (A : Type) : Type :=
| Found (a : A)
| Done
| OutOfFuel
| Panic.
Arguments Found {A} a.
Arguments Done {A}.
Arguments OutOfFuel {A}.
Arguments Panic {A}.

Definition part := (N * N * N)%type.            (* blockoffset, bi_beg, bi_end (exclusive) *)
Definition part_bo (p : part) : N := fst (fst p).
Definition part_beg (p : part) : N := snd (fst p).
Definition part_end (p : part) : N := snd p.

(* LinePart.fileoffset *)
Definition part_fo (bs : N) (p : part) : N :=
  file_offset_at_block_offset_index (part_bo p) bs (part_beg p).
(* LinePart::as_slice : blockp[bi_beg .. bi_end] *)
Definition part_bytes (bs : N) (f : file) (p : part) : list N :=
  slice (block bs f (part_bo p)) (part_beg p) (part_end p).

Definition line := list part.
Definition bytes_of (bs : N) (f : file) (ln : line) : list N := concat (map (part_bytes bs f) ln).
(* Line::fileoffset_begin *)
Definition line_fo_begin (bs : N) (ln : line) : option N :=
  match ln with [] => None | p :: _ => Some (part_fo bs p) end.
(* Line::fileoffset_end : last part's fileoffset + len - 1 *)
Definition line_fo_end (bs : N) (ln : line) : option N :=
  match rev ln with
  | [] => None
  | p :: _ => Some (part_fo bs p + (part_end p - part_beg p) - 1)
  end.
(* Line::stores_blockoffset *)
Definition stores_blockoffset (bo : N) (ln : line) : bool :=
  existsb (fun p => part_bo p =? bo) ln.

(* B2: newline B in the blocks after the middle block.  acc = parts appended so far,
   bi_prev = `bi_beg` left by the previous iteration (BI_UNINIT = None).
   Result: (fo_nl_b, parts after the middle block) *)
Fixpoint fwd_blocks (fuel : nat) (bs : N) (f : file) (bof bo_last : N)
                    (acc : line) (bi_prev : option N) : res (N * line) :=
  match fuel with
  | O => OutOfFuel
  | S k =>
      if bof <=? bo_last then
        let blk := block bs f bof in
        match blk with
        | [] => Panic                                      (* bptr[0] out of bounds *)
        | _ =>
            match find_nl blk with
            | Some d =>
                Found (file_offset_at_block_offset_index bof bs d, acc ++ [(bof, 0, d + 1)])
            | None =>
                fwd_blocks k bs f (bof + 1) bo_last (acc ++ [(bof, 0, lenN blk)]) (Some (lenN blk))
            end
        end
      else
        (* every block was searched: end of file is newline B *)
        match bi_prev with
        | None => Panic
        | Some bi_beg =>
            if bi_beg =? 0 then Panic
            else Found (file_offset_at_block_offset_index bo_last bs (bi_beg - 1), acc)
        end
  end.

(* A4/A5: newline A in the blocks before the middle block (walking backwards).
   acc = parts prepended so far; bi_start_prior as in the Rust code *)
Fixpoint bwd_blocks (fuel : nat) (bs : N) (f : file) (bof : N)
                    (acc : line) (bi_start_prior : N) : res line :=
  match fuel with
  | O => OutOfFuel
  | S k =>
      let blk := block bs f bof in
      match blk with
      | [] => Panic                                        (* blen - charsz underflows *)
      | _ =>
          let bi_start := lenN blk - 1 in
          match rfind_nl blk with
          | Some i =>
              let fo_nl_a1 := file_offset_at_block_offset_index bof bs i + 1 in
              let bi_at := i + 1 in
              let bof_a1 := block_offset_at_file_offset fo_nl_a1 bs in
              if bof_a1 =? bof then Found ((bof, bi_at, bi_start + 1) :: acc)
              else if negb (stores_blockoffset bof_a1 acc)
                   then Found ((bof_a1, 0, bi_start_prior + 1) :: acc)
                   else Found acc
          | None =>
              let acc' := (bof, 0, bi_start + 1) :: acc in
              if negb (bof =? 0) then bwd_blocks k bs f (bof - 1) acc' bi_start
              else Found acc'
          end
      end
  end.

Definition find_line_fuel (fuel : nat) (bs : N) (f : file) (fo : N) : res (N * line) :=
  let filesz := lenN f in
  if filesz =? 0 then Done
  else if filesz <? fo then Done
  else if fo =? filesz then Done
  else
    let bo_last := blockoffset_last filesz bs in
    let bo_mid := block_offset_at_file_offset fo bs in
    let bi_mid := block_index_at_file_offset fo bs in
    let blk := block bs f bo_mid in
    let bi_stop := lenN blk in
    match nthN blk bi_mid with
    | None => Panic                                        (* bptr_middle[bi_at] *)
    | Some _ =>
        (* B1: forward scan of the middle block: (found_nl_b, fo_nl_b, bi_middle_end) *)
        let '(found_b, fo_nl_b0, bi_mid_end) :=
          match find_nl (skipnN bi_mid blk) with
          | Some d => (true, file_offset_at_block_offset_index bo_mid bs (bi_mid + d), bi_mid + d)
          | None =>
              if bo_mid =? bo_last
              then (true, file_offset_at_block_offset_index bo_mid bs (bi_stop - 1), bi_stop - 1)
              else (false, fo, bi_stop - 1)
          end in
        (* B2 *)
        match (if found_b then Found (fo_nl_b0, [])
               else fwd_blocks fuel bs f (bo_mid + 1) bo_last [] None) with
        | Found (fo_nl_b, after) =>
            if fo =? 0 then
              (* A0 *)
              Found (fo_nl_b + 1,
                     (block_offset_at_file_offset 0 bs, block_index_at_file_offset 0 bs,
                      bi_mid_end + 1) :: after)
            else
              let start := fo - 1 in
              let bof := block_offset_at_file_offset start bs in
              let back : res line :=
                if bof =? bo_mid then
                  (* A2a: backward scan of the middle block *)
                  let bi_at0 := block_index_at_file_offset start bs in
                  match rfind_nl (firstnN (bi_at0 + 1) blk) with
                  | Some i => Found ((bo_mid, i + 1, bi_mid_end + 1) :: after)
                  | None =>
                      let acc := (bo_mid, 0, bi_mid_end + 1) :: after in
                      if negb (bof =? 0) then bwd_blocks fuel bs f (bof - 1) acc bi_mid
                      else Found acc
                  end
                else
                  (* A2b: the step back crossed a block boundary *)
                  bwd_blocks fuel bs f bof ((bo_mid, 0, bi_mid_end + 1) :: after) bi_mid in
              match back with
              | Found ps =>
                  (* C / D *)
                  match line_fo_end bs ps with
                  | None => Done
                  | Some fo_end => Found (fo_end + 1, ps)
                  end
              | Done => Done
              | OutOfFuel => OutOfFuel
              | Panic => Panic
              end
        | Done => Done
        | OutOfFuel => OutOfFuel
        | Panic => Panic
        end
    end.

(* fuel: one unit per block suffices; |f|+1 >= number of blocks + 1 *)
Definition find_line_m (bs : N) (f : file) (fo : N) : res (N * line) :=
  find_line_fuel (S (length f)) bs f fo.
