(* Model/BlockszArg.v — the `--blocksz` argument: cli_process_blocksz of src/bin/s4.rs (clap value parser of
   `--blocksz`, called again on the value when the readers are created).  Definitions only.

     if blockszs.starts_with("0x") { BlockSz::from_str_radix(blockszs.trim_start_matches("0x"), 16) }
     else if ... "0o" ... 8  else if ... "0b" ... 2  else { blockszs.parse::<BlockSz>() }
     then   max(BLOCKSZ_MIN, SyslogProcessor::BLOCKSZ_MIN) <= v <= BLOCKSZ_MAX   else Err

   u64::from_str_radix (core::num): empty -> Err(Empty); a lone "+" or "-" -> Err(InvalidDigit); one leading '+' is
   skipped ('-' is not, for an unsigned type: it is then an invalid digit); every further char must be a digit of the
   radix (char::to_digit: 0-9, a-z, A-Z); the value must fit u64 (else Err(PosOverflow)).
   str::trim_start_matches(p) removes EVERY leading repetition of p.
   The prefix table (prefix, radix), the bounds and the code shape are regenerated from the source (Gen/BlockConsts.v). *)
From S4.Base Require Import Bytes Chunk.
From S4.Gen Require Import BlockConsts.
Open Scope N_scope.

Definition u64_max : N := 18446744073709551615.

(* char::to_digit(radix) on an ASCII byte *)
Definition digit_val (radix : N) (c : N) : option N :=
  let v := if (48 <=? c) && (c <=? 57) then Some (c - 48)
           else if (97 <=? c) && (c <=? 122) then Some (c - 97 + 10)
           else if (65 <=? c) && (c <=? 90) then Some (c - 65 + 10)
           else None in
  match v with Some d => if d <? radix then Some d else None | None => None end.

(* the digit loop with checked_mul / checked_add *)
Fixpoint from_digits (radix acc : N) (s : list N) : option N :=
  match s with
  | [] => Some acc
  | c :: r =>
      match digit_val radix c with
      | None => None                                              (* InvalidDigit *)
      | Some d => let v := acc * radix + d in
                  if v <=? u64_max then from_digits radix v r else None   (* PosOverflow *)
      end
  end.

Definition from_str_radix (radix : N) (s : list N) : option N :=
  match s with
  | [] => None                                                    (* Empty *)
  | [c] => if (c =? 43) || (c =? 45) then None else from_digits radix 0 s
  | c :: r => if c =? 43 then from_digits radix 0 r else from_digits radix 0 s
  end.

Fixpoint starts_with (p s : list N) : bool :=
  match p, s with
  | [], _ => true
  | a :: p', b :: s' => (a =? b) && starts_with p' s'
  | _ :: _, [] => false
  end.

(* str::trim_start_matches(p) for a non-empty p: fuel = |s| suffices *)
Fixpoint trim_start (fuel : nat) (p s : list N) : list N :=
  match fuel with
  | O => s
  | S k => if starts_with p s then trim_start k p (skipn (length p) s) else s
  end.

Fixpoint parse_forms (forms : list (list N * N)) (s : list N) : option N :=
  match forms with
  | [] => from_str_radix 10 s                                      (* blockszs.parse::<BlockSz>() *)
  | (p, radix) :: t => if starts_with p s then from_str_radix radix (trim_start (length s) p s)
                       else parse_forms t s
  end.

Definition blocksz_lo : N := N.max blocksz_min sp_blocksz_min.

(* cli_process_blocksz: Some v = Ok(v), None = Err (clap: exit status 2, nothing read) *)
Definition process_blocksz (s : list N) : option N :=
  match parse_forms blocksz_forms s with
  | Some v => if (blocksz_lo <=? v) && (v <=? blocksz_max) then Some v else None
  | None => None
  end.

(* ---------------------------------------------------------------- what an argument DENOTES (spec) *)
(* the value of a digit string, most significant first, unbounded *)
Definition value (radix : N) (ds : list N) : N :=
  fold_left (fun a c => a * radix + match digit_val radix c with Some d => d | None => 0 end) ds 0.
Definition all_digits (radix : N) (ds : list N) : Prop := Forall (fun c => digit_val radix c <> None) ds.
(* an optional '+', then at least one digit of the radix *)
Definition numeral (radix : N) (s : list N) (v : N) : Prop :=
  exists sign ds, s = sign ++ ds /\ (sign = [] \/ sign = [43]) /\ ds <> [] /\ all_digits radix ds /\ v = value radix ds.
Fixpoint repeat_app (p : list N) (k : nat) : list N := match k with O => [] | S k' => p ++ repeat_app p k' end.
(* decimal without a prefix; or ONE OR MORE repetitions of a radix prefix, then a numeral of that radix *)
Definition denotes (s : list N) (v : N) : Prop :=
  numeral 10 s v \/
  exists p radix k r, In (p, radix) blocksz_forms /\ s = repeat_app p (S k) ++ r /\ numeral radix r v.
