(* Model/RegexNum.v — C04, regex stage: from NUMBERS to item texts.
   Definitions only (proofs: Proofs/RegexNumProofs.v).

   1. FAMILIES.  A plan (Model/RegexPlan.v) says per item which (shape, lookahead) alternatives the engine
      provably takes first.  A family is, per item, a list of shapes such that EVERY text of a shape is
      accepted whatever admissible text follows: [family_ok] checks, item by item, that each shape is
      subsumed by an alternative of the plan for every possible next byte (the first bytes of the
      following items' shapes, through items that may render the empty text, and finally the first byte
      of the rest of the slice, or its end).  Then membership item by item — no lookahead condition any
      more — implies [texts_ok] (Proofs/RegexNumProofs.family_sound).  [gen_fam] computes the largest such
      family right to left; it is re-checked, not trusted.
   2. STANDARD RENDERINGS.  For each field a finite table (text, value): years 1970..2099 as four digits
      and (1970..2069) as two, months as two digits / unpadded / every English spelling of the frozen
      reference, days and hours padded / unpadded / space padded, minutes, seconds, numeric offsets in the
      three forms with the three minus/plus signs, every zone abbreviation of the frozen reference in both
      cases.  Fractions are digit strings of an admitted length.  [adm_*] keeps the entries whose text is
      in the row's family at the field's item and which the property-level reading of the row's DTFS
      variant ([Spec/NormaliseSpec.rd_*]) reads back as that value — both decided by evaluation. *)
From Coq Require Import String.
From S4.Base Require Import Bytes.
From S4.Model Require Import Calendar Normalise Regex RegexPlan RegexDt.
From S4.Spec Require Import CalendarSpec TzRef NormaliseSpec.
Close Scope string_scope.
Open Scope list_scope.
Open Scope N_scope.

(* ------------------------------------------------------------------ 1. families *)
Definition shape := list sym.
Definition fam := list (list shape).

Definition sym_bytes_of (y : sym) : list N := match y with SyB b => [b] | SyS s => s end.
Definition sym_eqb (a b : sym) : bool :=
  match a, b with
  | SyB x, SyB y => x =? y
  | SyS x, SyS y => list_eqb x y
  | _, _ => false
  end.
(* (if-then-else, not &&/||: vm_compute evaluates both arguments of a boolean function) *)
Definition sym_sub (a b : sym) : bool := if sym_eqb a b then true else forallb (sym_inb b) (sym_bytes_of a).
Fixpoint shape_sub (a b : shape) : bool :=
  match a, b with
  | [], [] => true
  | x :: a', y :: b' => if sym_sub x y then shape_sub a' b' else false
  | _, _ => false
  end.

(* what can come next: Some b = the byte b, None = the end of the haystack *)
Definition onext := option N.
Definition onext_eqb (a b : onext) : bool :=
  match a, b with Some x, Some y => x =? y | None, None => true | _, _ => false end.
Fixpoint dedupe_next (l : list onext) : list onext :=
  match l with
  | [] => []
  | x :: r => if existsb (onext_eqb x) r then dedupe_next r else x :: dedupe_next r
  end.
Definition la_has (la : look) (n : onext) : bool :=
  match la, n with
  | LAny, _ => true
  | LEnd, None => true
  | LSet F, Some b => existsb (N.eqb b) F
  | _, _ => false
  end.
Definition add_next (x : onext) (acc : list onext) : list onext :=
  if existsb (onext_eqb x) acc then acc else x :: acc.
Definition nexts_step (fj : list shape) (nx : list onext) : list onext :=
  fold_right (fun st acc => match st with
                            | [] => fold_right add_next acc nx
                            | y :: _ => fold_right (fun b a => add_next (Some b) a) acc (sym_bytes_of y)
                            end) [] fj.
(* rf = admissible first bytes of the rest of the slice, re = the slice may end there *)
Definition nexts_end (rf : list N) (re : bool) : list onext := map Some rf ++ (if re then [None] else []).
Fixpoint nexts (fs : fam) (rf : list N) (re : bool) : list onext :=
  match fs with
  | [] => nexts_end rf re
  | fj :: more => nexts_step fj (nexts more rf re)
  end.

Definition closed_for (sg : seg) (n : onext) (st : shape) : bool :=
  existsb (fun a => if la_has (a_la a) n then shape_sub st (a_shape a) else false) sg.
Definition la_any (la : look) : bool := match la with LAny => true | _ => false end.
(* an alternative without lookahead condition settles every next byte at once *)
Definition shape_closed (sg : seg) (nx : list onext) (st : shape) : bool :=
  if existsb (fun a => if la_any (a_la a) then shape_sub st (a_shape a) else false) sg then true
  else forallb (fun n => closed_for sg n st) nx.
(* bottom-up: the possible next bytes of the items checked so far, or None when a shape is not closed *)
Fixpoint family_nexts (p : plan) (fs : fam) (rf : list N) (re : bool) : option (list onext) :=
  match p, fs with
  | [], [] => Some (nexts_end rf re)
  | sg :: p', fj :: fs' =>
      match family_nexts p' fs' rf re with
      | Some nx => if forallb (shape_closed sg nx) fj then Some (nexts_step fj nx) else None
      | None => None
      end
  | _, _ => None
  end.
Definition family_ok (p : plan) (fs : fam) (rf : list N) (re : bool) : bool :=
  match family_nexts p fs rf re with Some _ => true | None => false end.

Definition in_fam (fj : list shape) (t : bytes) : bool := existsb (fun st => in_shape st t) fj.
Fixpoint in_family (fs : fam) (texts : list bytes) : bool :=
  match fs, texts with
  | [], [] => true
  | fj :: fs', t :: ts => in_fam fj t && in_family fs' ts
  | _, _ => false
  end.
Definition rest_ok (rf : list N) (re : bool) (rest : bytes) : bool :=
  match rest with [] => re | b :: _ => existsb (N.eqb b) rf end.

(* generation, right to left *)
Fixpoint shape_eqb (a b : shape) : bool :=
  match a, b with
  | [], [] => true
  | x :: a', y :: b' => if sym_eqb x y then shape_eqb a' b' else false
  | _, _ => false
  end.
(* the alternatives of one shape are adjacent in a generated plan: dropping adjacent repeats is enough
   (a repeated candidate would be harmless) *)
Fixpoint dedupe_shapes (l : list shape) : list shape :=
  match l with
  | x :: ((y :: _) as r) => if shape_eqb x y then dedupe_shapes r else x :: dedupe_shapes r
  | _ => l
  end.
Definition first_bad (bad : list onext) (st : shape) : bool :=
  match st with
  | [] => false
  | y :: _ => existsb (fun b => existsb (onext_eqb (Some b)) bad) (sym_bytes_of y)
  end.
(* one item, given the family of the items after it.  When no shape of the item survives every possible
   next byte, the next item loses the shapes that begin with a byte NO shape of this item tolerates
   (e.g. blanks followed by a space-padded day: the space-padded forms go, the blanks stay) *)
(* remove the shapes that begin with a bad byte from the next item and, through items that may render
   the empty text, from the items after it *)
Fixpoint prune_bad (bad : list onext) (fs : fam) : fam :=
  match fs with
  | [] => []
  | f :: more =>
      let f' := filter (fun st => negb (first_bad bad st)) f in
      if existsb (fun st => match st with [] => true | _ => false end) f' then f' :: prune_bad bad more
      else f' :: more
  end.
Definition fam_step (sg : seg) (st0 : fam * list onext) (rf : list N) (re : bool) : fam * list onext :=
  let '(fs, nx) := st0 in
  let cands := dedupe_shapes (map a_shape sg) in
  match filter (shape_closed sg nx) cands with
  | (_ :: _) as fj => (fj :: fs, nexts_step fj nx)
  | [] =>
      let bad := filter (fun n => forallb (fun st => negb (closed_for sg n st)) cands) nx in
      let fs' := prune_bad bad fs in
      let nx' := nexts fs' rf re in
      let fj := filter (shape_closed sg nx') cands in
      (fj :: fs', nexts_step fj nx')
  end.
Fixpoint gen_fam_nx (p : plan) (rf : list N) (re : bool) : fam * list onext :=
  match p with
  | [] => ([], nexts_end rf re)
  | sg :: p' => fam_step sg (gen_fam_nx p' rf re) rf re
  end.
Definition gen_fam (p : plan) (rf : list N) (re : bool) : fam := fst (gen_fam_nx p rf re).

(* what may follow the last item: the first of these classes for which no item loses all its shapes:
   any byte; any ASCII byte but blank and tab (rows ending in `[[:blank:]]*`); any byte but a digit; any byte but an ASCII letter or digit; the same without blank and tab
   (rows ending in `[[:blank:]]*`); only a newline.  The slice may also end there. *)
Definition ALL_BYTES : list N := map N.of_nat (seq 0 256).
Definition RF_ALL : list N := ALL_BYTES.
Definition RF_NB : list N := set_of (fun c => negb (in_posix P_blank c)).
Definition RF_NODIGIT : list N := filter (fun c => negb (in_posix P_digit c)) ALL_BYTES.
Definition RF_SAFE : list N := filter (fun c => negb (in_posix P_alnum c)) ALL_BYTES.
Definition RF_NOBLANK : list N := filter (fun c => negb (in_posix P_alnum c) && negb (in_posix P_blank c)) ALL_BYTES.
Definition fam_full (fs : fam) : bool := forallb (fun fj => match fj with [] => false | _ => true end) fs.
Definition rf_of (p : plan) : list N :=
  if fam_full (gen_fam p RF_ALL true) then RF_ALL
  else if fam_full (gen_fam p RF_NB true) then RF_NB
  else if fam_full (gen_fam p RF_NODIGIT true) then RF_NODIGIT
  else if fam_full (gen_fam p RF_SAFE true) then RF_SAFE
  else if fam_full (gen_fam p RF_NOBLANK true) then RF_NOBLANK
  else [10].
Definition row_rf (row : rx_row) : list N := rf_of (row_plan row).
Definition fam_of (p : plan) : fam := gen_fam p (rf_of p) true.
Definition row_fam (row : rx_row) : fam := fam_of (row_plan row).

(* ------------------------------------------------------------------ 2. standard renderings *)
Definition rangeN (lo : N) (n : nat) : list N := map (fun k => lo + N.of_nat k) (seq 0 n).
Definition dec4 (y : N) : bytes := [48 + y / 1000; 48 + (y / 100) mod 10; 48 + (y / 10) mod 10; 48 + y mod 10].
Definition dd (n : N) : bytes := [48 + n / 10; 48 + n mod 10].
Definition d1 (n : N) : bytes := [48 + n].
Definition zN (n : N) : Z := Z.of_N n.

Definition std_year : list (bytes * Z) :=
  map (fun y => (dec4 y, zN y)) (rangeN 1970 130) ++ map (fun y => (dd (y mod 100), zN y)) (rangeN 1970 100).
Definition std_month : list (bytes * Z) :=
  map (fun m => (dd m, zN m)) (rangeN 1 12) ++ map (fun m => (d1 m, zN m)) (rangeN 1 9) ++ ref_month_spellings.
Definition std_day : list (bytes * Z) :=
  map (fun d => (dd d, zN d)) (rangeN 1 31) ++ map (fun d => (d1 d, zN d)) (rangeN 1 9)
  ++ map (fun d => (32 :: d1 d, zN d)) (rangeN 1 9).
Definition std_hour : list (bytes * Z) :=
  map (fun h => (dd h, zN h)) (rangeN 0 24) ++ map (fun h => (d1 h, zN h)) (rangeN 0 10).
Definition std_minute : list (bytes * Z) := map (fun m => (dd m, zN m)) (rangeN 0 60).
Definition std_second : list (bytes * Z) := map (fun m => (dd m, zN m)) (rangeN 0 60).

Definition signs : list (bytes * bool) := [([43], false); ([45], true); ([226; 136; 146], true)].
Definition soff (neg : bool) (hh mm : N) : Z :=
  let v := (zN hh * 3600 + zN mm * 60)%Z in if neg then (- v)%Z else v.
(* Some o = the written offset; None = the fallback zone (ambiguous abbreviation) *)
Definition std_tz_num (k : dtfs_tz) : list (bytes * option Z) :=
  flat_map (fun sg =>
    flat_map (fun hh =>
      match k with
      | Tz_zp => [(fst sg ++ dd hh, Some (soff (snd sg) hh 0))]
      | Tz_z => map (fun mm => (fst sg ++ dd hh ++ dd mm, Some (soff (snd sg) hh mm))) (rangeN 0 60)
      | Tz_zc => map (fun mm => (fst sg ++ dd hh ++ [58] ++ dd mm, Some (soff (snd sg) hh mm))) (rangeN 0 60)
      | _ => []
      end) (rangeN 0 24)) signs.
Definition std_tz (k : dtfs_tz) : list (bytes * option Z) :=
  match k with
  | Tz_Z => tz_ref_expanded
  | _ => std_tz_num k
  end.

(* ---- the property-level reading of ONE field text under a row's DTFS variant *)
Definition c0 : caps := mkCaps None None None None None None None None None.
Definition read_year (d : dtfs) (t : bytes) : option Z := rd_year d (mkCaps (Some t) None None None None None None None None) None.
Definition read_month (d : dtfs) (t : bytes) : option Z := rd_month d (mkCaps None (Some t) None None None None None None None).
Definition read_day (d : dtfs) (t : bytes) : option Z := rd_day d (mkCaps None None (Some t) None None None None None None).
Definition read_hour (d : dtfs) (t : bytes) : option Z := rd_hour d (mkCaps None None None (Some t) None None None None None).
Definition read_minute (d : dtfs) (t : bytes) : option Z := rd_minute d (mkCaps None None None None (Some t) None None None None).
Definition read_second (d : dtfs) (t : bytes) : option Z := rd_second d (mkCaps None None None None None (Some t) None None None).
(* zone text -> Some (Some o) / Some None (fallback) / None (not a zone of this variant) *)
Definition read_tz (d : dtfs) (t : bytes) : option (option Z) :=
  match f_tz d with
  | Tz_z | Tz_zc | Tz_zp => option_map Some (off_of_text (f_tz d) t)
  | Tz_Z => zone_of_name t
  | Tz_fill | Tz_none => None
  end.

Definition oZ_eqb (a b : option Z) : bool :=
  match a, b with Some x, Some y => (x =? y)%Z | None, None => true | _, _ => false end.
Definition ooZ_eqb (a b : option (option Z)) : bool :=
  match a, b with Some x, Some y => oZ_eqb x y | None, None => true | _, _ => false end.

(* admitted (text, value) pairs of a field of a row: text in the family at the field's item, value read back *)
Definition adm_tab (fj : list shape) (rd : bytes -> option Z) (tab : list (bytes * Z)) : list (bytes * Z) :=
  filter (fun tv => in_fam fj (fst tv) && oZ_eqb (rd (fst tv)) (Some (snd tv))) tab.
Definition adm_tz_tab (fj : list shape) (d : dtfs) : list (bytes * option Z) :=
  filter (fun tv => in_fam fj (fst tv) && ooZ_eqb (read_tz d (fst tv)) (Some (snd tv))) (std_tz (f_tz d)).
Definition DIG : sym := SyS [48; 49; 50; 51; 52; 53; 54; 55; 56; 57].
Definition adm_frac_len (fj : list shape) : list nat :=
  filter (fun n => existsb (shape_sub (repeat DIG n)) fj) [1; 2; 3; 4; 5; 6; 7; 8; 9]%nat.

(* item index of field f in the plan (None: not captured by this row) *)
Definition field_item (row : rx_row) (p : plan) (f : N) : option nat :=
  match assocN f (rx_names row) with
  | Some g => group_seg p g
  | None => None
  end.
Definition fam_at (fs : fam) (j : option nat) : list shape :=
  match j with Some k => nth k fs [] | None => [] end.

(* ---- a reading: per field the written text with its value, or nothing written *)
Record fread := mkFR {
  r_year : option (bytes * Z); r_month : bytes * Z; r_day : bytes * Z; r_hour : bytes * Z; r_minute : bytes * Z;
  r_second : option (bytes * Z); r_frac : option bytes; r_tz : option (bytes * option Z) }.
Definition fread_caps (r : fread) : caps :=
  mkCaps (option_map fst (r_year r)) (Some (fst (r_month r))) (Some (fst (r_day r))) (Some (fst (r_hour r)))
         (Some (fst (r_minute r))) (option_map fst (r_second r)) (r_frac r) (option_map fst (r_tz r)) None.

Definition mem_tab (tv : bytes * Z) (tab : list (bytes * Z)) : bool :=
  existsb (fun x => beqb (fst x) (fst tv) && (snd x =? snd tv)%Z) tab.
Definition mem_tz_tab (tv : bytes * option Z) (tab : list (bytes * option Z)) : bool :=
  existsb (fun x => beqb (fst x) (fst tv) && oZ_eqb (snd x) (snd tv)) tab.

(* every component is an admitted standard rendering for this row, and what is not written is what the
   row's DTFS variant does not capture *)
Definition fread_admitted (row : rx_row) (d : dtfs) (p : plan) (fs : fam) (r : fread) : bool :=
  let at_ f := fam_at fs (field_item row p f) in
  match r_year r with
  | Some tv => mem_tab tv (adm_tab (at_ 0) (read_year d) std_year)
  | None => match f_year d with Y_fill => true | _ => false end
  end
  && mem_tab (r_month r) (adm_tab (at_ 1) (read_month d) std_month)
  && mem_tab (r_day r) (adm_tab (at_ 2) (read_day d) std_day)
  && mem_tab (r_hour r) (adm_tab (at_ 3) (read_hour d) std_hour)
  && mem_tab (r_minute r) (adm_tab (at_ 4) (read_minute d) std_minute)
  && match r_second r with
     | Some tv => mem_tab tv (adm_tab (at_ 5) (read_second d) std_second)
     | None => match f_second d with S_fill | S_none => true | S_S => false end
     end
  && match r_frac r with
     | Some f => existsb (Nat.eqb (length f)) (adm_frac_len (at_ 6)) && forallb digit f
                 && match f_frac d with F_f => true | F_none => false end
     | None => match f_frac d with F_none => true | F_f => false end
     end
  && match r_tz r with
     | Some tv => mem_tz_tab tv (adm_tz_tab (at_ 7) d)
     | None => match f_tz d with Tz_fill => true | _ => false end
     end
  && match f_epoch d with E_none => true | E_s => false end.

(* the numbers of a reading *)
Definition fr_year (r : fread) (yo : option Z) : Z :=
  match r_year r with Some tv => snd tv | None => match yo with Some y => y | None => 1972%Z end end.
Definition fr_second (r : fread) : Z := match r_second r with Some tv => snd tv | None => 0%Z end.
Definition fr_frac (r : fread) : Z :=
  match r_frac r with Some f => (num_of f 0 * 10 ^ Z.of_nat (9 - length f))%Z | None => 0%Z end.
Definition fr_off (r : fread) (fallback : Z) : Z :=
  match r_tz r with Some (_, Some o) => o | _ => fallback end.
Definition fread_instant (r : fread) (yo : option Z) (fallback : Z) : Z :=
  spec_instant (fr_year r yo) (snd (r_month r)) (snd (r_day r)) (snd (r_hour r)) (snd (r_minute r))
               (fr_second r) (fr_frac r) (fr_off r fallback).
(* a date that exists, a time of day; a fill year the spec accepts *)
Definition fread_valid (r : fread) (yo : option Z) : bool :=
  let y := fr_year r yo in
  ((0 <=? y) && (1 <=? snd (r_month r)) && (snd (r_month r) <=? 12) && (1 <=? snd (r_day r))
   && (snd (r_day r) <=? month_len y (snd (r_month r)))
   && (snd (r_hour r) <=? 23) && (snd (r_minute r) <=? 59) && (fr_second r <=? 59))%Z
  && match r_year r, yo with
     | None, Some y' => ((1000 <=? y') && (y' <=? 9999))%Z
     | _, _ => true
     end.

(* ---- the decidable predicate on a row: covered, non-epoch, family closed and non-empty *)
Definition plan_numeric (o : org) (row : rx_row) (p : plan) (d : dtfs) : bool :=
  let rf := rf_of p in
  let fs := gen_fam p rf true in          (* = fam_of p *)
  plan_covers_at o row p && family_ok p fs rf true
  && fam_full fs
  && match f_epoch d with E_none => true | E_s => false end.
Definition row_numeric (row : rx_row) (d : dtfs) : bool := plan_numeric OAbs row (row_plan row) d.
(* the same for a match attempt after a non-empty prefix (unanchored rows) *)
Definition row_numeric_nz (row : rx_row) (d : dtfs) : bool := plan_numeric ONz row (row_plan_nz row) d.
(* ---- which VALUES have an admitted standard rendering in a row (field ids of the gaps; [] = none):
   years 1970..2099 (four digits) / 1970..2069 (two digits), months, days, hours 0..23, minutes, seconds,
   at least one fraction length, numeric offsets with an ASCII sign in all hours 00..23 and minutes 00..59,
   at least 192 of the 392 zone-name spellings of the frozen reference *)
Definition has_val (tab : list (bytes * Z)) (v : N) : bool := existsb (fun tv => (snd tv =? Z.of_N v)%Z) tab.
Definition value_gaps (row : rx_row) (d : dtfs) : list N :=
  let p := row_plan row in
  let fs := gen_fam p (rf_of p) true in
  let at_ f := fam_at fs (field_item row p f) in
  (if match f_year d with
      | Y_Y => forallb (has_val (adm_tab (at_ 0) (read_year d) std_year)) (rangeN 1970 130)
      | Y_y => forallb (has_val (adm_tab (at_ 0) (read_year d) std_year)) (rangeN 1970 100)
      | _ => true end then [] else [0])
  ++ (if forallb (has_val (adm_tab (at_ 1) (read_month d) std_month)) (rangeN 1 12) then [] else [1])
  ++ (if forallb (has_val (adm_tab (at_ 2) (read_day d) std_day)) (rangeN 1 31) then [] else [2])
  ++ (if forallb (has_val (adm_tab (at_ 3) (read_hour d) std_hour)) (rangeN 0 24) then [] else [3])
  ++ (if forallb (has_val (adm_tab (at_ 4) (read_minute d) std_minute)) (rangeN 0 60) then [] else [4])
  ++ (if match f_second d with
         | S_S => forallb (has_val (adm_tab (at_ 5) (read_second d) std_second)) (rangeN 0 60)
         | _ => true end then [] else [5])
  ++ (if match f_frac d with
         | F_f => match adm_frac_len (at_ 6) with [] => false | _ => true end
         | _ => true end then [] else [6])
  ++ (if match f_tz d with
         | Tz_z | Tz_zc | Tz_zp => Nat.leb (2 * length (std_tz (f_tz d))) (3 * length (adm_tz_tab (at_ 7) d))
         | Tz_Z => Nat.leb 192 (length (adm_tz_tab (at_ 7) d))
         | _ => true end then [] else [7]).

(* ------------------------------------------------------------------ 3. pattern competition
   [refuted r' fs]: row r' can match NO line whose timestamp items are texts of the family fs (timestamp at
   the start of the slice): r' is anchored at `^` (so it can only match at offset 0) and the symbolic engine
   refutes it on every combination of shapes of the leading items (as many items as keep the number of
   combinations under the budget), whatever follows. *)
Fixpoint starts_bol (r : re) : bool :=
  match r with
  | RBol => true
  | RSeq a _ => starts_bol a
  | RGroup _ a => starts_bol a
  | RAlt a b => if starts_bol a then starts_bol b else false
  | _ => false
  end.
Fixpoint heads_n (n : nat) (fs : fam) : list shape :=
  match n, fs with
  | S n', fj :: more => flat_map (fun st => map (fun h => st ++ h) (heads_n n' more)) fj
  | _, _ => [[]]
  end.
Fixpoint heads_count (n : nat) (fs : fam) : nat :=
  match n, fs with
  | S n', fj :: more => length fj * heads_count n' more
  | _, _ => 1
  end.
Definition HEAD_BUDGET : nat := 128.
(* the variants of a shape with its first proper set replaced by each of its bytes *)
Fixpoint split_first (sh : shape) : option (list shape) :=
  match sh with
  | [] => None
  | SyS (a :: b :: s) :: rest => Some (map (fun x => SyB x :: rest) (a :: b :: s))
  | y :: rest => match split_first rest with
                 | Some vs => Some (map (cons y) vs)
                 | None => None
                 end
  end.
(* refute r' at offset 0 on every text of the shape followed by anything; when the symbolic run is not
   definite, split the first set of the shape into its bytes (fuel = number of splits along a branch) *)
Fixpoint refute_sh (fuel : nat) (r' : re) (sh : shape) : bool :=
  match sm sst (S (length sh)) r' (mkS 0 OAbs sh TAny []) s_accept with
  | NoMatch => true
  | Unknown => match fuel with
               | O => false
               | S f => match split_first sh with
                        | Some vs => forallb (refute_sh f r') vs
                        | None => false
                        end
               end
  | _ => false
  end.
Definition REFUTE_SPLITS : nat := 4.
(* incremental: the combinations of the first n items, for the first n (within the budget) that refutes *)
Definition refuted (r' : re) (fs : fam) : bool :=
  if starts_bol r'
  then existsb (fun n => if Nat.leb (heads_count n fs) HEAD_BUDGET
                         then forallb (refute_sh REFUTE_SPLITS r') (heads_n n fs) else false)
               [1; 2; 3; 4; 5; 6; 7; 8]%nat
  else false.
(* the earlier rows that are NOT refuted for the lines of [row]: its possible competitors *)
Definition competitors (table : list rx_row) (row : rx_row) : list N :=
  let fs := row_fam row in
  map rx_index (filter (fun r' => if rx_index r' <? rx_index row then negb (refuted (rx_re r') fs) else false) table).

(* row of a table by index (for the generated competitor shards) *)
Definition rx_at (table : list rx_row) (i : N) : rx_row :=
  match find (fun r => rx_index r =? i) table with Some r => r | None => mkRx 0 REps 0 [] 0 0 0 0 end.
