(* Model/RegexNum.v — C04, regex stage: from NUMBERS to item texts.
   Definitions only (proofs: Proofs/RegexNumProofs.v).

   1. FAMILIES.  A plan (Model/RegexPlan.v) says per item which (shape, lookahead) alternatives the engine
      provably takes first.  A family is, per item, a list of shapes such that EVERY text of a shape is
      accepted whatever admissible text follows: [family_ok] checks, item by item, that each shape is
      subsumed by an alternative of the plan for every possible next byte (the first bytes of the
      following items' shapes, through items that may render the empty text, and finally the first byte
      of the rest of the slice, or its end).  Then membership item by item — no lookahead condition any
      more — implies [texts_ok] (Proofs/RegexNumProofs.family_sound).  [gen_fam] computes the largest such
      family right to left; it is re-checked, not trusted.
   2. STANDARD RENDERINGS.  For each field a finite table (text, value): years 1970..2099 as four digits
      and (1970..2069) as two, months as two digits / unpadded / every English spelling of the frozen
      reference, days and hours padded / unpadded / space padded, minutes, seconds, numeric offsets in the
      three forms with the three minus/plus signs, every zone abbreviation of the frozen reference in both
      cases.  Fractions are digit strings of an admitted length.  [adm_*] keeps the entries whose text is
      in the row's family at the field's item and which the property-level reading of the row's DTFS
      variant ([Spec/NormaliseSpec.rd_*]) reads back as that value — both decided by evaluation. *)
From Coq Require Import String.
From S4.Base Require Import Bytes.
From S4.Model Require Import Calendar Normalise Regex RegexPlan RegexDt.
From S4.Spec Require Import CalendarSpec TzRef NormaliseSpec.
Close Scope string_scope.
Open Scope list_scope.
Open Scope N_scope.

(* ------------------------------------------------------------------ 1. families *)
Definition shape := list sym.
Definition fam := list (list shape).

Definition sym_bytes_of (y : sym) : list N := match y with SyB b => [b] | SyS s => s end.
Definition sym_sub (a b : sym) : bool := forallb (sym_inb b) (sym_bytes_of a).
Fixpoint shape_sub (a b : shape) : bool :=
  match a, b with
  | [], [] => true
  | x :: a', y :: b' => sym_sub x y && shape_sub a' b'
  | _, _ => false
  end.

(* what can come next: Some b = the byte b, None = the end of the haystack *)
Definition onext := option N.
Definition onext_eqb (a b : onext) : bool :=
  match a, b with Some x, Some y => x =? y | None, None => true | _, _ => false end.
Fixpoint dedupe_next (l : list onext) : list onext :=
  match l with
  | [] => []
  | x :: r => if existsb (onext_eqb x) r then dedupe_next r else x :: dedupe_next r
  end.
Definition la_has (la : look) (n : onext) : bool :=
  match la, n with
  | LAny, _ => true
  | LEnd, None => true
  | LSet F, Some b => existsb (N.eqb b) F
  | _, _ => false
  end.
Definition nexts_step (fj : list shape) (nx : list onext) : list onext :=
  dedupe_next (flat_map (fun st => match st with [] => nx | y :: _ => map Some (sym_bytes_of y) end) fj).
(* rf = admissible first bytes of the rest of the slice, re = the slice may end there *)
Definition nexts_end (rf : list N) (re : bool) : list onext := map Some rf ++ (if re then [None] else []).
Fixpoint nexts (fs : fam) (rf : list N) (re : bool) : list onext :=
  match fs with
  | [] => nexts_end rf re
  | fj :: more => nexts_step fj (nexts more rf re)
  end.

Definition shape_closed (sg : seg) (nx : list onext) (st : shape) : bool :=
  forallb (fun n => existsb (fun a => shape_sub st (a_shape a) && la_has (a_la a) n) sg) nx.
Fixpoint family_ok (p : plan) (fs : fam) (rf : list N) (re : bool) : bool :=
  match p, fs with
  | [], [] => true
  | sg :: p', fj :: fs' => forallb (shape_closed sg (nexts fs' rf re)) fj && family_ok p' fs' rf re
  | _, _ => false
  end.

Definition in_fam (fj : list shape) (t : bytes) : bool := existsb (fun st => in_shape st t) fj.
Fixpoint in_family (fs : fam) (texts : list bytes) : bool :=
  match fs, texts with
  | [], [] => true
  | fj :: fs', t :: ts => in_fam fj t && in_family fs' ts
  | _, _ => false
  end.
Definition rest_ok (rf : list N) (re : bool) (rest : bytes) : bool :=
  match rest with [] => re | b :: _ => existsb (N.eqb b) rf end.

(* generation, right to left *)
Definition sym_eqb (a b : sym) : bool :=
  match a, b with
  | SyB x, SyB y => x =? y
  | SyS x, SyS y => list_eqb x y
  | _, _ => false
  end.
Fixpoint shape_eqb (a b : shape) : bool :=
  match a, b with
  | [], [] => true
  | x :: a', y :: b' => sym_eqb x y && shape_eqb a' b'
  | _, _ => false
  end.
Fixpoint dedupe_shapes (l : list shape) : list shape :=
  match l with
  | [] => []
  | x :: r => if existsb (shape_eqb x) r then dedupe_shapes r else x :: dedupe_shapes r
  end.
Definition closed_for (sg : seg) (n : onext) (st : shape) : bool :=
  existsb (fun a => shape_sub st (a_shape a) && la_has (a_la a) n) sg.
Definition first_bad (bad : list onext) (st : shape) : bool :=
  match st with
  | [] => false
  | y :: _ => existsb (fun b => existsb (onext_eqb (Some b)) bad) (sym_bytes_of y)
  end.
(* one item, given the family of the items after it.  When no shape of the item survives every possible
   next byte, the next item loses the shapes that begin with a byte NO shape of this item tolerates
   (e.g. blanks followed by a space-padded day: the space-padded forms go, the blanks stay) *)
Definition fam_step (sg : seg) (fs : fam) (rf : list N) (re : bool) : fam :=
  let cands := dedupe_shapes (map a_shape sg) in
  let nx := nexts fs rf re in
  match filter (shape_closed sg nx) cands with
  | (_ :: _) as fj => fj :: fs
  | [] =>
      match fs with
      | fnext :: more =>
          let bad := filter (fun n => forallb (fun st => negb (closed_for sg n st)) cands) nx in
          let fnext' := filter (fun st => negb (first_bad bad st)) fnext in
          let nx' := nexts (fnext' :: more) rf re in
          filter (shape_closed sg nx') cands :: fnext' :: more
      | [] => [] :: fs
      end
  end.
Fixpoint gen_fam (p : plan) (rf : list N) (re : bool) : fam :=
  match p with
  | [] => []
  | sg :: p' => fam_step sg (gen_fam p' rf re) rf re
  end.

(* what may follow the last item: any ASCII byte that is not a letter or a digit, or the end *)
Definition RF_SAFE : list N := set_of (fun c => negb (in_posix P_alnum c)).
Definition row_fam (row : rx_row) : fam := gen_fam (row_plan row) RF_SAFE true.

(* ------------------------------------------------------------------ 2. standard renderings *)
Definition rangeN (lo : N) (n : nat) : list N := map (fun k => lo + N.of_nat k) (seq 0 n).
Definition dec4 (y : N) : bytes := [48 + y / 1000; 48 + (y / 100) mod 10; 48 + (y / 10) mod 10; 48 + y mod 10].
Definition dd (n : N) : bytes := [48 + n / 10; 48 + n mod 10].
Definition d1 (n : N) : bytes := [48 + n].
Definition zN (n : N) : Z := Z.of_N n.

Definition std_year : list (bytes * Z) :=
  map (fun y => (dec4 y, zN y)) (rangeN 1970 130) ++ map (fun y => (dd (y mod 100), zN y)) (rangeN 1970 100).
Definition std_month : list (bytes * Z) :=
  map (fun m => (dd m, zN m)) (rangeN 1 12) ++ map (fun m => (d1 m, zN m)) (rangeN 1 9) ++ ref_month_spellings.
Definition std_day : list (bytes * Z) :=
  map (fun d => (dd d, zN d)) (rangeN 1 31) ++ map (fun d => (d1 d, zN d)) (rangeN 1 9)
  ++ map (fun d => (32 :: d1 d, zN d)) (rangeN 1 9).
Definition std_hour : list (bytes * Z) :=
  map (fun h => (dd h, zN h)) (rangeN 0 24) ++ map (fun h => (d1 h, zN h)) (rangeN 0 10).
Definition std_minute : list (bytes * Z) := map (fun m => (dd m, zN m)) (rangeN 0 60).
Definition std_second : list (bytes * Z) := map (fun m => (dd m, zN m)) (rangeN 0 60).

Definition signs : list (bytes * bool) := [([43], false); ([45], true); ([226; 136; 146], true)].
Definition soff (neg : bool) (hh mm : N) : Z :=
  let v := (zN hh * 3600 + zN mm * 60)%Z in if neg then (- v)%Z else v.
(* Some o = the written offset; None = the fallback zone (ambiguous abbreviation) *)
Definition std_tz_num (k : dtfs_tz) : list (bytes * option Z) :=
  flat_map (fun sg =>
    flat_map (fun hh =>
      match k with
      | Tz_zp => [(fst sg ++ dd hh, Some (soff (snd sg) hh 0))]
      | Tz_z => map (fun mm => (fst sg ++ dd hh ++ dd mm, Some (soff (snd sg) hh mm))) (rangeN 0 60)
      | Tz_zc => map (fun mm => (fst sg ++ dd hh ++ [58] ++ dd mm, Some (soff (snd sg) hh mm))) (rangeN 0 60)
      | _ => []
      end) (rangeN 0 24)) signs.
Definition std_tz (k : dtfs_tz) : list (bytes * option Z) :=
  match k with
  | Tz_Z => tz_ref_expanded
  | _ => std_tz_num k
  end.

(* ---- the property-level reading of ONE field text under a row's DTFS variant *)
Definition c0 : caps := mkCaps None None None None None None None None None.
Definition read_year (d : dtfs) (t : bytes) : option Z := rd_year d (mkCaps (Some t) None None None None None None None None) None.
Definition read_month (d : dtfs) (t : bytes) : option Z := rd_month d (mkCaps None (Some t) None None None None None None None).
Definition read_day (d : dtfs) (t : bytes) : option Z := rd_day d (mkCaps None None (Some t) None None None None None None).
Definition read_hour (d : dtfs) (t : bytes) : option Z := rd_hour d (mkCaps None None None (Some t) None None None None None).
Definition read_minute (d : dtfs) (t : bytes) : option Z := rd_minute d (mkCaps None None None None (Some t) None None None None).
Definition read_second (d : dtfs) (t : bytes) : option Z := rd_second d (mkCaps None None None None None (Some t) None None None).
(* zone text -> Some (Some o) / Some None (fallback) / None (not a zone of this variant) *)
Definition read_tz (d : dtfs) (t : bytes) : option (option Z) :=
  match f_tz d with
  | Tz_z | Tz_zc | Tz_zp => option_map Some (off_of_text (f_tz d) t)
  | Tz_Z => zone_of_name t
  | Tz_fill | Tz_none => None
  end.

Definition oZ_eqb (a b : option Z) : bool :=
  match a, b with Some x, Some y => (x =? y)%Z | None, None => true | _, _ => false end.
Definition ooZ_eqb (a b : option (option Z)) : bool :=
  match a, b with Some x, Some y => oZ_eqb x y | None, None => true | _, _ => false end.

(* admitted (text, value) pairs of a field of a row: text in the family at the field's item, value read back *)
Definition adm_tab (fj : list shape) (rd : bytes -> option Z) (tab : list (bytes * Z)) : list (bytes * Z) :=
  filter (fun tv => in_fam fj (fst tv) && oZ_eqb (rd (fst tv)) (Some (snd tv))) tab.
Definition adm_tz_tab (fj : list shape) (d : dtfs) : list (bytes * option Z) :=
  filter (fun tv => in_fam fj (fst tv) && ooZ_eqb (read_tz d (fst tv)) (Some (snd tv))) (std_tz (f_tz d)).
Definition DIG : sym := SyS [48; 49; 50; 51; 52; 53; 54; 55; 56; 57].
Definition adm_frac_len (fj : list shape) : list nat :=
  filter (fun n => existsb (shape_sub (repeat DIG n)) fj) [1; 2; 3; 4; 5; 6; 7; 8; 9]%nat.

(* item index of field f in the plan (None: not captured by this row) *)
Definition field_item (row : rx_row) (p : plan) (f : N) : option nat :=
  match assocN f (rx_names row) with
  | Some g => group_seg p g
  | None => None
  end.
Definition fam_at (fs : fam) (j : option nat) : list shape :=
  match j with Some k => nth k fs [] | None => [] end.

(* ---- a reading: per field the written text with its value, or nothing written *)
Record fread := mkFR {
  r_year : option (bytes * Z); r_month : bytes * Z; r_day : bytes * Z; r_hour : bytes * Z; r_minute : bytes * Z;
  r_second : option (bytes * Z); r_frac : option bytes; r_tz : option (bytes * option Z) }.
Definition fread_caps (r : fread) : caps :=
  mkCaps (option_map fst (r_year r)) (Some (fst (r_month r))) (Some (fst (r_day r))) (Some (fst (r_hour r)))
         (Some (fst (r_minute r))) (option_map fst (r_second r)) (r_frac r) (option_map fst (r_tz r)) None.

Definition mem_tab (tv : bytes * Z) (tab : list (bytes * Z)) : bool :=
  existsb (fun x => beqb (fst x) (fst tv) && (snd x =? snd tv)%Z) tab.
Definition mem_tz_tab (tv : bytes * option Z) (tab : list (bytes * option Z)) : bool :=
  existsb (fun x => beqb (fst x) (fst tv) && oZ_eqb (snd x) (snd tv)) tab.

(* every component is an admitted standard rendering for this row, and what is not written is what the
   row's DTFS variant does not capture *)
Definition fread_admitted (row : rx_row) (d : dtfs) (p : plan) (fs : fam) (r : fread) : bool :=
  let at_ f := fam_at fs (field_item row p f) in
  match r_year r with
  | Some tv => mem_tab tv (adm_tab (at_ 0) (read_year d) std_year)
  | None => match f_year d with Y_fill => true | _ => false end
  end
  && mem_tab (r_month r) (adm_tab (at_ 1) (read_month d) std_month)
  && mem_tab (r_day r) (adm_tab (at_ 2) (read_day d) std_day)
  && mem_tab (r_hour r) (adm_tab (at_ 3) (read_hour d) std_hour)
  && mem_tab (r_minute r) (adm_tab (at_ 4) (read_minute d) std_minute)
  && match r_second r with
     | Some tv => mem_tab tv (adm_tab (at_ 5) (read_second d) std_second)
     | None => match f_second d with S_fill | S_none => true | S_S => false end
     end
  && match r_frac r with
     | Some f => existsb (Nat.eqb (length f)) (adm_frac_len (at_ 6)) && forallb digit f
                 && match f_frac d with F_f => true | F_none => false end
     | None => match f_frac d with F_none => true | F_f => false end
     end
  && match r_tz r with
     | Some tv => mem_tz_tab tv (adm_tz_tab (at_ 7) d)
     | None => match f_tz d with Tz_fill => true | _ => false end
     end
  && match f_epoch d with E_none => true | E_s => false end.

(* the numbers of a reading *)
Definition fr_year (r : fread) (yo : option Z) : Z :=
  match r_year r with Some tv => snd tv | None => match yo with Some y => y | None => 1972%Z end end.
Definition fr_second (r : fread) : Z := match r_second r with Some tv => snd tv | None => 0%Z end.
Definition fr_frac (r : fread) : Z :=
  match r_frac r with Some f => (num_of f 0 * 10 ^ Z.of_nat (9 - length f))%Z | None => 0%Z end.
Definition fr_off (r : fread) (fallback : Z) : Z :=
  match r_tz r with Some (_, Some o) => o | _ => fallback end.
Definition fread_instant (r : fread) (yo : option Z) (fallback : Z) : Z :=
  spec_instant (fr_year r yo) (snd (r_month r)) (snd (r_day r)) (snd (r_hour r)) (snd (r_minute r))
               (fr_second r) (fr_frac r) (fr_off r fallback).
(* a date that exists, a time of day; a fill year the spec accepts *)
Definition fread_valid (r : fread) (yo : option Z) : bool :=
  let y := fr_year r yo in
  ((0 <=? y) && (1 <=? snd (r_month r)) && (snd (r_month r) <=? 12) && (1 <=? snd (r_day r))
   && (snd (r_day r) <=? month_len y (snd (r_month r)))
   && (snd (r_hour r) <=? 23) && (snd (r_minute r) <=? 59) && (fr_second r <=? 59))%Z
  && match r_year r, yo with
     | None, Some y' => ((1000 <=? y') && (y' <=? 9999))%Z
     | _, _ => true
     end.

(* ---- the decidable predicate on a row: covered, non-epoch, family closed and non-empty *)
Definition row_numeric (row : rx_row) (d : dtfs) : bool :=
  let p := row_plan row in
  let fs := row_fam row in
  plan_covers row p && family_ok p fs RF_SAFE true
  && forallb (fun fj => match fj with [] => false | _ => true end) fs
  && match f_epoch d with E_none => true | E_s => false end.
