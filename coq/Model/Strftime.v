(* Model/Strftime.v — the strftime subset that s4 documents / uses for the
   prepended datetime field (chrono `DateTime<FixedOffset>::format`):
     %Y %m %d %H %M %S %.3f %.6f %.9f %3f %6f %9f %f %z %:z %s %T %F %% and literal bytes.
   Any other specifier is outside the model: [strftime] returns None.
   Input: instant [t] in ns since the epoch (UTC), zone offset [off] in seconds.
   Definitions only. *)
From S4.Base Require Import Bytes.
From S4.Model Require Import PrintCal.
Open Scope Z_scope.

Inductive fitem :=
| FLit (b : N)
| FY | Fm | Fd | FH | FM | FS
| FDot3 | FDot6 | FDot9 | F3 | F6 | F9 | Ff
| Fz | Fcz | Fs | FT | FF | FPct.

(* single-letter specifiers *)
Definition simple_spec (c : N) : option fitem :=
  (if c =? 89 then Some FY        (* Y *)
   else if c =? 109 then Some Fm  (* m *)
   else if c =? 100 then Some Fd  (* d *)
   else if c =? 72 then Some FH   (* H *)
   else if c =? 77 then Some FM   (* M *)
   else if c =? 83 then Some FS   (* S *)
   else if c =? 102 then Some Ff  (* f *)
   else if c =? 122 then Some Fz  (* z *)
   else if c =? 115 then Some Fs  (* s *)
   else if c =? 84 then Some FT   (* T *)
   else if c =? 70 then Some FF   (* F *)
   else if c =? 37 then Some FPct (* % *)
   else None)%N.

Definition dotf (d : N) : option fitem :=
  (if d =? 51 then Some FDot3 else if d =? 54 then Some FDot6 else if d =? 57 then Some FDot9 else None)%N.
Definition nf (d : N) : option fitem :=
  (if d =? 51 then Some F3 else if d =? 54 then Some F6 else if d =? 57 then Some F9 else None)%N.

Definition ocons {A} (x : A) (o : option (list A)) : option (list A) :=
  match o with Some l => Some (x :: l) | None => None end.

Fixpoint parse_fmt (l : bytes) : option (list fitem) :=
  match l with
  | [] => Some []
  | b :: r =>
    if negb (b =? 37)%N then ocons (FLit b) (parse_fmt r) else
    match r with
    | [] => None
    | c :: r1 =>
      match simple_spec c with
      | Some it => ocons it (parse_fmt r1)
      | None =>
        match r1 with
        | [] => None
        | d :: r2 =>
          if (c =? 46)%N then                       (* %.Nf *)
            match r2 with
            | e :: r3 => if (e =? 102)%N
                         then match dotf d with Some it => ocons it (parse_fmt r3) | None => None end
                         else None
            | [] => None
            end
          else if (c =? 58)%N then                  (* %:z *)
            (if (d =? 122)%N then ocons Fcz (parse_fmt r2) else None)
          else if (d =? 102)%N then                 (* %Nf *)
            match nf c with Some it => ocons it (parse_fmt r2) | None => None end
          else None
        end
      end
    end
  end.

(* exactly k decimal digits of v (v >= 0), most significant first *)
Fixpoint digits_n (k : nat) (v : Z) : bytes :=
  match k with
  | O => []
  | S k' => digits_n k' (v / 10) ++ [Z.to_N (48 + v mod 10)]
  end.

Fixpoint drop_zeros (l : bytes) : bytes :=
  match l with
  | [] => []
  | b :: r => match r with [] => l | _ => if (b =? 48)%N then drop_zeros r else l end
  end.

(* decimal of v >= 0 without padding *)
Definition dec (v : Z) : bytes := drop_zeros (digits_n (S (Z.to_nat (Z.log2 v))) v).

Definition dec_signed (v : Z) : bytes := if v <? 0 then 45%N :: dec (- v) else dec v.

Definition fmt_year (y : Z) : bytes :=
  if (0 <=? y) && (y <=? 9999) then digits_n 4 y
  else (if y <? 0 then 45%N else 43%N) :: (if Z.abs y <? 10000 then digits_n 4 (Z.abs y) else dec (Z.abs y)).

(* chrono OffsetFormat (precision Minutes): the seconds of the offset are ROUNDED to the nearest
   minute (half up on the absolute value); the sign is that of the offset itself ("-0000" for -29 s) *)
Definition fmt_off (colon : bool) (off : Z) : bytes :=
  let a := (Z.abs off + 30) / 60 in
  (if off <? 0 then 45%N else 43%N) :: digits_n 2 (a / 60) ++ (if colon then [58%N] else []) ++ digits_n 2 (a mod 60).

Definition fmt_item (t off : Z) (c : civil) (it : fitem) : bytes :=
  match it with
  | FLit b => [b]
  | FY => fmt_year (c_year c)
  | Fm => digits_n 2 (c_mon c)
  | Fd => digits_n 2 (c_day c)
  | FH => digits_n 2 (c_hour c)
  | FM => digits_n 2 (c_min c)
  | FS => digits_n 2 (c_sec c)
  | FDot3 => 46%N :: digits_n 3 (c_nano c / 1000000)
  | FDot6 => 46%N :: digits_n 6 (c_nano c / 1000)
  | FDot9 => 46%N :: digits_n 9 (c_nano c)
  | F3 => digits_n 3 (c_nano c / 1000000)
  | F6 => digits_n 6 (c_nano c / 1000)
  | F9 => digits_n 9 (c_nano c)
  | Ff => digits_n 9 (c_nano c)
  | Fz => fmt_off false off
  | Fcz => fmt_off true off
  | Fs => dec_signed (t / NS)
  | FT => digits_n 2 (c_hour c) ++ [58%N] ++ digits_n 2 (c_min c) ++ [58%N] ++ digits_n 2 (c_sec c)
  | FF => fmt_year (c_year c) ++ [45%N] ++ digits_n 2 (c_mon c) ++ [45%N] ++ digits_n 2 (c_day c)
  | FPct => [37%N]
  end.

Definition fmt_items (t off : Z) (its : list fitem) : bytes :=
  let c := civil_of t off in
  flat_map (fmt_item t off c) its.

Definition strftime (fmt : bytes) (t off : Z) : option bytes :=
  match parse_fmt fmt with
  | Some its => Some (fmt_items t off its)
  | None => None
  end.

(* the default of the tool, CLI_OPT_PREPEND_FMT = "%Y%m%dT%H%M%S%.3f%z" *)
Definition default_fmt : bytes :=
  [37;89;37;109;37;100;84;37;72;37;77;37;83;37;46;51;102;37;122]%N.
