(* Model/Search.v — property C03: the datetime searches of SyslineReader on TEXT logs.
   Definitions only (proofs: Proofs/SearchProofs.v).  Self-contained, stdlib only.

   Transcribed from /repo/src/readers/syslinereader.rs
     find_sysline_at_datetime_filter_binary_search   -> bstep / bloop / bsearch
     find_sysline_at_datetime_filter_linear_search   -> linear
     find_sysline_between_datetime_filters           -> find_between
   /repo/src/data/datetime.rs
     dt_after_or_before, dt_pass_filters             -> same names
   /repo/src/bin/s4.rs  exec_syslogprocessor (stage 2 first find + stage 3 loop) -> text_out

   ABSTRACTION.  A text file is abstracted to its list of messages ("groups": a dated line
   plus its undated continuation lines): [layout = list (length in bytes, instant)], possibly
   preceded by [lead] bytes of undated lines.  Group i occupies file offsets
   [beg_i, beg_i + len_i).  The reader's [find_sysline fo] is NOT re-modelled here: it is the
   oracle [find] DEFINED from the layout as "the group containing offset fo; the first group
   when fo lies in the undated lead; Done at or after the end of the file".  This is exactly
   what C02's theorem [find_sysline_correct] (Proofs/SyslinesProofs.v, models Model/Lines.v and
   Model/Syslines.v) establishes for the block-wise reader for every block size, so
   instantiating the oracle with its specification is justified; run B of checks/c03.py ties
   the composite (real find_sysline + real search loop) to this model for many block sizes.
   Caches (LRU, syslines_by_range) are memoisation and are not modelled. *)
From Coq Require Import List NArith ZArith Bool.
Import ListNotations.
Open Scope N_scope.

(* ---------------------------------------------------------------- messages and layouts *)

Definition layout := list (N * Z).        (* (length in bytes, instant) per message *)

Record sl := mkSl { s_beg : N; s_len : N; s_t : Z }.   (* a Sysline: where it is, its dt() *)

Definition s_end  (s : sl) : N := s_beg s + s_len s - 1.   (* Sysline::fileoffset_end  (inclusive) *)
Definition s_next (s : sl) : N := s_beg s + s_len s.       (* Sysline::fileoffset_next (charsz = 1) *)

Fixpoint place (b : N) (l : layout) : list sl :=
  match l with
  | [] => []
  | (n, t) :: r => mkSl b n t :: place (b + n) r
  end.

Fixpoint total (l : layout) : N :=
  match l with [] => 0 | (n, _) :: r => n + total r end.

Definition groups (lead : N) (l : layout) : list sl := place lead l.
Definition fsize  (lead : N) (l : layout) : N := lead + total l.

(* ---------------------------------------------------------------- datetime comparisons *)

Inductive cmp1 := Pass | OccursAtOrAfter | OccursBefore.        (* Result_Filter_DateTime1 *)
Inductive cmp2 := InRange | BeforeRange | AfterRange.           (* Result_Filter_DateTime2 *)

Definition dt_after_or_before (dt : Z) (f : option Z) : cmp1 :=
  match f with
  | None => Pass
  | Some a => if (dt <? a)%Z then OccursBefore else OccursAtOrAfter
  end.

Definition dt_pass_filters (dt : Z) (fa fb : option Z) : cmp2 :=
  match fa, fb with
  | None, None => InRange
  | Some da, Some db => if (dt <? da)%Z then BeforeRange
                        else if (db <? dt)%Z then AfterRange else InRange
  | Some da, None => if (dt <? da)%Z then BeforeRange else InRange
  | None, Some db => if (db <? dt)%Z then AfterRange else InRange
  end.

(* ---------------------------------------------------------------- results *)

Inductive fres := FFound (s : sl) | FDone.       (* find_sysline: Found((s_next s, s)) | Done *)

(* ResultS3SyslineFind of the searches, plus the outcomes the model makes explicit:
   SDoneErr n : the Rust code returns Done after printing an "unexpected ..." error (e_err!)
   SPanic n   : an assert_le! fails / an unsigned subtraction underflows / unwrap on None
   SOutOfFuel : the loop did not finish within the given fuel *)
Inductive sres :=
| SFound (fo : N) (s : sl)
| SDone
| SDoneErr (code : N)
| SPanic (code : N)
| SOutOfFuel.

Definition found (s : sl) : sres := SFound (s_next s) s.

Section Reader.
  Variable gs : list sl.      (* the file's messages, placed *)
  Variable filesz : N.

  (* the oracle: SyslineReader::find_sysline *)
  Fixpoint find_in (l : list sl) (fo : N) : fres :=
    match l with
    | [] => FDone
    | s :: r => if fo <? s_next s then FFound s else find_in r fo
    end.
  Definition find (fo : N) : fres := find_in gs fo.

  (* SyslineReader::is_sysline_last: fileoffset_end == fileoffset_last() == filesz - 1 *)
  Definition is_last (s : sl) : bool := s_end s =? filesz - 1.

  (* ------------------------------------------------------------ binary search *)
  Record bst := mkB {
    try_fo : N; try_fo_last : N; fo_a : N; fo_b : N;
    last_found : option sl      (* syslinep_opt *)
  }.

  Inductive bout := Continue (st : bst) | Return (r : sres).

  Section Bsearch.
    Variable dt_filter : option Z.
    Variable fileoffset : N.

    (* the code after `match result {...}` of one loop iteration;
       [done] = result.is_done(), [st] = the cursors as updated by the match arms *)
    Definition endgame (done : bool) (st : bst) : bout :=
      if done && (try_fo st =? try_fo_last st) then Return SDone                     (* break *)
      else if negb (try_fo st =? try_fo_last st) then Continue st                    (* continue *)
      else
        match last_found st with
        | None => Return (SPanic 4)                                (* syslinep_opt.unwrap() *)
        | Some s =>
          let fo_beg := s_beg s in
          if is_last s && (fo_beg <? try_fo st) then Return SDone                    (* C *)
          else if fo_beg <? try_fo st then
            match find (s_next s) with
            | FDone => Return SDone                                (* "unexpectedly returned Done": break *)
            | FFound sn =>
              match dt_after_or_before (s_t s) dt_filter, dt_after_or_before (s_t sn) dt_filter with
              | _, Pass | Pass, _ => Return (SDoneErr 1)            (* "unexpected ...Pass": break *)
              | OccursBefore, OccursBefore => Return (found sn)
              | OccursBefore, OccursAtOrAfter => Return (found sn)
              | OccursAtOrAfter, OccursAtOrAfter => Return (found s)
              | OccursAtOrAfter, OccursBefore => Return (SDoneErr 2) (* "unhandled ... tuple": break *)
              end
            end
          else Return (found s)                                                      (* D *)
        end.

    (* the `match result {...}` of one loop iteration: an early return, or (result.is_done(),
       the cursors as updated by the arm) handed to the code after the match *)
    Definition bmatch (st : bst) : (bool * bst) + sres :=
      match find (try_fo st) with
      | FFound s =>
        match dt_after_or_before (s_t s) dt_filter with
        | Pass => inr (found s)                                                      (* A *)
        | OccursAtOrAfter =>
          if try_fo st =? fileoffset then inr (found s)                              (* B *)
          else
            let tl := try_fo st in
            let b' := N.min (s_beg s) tl in
            if fo_a st <=? b' then                                  (* assert_le!(fo_a, fo_b) *)
              inl (false, mkB (fo_a st + (b' - fo_a st) / 2) tl (fo_a st) b' (Some s))
            else inr (SPanic 1)
        | OccursBefore =>
          let foe := s_end s in
          let tl := try_fo st in
          if tl <=? foe then                          (* assert_le!(try_fo_last, syslinep_foe) *)
            let a' := N.min foe (fo_b st) in                        (* hence a' <= fo_b *)
            inl (false, mkB (a' + (fo_b st - a') / 2) tl a' (fo_b st) (Some s))
          else inr (SPanic 2)
        end
      | FDone =>
        if fo_a st <=? fo_b st then      (* u64 `fo_b - fo_a`: traps with overflow checks, wraps in release *)
          inl (true, mkB (fo_a st + (fo_b st - fo_a st) / 2) (try_fo st) (fo_a st) (fo_b st) (last_found st))
        else inr (SPanic 3)
      end.

    Definition bstep (st : bst) : bout :=
      match bmatch st with
      | inr r => Return r
      | inl (done, st') => endgame done st'
      end.

    Fixpoint bloop (fuel : nat) (st : bst) : sres :=
      match fuel with
      | O => SOutOfFuel
      | S f => match bstep st with
               | Return r => r
               | Continue st' => bloop f st'
               end
      end.

    Definition bstart : bst := mkB fileoffset fileoffset fileoffset filesz None.
    Definition bsearch (fuel : nat) : sres := bloop fuel bstart.

    (* ---------------------------------------------------------- linear search *)
    Fixpoint linear_from (fuel : nat) (fo_cursor : N) : sres :=
      match fuel with
      | O => SOutOfFuel
      | S f =>
        match find fo_cursor with
        | FDone => SDone
        | FFound s =>
          match dt_after_or_before (s_t s) dt_filter with
          | Pass | OccursAtOrAfter => found s
          | OccursBefore => linear_from f (s_next s)
          end
        end
      end.
    Definition linear (fuel : nat) : sres := linear_from fuel fileoffset.
  End Bsearch.

  (* iterations that always suffice (Proofs: bsearch_fuel, linear_fuel):
     binary search 2 + bit-length of the file size; linear search 1 + number of messages *)
  Definition bfuel : nat := S (S (N.to_nat (N.size filesz))).
  Definition lfuel : nat := S (length gs).

  (* SyslineReader::find_sysline_at_datetime_filter *)
  Definition find_at (streamed : bool) (dt_filter : option Z) (fileoffset : N) : sres :=
    if streamed then linear dt_filter fileoffset lfuel else bsearch dt_filter fileoffset bfuel.

  (* SyslineReader::find_sysline_between_datetime_filters *)
  Definition find_between (streamed : bool) (fa fb : option Z) (fileoffset : N) : sres :=
    match find_at streamed fa fileoffset with
    | SFound fo s =>
      match dt_pass_filters (s_t s) fa fb with
      | InRange => SFound fo s
      | BeforeRange => SDoneErr 3          (* e_err!("...returned BeforeRange ... unexpected"); Done *)
      | AfterRange => SDone
      end
    | r => r
    end.

  (* ------------------------------------------------------------ the driver *)
  (* what exec_syslogprocessor sends to the printer, and how the search ended *)
  Inductive status := Ok | Err (code : N) | Panicked (code : N) | NoFuel.

  (* stage 3 loop: find_between(fo1) until Done or the file's last message was sent *)
  Fixpoint stream (fuel : nat) (streamed : bool) (fa fb : option Z) (fo1 : N) : list sl * status :=
    match fuel with
    | O => ([], NoFuel)
    | S f =>
      match find_between streamed fa fb fo1 with
      | SFound fo s =>
        if is_last s then ([s], Ok)
        else let '(out, st) := stream f streamed fa fb fo in (s :: out, st)
      | SDone => ([], Ok)
      | SDoneErr c => ([], Err c)
      | SPanic c => ([], Panicked c)
      | SOutOfFuel => ([], NoFuel)
      end
    end.

  (* stage 2: find_between(0); the stage 3 loop is the same code started at the returned offset,
     so the whole driver is [stream] started at offset 0 *)
  Definition text_out (streamed : bool) (fa fb : option Z) : list sl * status :=
    stream (S (length gs)) streamed fa fb 0.
End Reader.

(* ---------------------------------------------------------------- instantiation by a layout *)
Definition l_find (lead : N) (l : layout) := find (groups lead l).
Definition l_bsearch (lead : N) (l : layout) (a : option Z) (fo0 : N) : sres :=
  bsearch (groups lead l) (fsize lead l) a fo0 (bfuel (fsize lead l)).
Definition l_linear (lead : N) (l : layout) (a : option Z) (fo0 : N) : sres :=
  linear (groups lead l) a fo0 (lfuel (groups lead l)).
Definition l_find_between (lead : N) (l : layout) (streamed : bool) (a b : option Z) (fo0 : N) : sres :=
  find_between (groups lead l) (fsize lead l) streamed a b fo0.
Definition l_text_out (lead : N) (l : layout) (streamed : bool) (a b : option Z) : list sl * status :=
  text_out (groups lead l) (fsize lead l) streamed a b.
