(* Model/Assemble.v — executable model of block assembly for stored (compressed / archived)
   files:  src/readers/blockreader.rs
     read_block_FileGz / FileBz2 / FileLz4 / FileTar : the walk from the decoder position to
        the requested block and the inner "read until the block is full" loop
     BlockReader::new, FileTypeArchive::Xz          : the pre-slicing loop
     BlockReader::new, FileTypeArchive::Tar + rsplit_once('|') : member addressing
     BlockReader::new Bz2/Lz4 size pre-pass, filedecompressor.rs decompress_to_ntf : drain loop
   Definitions only.  The decoder is a Section variable [read]; its contract is in
   Spec/AssembleSpec.v.  Caches (blocks, blocks_read, LRU) are memoisation and not modelled:
   [assemble ... i] is what a fresh reader answers for block i. *)
From S4.Base Require Export Bytes.
Open Scope N_scope.

Inductive aerr :=
| EZeroRead      (* a read returned 0 bytes before the block was full ("stalled", UnexpectedEof) *)
| ETooMany       (* a read returned more than requested *)
| EEmptyBlock    (* assembled block is empty *)
| ENoBlock       (* tar: requested block missing after reading all blocks *)
| ENoSeparator.  (* archived type but no '|' in the path *)

Inductive ares (A : Type) :=
| AOk (a : A)
| ADone                   (* ResultS3::Done : at or past the end *)
| AErr (e : aerr)
| AOutOfFuel.
Arguments AOk {A} a.
Arguments ADone {A}.
Arguments AErr {A} e.
Arguments AOutOfFuel {A}.

Definition lenN (l : list N) : N := N.of_nat (length l).
Definition is_nil {A} (l : list A) : bool := match l with [] => true | _ => false end.

(* BlockReader::count_blocks / blockoffset_last / blocksz_at_blockoffset_impl *)
Definition count_blocks (n bs : N) : N := n / bs + (if 0 <? n mod bs then 1 else 0).
Definition blockoffset_last (n bs : N) : N := if n =? 0 then 0 else count_blocks n bs - 1.
Definition blocksz_at (n bs bo : N) : N :=
  if n =? 0 then 0
  else if bo =? blockoffset_last n bs
       then (if n mod bs =? 0 then bs else n mod bs)
       else bs.

(* GzDecoder reads go through a 2056-byte intermediate buffer; Bz2 and tar read straight into
   the rest of the block *)
Definition GZ_BUF_SZ : N := 2056.

Section Decoder.
  Variable dstate : Type.
  Variable read : dstate -> N -> dstate * list N.

  (* inner loop:  while got < expect { r = read(min(BUF, expect - got)); 0 => Err; got += r }
     [need] = expect - got;  buf = None: the request is the whole rest of the block.
     Every continuing iteration consumes >= 1 byte: fuel need+1 suffices (fill_fuel). *)
  Fixpoint fill (fuel : nat) (buf : option N) (d : dstate) (need : N) (acc : list N)
    : ares (dstate * list N) :=
    if need =? 0 then AOk (d, acc)
    else match fuel with
         | O => AOutOfFuel
         | S k =>
             let req := match buf with Some b => N.min b need | None => need end in
             let dr := read d req in
             let sz := lenN (snd dr) in
             if sz =? 0 then AErr EZeroRead
             else if req <? sz then AErr ETooMany
             else fill k buf (fst dr) (need - sz) (acc ++ snd dr)
         end.
  Definition fill_block (buf : option N) (d : dstate) (expect : N) : ares (dstate * list N) :=
    fill (S (N.to_nat expect)) buf d expect [].

  (* read_block_FileLz4: ONE read into a zero-initialised block of the expected size; the
     returned count is only added to a statistic.  (A return longer than requested would panic
     in the decoder's copy; the model truncates — unreachable under R1.) *)
  Definition fill_once (d : dstate) (expect : N) : ares (dstate * list N) :=
    let dr := read d expect in
    let e := N.to_nat expect in
    AOk (fst dr, firstn e (snd dr ++ repeat 0 (e - length (snd dr)))).

  Section Walk.
    (* how one block of a given expected size is obtained *)
    Variable filler : dstate -> N -> ares (dstate * list N).

    (* while bo_at <= blockoffset: assemble block bo_at (size blocksz_at_blockoffset(bo_at)),
       sanity checks, store, return it if bo_at = blockoffset.  [d] is positioned at block k. *)
    Fixpoint assemble_from (steps : nat) (bs n : N) (d : dstate) (k i : N)
      : ares (dstate * list N) :=
      match steps with
      | O => AOutOfFuel
      | S s =>
          match filler d (blocksz_at n bs k) with
          | AOk (d', b) =>
              if is_nil b then AErr EEmptyBlock
              else if k =? i then AOk (d', b)
              else assemble_from s bs n d' (k + 1) i
          | ADone => ADone
          | AErr e => AErr e
          | AOutOfFuel => AOutOfFuel
          end
      end.

    (* read_block(i) on a fresh reader whose declared uncompressed size is n *)
    Definition assemble (bs n : N) (d0 : dstate) (i : N) : ares (list N) :=
      if blockoffset_last n bs <? i then ADone
      else if n =? 0 then ADone
      else match assemble_from (S (N.to_nat i)) bs n d0 0 i with
           | AOk (_, b) => AOk b
           | ADone => ADone
           | AErr e => AErr e
           | AOutOfFuel => AOutOfFuel
           end.

    (* read_block_FileTar: the first call reads ALL blocks 0..last of the member, then looks the
       requested one up *)
    Fixpoint assemble_all (steps : nat) (bs n : N) (d : dstate) (k : N) (acc : list (list N))
      : ares (list (list N)) :=
      match steps with
      | O => AOutOfFuel
      | S s =>
          if blockoffset_last n bs <? k then AOk acc
          else match filler d (blocksz_at n bs k) with
               | AOk (d', b) =>
                   if is_nil b then AErr EEmptyBlock
                   else assemble_all s bs n d' (k + 1) (acc ++ [b])
               | ADone => ADone
               | AErr e => AErr e
               | AOutOfFuel => AOutOfFuel
               end
      end.
    Definition assemble_tar (bs n : N) (d0 : dstate) (i : N) : ares (list N) :=
      if blockoffset_last n bs <? i then ADone
      else if n =? 0 then ADone
      else match assemble_all (S (S (N.to_nat (blockoffset_last n bs)))) bs n d0 0 [] with
           | AOk l => match nth_error l (N.to_nat i) with
                      | Some b => AOk b
                      | None => AErr ENoBlock
                      end
           | ADone => ADone
           | AErr e => AErr e
           | AOutOfFuel => AOutOfFuel
           end.
  End Walk.

  Definition assemble_gz := assemble (fill_block (Some GZ_BUF_SZ)).
  Definition assemble_bz2 := assemble (fill_block None).
  Definition assemble_lz4 := assemble fill_once.
  (* tar: entry.read_exact(block) = std's loop "read the rest until full, 0 => UnexpectedEof" *)
  Definition assemble_tar_member := assemble_tar (fill_block None).

  (* loop { n = read(buf); if n == 0 break; out += buf[..n] } : decompress_to_ntf (journal, evtx)
     and, counting only, the Bz2 / Lz4 size pre-pass of BlockReader::new *)
  Fixpoint drain (fuel : nat) (buf : N) (d : dstate) (acc : list N) : ares (list N) :=
    match fuel with
    | O => AOutOfFuel
    | S k =>
        let dr := read d buf in
        if is_nil (snd dr) then AOk acc else drain k buf (fst dr) (acc ++ snd dr)
    end.
  Definition prepass_size (fuel : nat) (buf : N) (d : dstate) : ares N :=
    match drain fuel buf d [] with
    | AOk l => AOk (lenN l)
    | ADone => ADone
    | AErr e => AErr e
    | AOutOfFuel => AOutOfFuel
    end.
End Decoder.

(* ---- the reader's memory across calls: blocks_read / blocks and the look-behind drop -----------
   read_block_FileGz/Bz2/Lz4 keep decoding forward from max(blocks_read); with
   READ_BLOCK_LOOKBACK_DROP every block older than the one just decoded is removed from `blocks`
   (it stays in `blocks_read`).  A later request for such a block finds it in neither store, the
   walk starts at max(blocks_read) > i, its loop body never runs and the answer is Done (release
   build; the debug build panics).  [rs_next] = max(blocks_read)+1, 0 on a fresh reader. *)
Record rstate (dstate : Type) := mk_rstate { rs_next : N; rs_dec : dstate; rs_store : list (N * list N) }.
Arguments mk_rstate {dstate}.
Arguments rs_next {dstate}.
Arguments rs_dec {dstate}.
Arguments rs_store {dstate}.

Fixpoint store_get (i : N) (s : list (N * list N)) : option (list N) :=
  match s with
  | [] => None
  | (k, b) :: r => if k =? i then Some b else store_get i r
  end.

Section Reader.
  Variable dstate : Type.
  Variable filler : dstate -> N -> ares (dstate * list N).

  Fixpoint decode_upto (steps : nat) (bs n : N) (d : dstate) (k i : N) (acc : list (N * list N))
    : ares (dstate * list (N * list N)) :=
    match steps with
    | O => AOutOfFuel
    | S s =>
        match filler d (blocksz_at n bs k) with
        | AOk (d', b) =>
            if is_nil b then AErr EEmptyBlock
            else if k =? i then AOk (d', acc ++ [(k, b)])
            else decode_upto s bs n d' (k + 1) i (acc ++ [(k, b)])
        | ADone => ADone
        | AErr e => AErr e
        | AOutOfFuel => AOutOfFuel
        end
    end.

  Definition read_block_m (drop : bool) (bs n : N) (st : rstate dstate) (i : N)
    : rstate dstate * ares (list N) :=
    if blockoffset_last n bs <? i then (st, ADone)
    else match store_get i (rs_store st) with
         | Some b => (st, AOk b)
         | None =>
             if n =? 0 then (st, ADone)
             else if i <? rs_next st then (st, ADone)
             else match decode_upto (S (N.to_nat (i - rs_next st))) bs n (rs_dec st) (rs_next st) i [] with
                  | AOk (d', news) =>
                      match store_get i news with
                      | Some b => (mk_rstate (i + 1) d' (if drop then [(i, b)] else rs_store st ++ news), AOk b)
                      | None => (st, AErr ENoBlock)
                      end
                  | ADone => (st, ADone)
                  | AErr e => (st, AErr e)
                  | AOutOfFuel => (st, AOutOfFuel)
                  end
         end.

  Fixpoint read_blocks_m (drop : bool) (bs n : N) (st : rstate dstate) (reqs : list N)
    : list (ares (list N)) :=
    match reqs with
    | [] => []
    | i :: r => let '(st', a) := read_block_m drop bs n st i in a :: read_blocks_m drop bs n st' r
    end.
End Reader.

(* ---- xz: BlockReader::new decompresses the whole stream into [buffer], then slices it ----
     if buffer.is_empty() { no blocks }
     while blockoffset <= buffer.len() / blocksz {
        a = blockoffset * blocksz;  b = a + min(blocksz, buffer.len() - a);
        blocks.insert(blockoffset, buffer[a..b]);  blockoffset += 1 }
   filesz_actual = sum of the slice lengths. *)
Definition slice (l : list N) (a b : N) : list N :=
  firstn (N.to_nat (b - a)) (skipn (N.to_nat a) l).
Fixpoint xz_loop (fuel : nat) (bs : N) (buffer : list N) (bo : N) : option (list (N * list N)) :=
  match fuel with
  | O => None
  | S f =>
      if bo <=? lenN buffer / bs then
        let a := bo * bs in
        let b := a + N.min bs (lenN buffer - a) in
        match xz_loop f bs buffer (bo + 1) with
        | Some r => Some ((bo, slice buffer a b) :: r)
        | None => None
        end
      else Some []
  end.
Definition xz_slices (bs : N) (buffer : list N) : option (list (N * list N)) :=
  if is_nil buffer then Some []
  else xz_loop (S (S (N.to_nat (lenN buffer / bs)))) bs buffer 0.
Definition xz_filesz (sl : list (N * list N)) : N :=
  fold_right (fun p acc => lenN (snd p) + acc) 0 sl.

(* ---- tar member addressing ----------------------------------------------------------------
   A member is named  "<archive path>|<member path>"  (SUBPATH_SEP = '|').
   BlockReader::new: path.rsplit_once('|'), then the FIRST entry whose path equals the part
   after the last '|' gives entry_index and filesz_actual; when no entry matches, entry_index
   is the last index seen and filesz_actual stays 0 (the reader then answers Done). *)
Definition SUBPATH_SEP : N := 124.
Fixpoint rsplit_once (sep : N) (s : bytes) : option (bytes * bytes) :=
  match s with
  | [] => None
  | c :: r =>
      match rsplit_once sep r with
      | Some (b, a) => Some (c :: b, a)
      | None => if c =? sep then Some ([], r) else None
      end
  end.
Definition tar_entry := (bytes * list N)%type.   (* member path, member content *)
Fixpoint tar_select (sub : bytes) (idx : N) (es : list tar_entry) : N * N :=
  match es with
  | [] => (idx - 1, 0)
  | (name, content) :: r =>
      if beqb sub name then (idx, lenN content) else tar_select sub (idx + 1) r
  end.
(* (archive path, entry_index, filesz_actual) *)
Definition tar_open (path_subpath : bytes) (entries : list tar_entry) : ares (bytes * N * N) :=
  match rsplit_once SUBPATH_SEP path_subpath with
  | None => AErr ENoSeparator
  | Some (path, sub) => let '(idx, sz) := tar_select sub 0 entries in AOk (path, idx, sz)
  end.
