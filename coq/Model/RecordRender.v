(* Model/RecordRender.v — executable model of FixedStruct::as_bytes (src/data/fixedstruct.rs):
   the printed text of one accounting record.  Definitions only.

   as_bytes is, per FixedStructType, a straight sequence of `set_buffer_at_or_err_*!` macro calls
   writing into a caller-supplied buffer through the cursor `at`; every macro returns
   InfoAsBytes::Fail(at) as soon as `at >= buffer.len()`.  The per-type sequence (which field,
   at which offset, how wide, signed or not, which literal in between) is DATA, regenerated into
   Gen/FixedStructTables.v (`fixedstruct_render`) from the source text of as_bytes and from the
   compiled struct layouts.  The macro bodies are transcribed here by hand:

     set_buffer_at_or_err_str / _u8            RLit    literal bytes
     set_buffer_at_or_err_cstrn                RCstr   the array's bytes up to the first NUL or to
                                                       the end of the ARRAY (never beyond); each
                                                       through set_buffer_at_or_err_i8 = `as u8`
                                                       (before commit b0611f28: bytes >= 0x80 of a
                                                       c_char array were written as 0)
     set_buffer_at_or_err_number               RNum    numtoa base 10 of the field's own integer type
     set_buffer_at_or_err_ut_type_i16/_u16     RUtType UT_TYPE_VAL_TO_STR[n] when 0 <= n < len, else the number
     set_buffer_at_or_err_number_bin4          RBin4   format!("0b{:04b}", byte)
     the `if x.ac_flag != 0 { .. }` block      RFlagList  " (" names of set bits, each followed by '|',
                                                       the last '|' overwritten (`at -= 1`), ")"
     set_buffer_at_or_err_number_f32           RF32    format!("{}", f32): a parameter of the model
     the `ut_addr_v6[1..4] all zero` block     RAddr   ipv4 of word 0 (bytes in memory order) / four {:X} words
   and at the end of every type: '\n' then '\0' (as_bytes_tail). *)
From Coq Require Import List NArith ZArith Bool.
Import ListNotations.
From S4.Base Require Import Bytes.
From S4.Model Require Import Records.
Open Scope N_scope.

Inductive ritem : Type :=
| RLit (s : bytes)
| RCstr (off w : N) (schar : bool)
| RNum (off sz : N) (signed : bool)
| RUtType (off sz : N) (signed : bool) (names : list bytes)
| RBin4 (off : N)
| RFlagList (off : N) (opn : bytes) (names : list (N * bytes)) (cls : bytes)
| RF32 (off : N)
| RAddr (off : N) (lit4 lit6 : bytes).

(* ------------------------------------------------------------------ numbers *)
(* numtoa(10): decimal digits, most significant first, no padding; one unit of fuel per digit *)
Fixpoint dec_fuel (fuel : nat) (n : N) (acc : bytes) : bytes :=
  match fuel with
  | O => acc
  | S f => let acc' := (48 + n mod 10) :: acc in
           if n <? 10 then acc' else dec_fuel f (n / 10) acc'
  end.
Definition dec (n : N) : bytes := dec_fuel (S (N.to_nat (N.size n))) n [].
Definition dec_signed (z : Z) : bytes :=
  if (z <? 0)%Z then 45 :: dec (Z.to_N (- z)) else dec (Z.to_N z).

(* {:b}: binary digits, most significant first *)
Fixpoint bin_fuel (fuel : nat) (n : N) (acc : bytes) : bytes :=
  match fuel with
  | O => acc
  | S f => let acc' := (48 + n mod 2) :: acc in
           if n <? 2 then acc' else bin_fuel f (n / 2) acc'
  end.
Definition bin (n : N) : bytes := bin_fuel (S (N.to_nat (N.size n))) n [].
(* {:04b}: at least four digits *)
Definition bin4 (n : N) : bytes :=
  let d := bin n in repeat 48 (4 - length d) ++ d.

(* {:X}: upper-case hexadecimal digits, no padding *)
Definition hexdigit (d : N) : N := if d <? 10 then 48 + d else 55 + d.
Fixpoint hex_fuel (fuel : nat) (n : N) (acc : bytes) : bytes :=
  match fuel with
  | O => acc
  | S f => let acc' := hexdigit (n mod 16) :: acc in
           if n <? 16 then acc' else hex_fuel f (n / 16) acc'
  end.
Definition hexU (n : N) : bytes := hex_fuel (S (N.to_nat (N.size n))) n [].

(* the integer a field of `sz` bytes at `off` holds (little-endian; two's complement when signed) *)
Definition field_int (off sz : N) (signed : bool) (e : bytes) : Z :=
  if signed then le_signed (slice off sz e) else Z.of_N (le_unsigned (slice off sz e)).

Definition byte_at (off : N) (e : bytes) : N := nth (N.to_nat off) e 0.

(* ------------------------------------------------------------------ C strings *)
(* the bytes before the first NUL *)
Fixpoint take_cstr (bs : bytes) : bytes :=
  match bs with
  | [] => []
  | b :: r => if b =? 0 then [] else b :: take_cstr r
  end.

(* set_buffer_at_or_err_i8 since commit b0611f28: `($c) as u8` — the element's byte as it is, for
   c_char (i8) and u8 arrays alike.
   set_buffer_at_or_err_cstrn on the array at [off, off + w): the bytes before its first NUL *)
Definition cstr_text (off w : N) (schar : bool) (e : bytes) : bytes :=
  take_cstr (slice off w e).

(* the code before that commit: `try_into::<u8>()` on an i8 fails for 128..255 (negative) and the
   macro wrote 0 instead; kept for the regression lemma *)
Definition i8_as_u8_old (b : N) : N := if b <? 128 then b else 0.
Definition cstr_text_old (off w : N) (schar : bool) (e : bytes) : bytes :=
  let t := take_cstr (slice off w e) in
  if schar then map i8_as_u8_old t else t.

(* ------------------------------------------------------------------ the other items *)
Definition ut_type_text (off sz : N) (signed : bool) (names : list bytes) (e : bytes) : bytes :=
  let v := field_int off sz signed e in
  if ((0 <=? v) && (v <? Z.of_nat (length names)))%Z then nth (Z.to_nat v) names [] else dec_signed v.

Definition flag_set (b : N) (mn : N * bytes) : bool := negb (N.land b (fst mn) =? 0).

Definition drop_trailing_bar (t : bytes) : bytes :=
  if last t 0 =? 124 then removelast t else t.

Definition flag_text (off : N) (opn : bytes) (names : list (N * bytes)) (cls : bytes) (e : bytes) : bytes :=
  let b := byte_at off e in
  if b =? 0 then []
  else drop_trailing_bar (opn ++ concat (map snd (filter (flag_set b) names))) ++ cls.

Definition addr_text (off : N) (lit4 lit6 : bytes) (e : bytes) : bytes :=
  let a := slice off 16 e in
  if forallb (N.eqb 0) (skipn 4 a)
  then lit4 ++ dec (nth 0 a 0) ++ [46] ++ dec (nth 1 a 0) ++ [46] ++ dec (nth 2 a 0) ++ [46] ++ dec (nth 3 a 0)
  else lit6 ++ hexU (le_unsigned (slice 0 4 a)) ++ [58] ++ hexU (le_unsigned (slice 4 4 a)) ++ [58]
            ++ hexU (le_unsigned (slice 8 4 a)) ++ [58] ++ hexU (le_unsigned (slice 12 4 a)).

Section Render.
  (* format!("{}", f32) of the four bytes of the field *)
  Variable f32txt : bytes -> bytes.

  (* the text one item contributes *)
  Definition item_text (it : ritem) (e : bytes) : bytes :=
    match it with
    | RLit s => s
    | RCstr off w schar => cstr_text off w schar e
    | RNum off sz signed => dec_signed (field_int off sz signed e)
    | RUtType off sz signed names => ut_type_text off sz signed names e
    | RBin4 off => [48; 98] ++ bin4 (byte_at off e)
    | RFlagList off opn names cls => flag_text off opn names cls e
    | RF32 off => f32txt (slice off 4 e)
    | RAddr off lit4 lit6 => addr_text off lit4 lit6 e
    end.

  (* the whole line: the items' texts in order, then the tail ("\n\0") *)
  Definition render (items : list ritem) (tail : bytes) (e : bytes) : bytes :=
    flat_map (fun it => item_text it e) items ++ tail.

  (* -------- the code as it runs: writes through a cursor into a buffer of `cap` bytes -------- *)
  Inductive wop : Type :=
  | OpWrite (s : bytes)        (* one `set_buffer_at_or_err_*` (byte by byte, Fail when full) *)
  | OpBackIfBar.               (* `if buffer[at - 1] == b'|' { at -= 1; }` *)

  Definition item_ops (it : ritem) (e : bytes) : list wop :=
    match it with
    | RFlagList off opn names cls =>
        let b := byte_at off e in
        if b =? 0 then []
        else OpWrite opn :: map (fun mn => OpWrite (snd mn)) (filter (flag_set b) names)
             ++ [OpBackIfBar; OpWrite cls]
    | _ => [OpWrite (item_text it e)]
    end.

  (* buffer content so far, most recent byte first; `at` = its length *)
  Inductive wstate : Type :=
  | WOk (rbuf : bytes)
  | WFail (rbuf : bytes).

  Fixpoint write (cap : nat) (rbuf : bytes) (s : bytes) : wstate :=
    match s with
    | [] => WOk rbuf
    | b :: r => if Nat.leb cap (length rbuf) then WFail rbuf else write cap (b :: rbuf) r
    end.

  Definition run_op (cap : nat) (st : wstate) (op : wop) : wstate :=
    match st with
    | WFail _ => st
    | WOk rbuf =>
        match op with
        | OpWrite s => write cap rbuf s
        | OpBackIfBar => match rbuf with b :: r => if b =? 124 then WOk r else st | [] => st end
        end
    end.

  Inductive rout : Type :=
  | ROk (text : bytes)         (* InfoAsBytes::Ok(at, ..): buffer[..at] *)
  | RFail (text : bytes).      (* InfoAsBytes::Fail(at):   buffer[..at] *)

  Definition as_bytes (cap : nat) (items : list ritem) (tail : bytes) (e : bytes) : rout :=
    match fold_left (run_op cap) (flat_map (fun it => item_ops it e) items ++ [OpWrite tail]) (WOk []) with
    | WOk rbuf => ROk (rev rbuf)
    | WFail rbuf => RFail (rev rbuf)
    end.
End Render.

(* ------------------------------------------------------------------ reading a printed line back *)
(* the inverse used by the theorems: literals are checked, every other item is read up to the
   first byte of the literal that follows it (its stop byte); the flag list is read by its own
   shape ("0b" digits decide which names must follow) *)
Definition is_var (it : ritem) : bool := match it with RLit _ => false | _ => true end.

Fixpoint strip_prefix (p t : bytes) : option bytes :=
  match p with
  | [] => Some t
  | a :: p' => match t with
               | b :: t' => if a =? b then strip_prefix p' t' else None
               | [] => None
               end
  end.

(* split at the first occurrence of the stop byte (the stop byte stays in the rest) *)
Fixpoint break_at (stop : N) (t : bytes) : bytes * bytes :=
  match t with
  | [] => ([], [])
  | b :: r => if b =? stop then ([], t) else let '(x, y) := break_at stop r in (b :: x, y)
  end.

(* the first byte of the text that follows an item in every rendering: the head of the next
   literal (the tail counts as a literal; so do the two literals of an address item when they
   start with the same byte) *)
Definition stop_of (rest : list ritem) (tail : bytes) : option N :=
  match rest with
  | RLit (b :: _) :: _ => Some b
  | RAddr _ (b :: _) (b' :: _) :: _ => if b =? b' then Some b else None   (* both branches open with a literal *)
  | [] => match tail with b :: _ => Some b | [] => None end
  | _ => None
  end.

Definition is_bit (b : N) : bool := (b =? 48) || (b =? 49).
Fixpoint span_bits (t : bytes) : bytes * bytes :=
  match t with
  | [] => ([], [])
  | b :: r => if is_bit b then let '(x, y) := span_bits r in (b :: x, y) else ([], t)
  end.

(* one item: (its token, the rest of the text) *)
Definition parse_one (it : ritem) (stop : option N) (t : bytes) : option (bytes * bytes) :=
  match it with
  | RLit _ => None
  | RBin4 _ =>
      match strip_prefix [48; 98] t with
      | Some t' => let '(tok, t'') := span_bits t' in Some ([48; 98] ++ tok, t'')
      | None => None
      end
  | RFlagList _ opn _ cls =>
      match strip_prefix opn t with
      | None => Some ([], t)                 (* flag byte 0: nothing was written *)
      | Some t' =>
          match cls with
          | [] => None
          | c :: _ => let '(tok, t'') := break_at c t' in
                      match strip_prefix cls t'' with
                      | Some t3 => Some (opn ++ tok ++ cls, t3)
                      | None => None
                      end
          end
      end
  | _ => match stop with
         | Some b => Some (break_at b t)
         | None => None
         end
  end.

Fixpoint parse_items (items : list ritem) (tail : bytes) (t : bytes) : option (list bytes) :=
  match items with
  | [] => match strip_prefix tail t with Some [] => Some [] | _ => None end
  | RLit s :: r => match strip_prefix s t with Some t' => parse_items r tail t' | None => None end
  | it :: r =>
      match parse_one it (stop_of r tail) t with
      | Some (tok, t') => match parse_items r tail t' with Some l => Some (tok :: l) | None => None end
      | None => None
      end
  end.

(* the texts of the items that are not literals: what parse_items is expected to return *)
Definition var_texts (f32txt : bytes -> bytes) (items : list ritem) (e : bytes) : list bytes :=
  map (fun it => item_text f32txt it e) (filter is_var items).

(* the condition on the VALUES under which a line can be read back: the text of an item read up
   to a stop byte does not contain that byte (the two flag items are read by shape) *)
Definition var_clean (f32txt : bytes -> bytes) (it : ritem) (stop : option N) (e : bytes) : bool :=
  match it with
  | RLit _ | RBin4 _ | RFlagList _ _ _ _ => true
  | _ => match stop with
         | Some b => negb (existsb (N.eqb b) (item_text f32txt it e))
         | None => false
         end
  end.
Fixpoint items_clean (f32txt : bytes -> bytes) (items : list ritem) (tail : bytes) (e : bytes) : bool :=
  match items with
  | [] => true
  | it :: r => var_clean f32txt it (stop_of r tail) e && items_clean f32txt r tail e
  end.

(* value of a decimal token *)
Definition dec_val (l : bytes) : N := fold_left (fun a d => 10 * a + (d - 48)) l 0.
Definition dec_signed_val (l : bytes) : Z :=
  match l with
  | 45 :: r => (- Z.of_N (dec_val r))%Z
  | _ => Z.of_N (dec_val l)
  end.

(* ------------------------------------------------------------------ f32, the part that is modelled *)
(* format!("{}", x) for a non-negative f32 whose value is an integer below 2^24: its decimal
   digits.  Everything else is outside the modelled class: the marker "?" (the correspondence
   run only uses values of the class). *)
Definition f32_int_text (b4 : bytes) : bytes :=
  let bits := le_unsigned b4 in
  let sign := bits / 2147483648 in
  let ex := (bits / 8388608) mod 256 in
  let man := bits mod 8388608 in
  if bits =? 0 then [48]
  else if (sign =? 0) && (127 <=? ex) && (ex <=? 150) then
         let m := 8388608 + man in
         let sh := 150 - ex in
         if m mod (2 ^ sh) =? 0 then dec (m / 2 ^ sh) else [63]
       else [63].
