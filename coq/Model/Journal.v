(* Model/Journal.v — executable model of the journal reader
     src/readers/journalreader.rs :: analyze / next / next_common / next_export / next_cat
     src/bin/s4.rs               :: exec_journalprocessor
     src/data/journal.rs         :: datetimel_to_realtime_timestamp, DT_USES_SOURCE_OVERRIDE
   Definitions only; proofs live in Proofs/Journal*.v.

   A journal is the list of entries in the order libsystemd enumerates them
   (sd_journal_seek_head + repeated sd_journal_next).  libsystemd itself is an
   ORACLE: the two seek operations are Section variables; their contract J1 is
   the proposition [J1_contract] which every theorem takes as a hypothesis. *)
From Coq Require Import String.
From S4.Base Require Export Bytes.
Open Scope N_scope.

(* ------------------------------------------------------------------ data *)

Definition field := (bytes * bytes)%type.          (* (key, value); the data object is key ++ "=" ++ value *)

Record entry := mkEntry {
  e_time   : Z;              (* sd_journal_get_realtime_usec : __REALTIME_TIMESTAMP, microseconds *)
  e_cursor : bytes;          (* sd_journal_get_cursor *)
  e_mono   : option N;       (* sd_journal_get_monotonic_usec (None when the call fails) *)
  e_fields : list field      (* sd_journal_enumerate_available_data, in enumeration order *)
}.
Definition journal := list entry.

Definition NL : N := 10.
Definition EQ : N := 61.

Fixpoint nondecreasing (l : list Z) : Prop :=
  match l with
  | [] => True
  | x :: r => (match r with [] => True | y :: _ => (x <= y)%Z end) /\ nondecreasing r
  end.
Fixpoint nondecreasingb (l : list Z) : bool :=
  match l with
  | [] => true
  | x :: r => (match r with [] => true | y :: _ => (x <=? y)%Z end) && nondecreasingb r
  end.
Definition times (j : journal) : list Z := map e_time j.

(* ------------------------------------------------------------------ bounds *)

(* `i64 as u64` wraps modulo 2^64 *)
Definition u64_of_i64 (z : Z) : Z := (z mod 18446744073709551616)%Z.
(* datetimel_to_realtime_timestamp: `datetime.timestamp_micros().max(0) as u64`
   (a bound before 1970 is clamped to 0) *)
Definition realtime_of_i64 (z : Z) : Z := u64_of_i64 (Z.max 0 z).
Definition bound_us (b : option Z) : option Z := option_map realtime_of_i64 b.
(* the conversion before the repair: `timestamp_micros() as u64`, a bound before
   1970 wrapped to a huge value *)
Definition bound_us_wrapping (b : option Z) : option Z := option_map u64_of_i64 b.

(* a journal entry's realtime is a valid realtime (libsystemd VALID_REALTIME: 0 < t < 2^55);
   only 0 < t is needed *)
Definition valid_realtimes (j : list Z) : Prop := forall t, In t j -> (0 < t)%Z.

(* em_after_or_before(em, filter) == OccursAtOrAfter  (the stop test before the repair) *)
Definition stop_at_or_after (t : Z) (b : option Z) : bool :=
  match b with None => false | Some x => negb (t <? x)%Z end.
(* em_pass_filters(em, None, filter) == AfterRange     (the repaired stop test: strict) *)
Definition stop_after (t : Z) (b : option Z) : bool :=
  match b with None => false | Some x => (x <? t)%Z end.

(* ------------------------------------------------------------------ reader loop *)

Section Reader.
  (* ORACLE libsystemd: the list of entries that successive sd_journal_next calls
     return after the seek *)
  Variable sd_seek_head : journal -> list entry.
  Variable sd_seek_realtime : journal -> Z -> list entry.

  (* JournalReader::analyze *)
  Definition analyze (j : journal) (after : option Z) : list entry :=
    match after with
    | Some ts => sd_seek_realtime j ts
    | None => sd_seek_head j
    end.

  (* repeated JournalReader::next -> next_common: sd_journal_next == 0 => Done;
     stop test on the entry's realtime => Done; else Found *)
  Fixpoint next_loop (stop : Z -> option Z -> bool) (before : option Z) (pending : list entry) : list entry :=
    match pending with
    | [] => []
    | e :: r => if stop (e_time e) before then [] else e :: next_loop stop before r
    end.

  (* exec_journalprocessor: the entries handed to the printer, for CLI bounds A B *)
  Definition journal_run (stop : Z -> option Z -> bool) (A B : option Z) (j : journal) : list entry :=
    next_loop stop (bound_us B) (analyze j (bound_us A)).
  (* the same with the bound conversion before the repair (regression lemma only) *)
  Definition journal_run_wrapping (stop : Z -> option Z -> bool) (A B : option Z) (j : journal) : list entry :=
    next_loop stop (bound_us_wrapping B) (analyze j (bound_us_wrapping A)).
End Reader.

(* contract J1 of the oracle *)
Definition J1_contract (sd_seek_head : journal -> list entry)
                       (sd_seek_realtime : journal -> Z -> list entry) : Prop :=
  (forall j, sd_seek_head j = j) /\
  (forall j a, nondecreasing (times j) ->
               sd_seek_realtime j a = filter (fun e => (a <=? e_time e)%Z) j).

(* a reference implementation of the oracle (used to evaluate the model, and to
   show the contract is satisfiable) *)
Definition ref_seek_head (j : journal) : list entry := j.
Fixpoint ref_seek_realtime (j : journal) (a : Z) : list entry :=
  match j with
  | [] => []
  | e :: r => if (a <=? e_time e)%Z then j else ref_seek_realtime r a
  end.

(* ------------------------------------------------------------------ cat *)

Definition k_message : bytes := s2b "MESSAGE".
Definition k_cursor : bytes := s2b "__CURSOR".
Definition k_realtime : bytes := s2b "__REALTIME_TIMESTAMP".
Definition k_monotonic : bytes := s2b "__MONOTONIC_TIMESTAMP".

(* sd_journal_get_data("MESSAGE"): the first data object of that field *)
Definition get_data (k : bytes) (e : entry) : option bytes := assoc k (e_fields e).

(* next_cat: value of MESSAGE, then ENTRY_END; an entry without MESSAGE is
   ErrIgnore (skipped, the loop continues) *)
Definition render_cat (e : entry) : bytes :=
  match get_data k_message e with
  | Some m => m ++ [NL]
  | None => []
  end.

(* ------------------------------------------------------------------ export printer *)

(* decimal rendering of `u64::to_string` *)
Fixpoint dec_digits (fuel : nat) (n : N) (acc : bytes) : bytes :=
  match fuel with
  | O => acc
  | S f => let acc' := (48 + n mod 10) :: acc in
           if n <? 10 then acc' else dec_digits f (n / 10) acc'
  end.
Definition dec (n : N) : bytes := dec_digits (S (N.to_nat (N.log2 n))) n [].

(* u64::to_le_bytes *)
Fixpoint le_bytes (k : nat) (n : N) : bytes :=
  match k with
  | O => []
  | S k' => (n mod 256) :: le_bytes k' (n / 256)
  end.
Definition le64 (n : N) : bytes := le_bytes 8 n.
Definition le64_decode (l : bytes) : N :=
  fold_right (fun b acc => b + 256 * acc) 0 l.

Definition data_of (f : field) : bytes := fst f ++ EQ :: snd f.
Definition len (l : bytes) : N := N.of_nat (length l).

(* text form  K=V\n *)
Definition print_field_text (f : field) : bytes := data_of f ++ [NL].
(* binary-safe form  K\n <64-bit LE length> V \n *)
Definition print_field_binary (f : field) : bytes :=
  fst f ++ NL :: le64 (len (snd f)) ++ snd f ++ [NL].

(* may the data object be written in the text form?  journalctl's test
   (utf8_is_printable_newline(data, len, false)): well-formed UTF-8, no C0 control
   except TAB (so no newline), no DEL/C1, no noncharacter.
   Rust side: `export_data_is_text` = str::from_utf8 + per-char test. *)
Definition is_cont (b : N) : bool := (128 <=? b) && (b <=? 191).
Definition cp_bad (c : N) : bool :=
  ((c <? 32) && negb (c =? 9)) || ((127 <=? c) && (c <=? 159))
  || ((64976 <=? c) && (c <=? 65007)) || (N.land c 65534 =? 65534).
Fixpoint text_safe (l : bytes) : bool :=
  match l with
  | [] => true
  | b0 :: r =>
      if b0 <? 128 then negb (cp_bad b0) && text_safe r
      else if (194 <=? b0) && (b0 <=? 223) then
        match r with
        | b1 :: r1 => is_cont b1 && negb (cp_bad ((b0 - 192) * 64 + (b1 - 128))) && text_safe r1
        | _ => false
        end
      else if (224 <=? b0) && (b0 <=? 239) then
        match r with
        | b1 :: b2 :: r2 =>
            let c := (b0 - 224) * 4096 + (b1 - 128) * 64 + (b2 - 128) in
            is_cont b1 && is_cont b2 && (2048 <=? c) && negb ((55296 <=? c) && (c <=? 57343))
            && negb (cp_bad c) && text_safe r2
        | _ => false
        end
      else if (240 <=? b0) && (b0 <=? 244) then
        match r with
        | b1 :: b2 :: b3 :: r3 =>
            let c := (b0 - 240) * 262144 + (b1 - 128) * 4096 + (b2 - 128) * 64 + (b3 - 128) in
            is_cont b1 && is_cont b2 && is_cont b3 && (65536 <=? c) && (c <=? 1114111)
            && negb (cp_bad c) && text_safe r3
        | _ => false
        end
      else false
  end.

(* next_export after the repair: binary-safe form unless the data object is text safe *)
Definition print_field_safe (f : field) : bytes :=
  if text_safe (data_of f) then print_field_text f else print_field_binary f.

(* the three computed lines that precede the enumerated data *)
Definition header_fields (e : entry) : list field :=
  (k_cursor, e_cursor e) :: (k_realtime, dec (Z.to_N (e_time e))) ::
  match e_mono e with Some m => [(k_monotonic, dec m)] | None => [] end.

(* `while emerg_stop_data_enumerate < 200`: at most 200 calls of enumerate *)
Definition EMERG_STOP : nat := 200.
Definition enumerated (e : entry) : list field := firstn EMERG_STOP (e_fields e).

(* the fields an export rendering of [e] carries *)
Definition export_fields (e : entry) : list field := header_fields e ++ enumerated e.

Definition print_export_with (pf : field -> bytes) (e : entry) : bytes :=
  concat (map print_field_text (header_fields e)) ++ concat (map pf (enumerated e)) ++ [NL].

Definition render_export : entry -> bytes := print_export_with print_field_safe.
(* next_export before the repair (F10): every data object in the text form *)
Definition render_export_textonly : entry -> bytes := print_export_with print_field_text.

(* ------------------------------------------------------------------ export parser *)
(* Journal Export Format (systemd.io/JOURNAL_EXPORT_FORMATS): fields one per
   line; `K=V\n`, or `K\n` + 64-bit little-endian length + bytes + `\n`; an empty
   line ends the entry. *)

Inductive pres (A : Type) := POk (a : A) | PMalformed | POutOfFuel.
Arguments POk {A} a.
Arguments PMalformed {A}.
Arguments POutOfFuel {A}.

(* split at the first occurrence of byte c *)
Fixpoint split_at (c : N) (l : bytes) : option (bytes * bytes) :=
  match l with
  | [] => None
  | x :: r =>
      if x =? c then Some ([], r)
      else match split_at c r with
           | Some (a, b) => Some (x :: a, b)
           | None => None
           end
  end.

Definition parse_field (s : bytes) : option (field * bytes) :=
  match split_at NL s with
  | None => None
  | Some (line, rest) =>
      match split_at EQ line with
      | Some (k, v) => Some ((k, v), rest)
      | None =>
          if len rest <? 8 then None
          else
            let n := le64_decode (firstn 8 rest) in
            let rest1 := skipn 8 rest in
            if len rest1 <? n + 1 then None
            else
              match skipn (N.to_nat n) rest1 with
              | x :: rest2 => if x =? NL then Some ((line, firstn (N.to_nat n) rest1), rest2) else None
              | [] => None
              end
      end
  end.

Fixpoint parse_entry (fuel : nat) (s : bytes) (acc : list field) : pres (list field * bytes) :=
  match fuel with
  | O => POutOfFuel
  | S fuel' =>
      match s with
      | [] => PMalformed
      | x :: r =>
          if x =? NL then POk (rev acc, r)
          else match parse_field s with
               | Some (f, r') => parse_entry fuel' r' (f :: acc)
               | None => PMalformed
               end
      end
  end.

Fixpoint parse_entries (fuel : nat) (s : bytes) (acc : list (list field)) : pres (list (list field)) :=
  match fuel with
  | O => POutOfFuel
  | S fuel' =>
      match s with
      | [] => POk (rev acc)
      | _ => match parse_entry (S (length s)) s [] with
             | POk (fs, r) => parse_entries fuel' r (fs :: acc)
             | PMalformed => PMalformed
             | POutOfFuel => POutOfFuel
             end
      end
  end.

Definition parse_export (s : bytes) : pres (list (list field)) :=
  parse_entries (S (length s)) s [].

(* ------------------------------------------------------------------ whole run *)

Inductive rendering := RCat | RExport | RExportTextOnly.
Definition render (r : rendering) (e : entry) : bytes :=
  match r with
  | RCat => render_cat e
  | RExport => render_export e
  | RExportTextOnly => render_export_textonly e
  end.

(* bytes on stdout for one journal file *)
Definition journal_stdout sd_head sd_rt stop (r : rendering) (A B : option Z) (j : journal) : bytes :=
  concat (map (render r) (journal_run sd_head sd_rt stop A B j)).
