(* Model/GateSpec.v — what the block-zero acceptance analysis SHOULD decide, free of the block
   size, and the decidable classes of (block size, file, oracle) in which the current code
   (Model/Gate.v) deviates from it.  Definitions only.

   Oracle interface (shared with Model/Gate.v; a regex model can be plugged in):
     rows          : list N                      the row indexes of DATETIME_PARSE_DATAS, ascending
     dated_by_row  : N -> list N -> option Z     the instant row r gives a line                      *)
From S4.Base Require Import Bytes Chunk.
From S4.Spec Require Import LinesSpec.
From S4.Gen Require Import BlockConsts.
From S4.Model Require Import Lines Gate.
Open Scope N_scope.

Definition is_some {A} (o : option A) : bool := match o with Some _ => true | None => false end.

Section Spec.
  Variable dated_by_row : N -> list N -> option Z.
  Variable rows : list N.

  (* a line is dated when it has at least DATETIME_STR_MIN bytes and some row dates it; the row
     reported is the FIRST one in table order *)
  Definition dated_any (l : list N) : option (Z * N) :=
    if lenN l <? datetime_str_min then None else find_dt dated_by_row rows l.

  (* the next dated line at or after the line start fo: (begin, end inclusive, instant, row) *)
  Fixpoint next_dated_fuel (fuel : nat) (f : file) (fo : N) : option (N * N * Z * N) :=
    match fuel with
    | O => None
    | S k =>
        if lenN f <=? fo then None
        else
          let e := line_end f fo in
          match dated_any (slice f fo (e + 1)) with
          | Some (dt, r) => Some (fo, e, dt, r)
          | None => next_dated_fuel k f (e + 1)
          end
    end.
  Definition next_dated (f : file) (fo : N) := next_dated_fuel (S (length f)) f fo.
  Definition first_dated (f : file) := next_dated f 0.

  (* ------------------------------------------------------------------ the bs-free decision *)
  (* Some r = the file is accepted and every line is parsed with row r *)
  Definition spec_accept (f : file) : option N :=
    if (lenN f <? bytes_min) || all_zero (firstnN bytes_null_max f) then None
    else match first_dated f with
         | Some (_, _, _, r) => Some r
         | None => None
         end.

  (* ------------------------------------------------------------------ the classes *)
  Definition b0 (bs : N) (f : file) : N := N.min bs (lenN f).       (* size of block zero *)

  (* F3a + F3b: the first dated line is not complete (newline included) within block zero *)
  Definition cls_first_dated_incomplete (bs : N) (f : file) : bool :=
    match first_dated f with
    | Some (_, e, _, _) => b0 bs f <=? e
    | None => false
    end.

  (* F3c: block zero holds >= SYSLOG_SZ_MAX bytes and fewer than 3 lines begin in it or fewer than 2
     dated lines are complete in it *)
  Definition three_lines_begin (bs : N) (f : file) : bool :=
    let e0 := line_end f 0 in
    (e0 + 1 <? lenN f) && (line_end f (e0 + 1) + 1 <? b0 bs f).
  Definition two_dated_complete (bs : N) (f : file) : bool :=
    match first_dated f with
    | Some (_, e1, _, _) =>
        match next_dated f (e1 + 1) with
        | Some (_, e2, _, _) => e2 <? b0 bs f
        | None => false
        end
    | None => false
    end.
  Definition cls_count_minimum (bs : N) (f : file) : bool :=
    (syslog_sz_max <=? b0 bs f) && negb (three_lines_begin bs f && two_dated_complete bs f).

  (* F3d (bs-free): the dated lines the analysis can see at SOME block size (the first two; the first
     three when the file has >= SYSLOG_SZ_MAX bytes) are not all matched by the row of the first one *)
  Definition matched_by (r : N) (f : file) (b e : N) : bool := is_some (dated_by_row r (slice f b (e + 1))).
  Definition cls_mixed_notation (f : file) : bool :=
    match first_dated f with
    | Some (_, e1, _, r) =>
        match next_dated f (e1 + 1) with
        | Some (b2, e2, _, _) =>
            negb (matched_by r f b2 e2) ||
            ((syslog_sz_max <=? lenN f) &&
             match next_dated f (e2 + 1) with
             | Some (b3, e3, _, _) => negb (matched_by r f b3 e3)
             | None => false
             end)
        | None => false
        end
    | None => false
    end.

  Definition in_classes (bs : N) (f : file) : bool :=
    cls_first_dated_incomplete bs f || cls_count_minimum bs f || cls_mixed_notation f.
End Spec.

(* FileOk with the chosen row *)
Definition accepted (o : gate_result * option N) : option N :=
  match o with (FileOk, Some r) => Some r | _ => None end.
