(* Model/Calendar.v — proleptic Gregorian calendar arithmetic over Z (definitions only).

   Shared by C14 (datetime-filter arguments) and C04 (timestamps in logs).
   Self-contained: stdlib ZArith only.  Proofs live in Proofs/CalendarProofs.v.

   days_from_civil / civil_from_days are the classical era-based algorithms
   (days since 1970-01-01, any year in Z); chrono's NaiveDate is the same proleptic
   Gregorian calendar.  The *definitional* day count against which they are proved
   is in Spec/CalendarSpec.v (recursion over years and month lengths). *)
From Coq Require Import ZArith Bool.
Open Scope Z_scope.

Definition is_leap (y : Z) : bool :=
  ((y mod 4 =? 0) && negb (y mod 100 =? 0)) || (y mod 400 =? 0).

Definition days_in_month (y m : Z) : Z :=
  match m with
  | 1 => 31 | 2 => if is_leap y then 29 else 28 | 3 => 31 | 4 => 30
  | 5 => 31 | 6 => 30 | 7 => 31 | 8 => 31 | 9 => 30 | 10 => 31 | 11 => 30 | 12 => 31
  | _ => 0
  end.

Definition valid_date (y m d : Z) : bool :=
  (1 <=? m) && (m <=? 12) && (1 <=? d) && (d <=? days_in_month y m).

Definition valid_time (h mi s : Z) : bool :=
  (0 <=? h) && (h <=? 23) && (0 <=? mi) && (mi <=? 59) && (0 <=? s) && (s <=? 59).

(* days since 1970-01-01 of the civil date y-m-d *)
Definition days_from_civil (y m d : Z) : Z :=
  let y' := if m <=? 2 then y - 1 else y in
  let era := y' / 400 in
  let yoe := y' - era * 400 in
  let mp := (m + 9) mod 12 in
  let doy := (153 * mp + 2) / 5 + d - 1 in
  let doe := yoe * 365 + yoe / 4 - yoe / 100 + doy in
  era * 146097 + doe - 719468.

(* inverse: civil date of a day number *)
Definition civil_from_days (z : Z) : Z * Z * Z :=
  let z' := z + 719468 in
  let era := z' / 146097 in
  let doe := z' - era * 146097 in
  let yoe := (doe - doe / 1460 + doe / 36524 - doe / 146096) / 365 in
  let y := yoe + era * 400 in
  let doy := doe - (365 * yoe + yoe / 4 - yoe / 100) in
  let mp := (5 * doy + 2) / 153 in
  let d := doy - (153 * mp + 2) / 5 + 1 in
  let m := if mp <? 10 then mp + 3 else mp - 9 in
  (if m <=? 2 then y + 1 else y, m, d).

Definition NS : Z := 1000000000.

(* seconds since the epoch of a civil date-time read in a zone [off] seconds east of UTC *)
Definition seconds_of_fields (y mo d h mi s off : Z) : Z :=
  days_from_civil y mo d * 86400 + h * 3600 + mi * 60 + s - off.

(* instant (nanoseconds since the epoch) *)
Definition instant_of_fields (y mo d h mi s frac_ns off : Z) : Z :=
  seconds_of_fields y mo d h mi s off * NS + frac_ns.
