(* Model/RegexPlan.v — C04, regex stage: symbolic renderings of a row's pattern and their checker.
   Definitions only (soundness: Proofs/RegexSim.v; the table obligations: Proofs/RegexUniv.v).

   A pattern of the table is a concatenation of items  i1 i2 ... in  (the right-nested RSeq spine).
   A PLAN gives, per item, a list of alternatives (shape, lookahead, captures): the shape is a symbolic
   text (each character one byte or a set of ASCII bytes), the lookahead says what the text after the
   shape must look like (anything / end of the haystack / first byte in a set).  [alt_ok] runs the
   SYMBOLIC instance of the engine on  shape ++ lookahead  with the accepting continuation and demands a
   definite Match that consumed exactly the shape.  Proofs/RegexSim.v shows: then the CONCRETE engine, on
   every text of that shape followed by anything satisfying the lookahead, takes exactly that path first
   (leftmost-first priority), whatever the continuation — so the items compose.
   [gen_plan] computes a plan from the AST (finite language of every item, star unrolled at most twice;
   lookaheads = the first characters of what the next item may render); it is not trusted: the plan
   is re-checked by [chain_ok]. *)
From S4.Base Require Import Bytes.
From S4.Model Require Import Regex.
Open Scope N_scope.

Inductive look := LAny | LEnd | LSet (F : list N).
Record alt := mkAlt { a_shape : list sym; a_la : look; a_caps : list (N * (N * N)) }.
Definition seg := list alt.
Definition plan := list seg.

Definition la_syms (la : look) : list sym * stail :=
  match la with LAny => ([], TAny) | LEnd => ([], TEnd) | LSet F => ([SyS F], TAny) end.

Definition run_item (abs : org) (i : re) (sh : list sym) (la : look) : res sst :=
  let ls := fst (la_syms la) in
  sm sst (S (length sh + length ls)) i (mkS 0 abs (sh ++ ls) (snd (la_syms la)) []) s_accept.

Fixpoint caps_eqb (a b : list (N * (N * N))) : bool :=
  match a, b with
  | [], [] => true
  | (g, (x, y)) :: a', (g', (x', y')) :: b' => (g =? g') && (x =? x') && (y =? y') && caps_eqb a' b'
  | _, _ => false
  end.

Definition alt_ok (abs : org) (i : re) (a : alt) : bool :=
  match run_item abs i (a_shape a) (a_la a) with
  | Match s1 => (s_pos s1 =? N.of_nat (length (a_shape a))) && caps_eqb (s_caps s1) (a_caps a)
  | _ => false
  end.

(* the plan follows the RSeq spine of the pattern.  Origin of the first item: OAbs = haystack offset 0,
   ONz = some offset >= 1 (a match attempt after a prefix); later items start at unknown offsets, which
   are >= 1 when the first item did *)
Definition next_org (o : org) : org := match o with ONz => ONz | _ => OUnk end.
Fixpoint chain_ok (abs : org) (r : re) (p : plan) {struct p} : bool :=
  match p with
  | [] => false
  | [sg] => forallb (alt_ok abs r) sg
  | sg :: p' => match r with
                | RSeq a b => forallb (alt_ok abs a) sg && chain_ok (next_org abs) b p'
                | _ => false
                end
  end.

(* ------------------------------------------------------------------ which concrete texts a plan speaks about *)
Definition sym_inb (y : sym) (b : N) : bool :=
  match y with SyB x => b =? x | SyS set => existsb (N.eqb b) set end.
Fixpoint in_shape (sh : list sym) (t : bytes) : bool :=
  match sh, t with
  | [], [] => true
  | y :: sh', b :: t' => sym_inb y b && in_shape sh' t'
  | _, _ => false
  end.
Definition la_holds (la : look) (rest : bytes) : bool :=
  match la with
  | LAny => true
  | LEnd => match rest with [] => true | _ => false end
  | LSet F => match rest with b :: _ => existsb (N.eqb b) F | [] => false end
  end.
Definition alt_fits (t rest : bytes) (a : alt) : bool := in_shape (a_shape a) t && la_holds (a_la a) rest.
Definition pick (sg : seg) (t rest : bytes) : option alt := find (alt_fits t rest) sg.

(* texts = one text per item, rest = what follows in the haystack *)
Fixpoint texts_ok (p : plan) (texts : list bytes) (rest : bytes) : bool :=
  match p, texts with
  | [], [] => true
  | sg :: p', t :: ts =>
      match pick sg t (concat ts ++ rest) with Some _ => texts_ok p' ts rest | None => false end
  | _, _ => false
  end.

Definition shift_caps (d : N) (l : list (N * (N * N))) : list (N * (N * N)) :=
  map (fun e => (fst e, (fst (snd e) + d, snd (snd e) + d))) l.

(* the captures of the whole match (latest first), item texts starting at offset [pos] *)
Fixpoint final_caps (p : plan) (texts : list bytes) (rest : bytes) (pos : N) : list (N * (N * N)) :=
  match p, texts with
  | sg :: p', t :: ts =>
      match pick sg t (concat ts ++ rest) with
      | Some a => final_caps p' ts rest (pos + N.of_nat (length t)) ++ shift_caps pos (a_caps a)
      | None => []
      end
  | _, _ => []
  end.

(* ------------------------------------------------------------------ plan generation *)
Definition ascii_all : list N := map N.of_nat (seq 0 128).
Definition set_of (p : N -> bool) : list N := filter p ascii_all.
Definition sym_of_set (s : list N) : sym := match s with [b] => SyB b | _ => SyS s end.

(* UTF-8 encoding of a scalar value (only used for non-ASCII class members such as U+2212) *)
Definition utf8 (c : N) : bytes :=
  if c <? 128 then [c]
  else if c <? 2048 then [192 + c / 64; 128 + c mod 64]
  else if c <? 65536 then [224 + c / 4096; 128 + (c / 64) mod 64; 128 + c mod 64]
  else [240 + c / 262144; 128 + (c / 4096) mod 64; 128 + (c / 64) mod 64; 128 + c mod 64].

Definition MAXSHAPES : N := 6000.
Definition cap_list {A} (l : list A) : option (list A) :=
  if N.of_nat (length l) <=? MAXSHAPES then Some l else None.

Definition prod_shapes (a b : list (list sym)) : list (list sym) :=
  flat_map (fun x => map (fun y => x ++ y) b) a.
Fixpoint pow_shapes (n : nat) (a : list (list sym)) : option (list (list sym)) :=
  match n with
  | O => Some [[]]
  | S n' => match pow_shapes n' a with
            | Some p => cap_list (prod_shapes a p)
            | None => None end
  end.
(* a^lo ∪ ... ∪ a^(lo+extra) *)
Fixpoint pow_range (lo extra : nat) (a : list (list sym)) : option (list (list sym)) :=
  match pow_shapes lo a with
  | None => None
  | Some p => match extra with
              | O => Some p
              | S e => match pow_range (S lo) e a with
                       | Some q => cap_list (p ++ q)
                       | None => None end
              end
  end.

Definition STAR_UNROLL : nat := 2.

Fixpoint lang (r : re) : option (list (list sym)) :=
  match r with
  | REps | RBol | REol => Some [[]]
  | RDot => Some [[sym_of_set (set_of is_dot)]]
  | RChar ci c => if c <? 128 then Some [[sym_of_set (set_of (is_char ci c))]] else None
  | RBytes l => Some [map SyB l]
  | RClass ci c =>
      let ascii := match set_of (in_cls ci c) with [] => [] | s => [[sym_of_set s]] end in
      let wide := if ci || cls_neg c then []
                  else flat_map (fun it => match it with
                                           | CRange lo hi => if (lo =? hi) && (128 <=? lo) then [map SyB (utf8 lo)] else []
                                           | CPosix _ _ => [] end) (cls_items c) in
      Some (ascii ++ wide)
  | RSeq a b => match lang a, lang b with
                | Some x, Some y => cap_list (prod_shapes x y)
                | _, _ => None end
  | RAlt a b => match lang a, lang b with
                | Some x, Some y => cap_list (x ++ y)
                | _, _ => None end
  | RRep mn mx g a =>
      match lang a with
      | Some x => pow_range mn (match mx with Some hi => hi - mn | None => STAR_UNROLL end) x
      | None => None end
  | RGroup g a => lang a
  end.

Fixpoint spine (r : re) : list re :=
  match r with RSeq a b => a :: spine b | _ => [r] end.

Fixpoint list_eqb (a b : list N) : bool :=
  match a, b with
  | [], [] => true
  | x :: a', y :: b' => (x =? y) && list_eqb a' b'
  | _, _ => false
  end.
Definition look_eqb (a b : look) : bool :=
  match a, b with
  | LAny, LAny => true | LEnd, LEnd => true
  | LSet x, LSet y => list_eqb x y
  | _, _ => false
  end.
Fixpoint dedupe (l : list look) : list look :=
  match l with
  | [] => []
  | x :: r => if existsb (look_eqb x) r then dedupe r else x :: dedupe r
  end.

(* lookahead classes tried after the LAST item when it needs to see what follows *)
Definition final_looks : list look :=
  [LEnd; LSet (set_of (in_posix P_digit)); LSet (set_of (in_posix P_upper)); LSet (set_of (in_posix P_lower));
   LSet [32; 9]; LSet [10]; LSet [95];
   LSet (set_of (fun c => in_posix P_punct c && negb (c =? 95)));
   LSet (set_of (fun c => in_posix P_cntrl c && negb (c =? 9) && negb (c =? 10)))].

Definition try_alt (abs : org) (i : re) (sh : list sym) (la : look) : list alt :=
  match run_item abs i sh la with
  | Match s1 => if s_pos s1 =? N.of_nat (length sh) then [mkAlt sh la (s_caps s1)] else []
  | _ => []
  end.
(* an item that does not look beyond its shape needs no lookahead condition *)
Definition alts_of_shape (abs : org) (i : re) (las : list look) (sh : list sym) : list alt :=
  match try_alt abs i sh LAny with
  | [] => flat_map (try_alt abs i sh) las
  | l => l
  end.
Definition first_look (a : alt) : look :=
  match a_shape a with
  | [] => a_la a
  | SyB b :: _ => LSet [b]
  | SyS s :: _ => LSet s
  end.

(* right to left: (plan of the items, lookaheads the previous item may rely on) *)
Fixpoint gen (abs : org) (items : list re) : option (plan * list look) :=
  match items with
  | [] => Some ([], final_looks)
  | i :: rest =>
      match gen (next_org abs) rest, lang i with
      | Some (p, las), Some shapes =>
          let alts := flat_map (alts_of_shape abs i las) shapes in
          Some (alts :: p, dedupe (map first_look alts))
      | _, _ => None
      end
  end.

Definition gen_plan_at (o : org) (r : re) : option plan :=
  match gen o (spine r) with Some (p, _) => Some p | None => None end.
Definition gen_plan (r : re) : option plan := gen_plan_at OAbs r.

Definition row_plan (row : rx_row) : plan :=
  match gen_plan (rx_re row) with Some p => p | None => [] end.
(* the decidable coverage predicate on the regenerated AST *)
Definition row_checked (row : rx_row) : bool :=
  let p := row_plan row in
  chain_ok OAbs (rx_re row) p && forallb (fun sg => match sg with [] => false | _ => true end) p.

(* the plan of a match attempt that starts after a non-empty prefix of the slice *)
Definition row_plan_nz (row : rx_row) : plan :=
  match gen_plan_at ONz (rx_re row) with Some p => p | None => [] end.

(* ------------------------------------------------------------------ text in FRONT of the timestamp
   An unanchored search tries every byte offset from the left.  [pre_ok r o pre nxt]: at every offset
   inside the prefix the pattern provably cannot match, judged by the symbolic engine on a window of one
   byte (followed by anything) or of that byte and the next one (the next byte of the prefix, or [nxt], the
   first byte after the prefix; None = the slice ends).  o = what is known of the offset of the first
   prefix byte (OAbs: it is offset 0); later offsets are >= 1. *)
Definition hd_opt (l : bytes) : option N := match l with [] => None | b :: _ => Some b end.
Definition win_dead (r : re) (o : org) (w : list sym) (tl : stail) : bool :=
  match sm sst (S (length w)) r (mkS 0 o w tl []) s_accept with NoMatch => true | _ => false end.
Definition dead_at (r : re) (o : org) (b1 : N) (nxt : option N) : bool :=
  if win_dead r o [SyB b1] TAny then true
  else match nxt with
       | Some b2 => win_dead r o [SyB b1; SyB b2] TAny
       | None => win_dead r o [SyB b1] TEnd
       end.
Fixpoint pre_ok (r : re) (o : org) (pre : bytes) (nxt : option N) : bool :=
  match pre with
  | [] => true
  | b1 :: l => if dead_at r o b1 (match l with b2 :: _ => Some b2 | [] => nxt end) then pre_ok r ONz l nxt else false
  end.
(* the bytes that are dead on their own at every offset: a prefix made of them is always skipped *)
Definition dead_bytes (r : re) : list N :=
  filter (fun b => if win_dead r OAbs [SyB b] TAny then win_dead r ONz [SyB b] TAny else false) (map N.of_nat (seq 0 256)).
