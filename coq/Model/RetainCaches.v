(* Model/RetainCaches.v — property C17: what is needed to put Model/Caches.v (the cache state
   machine over the BYTES of a file) beside Model/Retain.v (the retained sets over the LAYOUT of a
   file): a file that realises a layout, the date oracle on it, and the drop plan that
   SyslogProcessor::drop_data produces.  Definitions only; the agreement theorems are in
   Proofs/RetainCachesAgree.v (any file that realises a message sequence) and
   Proofs/RetainCachesLayout.v (every layout). *)
From Coq Require Import List NArith ZArith Bool.
Import ListNotations.
From S4.Base Require Import Bytes Chunk.
From S4.Model Require Import Lines Syslines Caches Retain.
Open Scope N_scope.

(* a file that realises a layout: a dated line begins with 'D', any other line with 'u', both go on
   with 'a's and end with a newline (a line of one byte is just the newline); the oracle looks at
   the first byte *)
Definition fillN (n : N) : list N := repeat 97 (N.to_nat n).
Definition line_bytes (x : N * bool) : list N :=
  let '(len, d) := x in
  if len <=? 1 then [10] else (if d then 68 else 117) :: fillN (len - 2) ++ [10].
Definition layout_file (layout : list (N * bool)) : file := flat_map line_bytes layout.
Definition dD : list N -> option Z := fun l => match l with 68 :: _ => Some 0%Z | _ => None end.

(* the drop plan SyslogProcessor::drop_data produces: opportunity i looks at message i + 1 (the
   message before the one just found); drop_data_try calls drop_data(first block - 2) when the
   first block is > 1, and drop_data returns at once when that block offset equals
   drop_block_last, which is 0 at the start and only ever set to a value already handled: so the
   call runs iff the first block of the message is >= 3 *)
Definition drop_plan (ms : list msg) : list bool := map (fun m => 3 <=? mfb m) (tl ms).

(* c_stream with at most j iterations of its stage-3 loop: when the fuel runs out c_stream_loop
   returns the state it has reached, so this is the state of the readers after j iterations
   (c_stream itself is c_stream_upto (S (length f))) *)
Definition c_stream_upto (j : nat) (dated : list N -> option Z) (bs : N) (f : file) (plan : list bool)
                         (st : sr_state) : sr_state * res (list ssl) :=
  match c_find_sysline dated bs f st 0 with
  | (st, Found (fo_next, s), _) =>
      if is_sysline_last bs f (ss_sysline s) then (st, Found [s])
      else c_stream_loop dated j bs f plan 0 st fo_next None [s]
  | (st, Done, _) => (st, Found [])
  | (st, OutOfFuel, _) => (st, OutOfFuel)
  | (st, Panic, _) => (st, Panic)
  end.
