(* Model/Year.v — C11: year-less timestamps receive a year (definitions only).

   Transcribes SyslogProcessor::process_missing_year (/repo/src/readers/syslogprocessor.rs):
     year := year of the file's mtime, read in the fallback zone
     walk from the LAST message upwards; each message is dated with the current [year]
       (SyslineReader::find_sysline_year -> captures_to_buffer_bytes fills the year -> chrono parse);
     if the message so dated is LATER than the previously accepted (lower) one by more than
       BACKWARDS_TIME_JUMP_MEANS_NEW_YEAR = 25 h, the year is decremented and the SAME message re-dated
       (the `continue` of the loop; nothing bounds the number of retries in the code: fuel here);
     otherwise the message keeps that year and becomes the "previous" one.
   A message that cannot be dated in the candidate year (29 Feb in a common year: chrono rejects the
   date, the line is then no timestamp at all — Issue #245) is outside the model: [Undatable].

   A message carries (month, day, time of day in ns); all messages of one file are read in the same
   zone [off] (seconds east of UTC).  Instants are Z nanoseconds. *)
From Coq Require Import ZArith Bool List.
From S4.Model Require Import Calendar.
Import ListNotations.
Open Scope Z_scope.

Record ymsg := mkMsg { m_mon : Z; m_day : Z; m_tod : Z }.

(* Duration::try_seconds(60 * 60 * 25) *)
Definition TOL : Z := 60 * 60 * 25 * NS.

Definition with_year (off : Z) (y : Z) (m : ymsg) : option Z :=
  if valid_date y (m_mon m) (m_day m)
  then Some ((days_from_civil y (m_mon m) (m_day m) * 86400 - off) * NS + m_tod m)
  else None.

Inductive outcome := Dated (year : Z) (t : Z) | Undatable | OutOfFuel.

(* the retry loop for one message: [prev] = instant of the message below it, already accepted *)
Fixpoint redate (fuel : nat) (off year : Z) (prev : option Z) (m : ymsg) : outcome :=
  match fuel with
  | O => OutOfFuel
  | S f =>
    match with_year off year m with
    | None => Undatable
    | Some t =>
      match prev with
      | Some p => if (p <? t) && (TOL <? t - p) then redate f off (year - 1) prev m else Dated year t
      | None => Dated year t
      end
    end
  end.

(* walk over the messages in REVERSE file order; result in the same (reverse) order *)
Fixpoint walk (fuel : nat) (off year : Z) (prev : option Z) (rmsgs : list ymsg) : option (list (Z * Z)) :=
  match rmsgs with
  | [] => Some []
  | m :: r =>
    match redate fuel off year prev m with
    | Dated y t => option_map (cons (y, t)) (walk fuel off y (Some t) r)
    | _ => None
    end
  end.

(* (year, instant) per message, in file order *)
Definition assign_years (fuel : nat) (off mtime_year : Z) (msgs : list ymsg) : option (list (Z * Z)) :=
  option_map (@rev _) (walk fuel off mtime_year None (rev msgs)).

(* year of the file's modification time (seconds since the epoch) read in the fallback zone *)
Definition year_of_seconds (off secs : Z) : Z :=
  let '(y, _, _) := civil_from_days ((secs + off) / 86400) in y.
