(* Model/RetainSearch.v — property C17, the windowed clause: what a plain text-log reader keeps in
   memory when a datetime window (-a) makes it search the file first.

   Code modelled (on top of Model/Retain.v; the binary search itself is Model/Search.v)
     src/readers/syslogprocessor.rs  blockzero_analysis_lines / _syslines: 1 line + 1 message (block
                                     zero shorter than SYSLOG_SZ_MAX = 8096 bytes) or 3 lines + 2
                                     messages are found inside block zero before anything else
     src/bin/s4.rs                   stage 2: find_sysline_between_datetime_filters(0); stage 3 loop:
                                     find_sysline_between_datetime_filters(fo1), send, drop_data_try
     src/readers/syslinereader.rs    find_sysline_at_datetime_filter_binary_search: every iteration
                                     calls find_sysline(try_fo) (probe sequence = Model/Search.v bmatch /
                                     endgame), the end game one more find_sysline(fo_next);
                                     find_sysline(fo) at an ARBITRARY offset: the line containing fo,
                                     then backwards line by line to the dated line, then forwards to
                                     the first line of the next message; everything found is STORED
                                     (syslines, lines, blocks) and nothing is dropped during the search;
                                     find_sysline_lru_cache (4 entries, keyed by the offset asked for)
     src/readers/linereader.rs       find_line(fo): forward scan from the block of fo to the line end;
                                     unless fo = 0 or the line before is stored and fo is the line start,
                                     backward scan to the newline BEFORE the line (one block more when
                                     the line starts on a block edge); find_line_lru_cache (8 entries);
                                     drop_line: pops the LRU entry keyed by the line START only — a
                                     line found through another offset is still referenced by the
                                     cache, Arc::try_unwrap fails and its blocks stay
     src/readers/syslinereader.rs    drop_sysline: pops the LRU entry keyed by the message START only —
                                     a message probed at another offset is still referenced by the cache
                                     while that entry lives, and is then forgotten like a message the
                                     consumer still holds

   Stream phase after the search = the worker loop of Model/Retain.v, except that a message / line
   / block that the search already stored is not stored twice.  As in Model/Retain.v the reader's
   position is the cursor `nread` (blocks below it are not read again) and the first line of the
   message being found is already stored (it was read as the line that ended the previous one).

   P_cur   = the code as it is (LRU references block releases, failed releases are forgotten).
   P_retry = the repaired policy of Model/Retain.v; the repair also removes cache entries BY VALUE
             when something is dropped, so the caches never block a release.
   Times: message k carries the instant k (the generated logs are stamped with increasing seconds).
   Definitions only; proofs are in Proofs/RetainSearchProofs.v. *)
From Coq Require Import List NArith ZArith Bool.
Import ListNotations.
From S4.Model Require Import Retain Search.
Open Scope N_scope.

(* ---- LRU caches: most recently used first; (offset asked for, key of the line / message found;
   None = Done) *)
Definition lru := list (N * option N).
Definition lru_del (fo : N) (l : lru) : lru := filter (fun e => negb (fst e =? fo)) l.
(* get-hit (promote) and put have the same effect on the list *)
Definition lru_touch (cap : nat) (fo : N) (v : option N) (l : lru) : lru :=
  firstn cap ((fo, v) :: lru_del fo l).
Definition lru_is (k : N) (e : N * option N) : bool :=
  match snd e with Some x => x =? k | None => false end.
Definition lru_refs (k : N) (l : lru) : bool := existsb (lru_is k) l.

Definition SLRU_CAP : nat := 4.    (* SyslineReader::FIND_SYSLINE_LRU_CACHE_SZ *)
Definition LLRU_CAP : nat := 8.    (* LineReader::FIND_LINE_LRU_CACHE_SZ *)
Definition BZ_SMALL : N := 8096.   (* SYSLOG_SZ_MAX *)

Record wst := { wb : st; slru : lru; llru : lru; dlerr : N }.

Definition with_wb (S : wst) (s : st) : wst :=
  {| wb := s; slru := slru S; llru := llru S; dlerr := dlerr S |}.
Definition with_slru (S : wst) (l : lru) : wst :=
  {| wb := wb S; slru := l; llru := llru S; dlerr := dlerr S |}.
Definition with_llru (S : wst) (l : lru) : wst :=
  {| wb := wb S; slru := slru S; llru := l; dlerr := dlerr S |}.

Definition winit (ms : list msg) : wst := {| wb := init ms; slru := []; llru := []; dlerr := 0 |}.

(* ---- reading without storing twice *)
Definition w_read_block (s : st) (b : N) : st :=
  if memN b (blocks s) then s
  else set_blocks s (blocks s ++ [b]) (N.max (hb s) (lenN (blocks s) + 1)) (nread s).

(* blocks b, b+1, .., b+cnt-1 *)
Fixpoint w_read_range (cnt : nat) (b : N) (s : st) : st :=
  match cnt with
  | O => s
  | S c => w_read_range c (b + 1) (w_read_block s b)
  end.

Definition has_line (s : st) (l : lspan) : bool := memN (lkey l) (map lkey (lines s)).
Definition has_msg (s : st) (m : msg) : bool := memN (mkey m) (map mkey (syslines s)).

Definition set_cursor (s : st) (f : option lspan) (n : N) : st :=
  {| blocks := blocks s; lines := lines s; syslines := syslines s; pending := pending s;
     held := held s; hb := hb s; hl := hl s; hs := hs s; nread := n; front := f; todo := todo s;
     stage2 := stage2 s; wprev := wprev s; dok := dok s; derr := derr s |}.

(* LineReader::find_line(fo), l = the line that contains fo (search phase: no cursor).
   first block read: the block of the line start, or the block of the byte before it when the
   newline before the line has to be looked for *)
Definition line_lo (bs : N) (s : st) (fo : N) (l : lspan) : N :=
  let prev_stored := (fo =? lbeg l) && (0 <? lkey l) && memN (lkey l - 1) (map lkey (lines s)) in
  if (fo =? 0) || prev_stored then lfb l
  else lfb l - (if (lbeg l mod bs =? 0) then 1 else 0).

Definition w_find_line (bs : N) (S : wst) (fo : N) (l : lspan) : wst :=
  let s := wb S in
  let s' := if has_line s l then s
            else let lo := line_lo bs s fo l in
                 add_line (w_read_range (N.to_nat (llb l + 1 - lo)) lo s) l in
  {| wb := s'; slru := slru S; llru := lru_touch LLRU_CAP fo (Some (lkey l)) (llru S); dlerr := dlerr S |}.

(* (lines before the line that contains fo, nearest first; that line; the lines after it) *)
Fixpoint split_lines (fo : N) (rpre : list lspan) (x : lspan) (r : list lspan)
  : list lspan * lspan * list lspan :=
  match r with
  | [] => (rpre, x, [])
  | y :: r' => if fo <=? lend x then (rpre, x, r) else split_lines fo (x :: rpre) y r'
  end.

Definition store_only (s : st) (m : msg) : st :=
  let sl := syslines s ++ [m] in
  {| blocks := blocks s; lines := lines s; syslines := sl; pending := pending s; held := held s;
     hb := hb s; hl := hl s; hs := N.max (hs s) (lenN sl); nread := nread s; front := front s;
     todo := todo s; stage2 := stage2 s; wprev := wprev s; dok := dok s; derr := derr s |}.

Definition mbeg (m : msg) : N := lbeg (mfirst m).

(* SyslineReader::find_sysline(fo), om = the message that contains fo (None: Done) *)
Definition w_find_sysline (bs : N) (S : wst) (fo : N) (om : option msg) : wst :=
  match om with
  | None => with_slru S (lru_touch SLRU_CAP fo None (slru S))
  | Some m =>
      if has_msg (wb S) m then with_slru S (lru_touch SLRU_CAP fo (Some (mkey m)) (slru S))
      else
        let '(rpre, l, _) := split_lines fo [] (mfirst m) (mbody m) in
        let S1 := w_find_line bs S fo l in
        let S2 := fold_left (fun T p => w_find_line bs T (lend p) p) rpre S1 in
        let S3 := fold_left (fun T x => w_find_line bs T (lbeg x) x) (mbody m ++ opt_list (mnext m)) S2 in
        with_slru (with_wb S3 (store_only (wb S3) m)) (lru_touch SLRU_CAP fo (Some (mkey m)) (slru S3))
  end.

(* ---- block-zero analysis (stage 1): lines, then messages, found inside block zero *)
Fixpoint bz_lines (bs : N) (cnt : nat) (ls : list lspan) : list lspan :=
  match cnt, ls with
  | S c, l :: r => if llb l =? 0 then l :: (if (lend l + 1) / bs =? 0 then bz_lines bs c r else []) else []
  | _, _ => []
  end.
Fixpoint bz_msgs (bs : N) (cnt : nat) (ms : list msg) : list msg :=
  match cnt, ms with
  | S c, m :: r => if (mbeg m / bs =? 0) && match mnext m with Some x => llb x =? 0 | None => false end
                   then m :: bz_msgs bs c r else []
  | _, _ => []
  end.

Definition w_blockzero (bs filesz : N) (ms : list msg) (S : wst) : wst :=
  let small := N.min bs filesz <? BZ_SMALL in
  let S0 := with_wb S (w_read_block (wb S) 0) in
  let S1 := fold_left (fun T l => w_find_line bs T (lbeg l) l)
                      (bz_lines bs (if small then 1 else 3)%nat (file_lines ms)) S0 in
  fold_left (fun T m => w_find_sysline bs T (mbeg m) (Some m)) (bz_msgs bs (if small then 1 else 2)%nat ms) S1.

(* ---- the binary search with its probes *)
Section WSearch.
  Variables (bs : N) (ms : list msg).

  Definition slayout : Search.layout := map (fun m => (mend m + 1 - mbeg m, Z.of_N (mkey m))) ms.
  Definition wgs : list sl := groups 0 slayout.
  Definition wfilesz : N := fsize 0 slayout.
  Definition msg_of (s : sl) : option msg := List.find (fun m => mbeg m =? s_beg s) ms.

  Definition probe (S : wst) (fo : N) : wst :=
    w_find_sysline bs S fo (match find wgs fo with FFound s => msg_of s | FDone => None end).

  (* the offset of the extra find_sysline(fo_next) of the end game, if it is reached *)
  Definition endgame_probe (done : bool) (st : bst) : option N :=
    if done && (try_fo st =? try_fo_last st) then None
    else if negb (try_fo st =? try_fo_last st) then None
    else match last_found st with
         | None => None
         | Some s => if is_last wfilesz s && (s_beg s <? try_fo st) then None
                     else if s_beg s <? try_fo st then Some (s_next s) else None
         end.

  (* bloop of Model/Search.v, carrying the reader state through the probes *)
  Fixpoint wloop (fuel : nat) (dt : option Z) (fo0 : N) (st : bst) (S : wst) : wst * sres :=
    match fuel with
    | O => (S, SOutOfFuel)
    | Datatypes.S f =>
        let S1 := probe S (try_fo st) in
        match bmatch wgs dt fo0 st with
        | inr r => (S1, r)
        | inl (done, st') =>
            let S2 := match endgame_probe done st' with Some fo => probe S1 fo | None => S1 end in
            match endgame wgs wfilesz dt done st' with
            | Return r => (S2, r)
            | Continue st'' => wloop f dt fo0 st'' S2
            end
        end
    end.

  Definition wsearch (dt : option Z) (fo0 : N) (S : wst) : wst * sres :=
    wloop (bfuel wfilesz) dt fo0 (bstart wfilesz fo0) S.
End WSearch.

(* ---- the stream phase *)
(* find_line(start of l) in the stream: a line the search stored is not stored again *)
Definition w_stream_line (S : wst) (l : lspan) : wst :=
  let s := wb S in
  let s' := if has_line s l then s
            else add_line (w_read_range (N.to_nat (llb l + 1 - nread s)) (nread s) s) l in
  {| wb := set_cursor s' (Some l) (N.max (nread s) (llb l + 1)); slru := slru S;
     llru := lru_touch LLRU_CAP (lbeg l) (Some (lkey l)) (llru S); dlerr := dlerr S |}.

Definition hold (s : st) (k : N) : st :=
  {| blocks := blocks s; lines := lines s; syslines := syslines s; pending := pending s;
     held := held s ++ [k]; hb := hb s; hl := hl s; hs := hs s; nread := nread s; front := front s;
     todo := todo s; stage2 := stage2 s; wprev := wprev s; dok := dok s; derr := derr s |}.

(* the cursor passes a line without any call of find_line (the message is already stored) *)
Definition w_skip_line (S : wst) (l : lspan) : wst :=
  with_wb S (set_cursor (wb S) (Some l) (N.max (nread (wb S)) (llb l + 1))).

(* find_sysline(start of m) + send.  A message the search stored is returned from the stores
   (no find_line at all); otherwise its lines are found one by one *)
Definition w_stream_find (S : wst) (m : msg) : wst :=
  let rd := mbody m ++ opt_list (mnext m) in
  let S1 := if has_msg (wb S) m then fold_left w_skip_line rd S
            else let S0 := with_llru S (lru_touch LLRU_CAP (mbeg m) (Some (lkey (mfirst m))) (llru S)) in
                 let T := fold_left w_stream_line rd S0 in
                 with_wb T (store_only (wb T) m) in
  with_slru (with_wb S1 (hold (wb S1) (mkey m))) (lru_touch SLRU_CAP (mbeg m) (Some (mkey m)) (slru S1)).

(* the current code: LineReader::drop_line / SyslineReader::drop_sysline with their caches *)
Definition set_data (s : st) (bl : list N) (ls : list lspan) : st :=
  {| blocks := bl; lines := ls; syslines := syslines s; pending := pending s; held := held s;
     hb := hb s; hl := hl s; hs := hs s; nread := nread s; front := front s; todo := todo s;
     stage2 := stage2 s; wprev := wprev s; dok := dok s; derr := derr s |}.

Definition w_drop_line_cur (S : wst) (l : lspan) : wst :=
  let ll := lru_del (lbeg l) (llru S) in
  let s := wb S in
  let ls := filter (fun x => negb (lkey x =? lkey l)) (lines s) in
  if lru_refs (lkey l) ll
  then {| wb := set_data s (blocks s) ls; slru := slru S; llru := ll; dlerr := dlerr S + 1 |}
  else {| wb := set_data s (release_line P_cur (blocks s) l) ls; slru := slru S; llru := ll; dlerr := dlerr S |}.

Definition w_drop_msg_cur (S : wst) (m : msg) : wst :=
  let sl := lru_del (mbeg m) (slru S) in
  let s := wb S in
  if is_held s m || lru_refs (mkey m) sl
  then with_slru (with_wb S (set_index s (syslines s) (pending s) (dok s) (derr s + 1))) sl
  else fold_left w_drop_line_cur (mlines m)
                 (with_slru (with_wb S (set_index s (syslines s) (pending s) (dok s + 1) (derr s))) sl).

Definition w_try_drop_cur (S : wst) (p : msg) : wst :=
  if mfb p <? 3 then S else
  let bo := mfb p - 2 in
  let s := wb S in
  let cand := filter (fun m => mlb m <=? bo) (syslines s) in
  let keep := filter (fun m => negb (mlb m <=? bo)) (syslines s) in
  fold_left w_drop_msg_cur cand (with_wb S (set_index s keep (pending s) (dok s) (derr s))).

Definition w_try_drop (c : cfg) (S : wst) (p : msg) : wst :=
  match pol c with
  | P_retry => with_wb S (do_try_drop c (wb S) p)
  | P_cur => w_try_drop_cur S p
  end.

(* one iteration of the stage-3 loop *)
Definition w_wstep (c : cfg) (S : wst) : wst :=
  match todo (wb S) with
  | [] => S
  | m :: rest =>
      let S1 := w_stream_find S m in
      match rest with
      | [] => with_wb S1 (set_worker (wb S1) [] false (wprev (wb S)))
      | _ => let S2 := match wprev (wb S) with Some p => w_try_drop c S1 p | None => S1 end in
             with_wb S2 (set_worker (wb S2) rest false (Some m))
      end
  end.

Definition w_step (c : cfg) (S : wst) (e : event) : wst :=
  match e with EW => w_wstep c S | ER j => with_wb S (release (wb S) j) end.

Definition w_steps (c : cfg) (S : wst) (evs : list event) : wst := fold_left (w_step c) evs S.

Fixpoint w_sched_ok (H : N) (c : cfg) (S : wst) (evs : list event) : bool :=
  match evs with
  | [] => true
  | e :: r => let S' := w_step c S e in (lenN (held (wb S')) <=? H) && w_sched_ok H c S' r
  end.

(* the state in which the stage-3 loop starts: w was found by the search and sent *)
Definition start_stream (S : wst) (w : msg) (q : msg) (rest : list msg) : wst :=
  let s := hold (wb S) (mkey w) in
  with_wb S (set_cursor (set_worker s (q :: rest) false None) (Some (mfirst q)) (llb (mfirst q) + 1)).

Fixpoint after_key (k : N) (ms : list msg) : list msg :=
  match ms with
  | [] => []
  | m :: r => if mkey m =? k then r else after_key k r
  end.

(* stages 1 and 2 of a run with -a = the instant t *)
Definition w_search (bs : N) (ms : list msg) (t : Z) : wst * sres :=
  wsearch bs ms (Some t) 0 (w_blockzero bs (wfilesz ms) ms (winit ms)).

(* the whole run: stage 1, stage 2 (search + send), stage 3 under the schedule evs *)
Definition w_run (c : cfg) (bs : N) (ms : list msg) (t : Z) (evs : list event) : wst :=
  let W := fst (w_search bs ms t) in
  match snd (w_search bs ms t) with
  | SFound _ s =>
      match msg_of ms s with
      | Some w => match after_key (mkey w) ms with
                  | [] => with_wb W (hold (wb W) (mkey w))
                  | q :: rest => w_steps c (start_stream W w q rest) evs
                  end
      | None => W
      end
  | _ => W
  end.

(* the schedule evs never has more than H messages referenced by the consumer side (stage 3) *)
Definition w_run_sched_ok (H : N) (c : cfg) (bs : N) (ms : list msg) (t : Z) (evs : list event) : bool :=
  let W := fst (w_search bs ms t) in
  match snd (w_search bs ms t) with
  | SFound _ s =>
      match msg_of ms s with
      | Some w => match after_key (mkey w) ms with
                  | [] => true
                  | q :: rest => w_sched_ok H c (start_stream W w q rest) evs
                  end
      | None => true
      end
  | _ => true
  end.

(* the schedule in which the consumer is `lag` messages behind; kw = key of the first message of
   the window, n = number of messages after it *)
Definition w_sched_lag (lag kw : N) (n : nat) : list event :=
  flat_map (fun k => (if kw + lag <=? k then [ER (k - lag)] else []) ++ [EW]) (nseq (kw + 1) n).

Definition wmarks (S : wst) : N * N * N := marks (wb S).

(* ====================================================================== -b, and -a -b together
   find_sysline_between_datetime_filters: the message found at or after A is tested against B
   (dt_pass_filters); AfterRange -> Done: the message HAS BEEN FOUND AND STORED but is not sent, and
   the driver stops (no drop_data_try in that iteration).  With -b alone the "search" is the single
   find_sysline(0) (dt_filter_after = None: Pass). *)
Definition after_b (tb : option Z) (m : msg) : bool :=
  match tb with Some b => (b <? Z.of_N (mkey m))%Z | None => false end.

Definition w_search2 (bs : N) (ms : list msg) (ta : option Z) : wst * sres :=
  wsearch bs ms ta 0 (w_blockzero bs (wfilesz ms) ms (winit ms)).

(* the iteration of the stage-3 loop that finds the first message after B: found, not sent, break *)
Definition w_stop_step (S : wst) (q : msg) : wst :=
  let S1 := w_stream_find S q in
  with_wb S1 (set_worker (release (wb S1) (mkey q)) [] false (wprev (wb S))).

Definition w_wstep2 (c : cfg) (tb : option Z) (S : wst) : wst :=
  match todo (wb S) with
  | [] => S
  | q :: _ => if after_b tb q then w_stop_step S q else w_wstep c S
  end.

Definition w_step2 (c : cfg) (tb : option Z) (S : wst) (e : event) : wst :=
  match e with EW => w_wstep2 c tb S | ER j => with_wb S (release (wb S) j) end.

Definition w_steps2 (c : cfg) (tb : option Z) (S : wst) (evs : list event) : wst :=
  fold_left (w_step2 c tb) evs S.

Fixpoint w_sched_ok2 (H : N) (c : cfg) (tb : option Z) (S : wst) (evs : list event) : bool :=
  match evs with
  | [] => true
  | e :: r => let S' := w_step2 c tb S e in (lenN (held (wb S')) <=? H) && w_sched_ok2 H c tb S' r
  end.

(* the whole run of a PLAIN file with any window (ta = -a, tb = -b, each optional) *)
Definition w_run2 (c : cfg) (bs : N) (ms : list msg) (ta tb : option Z) (evs : list event) : wst :=
  let W := fst (w_search2 bs ms ta) in
  match snd (w_search2 bs ms ta) with
  | SFound _ s =>
      match msg_of ms s with
      | Some w => if after_b tb w then W else
                  match after_key (mkey w) ms with
                  | [] => with_wb W (hold (wb W) (mkey w))
                  | q :: rest => w_steps2 c tb (start_stream W w q rest) evs
                  end
      | None => W
      end
  | _ => W
  end.

Definition w_run_sched_ok2 (H : N) (c : cfg) (bs : N) (ms : list msg) (ta tb : option Z) (evs : list event) : bool :=
  let W := fst (w_search2 bs ms ta) in
  match snd (w_search2 bs ms ta) with
  | SFound _ s =>
      match msg_of ms s with
      | Some w => if after_b tb w then true else
                  match after_key (mkey w) ms with
                  | [] => true
                  | q :: rest => w_sched_ok2 H c tb (start_stream W w q rest) evs
                  end
      | None => true
      end
  | _ => true
  end.

(* ====================================================================== windows on STREAMED files
   (and, for -b, on any file read from its start): the streaming model of Model/Retain.v with
   the driver of the current code.  Stage 2 is ONE call of
   find_sysline_at_datetime_filter_linear_search: find_sysline for every message from the start of
   the file until the first one at or after A — every message before A is found and STORED, none is
   sent, and drop_data_try is NOT called (it only exists in the stage-3 loop).  find_sysline is
   always asked for a message start there, so the caches never block a release: no LRU state. *)
Definition before_a (ta : option Z) (m : msg) : bool :=
  match ta with Some a => (Z.of_N (mkey m) <? a)%Z | None => false end.

(* find_sysline of the next message, not sent, nothing dropped *)
Definition lin_step (c : cfg) (s : st) : st :=
  match todo s with
  | [] => s
  | m :: rest => set_worker (release (do_find c s (stage2 s) m) (mkey m)) rest false None
  end.

(* the linear search: messages before A *)
Fixpoint lin_search (c : cfg) (ta : option Z) (fuel : nat) (s : st) : st :=
  match fuel with
  | O => s
  | S f => match todo s with
           | m :: _ => if before_a ta m then lin_search c ta f (lin_step c s) else s
           | [] => s
           end
  end.

(* the message the search returns is sent; the stage-3 loop starts with no previous message *)
Definition send_step (c : cfg) (s : st) : st :=
  match todo s with
  | [] => s
  | m :: rest => set_worker (do_find c s (stage2 s) m) rest false None
  end.

(* found, after B: not sent, the driver stops *)
Definition stop_step (c : cfg) (s : st) : st :=
  match todo s with
  | [] => s
  | m :: _ => set_worker (release (do_find c s (stage2 s) m) (mkey m)) [] false (wprev s)
  end.

Definition wstep_b (c : cfg) (tb : option Z) (s : st) : st :=
  match todo s with
  | [] => s
  | m :: _ => if after_b tb m then stop_step c s else wstep c s
  end.

Definition step_b (c : cfg) (tb : option Z) (s : st) (e : event) : st :=
  match e with EW => wstep_b c tb s | ER j => release s j end.

Definition run_b (c : cfg) (tb : option Z) (s : st) (evs : list event) : st := fold_left (step_b c tb) evs s.

Fixpoint sched_ok_b (H : N) (c : cfg) (tb : option Z) (s : st) (evs : list event) : bool :=
  match evs with
  | [] => true
  | e :: r => let s' := step_b c tb s e in (lenN (held s') <=? H) && sched_ok_b H c tb s' r
  end.

(* the state when stage 3 starts (or the final state when nothing is in the window) *)
Definition sw_start (c : cfg) (ms : list msg) (ta tb : option Z) : st :=
  let s2 := lin_search c ta (length ms) (init ms) in
  match todo s2 with
  | [] => s2
  | m :: _ => if after_b tb m then stop_step c s2 else send_step c s2
  end.

(* a run over a streamed file (or any file read from its start) with a window *)
Definition sw_run (c : cfg) (ms : list msg) (ta tb : option Z) (evs : list event) : st :=
  run_b c tb (sw_start c ms ta tb) evs.

(* the REPAIRED driver: drop_data_try is also called inside the linear search, i.e. stage 2 is the
   stage-3 loop with messages that are not sent (the consumer never references them) *)
Definition sw_run_repaired (c : cfg) (ms : list msg) (nbefore : nat) (evs : list event) : st :=
  run c (init ms) (flat_map (fun k => [EW; ER k]) (nseq 0 nbefore) ++ evs).
