(* Model/Caches.v — the cache state of LineReader and SyslineReader and the CACHED operations
   (src/readers/linereader.rs, src/readers/syslinereader.rs).  Definitions only.

   Rust                                     model
   ---------------------------------------  ------------------------------------------------------
   BTreeMap<FileOffset, V>                  association list kept in ascending key order (ainsert)
   LineReader.lines (begin -> LineP)        l_lines : begin -> sline = (object id, parts)
   LineReader.foend_to_fobeg                l_foend : end -> begin   (never shrinks: drop_line does
                                            not remove its entry)
   LruCache<FileOffset, ResultS3LineFind>   l_lru : list, most recently used FIRST, capacity 8;
                                            get promotes, put promotes / evicts the last, pop removes
   Arc<Line> identity                       object id (fresh at every Line creation); a Line that
                                            was dropped and found again is a NEW object
   SyslineReader.syslines                   s_syslines : begin -> ssl = (object id, instant, lines)
   SyslineReader.syslines_by_range          s_range : list (begin, end+1, value) (rangemap insert:
                                            overlapped parts of older ranges are cut away;
                                            drop_sysline does NOT remove its range)
   find_sysline_lru_cache (capacity 4)      s_lru, keyed by the REQUESTED offset
   parse_datetime_in_line_lru_cache (8)     s_parse : line begin -> instant (only successful parses)
   Arc::try_unwrap in drop_line/_sysline    succeeds iff no other live object holds the Arc:
                                            the LRU caches (under other keys) and other live
                                            Sysline objects are counted (line_refs / sysline_refs)
   summary() counters                       lcnt / scnt, field for field
   panics                                   Panic: `self.syslines[fo]` after the range map answered
                                            for a sysline that drop_sysline removed

   Block storage: the BlockReader is part of the state (section BlockReader below: which blocks are stored, read,
   cached; the container kinds).  For a plain file read_block re-reads any block at any time; a streamed container
   can only go forward: .gz / .bz2 / .lz4 decode the next block and drop the block visited before (look-behind
   drop), .xz is decompressed and sliced at open (a dropped block is gone), a tar member is read again completely on
   every miss.  A block that is gone makes read_block answer Done and find_line answer Done (path PGone); what keeps
   the stage driver correct on streamed files is that its sweep is forward: shortcuts A0 / A1a / A1b below (the
   preceding line is known, so the backward half of the search is never run) - Proofs/CachesFwd*.v.

   Every operation returns the new state, the result and the path that answered. *)
From S4.Base Require Import Bytes Chunk.
From S4.Model Require Import Lines Syslines.
Open Scope N_scope.

(* ---------------------------------------------------------------- maps *)

Section Maps.
  Context {V : Type}.

  Fixpoint alookup (k : N) (m : list (N * V)) : option V :=
    match m with
    | [] => None
    | (k', v) :: r => if k =? k' then Some v else alookup k r
    end.

  Fixpoint aremove (k : N) (m : list (N * V)) : list (N * V) :=
    match m with
    | [] => []
    | (k', v) :: r => if k =? k' then aremove k r else (k', v) :: aremove k r
    end.

  (* BTreeMap::insert: ascending key order, an equal key is replaced *)
  Fixpoint ainsert (k : N) (v : V) (m : list (N * V)) : list (N * V) :=
    match m with
    | [] => [(k, v)]
    | (k', v') :: r =>
        if k <? k' then (k, v) :: (k', v') :: r
        else if k =? k' then (k, v) :: r
        else (k', v') :: ainsert k v r
    end.

  (* BTreeMap::range(k..).next(): the entry with the smallest key >= k *)
  Fixpoint afirst_ge (k : N) (m : list (N * V)) : option (N * V) :=
    match m with
    | [] => None
    | (k', v) :: r =>
        match afirst_ge k r with
        | Some (k2, v2) => if (k <=? k') && (k' <? k2) then Some (k', v) else Some (k2, v2)
        | None => if k <=? k' then Some (k', v) else None
        end
    end.

  (* LruCache: most recently used first *)
  Definition lru_get (k : N) (c : list (N * V)) : option V * list (N * V) :=
    match alookup k c with
    | Some v => (Some v, (k, v) :: aremove k c)
    | None => (None, c)
    end.
  Definition lru_put (cap : nat) (k : N) (v : V) (c : list (N * V)) : list (N * V) :=
    firstn cap ((k, v) :: aremove k c).
  Definition lru_pop (k : N) (c : list (N * V)) : list (N * V) := aremove k c.
End Maps.

Definition LINE_LRU_CAP : nat := 8.        (* LineReader::FIND_LINE_LRU_CACHE_SZ *)
Definition SYSLINE_LRU_CAP : nat := 4.     (* SyslineReader::FIND_SYSLINE_LRU_CACHE_SZ *)
Definition PARSE_LRU_CAP : nat := 8.       (* SyslineReader::PARSE_DATETIME_IN_LINE_LRU_CACHE_SZ *)

(* ---------------------------------------------------------------- BlockReader: which blocks can be read
   (src/readers/blockreader.rs: read_block, read_block_File, read_block_File{Gz,Bz2,Lz4}, drop_block,
   store_block_in_storage, store_block_in_LRU_cache, disable_drop_data).

   A PLAIN file re-reads any block at any time.  A STREAMED file (gz, bz2, lz4: the three functions
   have the same control flow) can only decode the NEXT block of the stream: read_block_FileXx starts
   at bo_at = max(blocks_read) and decodes forward up to the requested block; after decoding block
   bo_at it drops block bo_at_old, the block it visited before (READ_BLOCK_LOOKBACK_DROP) - so with
   drops enabled only the newest block stays in `blocks`.  A request for an earlier block that was
   dropped: the main read_block finds it in blocks_read but not in blocks, counts a "reread error",
   removes it from blocks_read and calls read_block_FileXx, whose loop does not run (bo_at > bo):
   Done.  LineReader::find_line returns Done when read_block returns Done.
   disable_drop_data makes drop_block a no-op: then every block ever read stays.

   State: kind, the drop_data flag, the keys of `blocks`, `blocks_read`, the block LRU cache (4, most
   recent first), the number of blocks decoded from the stream so far, the counters of summary().
   `refd bo` = some live Line holds a LinePart of block bo (Arc::try_unwrap in drop_block fails). *)

Definition BLOCK_LRU_CAP : nat := 4.       (* BlockReader::READ_BLOCK_LRU_CACHE_SZ *)

Definition nmem (x : N) (l : list N) : bool := existsb (N.eqb x) l.
Definition nadd (x : N) (l : list N) : list N := if nmem x l then l else x :: l.
Definition nrem (x : N) (l : list N) : list N := filter (fun y => negb (y =? x)) l.
Definition nmax (l : list N) : N := fold_left N.max l 0.

Record bcnt : Type := mkBC {
  bc_lru_hit : N; bc_lru_miss : N; bc_lru_put : N;       (* read_block_lru_cache_* *)
  bc_hit : N; bc_miss : N; bc_put : N;                    (* read_blocks_hit / _miss / _put *)
  bc_reread : N;                                          (* read_blocks_reread_error *)
  bc_highest : N;                                         (* blocks_highest *)
  bc_drop_ok : N; bc_drop_err : N }.                      (* blocks_dropped_ok / _err *)
Definition bcnt0 : bcnt := mkBC 0 0 0 0 0 0 0 0 0 0.
Definition bc_upd (c d : bcnt) : bcnt :=
  mkBC (bc_lru_hit c + bc_lru_hit d) (bc_lru_miss c + bc_lru_miss d) (bc_lru_put c + bc_lru_put d)
       (bc_hit c + bc_hit d) (bc_miss c + bc_miss d) (bc_put c + bc_put d) (bc_reread c + bc_reread d)
       (N.max (bc_highest c) (bc_highest d)) (bc_drop_ok c + bc_drop_ok d) (bc_drop_err c + bc_drop_err d).
Definition e_lru_hit := mkBC 1 0 0 0 0 0 0 0 0 0.
Definition e_lru_miss := mkBC 0 1 0 0 0 0 0 0 0 0.
Definition e_lru_put := mkBC 0 0 1 0 0 0 0 0 0 0.
Definition e_hit := mkBC 0 0 0 1 0 0 0 0 0 0.
Definition e_miss := mkBC 0 0 0 0 1 0 0 0 0 0.
Definition e_reread := mkBC 0 0 0 0 0 0 1 0 0 0.
Definition e_drop_ok := mkBC 0 0 0 0 0 0 0 0 1 0.
Definition e_drop_err := mkBC 0 0 0 0 0 0 0 0 0 1.
Definition e_stored (n : N) := mkBC 0 0 0 0 0 1 0 n 0 0.         (* read_blocks_put, blocks_highest *)

Record bstate : Type := mkB {
  b_stream : bool;         (* is_streamed_file: gz / bz2 / lz4 / xz / tar *)
  b_kind : N;              (* of a streamed file: 0 = a sequential decoder (gz, bz2, lz4); 1 = xz: BlockReader::new
                              decompresses the WHOLE file and slices it into blocks (all stored, all in blocks_read;
                              the decoder is exhausted: a block that was dropped cannot be read again: Done);
                              2 = a tar member: read_block_FileTar reads and stores EVERY block of the member on each
                              miss (a dropped block is read again with all the others) *)
  b_drop : bool;           (* drop_data *)
  b_blocks : list N;       (* keys of `blocks` *)
  b_read : list N;         (* blocks_read *)
  b_lru : list N;          (* read_block_lru_cache, most recently used first *)
  b_dec : N;               (* blocks decoded from the stream so far *)
  b_cnt : bcnt }.

Definition b_init (stream : bool) : bstate := mkB stream 0 true [] [] [] 0 bcnt0.

(* blocks 0 .. n-1 *)
Fixpoint seqN (n : nat) : list N := match n with O => [] | S k => seqN k ++ [N.of_nat k] end.

(* a .xz file of filesz (uncompressed) bytes right after BlockReader::new: blocks 0 .. filesz / bs are stored (the
   slicing loop runs `while blockoffset <= buffer.len() / blocksz`: one more, EMPTY, block when bs divides filesz) *)
Definition b_init_xz (bs filesz : N) : bstate :=
  if filesz =? 0 then mkB true 1 true [] [] [] 0 bcnt0
  else let n := filesz / bs + 1 in
       mkB true 1 true (seqN (N.to_nat n)) (seqN (N.to_nat n)) [] n (mkBC 0 0 0 0 0 n 0 n 0 0).
Definition b_init_tar : bstate := mkB true 2 true [] [] [] 0 bcnt0.

(* the streamed containers of a text log, and the BlockReader right after BlockReader::new *)
Inductive ckind : Type :=
| KSeq        (* .gz / .bz2 / .lz4: a sequential decoder *)
| KXz         (* .xz: decompressed and sliced at open *)
| KTar.       (* a member of a .tar *)
Definition b_open (c : ckind) (bs filesz : N) : bstate :=
  match c with KSeq => b_init true | KXz => b_init_xz bs filesz | KTar => b_init_tar end.

Definition b_cnt_up (d : bcnt) (st : bstate) : bstate :=
  mkB (b_stream st) (b_kind st) (b_drop st) (b_blocks st) (b_read st) (b_lru st) (b_dec st) (bc_upd (b_cnt st) d).

(* store_block_in_LRU_cache *)
Definition b_lru_put (bo : N) (st : bstate) : bstate :=
  mkB (b_stream st) (b_kind st) (b_drop st) (b_blocks st) (b_read st)
      (firstn BLOCK_LRU_CAP (bo :: nrem bo (b_lru st))) (b_dec st) (bc_upd (b_cnt st) e_lru_put).

(* store_block_in_storage alone *)
Definition b_store_only (bo : N) (st : bstate) : bstate :=
  let blocks := nadd bo (b_blocks st) in
  mkB (b_stream st) (b_kind st) (b_drop st) blocks (nadd bo (b_read st)) (b_lru st) (b_dec st)
      (bc_upd (b_cnt st) (e_stored (lenN blocks))).

(* store_block_in_storage, then store_block_in_LRU_cache *)
Definition b_store (bo : N) (st : bstate) : bstate :=
  let blocks := nadd bo (b_blocks st) in
  b_lru_put bo (mkB (b_stream st) (b_kind st) (b_drop st) blocks (nadd bo (b_read st)) (b_lru st) (b_dec st)
                    (bc_upd (b_cnt st) (e_stored (lenN blocks)))).

(* BlockReader::disable_drop_data *)
Definition b_disable_drop (st : bstate) : bstate :=
  mkB (b_stream st) (b_kind st) false (b_blocks st) (b_read st) (b_lru st) (b_dec st) (b_cnt st).

(* BlockReader::drop_block *)
Definition b_drop_block (refd : N -> bool) (st : bstate) (bo : N) : bstate :=
  if negb (b_drop st) then st
  else
    let had := nmem bo (b_blocks st) || nmem bo (b_lru st) in
    mkB (b_stream st) (b_kind st) (b_drop st) (nrem bo (b_blocks st)) (b_read st) (nrem bo (b_lru st)) (b_dec st)
        (if had then bc_upd (b_cnt st) (if refd bo then e_drop_err else e_drop_ok) else b_cnt st).

Inductive bres : Type :=
| BFound      (* the block, with the right bytes *)
| BDone       (* past the end, or the block is gone *)
| BPanic      (* blocks.get_mut(..).unwrap() in read_block_FileXx *)
| BWrong.     (* the decoder is not positioned at the block that is stored (never happens: StreamProofs) *)

(* the while loop of read_block_File{Gz,Bz2,Lz4} *)
Fixpoint b_stream_loop (fuel : nat) (refd : N -> bool) (st : bstate) (bo bo_at bo_at_old : N) : bstate * bres :=
  match fuel with
  | O => (st, BDone)
  | S k =>
      if bo_at <=? bo then
        if nmem bo_at (b_read st) then
          let st := b_cnt_up e_hit st in
          if bo_at =? bo then
            if nmem bo_at (b_blocks st) then (b_lru_put bo_at st, BFound) else (st, BPanic)
          else b_stream_loop k refd st bo (bo_at + 1) bo_at_old
        else
          let st := b_cnt_up e_miss st in
          if b_kind st =? 1 then (st, BDone)          (* xz: xz_decompress on the exhausted reader: UnexpectedEof, break *)
          else if negb (b_dec st =? bo_at) then (st, BWrong)
          else
            let st := b_store bo_at (mkB (b_stream st) (b_kind st) (b_drop st) (b_blocks st) (b_read st) (b_lru st)
                                         (b_dec st + 1) (b_cnt st)) in
            let st := if bo_at_old <? bo_at then b_drop_block refd st bo_at_old else st in
            if bo_at =? bo then (st, BFound) else b_stream_loop k refd st bo (bo_at + 1) bo_at
      else (st, BDone)
  end.

(* BlockReader::read_block.  filesz, last = blockoffset_last *)
Definition b_read_block (refd : N -> bool) (filesz last : N) (st : bstate) (bo : N) : bstate * bres :=
  if last <? bo then (st, BDone)
  else
    if nmem bo (b_lru st) then
      (mkB (b_stream st) (b_kind st) (b_drop st) (b_blocks st) (b_read st) (bo :: nrem bo (b_lru st)) (b_dec st)
           (bc_upd (b_cnt st) e_lru_hit), BFound)
    else
      let st := b_cnt_up e_lru_miss st in
      let go (st : bstate) : bstate * bres :=
        if filesz =? 0 then (st, BDone)
        else if b_stream st
             then
               if b_kind st =? 2
               then (fold_left (fun st b => b_store_only b st) (seqN (S (N.to_nat last))) st, BFound)   (* read_block_FileTar *)
               else let m := nmax (b_read st) in b_stream_loop (S (S (N.to_nat (bo - m)))) refd st bo m m
             else (b_store bo st, BFound) in
      if nmem bo (b_read st) then
        let st := b_cnt_up e_hit st in
        if nmem bo (b_blocks st) then (b_lru_put bo st, BFound)
        else
          go (mkB (b_stream st) (b_kind st) (b_drop st) (b_blocks st) (nrem bo (b_read st)) (b_lru st) (b_dec st)
                  (bc_upd (bc_upd (b_cnt st) e_reread) e_miss))
      else go (b_cnt_up e_miss st).

(* ---------------------------------------------------------------- LineReader state *)

Definition sline := (N * line)%type.                  (* object id, parts *)
Definition sl_id (s : sline) : N := fst s.
Definition sl_parts (s : sline) : line := snd s.

Inductive lres : Type := LF (fo_next : N) (l : sline) | LD.   (* what the LRU cache holds *)

Record lcnt : Type := mkLC {
  lc_processed : N;      (* linereader_lines *)
  lc_highest : N;        (* linereader_lines_stored_highest *)
  lc_hits : N;           (* linereader_lines_hits *)
  lc_miss : N;           (* linereader_lines_miss *)
  lc_lru_hit : N; lc_lru_miss : N; lc_lru_put : N;
  lc_drop_ok : N; lc_drop_err : N }.

Definition lcnt0 : lcnt := mkLC 0 0 0 0 0 0 0 0 0.

Record lr_state : Type := mkLR {
  l_lines : list (N * sline);
  l_foend : list (N * N);
  l_lru : list (N * lres);
  l_on : bool;
  l_nid : N;
  l_cnt : lcnt;
  l_blk : bstate;              (* the BlockReader *)
  l_ext : list sline }.        (* Line objects held by the caller (a SyslineReader): they keep blocks referenced *)

Definition lr_init_b (b : bstate) : lr_state := mkLR [] [] [] true 0 lcnt0 b [].
Definition lr_init_k (stream : bool) : lr_state := lr_init_b (b_init stream).
Definition lr_init : lr_state := lr_init_k false.

Definition lc_hits_up c := mkLC (lc_processed c) (lc_highest c) (lc_hits c + 1) (lc_miss c) (lc_lru_hit c) (lc_lru_miss c) (lc_lru_put c) (lc_drop_ok c) (lc_drop_err c).
Definition lc_miss_up c := mkLC (lc_processed c) (lc_highest c) (lc_hits c) (lc_miss c + 1) (lc_lru_hit c) (lc_lru_miss c) (lc_lru_put c) (lc_drop_ok c) (lc_drop_err c).
Definition lc_lru_hit_up c := mkLC (lc_processed c) (lc_highest c) (lc_hits c) (lc_miss c) (lc_lru_hit c + 1) (lc_lru_miss c) (lc_lru_put c) (lc_drop_ok c) (lc_drop_err c).
Definition lc_lru_miss_up c := mkLC (lc_processed c) (lc_highest c) (lc_hits c) (lc_miss c) (lc_lru_hit c) (lc_lru_miss c + 1) (lc_lru_put c) (lc_drop_ok c) (lc_drop_err c).
Definition lc_lru_put_up c := mkLC (lc_processed c) (lc_highest c) (lc_hits c) (lc_miss c) (lc_lru_hit c) (lc_lru_miss c) (lc_lru_put c + 1) (lc_drop_ok c) (lc_drop_err c).
Definition lc_drop_ok_up c := mkLC (lc_processed c) (lc_highest c) (lc_hits c) (lc_miss c) (lc_lru_hit c) (lc_lru_miss c) (lc_lru_put c) (lc_drop_ok c + 1) (lc_drop_err c).
Definition lc_drop_err_up c := mkLC (lc_processed c) (lc_highest c) (lc_hits c) (lc_miss c) (lc_lru_hit c) (lc_lru_miss c) (lc_lru_put c) (lc_drop_ok c) (lc_drop_err c + 1).
Definition lc_inserted (n : N) c := mkLC (lc_processed c + 1) (N.max (lc_highest c) n) (lc_hits c) (lc_miss c) (lc_lru_hit c) (lc_lru_miss c) (lc_lru_put c) (lc_drop_ok c) (lc_drop_err c).

Definition lr_cnt (g : lcnt -> lcnt) (st : lr_state) : lr_state :=
  mkLR (l_lines st) (l_foend st) (l_lru st) (l_on st) (l_nid st) (g (l_cnt st)) (l_blk st) (l_ext st).
Definition lr_set_lru (c : list (N * lres)) (st : lr_state) : lr_state :=
  mkLR (l_lines st) (l_foend st) c (l_on st) (l_nid st) (l_cnt st) (l_blk st) (l_ext st).
Definition lr_set_blk (b : bstate) (st : lr_state) : lr_state :=
  mkLR (l_lines st) (l_foend st) (l_lru st) (l_on st) (l_nid st) (l_cnt st) b (l_ext st).
Definition lr_set_ext (e : list sline) (st : lr_state) : lr_state :=
  mkLR (l_lines st) (l_foend st) (l_lru st) (l_on st) (l_nid st) (l_cnt st) (l_blk st) e.

(* which path answered *)
Inductive lpath : Type :=
| PLru            (* check_store_LRU hit *)
| PEof            (* empty file / offset at or past the end *)
| PLines          (* check_store: self.lines.contains_key(fileoffset) *)
| PByEnd          (* check_store: get_linep (foend_to_fobeg range lookup) *)
| PA0 | PA1a | PA1b     (* searched newline B, newline A known: offset 0 / line at fo-1 / get_linep(fo-1) *)
| PSearch         (* full search for newline A *)
| PInBlockDone    (* find_line_in_block: the line is not inside the block *)
| PGone           (* read_block returned Done: a block the search needs is gone (streamed file) *)
| PFail.          (* Panic / OutOfFuel of the pure search *)

(* LRU_cache_enable / LRU_cache_disable *)
Definition lr_lru_enable (st : lr_state) : lr_state :=
  if l_on st then st else mkLR (l_lines st) (l_foend st) [] true (l_nid st) (l_cnt st) (l_blk st) (l_ext st).
Definition lr_lru_disable (st : lr_state) : lr_state :=
  mkLR (l_lines st) (l_foend st) [] false (l_nid st) (l_cnt st) (l_blk st) (l_ext st).

(* check_store_LRU *)
Definition lr_check_lru (st : lr_state) (fo : N) : lr_state * option lres :=
  if l_on st then
    match lru_get fo (l_lru st) with
    | (Some r, c) => (lr_cnt lc_lru_hit_up (lr_set_lru c st), Some r)
    | (None, _) => (lr_cnt lc_lru_miss_up st, None)
    end
  else (st, None).

(* the `if self.find_line_lru_cache_enabled { put += 1; put(..) }` idiom *)
Definition lr_put (st : lr_state) (fo : N) (r : lres) : lr_state :=
  if l_on st then lr_cnt lc_lru_put_up (lr_set_lru (lru_put LINE_LRU_CAP fo r (l_lru st)) st) else st.

(* get_linep *)
Definition lr_get_linep (st : lr_state) (fo : N) : option sline :=
  match afirst_ge fo (l_foend st) with
  | Some (_, fo_beg) => if fo <? fo_beg then None else alookup fo_beg (l_lines st)
  | None => None
  end.

(* insert_line: the new Line object gets a fresh id *)
Definition lr_insert_line (bs : N) (st : lr_state) (ps : line) : option (lr_state * sline) :=
  match line_fo_begin bs ps, line_fo_end bs ps with
  | Some b, Some e =>
      let s : sline := (l_nid st, ps) in
      let lines := ainsert b s (l_lines st) in
      Some (mkLR lines (ainsert e b (l_foend st)) (l_lru st) (l_on st) (l_nid st + 1)
                 (lc_inserted (lenN lines) (l_cnt st)) (l_blk st) (l_ext st), s)
  | _, _ => None
  end.

(* a Line object that is NOT stored (find_line_in_block: full search result, partial line) *)
Definition lr_fresh_line (st : lr_state) (ps : line) : lr_state * sline :=
  (mkLR (l_lines st) (l_foend st) (l_lru st) (l_on st) (l_nid st + 1) (l_cnt st) (l_blk st) (l_ext st), (l_nid st, ps)).

(* ---------------------------------------------------------------- read_block through the LineReader *)

Definition line_in_block (bo : N) (s : sline) : bool := existsb (fun p => part_bo p =? bo) (sl_parts s).
Definition lres_lines (e : N * lres) : list sline := match snd e with LF _ s => [s] | LD => [] end.
(* the live Line objects: `lines`, the LRU cache, and those the caller holds *)
Definition lr_live (st : lr_state) : list sline :=
  map snd (l_lines st) ++ flat_map lres_lines (l_lru st) ++ l_ext st.
Definition lr_refd (st : lr_state) (inprog : N -> bool) (bo : N) : bool :=
  inprog bo || existsb (line_in_block bo) (lr_live st).

Definition lr_read (bs : N) (f : file) (st : lr_state) (inprog : N -> bool) (bo : N) : lr_state * bres :=
  let '(b, r) := b_read_block (lr_refd st inprog) (lenN f) (blockoffset_last (lenN f) bs) (l_blk st) bo in
  (lr_set_blk b st, r).

(* B1 / B2: blocks lo, lo+1, ... (n of them); while block b is read the Line under construction holds
   the parts of lo .. b-1 *)
Fixpoint lr_reads_fwd (n : nat) (bs : N) (f : file) (st : lr_state) (lo b : N) : lr_state * bres :=
  match n with
  | O => (st, BFound)
  | S k =>
      match lr_read bs f st (fun x => (lo <=? x) && (x <? b)) b with
      | (st, BFound) => lr_reads_fwd k bs f st lo (b + 1)
      | (st, r) => (st, r)
      end
  end.

(* A4: blocks hi, hi-1, ... (n of them); the Line under construction holds every later block *)
Fixpoint lr_reads_bwd (n : nat) (bs : N) (f : file) (st : lr_state) (b : N) : lr_state * bres :=
  match n with
  | O => (st, BFound)
  | S k =>
      match lr_read bs f st (fun x => b <? x) b with
      | (st, BFound) => lr_reads_bwd k bs f st (b - 1)
      | (st, r) => (st, r)
      end
  end.

(* the blocks the backward half reads for a line that begins at lb: none when the newline before lb is
   in the middle block (or lb = 0 there), else bo_mid-1 down to the block of that newline (block 0) *)
Definition bwd_count (bs lb bo_mid : N) : nat :=
  let lo := if lb =? 0 then 0 else block_offset_at_file_offset (lb - 1) bs in
  N.to_nat (bo_mid - lo).

(* ---------------------------------------------------------------- the pure search, in two halves
   (Lines.find_line_fuel = fwd_search ; A0 | back_search: lemma find_line_fuel_split) *)

(* B1 + B2.  Result (fo_nl_b, parts after the middle block, bi_middle_end) *)
Definition fwd_search (fuel : nat) (bs : N) (f : file) (fo : N) : res (N * line * N) :=
  let filesz := lenN f in
  let bo_last := blockoffset_last filesz bs in
  let bo_mid := block_offset_at_file_offset fo bs in
  let bi_mid := block_index_at_file_offset fo bs in
  let blk := block bs f bo_mid in
  let bi_stop := lenN blk in
  match nthN blk bi_mid with
  | None => Panic
  | Some _ =>
      let '(found_b, fo_nl_b0, bi_mid_end) :=
        match find_nl (skipnN bi_mid blk) with
        | Some d => (true, file_offset_at_block_offset_index bo_mid bs (bi_mid + d), bi_mid + d)
        | None =>
            if bo_mid =? bo_last
            then (true, file_offset_at_block_offset_index bo_mid bs (bi_stop - 1), bi_stop - 1)
            else (false, fo, bi_stop - 1)
        end in
      match (if found_b then Found (fo_nl_b0, [])
             else fwd_blocks fuel bs f (bo_mid + 1) bo_last [] None) with
      | Found (fo_nl_b, after) => Found (fo_nl_b, after, bi_mid_end)
      | Done => Done
      | OutOfFuel => OutOfFuel
      | Panic => Panic
      end
  end.

(* A2a / A2b / A4 / A5 (fo > 0) *)
Definition back_search (fuel : nat) (bs : N) (f : file) (fo : N) (after : line) (bi_mid_end : N)
  : res line :=
  let bo_mid := block_offset_at_file_offset fo bs in
  let bi_mid := block_index_at_file_offset fo bs in
  let blk := block bs f bo_mid in
  let start := fo - 1 in
  let bof := block_offset_at_file_offset start bs in
  if bof =? bo_mid then
    let bi_at0 := block_index_at_file_offset start bs in
    match rfind_nl (firstnN (bi_at0 + 1) blk) with
    | Some i => Found ((bo_mid, i + 1, bi_mid_end + 1) :: after)
    | None =>
        let acc := (bo_mid, 0, bi_mid_end + 1) :: after in
        if negb (bof =? 0) then bwd_blocks fuel bs f (bof - 1) acc bi_mid
        else Found acc
    end
  else
    bwd_blocks fuel bs f bof ((bo_mid, 0, bi_mid_end + 1) :: after) bi_mid.

(* ---------------------------------------------------------------- LineReader::find_line *)

Definition lr_answer (st : lr_state) (fo : N) (bs : N) (s : sline) (p : lpath)
  : lr_state * res (N * sline) * lpath :=
  match line_fo_end bs (sl_parts s) with
  | Some e => (lr_put st fo (LF (e + 1) s), Found (e + 1, s), p)
  | None => (st, Panic, PFail)
  end.

(* check_store *)
Definition lr_check_store (bs : N) (st : lr_state) (fo : N)
  : option (lr_state * res (N * sline) * lpath) * lr_state :=
  match alookup fo (l_lines st) with
  | Some s => (Some (lr_answer (lr_cnt lc_hits_up st) fo bs s PLines), st)
  | None =>
      let st := lr_cnt lc_miss_up st in
      match lr_get_linep st fo with
      | Some s => (Some (lr_answer st fo bs s PByEnd), st)
      | None => (None, st)
      end
  end.

(* store a found line, cache Found((fo_next, linep)) under the REQUESTED offset *)
Definition lr_store_found (bs : N) (st : lr_state) (fo fo_next : N) (ps : line) (p : lpath)
  : lr_state * res (N * sline) * lpath :=
  match lr_insert_line bs st ps with
  | Some (st, s) => (lr_put st fo (LF fo_next s), Found (fo_next, s), p)
  | None => (st, Panic, PFail)
  end.

Definition lres_result (r : lres) : res (N * sline) :=
  match r with LF n s => Found (n, s) | LD => Done end.

Definition c_find_line (bs : N) (f : file) (st : lr_state) (fo : N)
  : lr_state * res (N * sline) * lpath :=
  let filesz := lenN f in
  match lr_check_lru st fo with
  | (st, Some r) => (st, lres_result r, PLru)
  | (st, None) =>
      if (filesz =? 0) || (filesz <? fo) || (fo =? filesz) then (st, Done, PEof)
      else
        match lr_check_store bs st fo with
        | (Some ans, _) => ans
        | (None, st) =>
            let bo_mid := block_offset_at_file_offset fo bs in
            let bi_mid := block_index_at_file_offset fo bs in
            match fwd_search (S (length f)) bs f fo with
            | Found (fo_nl_b, after, bme) =>
              match lr_reads_fwd (S (N.to_nat (block_offset_at_file_offset fo_nl_b bs - bo_mid))) bs f st bo_mid bo_mid with
              | (st, BFound) =>
                if fo =? 0 then
                  lr_store_found bs st fo (fo_nl_b + 1)
                    ((block_offset_at_file_offset 0 bs, block_index_at_file_offset 0 bs, bme + 1) :: after) PA0
                else
                  let mid := (bo_mid, bi_mid, bme + 1) :: after in
                  match alookup (fo - 1) (l_lines st) with
                  | Some _ => lr_store_found bs (lr_cnt lc_hits_up st) fo (fo_nl_b + 1) mid PA1a
                  | None =>
                      let st := lr_cnt lc_miss_up st in
                      match lr_get_linep st (fo - 1) with
                      | Some _ => lr_store_found bs st fo (fo_nl_b + 1) mid PA1b
                      | None =>
                          match back_search (S (length f)) bs f fo after bme with
                          | Found [] => (lr_put st fo LD, Done, PSearch)            (* C *)
                          | Found ps =>                                              (* D *)
                              match line_fo_begin bs ps, line_fo_end bs ps with
                              | Some lb, Some e =>
                                  match lr_reads_bwd (bwd_count bs lb bo_mid) bs f st (bo_mid - 1) with
                                  | (st, BFound) => lr_store_found bs st fo (e + 1) ps PSearch
                                  | (st, BDone) => (st, Done, PGone)
                                  | (st, _) => (st, Panic, PFail)
                                  end
                              | _, _ => (st, Panic, PFail)
                              end
                          | Done => (st, Done, PSearch)
                          | OutOfFuel => (st, OutOfFuel, PFail)
                          | Panic => (st, Panic, PFail)
                          end
                      end
                  end
              | (st, BDone) => (st, Done, PGone)
              | (st, _) => (st, Panic, PFail)
              end
            | Done => (st, Done, PSearch)
            | OutOfFuel => (st, OutOfFuel, PFail)
            | Panic => (st, Panic, PFail)
            end
        end
  end.

(* ---------------------------------------------------------------- LineReader::find_line_in_block
   Result: (ResultS3LineFind, Option<partial Line>).  Transcribed as it is: in the branch "newline B
   not found in this block" bi_middle_end keeps its initial value bi_middle (finding F3a); a line
   found by the full backward scan is returned but NOT stored and NOT cached. *)

(* find_line_in_block after check_store_LRU, the end-of-file tests, check_store and the read of the
   block of the offset: B1, A0 / A1a / A1b, the backward scan inside the block *)
Definition c_flib_core (bs : N) (f : file) (st : lr_state) (fo : N)
  : lr_state * (res (N * sline) * option sline) * lpath :=
  let filesz := lenN f in
  let bo_last := blockoffset_last filesz bs in
  let bo_mid := block_offset_at_file_offset fo bs in
  let bi_mid := block_index_at_file_offset fo bs in
  let blk := block bs f bo_mid in
        match nthN blk bi_mid with
        | None => (st, (Panic, None), PFail)
        | Some _ =>
            (* B1: (partial_line, fo_nl_b, bi_middle_end) *)
            let '(partial, fo_nl_b, bme) :=
              match find_nl (skipnN bi_mid blk) with
              | Some d => (false, file_offset_at_block_offset_index bo_mid bs (bi_mid + d), bi_mid + d)
              | None =>
                  if bo_mid =? bo_last
                  then (false, file_offset_at_block_offset_index bo_mid bs (lenN blk - 1), lenN blk - 1)
                  else (true, fo, bi_mid)
              end in
            if fo =? 0 then
              let ps := [(block_offset_at_file_offset 0 bs, block_index_at_file_offset 0 bs, bme + 1)] in
              if partial then
                let '(st, s) := lr_fresh_line st ps in (st, (Done, Some s), PInBlockDone)
              else
                let '(st, r, p) := lr_store_found bs st fo (fo_nl_b + 1) ps PA0 in (st, (r, None), p)
            else
              let mid := [(bo_mid, bi_mid, bme + 1)] in
              (* A1a: `!partial_line && self.lines.contains_key(&fo_)` else lines_miss += 1 *)
              match (if partial then None else alookup (fo - 1) (l_lines st)) with
              | Some _ =>
                  let '(st, r, p) := lr_store_found bs (lr_cnt lc_hits_up st) fo (fo_nl_b + 1) mid PA1a in
                  (st, (r, None), p)
              | None =>
                  let st := lr_cnt lc_miss_up st in
                  match (if partial then None else lr_get_linep st (fo - 1)) with
                  | Some _ =>
                      let '(st, r, p) := lr_store_found bs st fo (fo_nl_b + 1) mid PA1b in
                      (st, (r, None), p)
                  | None =>
                      let start := fo - 1 in
                      let bof := block_offset_at_file_offset start bs in
                      if negb (bof =? bo_mid) then (st, (Done, None), PInBlockDone)
                      else
                        let bi_at0 := block_index_at_file_offset start bs in
                        (* A2a: Some bi_at (first index of the line inside the block) *)
                        let bi_at :=
                          match rfind_nl (firstnN (bi_at0 + 1) blk) with
                          | Some i => Some (i + 1)
                          | None => if bof =? 0 then Some 0 else None
                          end in
                        match bi_at with
                        | None => (st, (Done, None), PInBlockDone)
                        | Some b =>
                            let '(st, s) := lr_fresh_line st [(bo_mid, b, bme + 1)] in
                            if partial then (st, (Done, Some s), PInBlockDone)
                            else (st, (Found (fo_nl_b + 1, s), None), PSearch)
                        end
                  end
              end
        end.

Definition c_find_line_in_block (bs : N) (f : file) (st : lr_state) (fo : N)
  : lr_state * (res (N * sline) * option sline) * lpath :=
  let filesz := lenN f in
  match lr_check_lru st fo with
  | (st, Some r) => (st, (lres_result r, None), PLru)
  | (st, None) =>
      if (filesz =? 0) || (filesz <? fo) || (fo =? filesz) then (st, (Done, None), PEof)
      else
        match lr_check_store bs st fo with
        | (Some (st, r, p), _) => (st, (r, None), p)
        | (None, st) =>
            match lr_read bs f st (fun _ => false) (block_offset_at_file_offset fo bs) with
            | (st, BFound) => c_flib_core bs f st fo
            | (st, BDone) => (st, (Done, None), PGone)
            | (st, _) => (st, (Panic, None), PFail)
            end
        end
  end.

(* blockzero_analysis_lines: find_line_in_block from fo, then at each returned offset *)
Fixpoint c_gate_lines (k : nat) (bs : N) (f : file) (st : lr_state) (fo : N) : lr_state :=
  match k with
  | O => st
  | S k' =>
      match c_find_line_in_block bs f st fo with
      | (st', (Found (n, _), _), _) => c_gate_lines k' bs f st' n
      | (st', _, _) => st'
      end
  end.

(* ---------------------------------------------------------------- LineReader::drop_line
   `extra` = number of other live objects (Sysline objects) that hold this Line object *)

Definition lres_holds (id : N) (e : N * lres) : bool :=
  match snd e with LF _ s => sl_id s =? id | LD => false end.

Definition lr_drop_line (bs : N) (st : lr_state) (s : sline) (extra : N) : lr_state :=
  match line_fo_begin bs (sl_parts s) with
  | None => st
  | Some key =>
      let lru := lru_pop key (l_lru st) in
      let lines := aremove key (l_lines st) in
      let held := existsb (lres_holds (sl_id s)) lru
                  || existsb (fun e => sl_id (snd e) =? sl_id s) lines
                  || negb (extra =? 0) in
      let st1 := mkLR lines (l_foend st) lru (l_on st) (l_nid st)
                      ((if held then lc_drop_err_up else lc_drop_ok_up) (l_cnt st)) (l_blk st) (l_ext st) in
      if held then st1
      else
        (* drop the blocks of every LinePart but the last *)
        fold_left (fun st p => lr_set_blk (b_drop_block (lr_refd st (fun _ => false)) (l_blk st) (part_bo p)) st)
                  (removelast (sl_parts s)) st1
  end.

(* ---------------------------------------------------------------- SyslineReader state *)

Definition ssl := (N * Z * list sline)%type.           (* object id, instant, lines *)
Definition ss_id (s : ssl) : N := fst (fst s).
Definition ss_dt (s : ssl) : Z := snd (fst s).
Definition ss_lines (s : ssl) : list sline := snd s.
Definition ss_sysline (s : ssl) : sysline := (ss_dt s, map sl_parts (ss_lines s)).

Inductive sres : Type := SF (fo_next : N) (s : ssl) | SD.

Record scnt : Type := mkSC {
  sc_count : N;          (* syslinereader_syslines *)
  sc_highest : N;        (* syslinereader_syslines_stored_highest *)
  sc_hit : N; sc_miss : N;
  sc_range_hit : N; sc_range_miss : N; sc_range_put : N;
  sc_lru_hit : N; sc_lru_miss : N; sc_lru_put : N;
  sc_parse_hit : N; sc_parse_miss : N;      (* ..._lru_cache_put is never incremented by the code *)
  sc_drop_ok : N; sc_drop_err : N }.

Definition scnt0 : scnt := mkSC 0 0 0 0 0 0 0 0 0 0 0 0 0 0.

Record sr_state : Type := mkSR {
  s_lr : lr_state;
  s_syslines : list (N * ssl);
  s_range : list (N * N * N);
  s_lru : list (N * sres);
  s_on : bool;
  s_parse : list (N * Z);
  s_parse_on : bool;
  s_nid : N;
  s_cnt : scnt }.

Definition sr_init_b (b : bstate) : sr_state := mkSR (lr_init_b b) [] [] [] true [] true 0 scnt0.
Definition sr_init_k (stream : bool) : sr_state := sr_init_b (b_init stream).
Definition sr_init : sr_state := sr_init_k false.

Definition sc_upd (c : scnt) (d : scnt) : scnt :=
  mkSC (sc_count c + sc_count d) (N.max (sc_highest c) (sc_highest d)) (sc_hit c + sc_hit d) (sc_miss c + sc_miss d)
       (sc_range_hit c + sc_range_hit d) (sc_range_miss c + sc_range_miss d) (sc_range_put c + sc_range_put d)
       (sc_lru_hit c + sc_lru_hit d) (sc_lru_miss c + sc_lru_miss d) (sc_lru_put c + sc_lru_put d)
       (sc_parse_hit c + sc_parse_hit d) (sc_parse_miss c + sc_parse_miss d)
       (sc_drop_ok c + sc_drop_ok d) (sc_drop_err c + sc_drop_err d).
(* increments, one per counter *)
Definition d_hit := mkSC 0 0 1 0 0 0 0 0 0 0 0 0 0 0.
Definition d_miss := mkSC 0 0 0 1 0 0 0 0 0 0 0 0 0 0.
Definition d_range_hit := mkSC 0 0 0 0 1 0 0 0 0 0 0 0 0 0.
Definition d_range_miss := mkSC 0 0 0 0 0 1 0 0 0 0 0 0 0 0.
Definition d_lru_hit := mkSC 0 0 0 0 0 0 0 1 0 0 0 0 0 0.
Definition d_lru_miss := mkSC 0 0 0 0 0 0 0 0 1 0 0 0 0 0.
Definition d_lru_put := mkSC 0 0 0 0 0 0 0 0 0 1 0 0 0 0.
Definition d_parse_hit := mkSC 0 0 0 0 0 0 0 0 0 0 1 0 0 0.
Definition d_parse_miss := mkSC 0 0 0 0 0 0 0 0 0 0 0 1 0 0.
Definition d_drop_ok := mkSC 0 0 0 0 0 0 0 0 0 0 0 0 1 0.
Definition d_drop_err := mkSC 0 0 0 0 0 0 0 0 0 0 0 0 0 1.
Definition d_inserted (n : N) := mkSC 1 n 0 0 0 0 1 0 0 0 0 0 0 0.    (* count, highest, by_range put *)

Definition sr_cnt (d : scnt) (st : sr_state) : sr_state :=
  mkSR (s_lr st) (s_syslines st) (s_range st) (s_lru st) (s_on st) (s_parse st) (s_parse_on st) (s_nid st)
       (sc_upd (s_cnt st) d).
Definition sr_set_lr (l : lr_state) (st : sr_state) : sr_state :=
  mkSR l (s_syslines st) (s_range st) (s_lru st) (s_on st) (s_parse st) (s_parse_on st) (s_nid st) (s_cnt st).
Definition sr_set_lru (c : list (N * sres)) (st : sr_state) : sr_state :=
  mkSR (s_lr st) (s_syslines st) (s_range st) c (s_on st) (s_parse st) (s_parse_on st) (s_nid st) (s_cnt st).
Definition sr_set_parse (c : list (N * Z)) (st : sr_state) : sr_state :=
  mkSR (s_lr st) (s_syslines st) (s_range st) (s_lru st) (s_on st) c (s_parse_on st) (s_nid st) (s_cnt st).

(* SyslineReader::LRU_cache_enable / LRU_cache_disable (both of its caches; the inner
   LineReader's cache is not touched) *)
Definition sr_lru_enable (st : sr_state) : sr_state :=
  mkSR (s_lr st) (s_syslines st) (s_range st) (if s_on st then s_lru st else []) true
       (if s_parse_on st then s_parse st else []) true (s_nid st) (s_cnt st).
Definition sr_lru_disable (st : sr_state) : sr_state :=
  mkSR (s_lr st) (s_syslines st) (s_range st) [] false [] false (s_nid st) (s_cnt st).

Inductive spath : Type :=
| QLru | QRange | QSyslines | QSearch | QDoneLine | QInBlockDone | QPanicDropped | QFail.

(* RangeMap::get_key_value / contains_key *)
Fixpoint range_get (m : list (N * N * N)) (x : N) : option N :=
  match m with
  | [] => None
  | (a, b, v) :: r => if (a <=? x) && (x <? b) then Some v else range_get r x
  end.

(* RangeMap::insert: the parts of older ranges that the new range overlaps are removed
   (no two stored values are equal unless the ranges begin at the same offset, so the crate's
   coalescing of touching ranges with EQUAL values can only merge a range with itself) *)
Fixpoint range_cut (a b : N) (m : list (N * N * N)) : list (N * N * N) :=
  match m with
  | [] => []
  | (s, e, v) :: r =>
      (if s <? N.min e a then [(s, N.min e a, v)] else []) ++
      (if N.max s b <? e then [(N.max s b, e, v)] else []) ++ range_cut a b r
  end.
Definition range_insert (a b v : N) (m : list (N * N * N)) : list (N * N * N) :=
  if a <? b then (a, b, v) :: range_cut a b m else m.

(* Sysline::fileoffset_begin / _end, blockoffset_first / _last *)
Definition ss_begin (bs : N) (s : ssl) : option N := sysline_fo_begin bs (ss_sysline s).
Definition ss_end (bs : N) (s : ssl) : option N := sysline_fo_end bs (ss_sysline s).
Definition line_bo_first (ln : line) : option N := match ln with p :: _ => Some (part_bo p) | [] => None end.
Definition line_bo_last (ln : line) : option N := match rev ln with p :: _ => Some (part_bo p) | [] => None end.
Definition ss_bo_first (s : ssl) : option N :=
  match ss_lines s with l :: _ => line_bo_first (sl_parts l) | [] => None end.
Definition ss_bo_last (s : ssl) : option N :=
  match rev (ss_lines s) with l :: _ => line_bo_last (sl_parts l) | [] => None end.

Section Dated.
  Variable dated : list N -> option Z.

  (* parse_datetime_in_line_cached: keyed by the line's begin offset, only Ok results are stored *)
  Definition sr_parse (bs : N) (f : file) (st : sr_state) (s : sline) : sr_state * option Z :=
    let compute := dated (bytes_of bs f (sl_parts s)) in
    if s_parse_on st then
      match line_fo_begin bs (sl_parts s) with
      | None => (st, compute)
      | Some key =>
          match lru_get key (s_parse st) with
          | (Some z, c) => (sr_cnt d_parse_hit (sr_set_parse c st), Some z)
          | (None, _) =>
              let st := sr_cnt d_parse_miss st in
              match compute with
              | Some z => (sr_set_parse (lru_put PARSE_LRU_CAP key z (s_parse st)) st, Some z)
              | None => (st, None)
              end
          end
      end
    else (st, compute).

  Definition sr_put_always (st : sr_state) (fo : N) (r : sres) : sr_state :=
    sr_cnt d_lru_put (sr_set_lru (lru_put SYSLINE_LRU_CAP fo r (s_lru st)) st).
  Definition sr_put (st : sr_state) (fo : N) (r : sres) : sr_state :=
    if s_on st then sr_put_always st fo r else st.

  Definition sres_result (r : sres) : res (N * ssl) :=
    match r with SF n s => Found (n, s) | SD => Done end.

  (* SyslineReader::check_store.  The by-range branch and the `is_sysline_last` sub-branch of the
     syslines branch put into the LRU cache WITHOUT testing find_sysline_lru_cache_enabled *)
  Definition sr_check_store (bs : N) (f : file) (st : sr_state) (fo : N)
    : option (sr_state * res (N * ssl) * spath) * sr_state :=
    let lru_step :=
      if s_on st then
        match lru_get fo (s_lru st) with
        | (Some r, c) => (Some r, sr_cnt d_lru_hit (sr_set_lru c st))
        | (None, _) => (None, sr_cnt d_lru_miss st)
        end
      else (None, st) in
    match lru_step with
    | (Some r, st) => (Some (st, sres_result r, QLru), st)
    | (None, st) =>
        match range_get (s_range st) fo with
        | Some v =>
            let st := sr_cnt d_range_hit st in
            match alookup v (s_syslines st) with
            | None => (Some (st, Panic, QPanicDropped), st)           (* self.syslines[fo] *)
            | Some s =>
                match ss_end bs s with
                | Some e => (Some (sr_put_always st fo (SF (e + 1) s), Found (e + 1, s), QRange), st)
                | None => (Some (st, Panic, QFail), st)
                end
            end
        | None =>
            let st := sr_cnt d_range_miss st in
            match alookup fo (s_syslines st) with
            | Some s =>
                let st := sr_cnt d_hit st in
                match ss_end bs s with
                | Some e =>
                    let st' := if is_sysline_last bs f (ss_sysline s)
                               then sr_put_always st fo (SF (e + 1) s) else sr_put st fo (SF (e + 1) s) in
                    (Some (st', Found (e + 1, s), QSyslines), st)
                | None => (Some (st, Panic, QFail), st)
                end
            | None => (None, sr_cnt d_miss st)
            end
        end
    end.

  (* insert_sysline *)
  Definition sr_insert (bs : N) (st : sr_state) (dt : Z) (lns : list sline) : option (sr_state * ssl) :=
    let s : ssl := (s_nid st, dt, lns) in
    match ss_begin bs s, ss_end bs s with
    | Some b, Some e =>
        let sy := ainsert b s (s_syslines st) in
        Some (mkSR (s_lr st) sy (range_insert b (e + 1) b (s_range st)) (s_lru st) (s_on st) (s_parse st)
                   (s_parse_on st) (s_nid st + 1) (sc_upd (s_cnt st) (d_inserted (lenN sy))), s)
    | _, _ => None
    end.

  (* distinct live Sysline objects: values of `syslines` and of the LRU cache *)
  Fixpoint dedup_ssl (l : list ssl) (seen : list N) : list ssl :=
    match l with
    | [] => []
    | s :: r => if existsb (N.eqb (ss_id s)) seen then dedup_ssl r seen
                else s :: dedup_ssl r (ss_id s :: seen)
    end.
  Definition sres_ssl (e : N * sres) : list ssl := match snd e with SF _ s => [s] | SD => [] end.
  Definition live_ssl (st : sr_state) : list ssl :=
    dedup_ssl (map snd (s_syslines st) ++ flat_map sres_ssl (s_lru st)) [].
  (* the Line objects the SyslineReader holds: in its live Sysline objects and in the Sysline under
     construction (acc) *)
  Definition sr_held (st : sr_state) (acc : list sline) : list sline :=
    flat_map ss_lines (live_ssl st) ++ acc.

  Definition sr_find_line (bs : N) (f : file) (st : sr_state) (acc : list sline) (fo : N)
    : sr_state * res (N * sline) :=
    let '(l, r, _) := c_find_line bs f (lr_set_ext (sr_held st acc) (s_lr st)) fo in (sr_set_lr l st, r).
  Definition sr_find_line_in_block (bs : N) (f : file) (st : sr_state) (acc : list sline) (fo : N)
    : sr_state * (res (N * sline) * option sline) :=
    let '(l, r, _) := c_find_line_in_block bs f (lr_set_ext (sr_held st acc) (s_lr st)) fo in (sr_set_lr l st, r).

  (* find_sysline_year, loop A.  Result (dt, head line, fo1 = its end + 1); Done has already been
     cached under the requested offset `fo` *)
  Fixpoint c_loop_a (fuel : nat) (bs : N) (f : file) (st : sr_state) (fo fo1 : N) (fo_zero_tried : bool)
                    (fo_a_max : N) : sr_state * res (Z * sline * N) :=
    match fuel with
    | O => (st, OutOfFuel)
    | S k =>
        match sr_find_line bs f st [] fo1 with
        | (st, Found (fo2, ln)) =>
            let fo_a_max := N.max fo_a_max fo2 in
            match sr_parse bs f st ln with
            | (st, Some dt) =>
                match line_fo_end bs (sl_parts ln) with
                | Some e => (st, Found (dt, ln, e + 1))
                | None => (st, Panic)
                end
            | (st, None) =>
                match line_fo_begin bs (sl_parts ln) with
                | None => (st, Panic)
                | Some line_beg =>
                    if fo_zero_tried then c_loop_a k bs f st fo fo_a_max true fo_a_max
                    else if 1 <? line_beg then
                      (* "ran into prior processed sysline": syslines_by_range.contains_key *)
                      match range_get (s_range st) (line_beg - 1) with
                      | Some _ => c_loop_a k bs f st fo fo_a_max true fo_a_max
                      | None => c_loop_a k bs f st fo (line_beg - 1) false fo_a_max
                      end
                    else c_loop_a k bs f st fo 0 true fo_a_max
                end
            end
        | (st, Done) => (sr_put st fo SD, Done)
        | (st, OutOfFuel) => (st, OutOfFuel)
        | (st, Panic) => (st, Panic)
        end
    end.

  (* loop B.  Result (fo_b, lines of the sysline) *)
  Fixpoint c_loop_b (fuel : nat) (bs : N) (f : file) (st : sr_state) (fo1 : N) (acc : list sline)
    : sr_state * res (N * list sline) :=
    match fuel with
    | O => (st, OutOfFuel)
    | S k =>
        match sr_find_line bs f st acc fo1 with
        | (st, Found (fo2, ln)) =>
            match sr_parse bs f st ln with
            | (st, None) => c_loop_b k bs f st fo2 (acc ++ [ln])
            | (st, Some _) => (st, Found (fo1, acc))
            end
        | (st, Done) => (st, Found (fo1, acc))
        | (st, OutOfFuel) => (st, OutOfFuel)
        | (st, Panic) => (st, Panic)
        end
    end.

  Definition sr_store_found (bs : N) (st : sr_state) (fo fo_next : N) (dt : Z) (lns : list sline)
    : sr_state * res (N * ssl) * spath :=
    match sr_insert bs st dt lns with
    | Some (st, s) => (sr_put st fo (SF fo_next s), Found (fo_next, s), QSearch)
    | None => (st, Panic, QFail)
    end.

  Definition c_find_sysline (bs : N) (f : file) (st : sr_state) (fo : N)
    : sr_state * res (N * ssl) * spath :=
    match sr_check_store bs f st fo with
    | (Some ans, _) => ans
    | (None, st) =>
        let fuel := (2 * length f + 3)%nat in
        match c_loop_a fuel bs f st fo fo false 0 with
        | (st, Found (dt, ln, fo1)) =>
            match c_loop_b fuel bs f st fo1 [ln] with
            | (st, Found (fo_b, lns)) => sr_store_found bs st fo fo_b dt lns
            | (st, Done) => (st, Done, QFail)
            | (st, OutOfFuel) => (st, OutOfFuel, QFail)
            | (st, Panic) => (st, Panic, QFail)
            end
        | (st, Done) => (st, Done, QDoneLine)
        | (st, OutOfFuel) => (st, OutOfFuel, QFail)
        | (st, Panic) => (st, Panic, QFail)
        end
    end.

  (* ------------------------------------------------ find_sysline_in_block_year
     Result (ResultS3SyslineFind, partial_found : bool).  Loop A walks FORWARD only. *)

  Inductive ibres : Type :=
  | IBhead (dt : Z) (ln : sline) (fo1 : N)        (* dated line found *)
  | IBdone (partial_found : bool)
  | IBfail (r : res (N * ssl)).

  Fixpoint ib_loop_a (fuel : nat) (bs : N) (f : file) (st : sr_state) (fo1 : N) : sr_state * ibres :=
    match fuel with
    | O => (st, IBfail OutOfFuel)
    | S k =>
        match sr_find_line_in_block bs f st [] fo1 with
        | (st, (Found (fo2, ln), _)) =>
            match sr_parse bs f st ln with
            | (st, Some dt) =>
                match line_fo_end bs (sl_parts ln) with
                | Some e => (st, IBhead dt ln (e + 1))
                | None => (st, IBfail Panic)
                end
            | (st, None) => ib_loop_a k bs f st fo2
            end
        | (st, (Done, Some part)) =>
            match sr_parse bs f st part with
            | (st, Some _) => (st, IBdone true)
            | (st, None) => (st, IBdone false)
            end
        | (st, (Done, None)) => (st, IBdone false)
        | (st, (OutOfFuel, _)) => (st, IBfail OutOfFuel)
        | (st, (Panic, _)) => (st, IBfail Panic)
        end
    end.

  (* loop B: Some (fo_b, lines) | None = (Done, true) *)
  Fixpoint ib_loop_b (fuel : nat) (bs : N) (f : file) (st : sr_state) (fo1 : N) (acc : list sline)
    : sr_state * res (option (N * list sline)) :=
    match fuel with
    | O => (st, OutOfFuel)
    | S k =>
        match sr_find_line_in_block bs f st acc fo1 with
        | (st, (Found (fo2, ln), _)) =>
            match sr_parse bs f st ln with
            | (st, None) => ib_loop_b k bs f st fo2 (acc ++ [ln])
            | (st, Some _) => (st, Found (Some (fo1, acc)))
            end
        | (st, (Done, _)) =>
            match fileoffset_last (lenN f) with
            | None => (st, Panic)
            | Some fl =>
                if fo1 <? fl then (st, Found None)
                else match rev acc with
                     | l :: _ => match line_fo_end bs (sl_parts l) with
                                 | Some e => (st, Found (Some (e + 1, acc)))
                                 | None => (st, Panic)
                                 end
                     | [] => (st, Panic)
                     end
            end
        | (st, (OutOfFuel, _)) => (st, OutOfFuel)
        | (st, (Panic, _)) => (st, Panic)
        end
    end.

  Definition c_find_sysline_in_block (bs : N) (f : file) (st : sr_state) (fo : N)
    : sr_state * (res (N * ssl) * bool) * spath :=
    match sr_check_store bs f st fo with
    | (Some (st, r, p), _) => (st, (r, false), p)
    | (None, st) =>
        let fuel := S (length f) in
        match ib_loop_a fuel bs f st fo with
        | (st, IBhead dt ln fo1) =>
            if is_sysline_last bs f (dt, [sl_parts ln]) then
              let '(st, r, p) := sr_store_found bs st fo fo1 dt [ln] in (st, (r, false), p)
            else
              match ib_loop_b fuel bs f st fo1 [ln] with
              | (st, Found (Some (fo_b, lns))) =>
                  let '(st, r, p) := sr_store_found bs st fo fo_b dt lns in (st, (r, false), p)
              | (st, Found None) => (st, (Done, true), QInBlockDone)
              | (st, Done) => (st, (Done, false), QFail)
              | (st, OutOfFuel) => (st, (OutOfFuel, false), QFail)
              | (st, Panic) => (st, (Panic, false), QFail)
              end
        | (st, IBdone b) => (st, (Done, b), QInBlockDone)
        | (st, IBfail r) => (st, (r, false), QFail)
        end
    end.


  (* ------------------------------------------------ the block-zero-analysis pattern
     SyslogProcessor::blockzero_analysis_lines / _syslines call find_line_in_block, then
     find_sysline_in_block, from offset 0 and then at each returned offset (at most k times; the
     counts and the block-zero test of the real loops only END the pattern earlier), on the reader
     that stages 2 and 3 use afterwards *)
  Fixpoint c_gate_sys (k : nat) (bs : N) (f : file) (st : sr_state) (fo : N) : sr_state :=
    match k with
    | O => st
    | S k' =>
        match c_find_sysline_in_block bs f st fo with
        | (st', (Found (n, _), _), _) => c_gate_sys k' bs f st' n
        | (st', _, _) => st'
        end
    end.


  Definition c_gate (k1 k2 : nat) (bs : N) (f : file) (st : sr_state) : sr_state :=
    c_gate_sys k2 bs f (sr_set_lr (c_gate_lines k1 bs f (s_lr st) 0) st) 0.

  (* ------------------------------------------------ drops *)

  Definition line_refs (st : sr_state) (id : N) : N :=
    lenN (filter (fun s => existsb (fun l => sl_id l =? id) (ss_lines s)) (live_ssl st)).

  (* SyslineReader::drop_sysline (is_drop_data() is true for every BlockReader the readers create) *)
  Definition c_drop_sysline (bs : N) (st : sr_state) (fo : N) : sr_state :=
    match alookup fo (s_syslines st) with
    | None => st
    | Some s =>
        let sy := aremove fo (s_syslines st) in
        let lru := match ss_begin bs s with Some b => lru_pop b (s_lru st) | None => s_lru st end in
        let st := mkSR (s_lr st) sy (s_range st) lru (s_on st) (s_parse st) (s_parse_on st) (s_nid st) (s_cnt st) in
        let held := existsb (fun x => ss_id x =? ss_id s) (live_ssl st) in
        if held then sr_cnt d_drop_err st
        else
          let st := sr_cnt d_drop_ok st in
          (* LineReader::drop_lines *)
          fold_left (fun st l => sr_set_lr (lr_drop_line bs (lr_set_ext (sr_held st []) (s_lr st)) l (line_refs st (sl_id l))) st)
                    (ss_lines s) st
    end.

  (* SyslineReader::drop_data: every stored sysline whose last block is <= bo, ascending *)
  Definition c_drop_data (bs : N) (st : sr_state) (bo : N) : sr_state :=
    let keys := map fst (filter (fun e => match ss_bo_last (snd e) with Some b => b <=? bo | None => false end)
                                (s_syslines st)) in
    fold_left (c_drop_sysline bs) keys st.

  (* SyslogProcessor::drop_data_try *)
  Definition c_drop_data_try (bs : N) (st : sr_state) (s : ssl) : sr_state :=
    match ss_bo_first s with
    | Some b => if 1 <? b then c_drop_data bs st (b - 2) else st
    | None => st
    end.

  (* ------------------------------------------------ the stage driver over the cached reader
     (exec_syslogprocessor: first call at 0; then at each fo_next; after every message that is
     not the last, drop_data_try(the message before it)).  SyslogProcessor::drop_data skips some
     of these calls (its drop_block_last shortcut depends on block reference counts, which are
     not modelled): `plan` says for the i-th opportunity whether drop_data_try runs (cyclic;
     [] = never).  The theorems hold for EVERY plan. *)
  Definition plan_at (plan : list bool) (i : nat) : bool :=
    match plan with
    | [] => false
    | _ => nth (Nat.modulo i (length plan)) plan false
    end.

  Fixpoint c_stream_loop (fuel : nat) (bs : N) (f : file) (plan : list bool) (i : nat) (st : sr_state)
                         (fo : N) (prev : option ssl) (acc : list ssl) : sr_state * res (list ssl) :=
    match fuel with
    | O => (st, OutOfFuel)
    | S k =>
        match c_find_sysline bs f st fo with
        | (st, Found (fo_next, s), _) =>
            if is_sysline_last bs f (ss_sysline s) then (st, Found (acc ++ [s]))
            else
              match prev with
              | Some p =>
                  let st := if plan_at plan i then c_drop_data_try bs st p else st in
                  c_stream_loop k bs f plan (S i) st fo_next (Some s) (acc ++ [s])
              | None => c_stream_loop k bs f plan i st fo_next (Some s) (acc ++ [s])
              end
        | (st, Done, _) => (st, Found acc)
        | (st, OutOfFuel, _) => (st, OutOfFuel)
        | (st, Panic, _) => (st, Panic)
        end
    end.

  Definition c_stream (bs : N) (f : file) (plan : list bool) (st : sr_state) : sr_state * res (list ssl) :=
    match c_find_sysline bs f st 0 with
    | (st, Found (fo_next, s), _) =>
        if is_sysline_last bs f (ss_sysline s) then (st, Found [s])
        else c_stream_loop (S (length f)) bs f plan 0 st fo_next None [s]
    | (st, Done, _) => (st, Found [])
    | (st, OutOfFuel, _) => (st, OutOfFuel)
    | (st, Panic, _) => (st, Panic)
    end.

  (* ------------------------------------------------ the datetime window on a STREAMED file
     SyslineReader::find_sysline_at_datetime_filter_linear_search (the search of streamed files: find_sysline at
     the offset, then at each returned offset while the message lies before the window),
     find_sysline_between_datetime_filters, dt_after_or_before / dt_pass_filters (src/data/datetime.rs);
     fa = dt_filter_after (-a), fb = dt_filter_before (-b), both inclusive; and exec_syslogprocessor's
     stage 2 + 3 with them (the loop of c_stream with find_sysline_between_datetime_filters) *)
  Definition dt_before (fa : option Z) (dt : Z) : bool :=        (* OccursBefore / BeforeRange *)
    match fa with Some a => (dt <? a)%Z | None => false end.
  Definition dt_after (fb : option Z) (dt : Z) : bool :=         (* AfterRange *)
    match fb with Some b => (b <? dt)%Z | None => false end.

  Fixpoint c_linear (fuel : nat) (bs : N) (f : file) (fa : option Z) (st : sr_state) (fo : N)
    : sr_state * res (N * ssl) :=
    match fuel with
    | O => (st, OutOfFuel)
    | S k =>
        match c_find_sysline bs f st fo with
        | (st, Found (n, s), _) =>
            if dt_before fa (ss_dt s) then c_linear k bs f fa st n else (st, Found (n, s))
        | (st, r, _) => (st, r)
        end
    end.

  Definition c_find_between (bs : N) (f : file) (fa fb : option Z) (st : sr_state) (fo : N)
    : sr_state * res (N * ssl) :=
    match c_linear (S (length f)) bs f fa st fo with
    | (st, Found (n, s)) =>
        if dt_before fa (ss_dt s) then (st, Done)              (* BeforeRange ("unexpected"): Done *)
        else if dt_after fb (ss_dt s) then (st, Done)           (* AfterRange: Done *)
        else (st, Found (n, s))
    | x => x
    end.

  Fixpoint c_stream_win_loop (fuel : nat) (bs : N) (f : file) (fa fb : option Z) (plan : list bool) (i : nat)
                             (st : sr_state) (fo : N) (prev : option ssl) (acc : list ssl)
    : sr_state * res (list ssl) :=
    match fuel with
    | O => (st, OutOfFuel)
    | S k =>
        match c_find_between bs f fa fb st fo with
        | (st, Found (fo_next, s)) =>
            if is_sysline_last bs f (ss_sysline s) then (st, Found (acc ++ [s]))
            else
              match prev with
              | Some p =>
                  let st := if plan_at plan i then c_drop_data_try bs st p else st in
                  c_stream_win_loop k bs f fa fb plan (S i) st fo_next (Some s) (acc ++ [s])
              | None => c_stream_win_loop k bs f fa fb plan i st fo_next (Some s) (acc ++ [s])
              end
        | (st, Done) => (st, Found acc)
        | (st, OutOfFuel) => (st, OutOfFuel)
        | (st, Panic) => (st, Panic)
        end
    end.

  Definition c_stream_win (bs : N) (f : file) (fa fb : option Z) (plan : list bool) (st : sr_state)
    : sr_state * res (list ssl) :=
    match c_find_between bs f fa fb st 0 with
    | (st, Found (fo_next, s)) =>
        if is_sysline_last bs f (ss_sysline s) then (st, Found [s])
        else c_stream_win_loop (S (length f)) bs f fa fb plan 0 st fo_next None [s]
    | (st, Done) => (st, Found [])
    | (st, OutOfFuel) => (st, OutOfFuel)
    | (st, Panic) => (st, Panic)
    end.

  (* ------------------------------------------------ operation sequences *)

  Inductive cop : Type :=
  | OL (fo : N)             (* LineReader::find_line on the stand-alone LineReader *)
  | OLB (fo : N)            (* LineReader::find_line_in_block *)
  | OLE (on : bool)         (* LineReader::LRU_cache_enable / _disable *)
  | OS (fo : N)             (* SyslineReader::find_sysline *)
  | OSB (fo : N)            (* SyslineReader::find_sysline_in_block *)
  | OSE (on : bool)         (* SyslineReader::LRU_cache_enable / _disable *)
  | ODD (bo : N)            (* SyslineReader::drop_data *)
  | ODS (fo : N)            (* SyslineReader::drop_sysline *)
  | ORD (plan : list bool)  (* the stage driver on the CURRENT SyslineReader *)
  | OXD.                    (* BlockReader::disable_drop_data of the SyslineReader (streamed year-less files) *)

  Inductive cres : Type :=
  | RL (r : res (N * sline)) (p : lpath)
  | RLB (r : res (N * sline)) (part : option sline) (p : lpath)
  | RS (r : res (N * ssl)) (p : spath)
  | RSB (r : res (N * ssl)) (partial_found : bool) (p : spath)
  | RR (r : res (list ssl))
  | RU.                     (* unit: enable / disable / drops *)

  Definition cstate := (lr_state * sr_state)%type.
  Definition cinit_b (b : bstate) : cstate := (lr_init_b b, sr_init_b b).
  Definition cinit_k (stream : bool) : cstate := cinit_b (b_init stream).
  Definition cinit : cstate := cinit_k false.

  Definition c_step (bs : N) (f : file) (st : cstate) (o : cop) : cstate * cres :=
    let '(l, s) := st in
    match o with
    | OL fo => let '(l, r, p) := c_find_line bs f l fo in ((l, s), RL r p)
    | OLB fo => let '(l, (r, part), p) := c_find_line_in_block bs f l fo in ((l, s), RLB r part p)
    | OLE on => ((if on then lr_lru_enable l else lr_lru_disable l, s), RU)
    | OS fo => let '(s, r, p) := c_find_sysline bs f s fo in ((l, s), RS r p)
    | OSB fo => let '(s, (r, b), p) := c_find_sysline_in_block bs f s fo in ((l, s), RSB r b p)
    | OSE on => ((l, if on then sr_lru_enable s else sr_lru_disable s), RU)
    | ODD bo => ((l, c_drop_data bs s bo), RU)
    | ODS fo => ((l, c_drop_sysline bs s fo), RU)
    | ORD plan => let '(s, r) := c_stream bs f plan s in ((l, s), RR r)
    | OXD => ((l, sr_set_lr (lr_set_blk (b_disable_drop (l_blk (s_lr s))) (s_lr s)) s), RU)
    end.

  Definition cres_panicked (r : cres) : bool :=
    match r with
    | RL Panic _ | RLB Panic _ _ | RS Panic _ | RSB Panic _ _ | RR Panic => true
    | _ => false
    end.

  (* a panic ends the sequence (the reader is not used afterwards) *)
  Fixpoint c_run (bs : N) (f : file) (st : cstate) (ops : list cop) : cstate * list cres :=
    match ops with
    | [] => (st, [])
    | o :: r =>
        let '(st, x) := c_step bs f st o in
        if cres_panicked x then (st, [x])
        else let '(st', xs) := c_run bs f st r in (st', x :: xs)
    end.
End Dated.

(* ---------------------------------------------------------------- a log whose timestamps carry NO YEAR
   (SyslogProcessor::process_missing_year, SyslineReader::clear_syslines / remove_sysline / find_sysline_year).
   The oracle takes the year the parser fills in: dated_y (Some y) line; dated_y None = the filler year that
   find_sysline (year None) uses in block-zero analysis and in stage 3.  The year is reader-side state of the
   reverse pass; `tol` = BACKWARDS_TIME_JUMP_MEANS_NEW_YEAR (25 h) in the unit of the oracle's instants. *)
Section YearLess.
  Variable dated_y : option Z -> list N -> option Z.

  (* clear_syslines: LRU_cache_disable (both caches cleared), syslines and syslines_by_range emptied,
     LRU_cache_enable when the caches were on.  Line objects stay in the LineReader. *)
  Definition c_clear_syslines (st : sr_state) : sr_state :=
    let st1 := sr_lru_disable st in
    let st2 := mkSR (s_lr st1) [] [] (s_lru st1) (s_on st1) (s_parse st1) (s_parse_on st1) (s_nid st1) (s_cnt st1) in
    if s_on st then sr_lru_enable st2 else st2.

  (* remove_sysline(fo): both caches cleared, the entry of `syslines` and ITS range removed *)
  Definition c_remove_sysline (bs : N) (st : sr_state) (fo : N) : sr_state :=
    let st1 := sr_lru_disable st in
    let st2 :=
      match alookup fo (s_syslines st1) with
      | Some s =>
          let rg := match ss_begin bs s, ss_end bs s with
                    | Some b, Some e => range_cut b (e + 1) (s_range st1)
                    | _, _ => s_range st1
                    end in
          mkSR (s_lr st1) (aremove fo (s_syslines st1)) rg (s_lru st1) (s_on st1) (s_parse st1) (s_parse_on st1)
               (s_nid st1) (s_cnt st1)
      | None => st1
      end in
    if s_on st then sr_lru_enable st2 else st2.

  (* the loop of process_missing_year: from fo_prev find the message (dated with the current year); if it lies
     more than tol AFTER the message below it, the year is decremented, the message removed and found again;
     stop at the begin of the file, at a message before --dt-after, or when the offset does not decrease *)
  Fixpoint c_year_loop (fuel : nat) (bs : N) (f : file) (tol : Z) (fa : option Z) (st : sr_state) (year : Z)
                       (fo_prev : N) (prev : option ssl) : sr_state * res Z :=
    match fuel with
    | O => (st, OutOfFuel)
    | S k =>
        match c_find_sysline (dated_y (Some year)) bs f st fo_prev with
        | (st, Found (_, s), _) =>
            match ss_begin bs s with
            | None => (st, Panic)
            | Some b =>
                let jump := match prev with
                            | Some p => (ss_dt p <? ss_dt s)%Z && (tol <? ss_dt s - ss_dt p)%Z
                            | None => false
                            end in
                if jump then c_year_loop k bs f tol fa (c_remove_sysline bs st b) (year - 1) fo_prev prev
                else if b <? 1 then (st, Found year)
                else if dt_before fa (ss_dt s) then (st, Found year)
                else if fo_prev <=? b - 1 then (st, Found year)
                else c_year_loop k bs f tol fa st year (b - 1) (Some s)
            end
        | (st, Done, _) => (st, Found year)
        | (st, OutOfFuel, _) => (st, OutOfFuel)
        | (st, Panic, _) => (st, Panic)
        end
    end.

  (* stages 1 (end: disable_drop_data for a streamed file), 2 (process_missing_year) and 3 of exec_syslogprocessor
     on the reader block-zero analysis left; mtime_year = year of the file's modification time *)
  Definition c_stream_year (bs : N) (f : file) (tol : Z) (mtime_year : Z) (fa fb : option Z) (plan : list bool)
                           (st : sr_state) : sr_state * res (list ssl) :=
    let stream := b_stream (l_blk (s_lr st)) in
    let st := if stream then sr_set_lr (lr_set_blk (b_disable_drop (l_blk (s_lr st))) (s_lr st)) st else st in
    let st := c_clear_syslines st in
    match fileoffset_last (lenN f) with
    | None => (st, Found [])
    | Some fl =>
        match c_year_loop (S (2 * length f)) bs f tol fa st mtime_year fl None with
        | (st, Found _) => c_stream_win (dated_y None) bs f fa fb (if stream then [] else plan) st
        | (st, Done) => (st, Done)
        | (st, OutOfFuel) => (st, OutOfFuel)
        | (st, Panic) => (st, Panic)
        end
    end.
End YearLess.

