(* Model/Print.v — model of src/printer/printers.rs (PrinterLogMessage).
   Definitions only (no proofs).

   A printer function is transcribed as a *program*: the sequence of the three
   primitive effects the Rust macros perform on (stdout, self.buffer, printed,
   color_spec_last):
     W s  = buffer_write_or_return!(.., s, printed, flushed)
     F    = buffer_flush_or_return!(..)
     C c  = setcolor_or_return!(.., color_spec_<c>, color_spec_last, ..)
   [exec_buf] is the literal semantics (2056-byte buffer, `printed` incremented when
   bytes reach stdout, set_color bytes never counted); [sem] is the buffer-free
   semantics; Proofs/PrintProofs.v shows they coincide.

   stdout is a list of [out] items: a payload byte, or one SGR group selecting a
   colour class (termcolor's `set_color`; the concrete escape bytes are a parameter,
   see [concr]). *)
From S4.Base Require Import Bytes.
From S4.Model Require Import Strftime.
Open Scope nat_scope.

Inductive kind := KSys | KFixed | KEvtx | KJournal.
Inductive cls := CDefault | CText | CDate.
Inductive out := OB (b : N) | OS (c : cls).

Definition cls_eqb (a b : cls) : bool :=
  match a, b with CDefault, CDefault | CText, CText | CDate, CDate => true | _, _ => false end.
Definition last_is (l : option cls) (c : cls) : bool :=
  match l with Some x => cls_eqb x c | None => false end.

(* a Line is a list of line parts (slices of blocks); other kinds use one part per line *)
Definition line := list bytes.

Record msg := {
  m_kind : kind;
  m_t : Z;                 (* instant, ns since the epoch *)
  m_lines : list line;     (* KSys: the Lines of the Sysline; other kinds: see [wf_msg] *)
  m_beg : nat;             (* dt_beg: start of the datetime substring (highlighted in colour) *)
  m_end : nat              (* dt_end *)
}.

Definition flat_lines (m : msg) : list bytes := map (@concat N) (m_lines m).
Definition m_data (m : msg) : bytes := concat (flat_lines m).   (* as_bytes() of record kinds *)

(* ---------------------------------------------------------------- programs *)
Inductive prim := W (s : bytes) | F | C (c : cls).
Definition prog := list prim.

Definition BUFFER_CAP : nat := 2056.

Record pst := { p_out : list out; p_buf : bytes; p_printed : N; p_last : option cls }.

Definition obs (s : bytes) : list out := map OB s.
Definition blen (s : bytes) : N := N.of_nat (length s).

Definition do_flush (st : pst) : pst :=
  match p_buf st with
  | [] => st
  | _ => {| p_out := p_out st ++ obs (p_buf st); p_buf := [];
            p_printed := (p_printed st + blen (p_buf st))%N; p_last := p_last st |}
  end.

Definition do_write (cap : nat) (s : bytes) (st : pst) : pst :=
  let len := length (p_buf st) in
  let remain := cap - len in
  if length s <=? remain then
    {| p_out := p_out st; p_buf := p_buf st ++ s; p_printed := p_printed st; p_last := p_last st |}
  else
    (* buffer is full: write it, then either write the slice directly or keep it *)
    let out1 := p_out st ++ obs (p_buf st) in
    let pr1 := (p_printed st + blen (p_buf st))%N in
    if cap <? length s then
      {| p_out := out1 ++ obs s; p_buf := []; p_printed := (pr1 + blen s)%N; p_last := p_last st |}
    else
      {| p_out := out1; p_buf := s; p_printed := pr1; p_last := p_last st |}.

Definition do_color (c : cls) (st : pst) : pst :=
  let st1 := do_flush st in
  if last_is (p_last st1) c then st1
  else {| p_out := p_out st1 ++ [OS c]; p_buf := p_buf st1; p_printed := p_printed st1; p_last := Some c |}.

Definition exec_prim (cap : nat) (st : pst) (p : prim) : pst :=
  match p with W s => do_write cap s st | F => do_flush st | C c => do_color c st end.

Definition exec_buf (cap : nat) (pr : prog) (st : pst) : pst := fold_left (exec_prim cap) pr st.

(* buffer-free semantics: (stdout items, last colour); printed = payload bytes written *)
Fixpoint sem (pr : prog) (last : option cls) : list out * option cls :=
  match pr with
  | [] => ([], last)
  | W s :: r => let '(o, l) := sem r last in (obs s ++ o, l)
  | F :: r => sem r last
  | C c :: r => if last_is last c then sem r last
                else let '(o, l) := sem r (Some c) in (OS c :: o, l)
  end.

Fixpoint wbytes (pr : prog) : bytes :=
  match pr with
  | [] => []
  | W s :: r => s ++ wbytes r
  | _ :: r => wbytes r
  end.

Definition printed_of (pr : prog) : N := blen (wbytes pr).

(* ---------------------------------------------------------------- printer options *)
Record popts := {
  o_colour : bool;      (* do_color *)
  o_file : bool;        (* do_prepend_file *)
  o_date : bool;        (* do_prepend_date = !prepend_date_format.is_empty() *)
  o_ff : bytes;         (* prepend_file: name, padding and separator already embedded *)
  o_fmt : bytes;        (* prepend_date_format: the format with the separator appended *)
  o_off : Z             (* prepend_date_offset, seconds *)
}.

(* datetime_to_string_*: the same for the four kinds.  An unsupported specifier is
   outside the model; the field is then empty here (the generator never produces one). *)
Definition date_field (o : popts) (t : Z) : bytes :=
  match strftime (o_fmt o) t (o_off o) with Some s => s | None => [] end.

(* ---------------------------------------------------------------- helpers *)
Definition slice (s : bytes) (a b : nat) : bytes := firstn (b - a) (skipn a s).

Definition nilb (s : bytes) : bool := match s with [] => true | _ => false end.

Definition map_first {A} (f : bool -> A -> prog) (l : list A) : prog :=
  match l with
  | [] => []
  | x :: r => f true x ++ flat_map (f false) r
  end.

(* print_line: every linepart through the buffer, no flush *)
Definition p_line (l : line) : prog := map W l.
(* print_color_line!: every linepart, then flush *)
Definition p_color_line (l : line) : prog := map W l ++ [F].

Definition guarded (c : cls) (s : bytes) : prog := if nilb s then [] else [C c; W s; F].

(* print_color_line_highlight_dt!: one linepart starting at line index [at] *)
Definition hl_part (at_ dbeg dend : nat) (s : bytes) : prog :=
  let at_end := at_ + length s in
  if (at_ <=? dbeg) && (dend <? at_end) then
    guarded CText (slice s 0 (dbeg - at_)) ++ guarded CDate (slice s (dbeg - at_) (dend - at_))
      ++ guarded CText (skipn (dend - at_) s)
  else if (at_ <=? dbeg) && (dbeg <? at_end) && (at_end <=? dend) then
    guarded CText (slice s 0 (dbeg - at_)) ++ guarded CDate (skipn (dbeg - at_) s)
  else if (dbeg <? at_) && (at_ <=? dend) && (dend <=? at_end) then
    guarded CDate (slice s 0 (dend - at_)) ++ guarded CText (skipn (dend - at_) s)
  else if (dbeg <? at_) && (at_end <=? dend) then [C CDate; W s; F]
  else [C CText; W s; F].

Fixpoint hl_parts (at_ dbeg dend : nat) (l : line) : prog :=
  match l with
  | [] => []
  | s :: r => hl_part at_ dbeg dend s ++ hl_parts (at_ + length s) dbeg dend r
  end.

(* ---------------------------------------------------------------- print_sysline_* *)
Section Variants.
Variable o : popts.
Variable m : msg.
Let ff := o_ff o.
Let df := date_field o (m_t m).
Let lines := m_lines m.
Let dbeg := m_beg m.
Let dend := m_end m.

Definition print_sysline_ : prog :=
  flat_map p_line lines ++ [F].
Definition print_sysline_prependdate : prog :=
  flat_map (fun l => W df :: p_line l) lines ++ [F].
Definition print_sysline_prependfile : prog :=
  flat_map (fun l => W ff :: p_line l) lines ++ [F].
Definition print_sysline_prependfile_prependdate : prog :=
  flat_map (fun l => W ff :: W df :: p_line l) lines ++ [F].

Definition color_body (first : bool) (l : line) : prog :=
  if first then hl_parts 0 dbeg dend l else p_color_line l.

Definition print_sysline_color : prog :=
  [C CText] ++ map_first color_body lines ++ [C CDefault].
Definition print_sysline_prependdate_color : prog :=
  map_first (fun first l => [C CDefault; W df; F; C CText] ++ color_body first l) lines ++ [C CDefault].
Definition print_sysline_prependfile_color : prog :=
  map_first (fun first l => [C CDefault; W ff; F; C CText] ++ color_body first l) lines ++ [C CDefault].
Definition print_sysline_prependfile_prependdate_color : prog :=
  map_first (fun first l => [C CDefault; W ff; W df; F; C CText] ++ color_body first l) lines ++ [C CDefault].

Definition print_sysline : prog :=
  match o_colour o, o_file o, o_date o with
  | false, false, false => print_sysline_
  | false, true, false => print_sysline_prependfile
  | false, false, true => print_sysline_prependdate
  | false, true, true => print_sysline_prependfile_prependdate
  | true, false, false => print_sysline_color
  | true, true, false => print_sysline_prependfile_color
  | true, false, true => print_sysline_prependdate_color
  | true, true, true => print_sysline_prependfile_prependdate_color
  end.

(* ---------------------------------------------------------------- print_fixedstruct_*
   buffer[..at] = m_data; (beg, end) = (m_beg, m_end) from InfoAsBytes::Ok *)
Let buf := m_data m.
Let at_ := length (m_data m).

Definition fx_colored : prog :=
  [C CText; W (slice buf 0 dbeg); F; C CDate; W (slice buf dbeg dend); F;
   C CText; W (slice buf dend at_); F; C CDefault].

Definition print_fixedstruct_ : prog := [W buf; F].
Definition print_fixedstruct_prependdate : prog := [W df; W buf; F].
Definition print_fixedstruct_prependfile : prog := [W ff; W buf; F].
(* file name, then datetime (repaired by /repo commit e7fb2a14; before it the datetime was written first,
   see Proofs/PrintVariants.v old_print_fixedstruct_prependfile_prependdate) *)
Definition print_fixedstruct_prependfile_prependdate : prog := [W ff; W df; W buf; F].
Definition print_fixedstruct_color : prog := fx_colored.
Definition print_fixedstruct_prependdate_color : prog := [C CDefault; W df; F] ++ fx_colored.
Definition print_fixedstruct_prependfile_color : prog := [C CDefault; W ff; F] ++ fx_colored.
Definition print_fixedstruct_prependfile_prependdate_color : prog := [C CDefault; W ff; W df; F] ++ fx_colored.

Definition print_fixedstruct : prog :=
  match o_colour o, o_file o, o_date o with
  | false, false, false => print_fixedstruct_
  | false, true, false => print_fixedstruct_prependfile
  | false, false, true => print_fixedstruct_prependdate
  | false, true, true => print_fixedstruct_prependfile_prependdate
  | true, false, false => print_fixedstruct_color
  | true, true, false => print_fixedstruct_prependfile_color
  | true, false, true => print_fixedstruct_prependdate_color
  | true, true, true => print_fixedstruct_prependfile_prependdate_color
  end.

(* ---------------------------------------------------------------- print_evtx_* / print_journalentry_*
   `while let Some(b) = data[a..].find_byte(NL)`: the newline-terminated lines of the
   data; bytes after the last newline are never reached by the loop. *)
Fixpoint nl_split (cur : bytes) (data : bytes) : list bytes :=
  match data with
  | [] => []
  | b :: r => if (b =? 10)%N then rev (b :: cur) :: nl_split [] r else nl_split (b :: cur) r
  end.

Definition data_colored (data : bytes) : prog :=
  [C CText; W (slice data 0 dbeg); F; C CDate; W (slice data dbeg dend); F;
   C CText; W (skipn dend data); F; C CDefault].

Definition line_colored (at0 : nat) (l : bytes) : prog :=
  if (at0 <=? dbeg) && (dend <? at0 + length l) then
    [C CText; W (slice l 0 (dbeg - at0)); F; C CDate; W (slice l (dbeg - at0) (dend - at0)); F;
     C CText; W (skipn (dend - at0) l); F]
  else [C CText; W l; F].

Fixpoint loop_at (body : nat -> bytes -> prog) (at0 : nat) (ls : list bytes) : prog :=
  match ls with
  | [] => []
  | l :: r => body at0 l ++ loop_at body (at0 + length l) r
  end.

Definition print_evtx_ : prog := [W buf; F].
Definition print_evtx_prepend (dof dod : bool) : prog :=
  flat_map (fun l => (if dof then [W ff] else []) ++ (if dod then [W df] else []) ++ [W l]) (nl_split [] buf) ++ [F].
Definition print_evtx_color : prog := data_colored buf.
Definition print_evtx_prepend_color (dof dod : bool) : prog :=
  loop_at (fun at0 l => [C CDefault] ++ (if dof then [W ff] else []) ++ (if dod then [W df] else []) ++ [F]
                        ++ line_colored at0 l) 0 (nl_split [] buf) ++ [C CDefault].

Definition print_evtx : prog :=
  match o_colour o, o_file o, o_date o with
  | false, false, false => print_evtx_
  | false, f, d => print_evtx_prepend f d
  | true, false, false => print_evtx_color
  | true, f, d => print_evtx_prepend_color f d
  end.

Definition print_journalentry_ : prog := [W buf; F].
Definition print_journalentry_prepend (dof dod : bool) : prog :=
  flat_map (fun l => (if dof then [W ff] else []) ++ (if dod then [W df] else []) ++ [W l]) (nl_split [] buf) ++ [F].
Definition print_journalentry_color : prog := data_colored buf.
Definition print_journalentry_prepend_color (dof dod : bool) : prog :=
  loop_at (fun at0 l =>
             match dof, dod with
             | true, true => [C CDefault; W ff; W df]
             | true, false => [C CDefault; W ff]
             | false, true => [C CDefault; W df]
             | false, false => []        (* debug_panic!; never dispatched *)
             end ++ [F] ++ line_colored at0 l) 0 (nl_split [] buf) ++ [C CDefault].

Definition print_journalentry : prog :=
  match o_colour o, o_file o, o_date o with
  | false, false, false => print_journalentry_
  | false, f, d => print_journalentry_prepend f d
  | true, false, false => print_journalentry_color
  | true, f, d => print_journalentry_prepend_color f d
  end.

Definition print_msg : prog :=
  match m_kind m with
  | KSys => print_sysline
  | KFixed => print_fixedstruct
  | KEvtx => print_evtx
  | KJournal => print_journalentry
  end.

(* ---------------------------------------------------------------- the canonical decoration
   One scheme, parametric in (colour, file, date): every line is preceded by
   file field THEN date field; the payload line follows (coloured when colour is on). *)
Definition prefix : bytes := (if o_file o then ff else []) ++ (if o_date o then df else []).
Definition has_prefix : bool := o_file o || o_date o.

(* position colouring of one flat line: text / datetime / text, empty pieces skipped *)
Definition hl_flat (l : bytes) : prog :=
  guarded CText (slice l 0 dbeg) ++ guarded CDate (slice l dbeg dend) ++ guarded CText (skipn dend l).

Definition decorate_plain : prog := map (fun l => W (prefix ++ l)) (flat_lines m).

Definition decorate_colour : prog :=
  match m_kind m with
  | KSys =>
      (if has_prefix then [] else [C CText])
      ++ map_first (fun first l => (if has_prefix then [C CDefault; W prefix; C CText] else [])
                                   ++ (if first then hl_flat l else [W l])) (flat_lines m)
      ++ [C CDefault]
  | KFixed =>
      (if has_prefix then [C CDefault; W prefix] else []) ++ fx_colored
  | KEvtx | KJournal =>
      if has_prefix
      then loop_at (fun at0 l => [C CDefault; W prefix] ++ line_colored at0 l) 0 (flat_lines m) ++ [C CDefault]
      else data_colored buf
  end.

Definition decorate : prog := if o_colour o then decorate_colour else decorate_plain.

End Variants.

(* what the undecorated run prints for the message *)
Definition plain (m : msg) : bytes := m_data m.

(* well-formedness of the line structure per kind *)
Definition wf_msg (m : msg) : Prop :=
  match m_kind m with
  | KSys => True
  | KFixed => exists l, m_lines m = [l]
  | KEvtx | KJournal => nl_split [] (m_data m) = flat_lines m
  end.

(* ---------------------------------------------------------------- concrete bytes, SGR stripping *)
Definition concr (g : cls -> bytes) (os : list out) : bytes :=
  flat_map (fun x => match x with OB b => [b] | OS c => g c end) os.

Definition payload (os : list out) : bytes :=
  flat_map (fun x => match x with OB b => [b] | OS _ => [] end) os.

Definition is_param (b : N) : bool := ((48 <=? b) && (b <=? 57) || (b =? 59))%N.

(* remove every  ESC '[' (digit | ';')* 'm' ; anything else is kept.
   [pend] = the bytes of a possible sequence read so far, reversed *)
Fixpoint strip_go (pend : option bytes) (l : bytes) : bytes :=
  match l with
  | [] => match pend with None => [] | Some p => rev p end
  | b :: r =>
    match pend with
    | None => if (b =? 27)%N then strip_go (Some [b]) r else b :: strip_go None r
    | Some p =>
      match p with
      | [_] => if (b =? 91)%N then strip_go (Some (b :: p)) r
               else if (b =? 27)%N then rev p ++ strip_go (Some [b]) r
               else rev p ++ b :: strip_go None r
      | _ => if is_param b then strip_go (Some (b :: p)) r
             else if (b =? 109)%N then strip_go None r
             else if (b =? 27)%N then rev p ++ strip_go (Some [b]) r
             else rev p ++ b :: strip_go None r
      end
    end
  end.
Definition strip_sgr (l : bytes) : bytes := strip_go None l.

(* termcolor's Ansi writer for the three ColorSpecs of a printer whose text colour is Rgb(r,g,b):
   reset, [underline], foreground *)
Definition sgr_reset : bytes := [27;91;48;109]%N.
Definition sgr_underline : bytes := [27;91;52;109]%N.
Definition sgr_white : bytes := [27;91;51;55;109]%N.
Definition dec3 (v : N) : bytes := drop_zeros (digits_n 3 (Z.of_N v)).
Definition sgr_rgb (r g b : N) : bytes :=
  [27;91;51;56;59;50;59]%N ++ dec3 r ++ [59%N] ++ dec3 g ++ [59%N] ++ dec3 b ++ [109%N].
Definition termcolor_sgr (r g b : N) (c : cls) : bytes :=
  match c with
  | CDefault => sgr_reset ++ sgr_white
  | CText => sgr_reset ++ sgr_rgb r g b
  | CDate => sgr_reset ++ sgr_underline ++ sgr_rgb r g b
  end.

(* ---------------------------------------------------------------- positional stripping
   [strip_lines pre lens l]: for each expected line length: the literal [pre] must be
   there and is deleted, the next n bytes are payload. *)
Fixpoint drop_prefix (p l : bytes) : option bytes :=
  match p with
  | [] => Some l
  | x :: p' => match l with
               | y :: l' => if (x =? y)%N then drop_prefix p' l' else None
               | [] => None
               end
  end.

Fixpoint strip_lines (pre : bytes) (lens : list nat) (l : bytes) : option (bytes * bytes) :=
  match lens with
  | [] => Some ([], l)
  | n :: r =>
    match drop_prefix pre l with
    | None => None
    | Some l1 =>
      if length l1 <? n then None else
      match strip_lines pre r (skipn n l1) with
      | None => None
      | Some (p, rest) => Some (firstn n l1 ++ p, rest)
      end
    end
  end.

(* one message: (prefix expected at each line start, line lengths, bytes to delete after the
   message = the separator, bytes to keep after that = the supplied newline) *)
Definition mshape := (bytes * list nat * bytes * bytes)%type.

Fixpoint strip_msgs (sh : list mshape) (l : bytes) : option bytes :=
  match sh with
  | [] => match l with [] => Some [] | _ => None end
  | (pre, lens, del, keep) :: r =>
    match strip_lines pre lens l with
    | None => None
    | Some (p, rest) =>
      match drop_prefix del rest with
      | None => None
      | Some rest1 =>
        match drop_prefix keep rest1 with
        | None => None
        | Some rest2 => match strip_msgs r rest2 with Some q => Some (p ++ keep ++ q) | None => None end
        end
      end
    end
  end.

Definition shape_of_msg (o : popts) (m : msg) (del keep : bytes) : mshape :=
  (prefix o m, map (@length N) (flat_lines m), del, keep).

(* strip for one printed message: delete SGR sequences (when colour is on), then the fields *)
Definition strip (o : popts) (m : msg) (del : bytes) (stdout : bytes) : option bytes :=
  strip_msgs [shape_of_msg o m del []] (if o_colour o then strip_sgr stdout else stdout).
