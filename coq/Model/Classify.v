(* Model/Classify.v — executable model of
     src/readers/filepreprocessor.rs :: pathbuf_to_filetype_impl
   for a path that is a single component (no '/' byte), on Unix.
   Definitions only; proofs live in Proofs/Classify.v.

   The word tables and junk-character sets are parameters (Section variables);
   Gen/ClassifyTables.v (regenerated from the Rust source on every run)
   instantiates them. *)
From S4.Base Require Export Bytes.
Open Scope N_scope.

Inductive fta := Normal | Bz2 | Gz | Lz4 | Tar | Xz.
Inductive fixedt := Acct | AcctV3 | Lastlog | Lastlogx | Utmp | Utmpx.
Inductive ftype :=
| Evtx (a : fta) | Fixed (a : fta) (t : fixedt) | Journal (a : fta) | Text (a : fta) | Unparsable.
Inductive result := RFile (t : ftype) | RArchiveTar (a : fta) | ROutOfFuel.

(* what a matched extension does *)
Inductive sfx_action :=
| SCompress (a : fta)   (* recurse on the name without its extension, container := a *)
| STar                  (* PathToFiletypeResult::Archive(Tar, fta) *)
| SEvtx | SJournal | SText | SFixed (t : fixedt)
| SUnparsable.          (* known non-log suffix: fallback by the flag *)
(* what a matched whole (extension-less) name does *)
Inductive name_action := NText | NJournal | NFixed (t : fixedt).

Definition dot : N := 46.
Definition is_empty (l : bytes) : bool := match l with [] => true | _ => false end.
Definition memb (c : N) (l : list N) : bool := existsb (N.eqb c) l.

(* ---- std::path::Path on a single component -------------------------------- *)
(* Path::file_name: None for "", "." and ".." (components CurDir/ParentDir). *)
Definition file_name (p : bytes) : option bytes :=
  if beqb p [] || beqb p [dot] || beqb p [dot; dot] then None else Some p.

(* split at the last dot *)
Fixpoint rsplit_dot (n : bytes) : option (bytes * bytes) :=
  match n with
  | [] => None
  | c :: r =>
      match rsplit_dot r with
      | Some (b, a) => Some (c :: b, a)
      | None => if c =? dot then Some ([], r) else None
      end
  end.

(* std::path rsplit_file_at_dot on a file name that is not "..":
   no dot, or the only dot is the first byte => no extension *)
Definition ext_of_name (n : bytes) : option bytes :=
  match rsplit_dot n with
  | Some (_ :: _, a) => Some a
  | _ => None
  end.
Definition stem_of_name (n : bytes) : bytes :=
  match rsplit_dot n with
  | Some ((_ :: _) as b, _) => b
  | _ => n
  end.

Definition extension (p : bytes) : option bytes :=
  match file_name p with Some n => ext_of_name n | None => None end.
(* PathBuf::with_extension(""): truncate right after the file stem; unchanged
   when there is no file name *)
Definition with_extension_empty (p : bytes) : bytes :=
  match file_name p with Some n => stem_of_name n | None => p end.
(* PathBuf::with_file_name(f) on a single component that has a file name: f.
   Both call sites are guarded by "the file name's str is non-empty", which
   implies file_name p <> None (lemma with_file_name_guard in Proofs). *)
Definition with_file_name (p f : bytes) : bytes := f.

(* ---- OsStr::to_str = core::str::from_utf8 --------------------------------- *)
Definition cont (b : N) : bool := (128 <=? b) && (b <=? 191).
Definition in_range (lo hi b : N) : bool := (lo <=? b) && (b <=? hi).

Fixpoint utf8_valid (l : bytes) : bool :=
  match l with
  | [] => true
  | b0 :: r =>
      if b0 <? 128 then utf8_valid r
      else if in_range 194 223 b0 then
        match r with b1 :: r1 => cont b1 && utf8_valid r1 | _ => false end
      else if in_range 224 239 b0 then
        match r with
        | b1 :: b2 :: r2 =>
            (if b0 =? 224 then in_range 160 191 b1
             else if b0 =? 237 then in_range 128 159 b1
             else cont b1) && cont b2 && utf8_valid r2
        | _ => false
        end
      else if in_range 240 244 b0 then
        match r with
        | b1 :: b2 :: b3 :: r3 =>
            (if b0 =? 240 then in_range 144 191 b1
             else if b0 =? 244 then in_range 128 143 b1
             else cont b1) && cont b2 && cont b3 && utf8_valid r3
        | _ => false
        end
      else false
  end.

(* .to_str().unwrap_or_default() *)
Definition to_str_or_empty (o : bytes) : bytes := if utf8_valid o then o else [].

(* ---- str helpers (junk characters are ASCII, so byte-wise = char-wise on
        valid UTF-8) ---------------------------------------------------------- *)
Fixpoint trim_start (j : list N) (n : bytes) : bytes :=
  match n with
  | c :: r => if memb c j then trim_start j r else n
  | [] => []
  end.
Definition trim_end (j : list N) (n : bytes) : bytes := rev (trim_start j (rev n)).
Definition starts_with_any (j : list N) (n : bytes) : bool :=
  match n with c :: _ => memb c j | [] => false end.
Definition ends_with_any (j : list N) (n : bytes) : bool := starts_with_any j (rev n).
Definition all_dots (n : bytes) : bool := forallb (N.eqb dot) n.

(* str::parse::<i32>().is_ok() *)
Definition is_digit (b : N) : bool := (48 <=? b) && (b <=? 57).
Fixpoint digits_val (acc : N) (l : bytes) : option N :=
  match l with
  | [] => Some acc
  | c :: r => if is_digit c then digits_val (10 * acc + (c - 48)) r else None
  end.
Definition digits_le (bound : N) (l : bytes) : bool :=
  match l with
  | [] => false
  | _ => match digits_val 0 l with Some v => v <=? bound | None => false end
  end.
Definition parse_i32_ok (s : bytes) : bool :=
  match s with
  | [] => false
  | c :: r =>
      if c =? 43 then digits_le 2147483647 r
      else if c =? 45 then digits_le 2147483648 r
      else digits_le 2147483647 s
  end.

Section Classify.
  Variable sfx_table : list (bytes * sfx_action).
  Variable name_table : list (bytes * name_action).
  Variable junk junk_lead : list N.

  Definition fallback (uat : bool) (a : fta) : result :=
    if uat then RFile (Text a) else RFile Unparsable.

  Definition unwrap_name (o : option bytes) : bytes :=
    match o with Some n => n | None => [] end.

  (* the part of the function before the suffix is looked at:
     None = an early fallback return;
     Some (clean, file_name) = pathbuf_clean and file_name afterwards *)
  Definition clean (p : bytes) : option (bytes * bytes) :=
    let file_name0 := unwrap_name (file_name p) in
    let fname := to_str_or_empty file_name0 in
    (* trailing junk *)
    let step1 :=
      if ends_with_any junk fname then
        let fname2 := trim_end junk fname in
        if is_empty fname2 then None
        else let c := with_file_name p fname2 in Some (c, unwrap_name (file_name c))
      else Some (p, file_name0) in
    match step1 with
    | None => None
    | Some (clean1, file_name1) =>
        let file_name_s := to_str_or_empty file_name1 in
        if negb (is_empty file_name_s) && all_dots file_name_s then None
        else
          (* leading junk *)
          let fname_ := to_str_or_empty file_name1 in
          let step3 :=
            if starts_with_any junk_lead fname_ then
              let fname2 := trim_start junk_lead fname_ in
              if is_empty fname2 then None
              else if negb (beqb fname2 (unwrap_name (extension clean1))) then
                let c := with_file_name p fname2 in Some (c, unwrap_name (file_name c))
              else Some (clean1, file_name1)
            else Some (clean1, file_name1) in
          match step3 with
          | None => None
          | Some (clean3, file_name3) =>
              if is_empty file_name3 then None else Some (clean3, file_name3)
          end
    end.

  Definition suffix_of (clean3 : bytes) : bytes :=
    lower_bytes (to_str_or_empty (unwrap_name (extension clean3))).

  Definition name_result (a : fta) (file_name3 : bytes) (uat : bool) : result :=
    let s := lower_bytes (to_str_or_empty file_name3) in
    if is_empty s then fallback uat a
    else match assoc s name_table with
         | Some NText => RFile (Text a)
         | Some NJournal => RFile (Journal a)
         | Some (NFixed t) => RFile (Fixed a t)
         | None => RFile (Text a)   (* incl. the "log_*" / "*_log" rules: Text as well *)
         end.

  Fixpoint classify (fuel : nat) (uat : bool) (a : fta) (p : bytes) : result :=
    match fuel with
    | O => ROutOfFuel
    | S fuel' =>
        match clean p with
        | None => fallback uat a
        | Some (clean3, file_name3) =>
            let sfx := suffix_of clean3 in
            if parse_i32_ok sfx then classify fuel' uat a (with_extension_empty p)
            else
              match assoc sfx sfx_table with
              | Some (SCompress a') => classify fuel' uat a' (with_extension_empty p)
              | Some STar => RArchiveTar a
              | Some SEvtx => RFile (Evtx a)
              | Some SJournal => RFile (Journal a)
              | Some SText => RFile (Text a)
              | Some (SFixed t) => RFile (Fixed a t)
              | Some SUnparsable => fallback uat a
              | None =>
                  if negb (is_empty sfx) then classify fuel' uat a (with_extension_empty p)
                  else name_result a file_name3 uat
              end
        end
    end.

  (* path_to_filetype(path, unparseable_are_text) *)
  Definition classify_top (uat : bool) (p : bytes) : result :=
    classify (S (length p)) uat Normal p.
End Classify.

(* ---- canonical numbering used by the correspondence check ------------------ *)
Definition fta_code (a : fta) : N :=
  match a with Normal => 0 | Bz2 => 1 | Gz => 2 | Lz4 => 3 | Tar => 4 | Xz => 5 end.
Definition fixedt_code (t : fixedt) : N :=
  match t with Acct => 0 | AcctV3 => 1 | Lastlog => 2 | Lastlogx => 3 | Utmp => 4 | Utmpx => 5 end.
Definition result_code (r : result) : N :=
  match r with
  | RFile (Evtx a) => 100 + fta_code a
  | RFile (Fixed a t) => 200 + 10 * fixedt_code t + fta_code a
  | RFile (Journal a) => 300 + fta_code a
  | RFile (Text a) => 400 + fta_code a
  | RFile Unparsable => 500
  | RArchiveTar a => 600 + fta_code a
  | ROutOfFuel => 999
  end.
