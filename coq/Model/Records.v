(* Model/Records.v — executable model of FixedStructReader's ordering core
   (src/readers/fixedstructreader.rs): preprocess_timevalues, fileoffset_first,
   process_entry_at as driven by exec_fixedstructprocessor (src/bin/s4.rs).
   Definitions only.

   The BTreeMap `map_tvpair_fo` is a key-sorted association list with overwrite on an equal
   key.  Two instances of the key:
     K1 = tv_pair            (the code before the fix: equal time values overwrite each other)
     K2 = (tv_pair, fo)      (the repaired code)                                            *)
From Coq Require Import List NArith ZArith Bool.
Import ListNotations.
From S4.Spec Require Import RecordsSpec.
Open Scope N_scope.

(* ------------------------------------------------------------------ BTreeMap<K, V> *)
Section KeyMap.
  Variable K V : Type.
  Variable kcmp : K -> K -> comparison.

  Definition kmap := list (K * V).

  (* BTreeMap::insert: an equal key keeps its place, the value is replaced *)
  Fixpoint minsert (k : K) (v : V) (m : kmap) : kmap :=
    match m with
    | [] => [(k, v)]
    | (k', v') :: r =>
        match kcmp k k' with
        | Lt => (k, v) :: m
        | Eq => (k', v) :: r
        | Gt => (k', v') :: minsert k v r
        end
    end.

  (* BTreeMap::remove(&k) *)
  Fixpoint mremove (k : K) (m : kmap) : kmap :=
    match m with
    | [] => []
    | (k', v') :: r =>
        match kcmp k k' with
        | Eq => r
        | _ => (k', v') :: mremove k r
        end
    end.

  (* BTreeMap::pop_first *)
  Definition mpop_first (m : kmap) : option ((K * V) * kmap) :=
    match m with [] => None | e :: r => Some (e, r) end.
End KeyMap.
Arguments minsert {K V} kcmp k v m.
Arguments mremove {K V} kcmp k m.
Arguments mpop_first {K V} m.

(* lexicographic comparison of a pair key (time, position) *)
Definition pair_cmp {T} (tcmp : T -> T -> comparison) (a b : T * N) : comparison :=
  match tcmp (fst a) (fst b) with
  | Eq => N.compare (snd a) (snd b)
  | c => c
  end.

(* ------------------------------------------------------------------ the reader *)
Inductive walk_result : Type :=
| WDone (out : list N)          (* file offsets of the entries sent to the printer, in order *)
| WOutOfFuel (out : list N).

Section Reader.
  Variable K : Type.
  Variable kcmp : K -> K -> comparison.
  Variable mk : tv -> N -> K.          (* the key under which (tv_pair, fo) is stored *)

  (* preprocess_timevalues, step 4: `tv_pair < tv_filter_after` / `tv_pair > tv_filter_before`
     skip the entry; a (0,0) time value is skipped before that *)
  Definition tv_pass (lo hi : option tv) (t : tv) : bool :=
    if tv_eqb t (0, 0)%Z then false
    else match lo with
         | Some a => match tv_cmp t a with Lt => false | _ =>
                       match hi with Some b => match tv_cmp t b with Gt => false | _ => true end
                                   | None => true end end
         | None => match hi with Some b => match tv_cmp t b with Gt => false | _ => true end
                               | None => true end
         end.

  (* preprocess_timevalues: the loop over entry offsets fo, fo+sz, ... ; tvs are the decoded
     time values of consecutive entries *)
  Fixpoint scan (lo hi : option tv) (sz fo : N) (tvs : list tv) (m : kmap K N) : kmap K N :=
    match tvs with
    | [] => m
    | t :: r =>
        scan lo hi sz (fo + sz) r
             (if tv_pass lo hi t then minsert kcmp (mk t fo) fo m else m)
    end.

  (* fileoffset_first: iter().min_by_key(|(k, fo)| (k, fo)); the first minimum wins *)
  Definition entry_cmp (a b : K * N) : comparison :=
    match kcmp (fst a) (fst b) with
    | Eq => N.compare (snd a) (snd b)
    | c => c
    end.
  Fixpoint min_from (best : K * N) (m : kmap K N) : K * N :=
    match m with
    | [] => best
    | e :: r => min_from (match entry_cmp best e with Gt => e | _ => best end) r
    end.
  Definition fileoffset_first (m : kmap K N) : option N :=
    match m with [] => None | e :: r => Some (snd (min_from e r)) end.

  (* process_entry_at, the part that decides the next offset: iterate the map in key order,
     find the entry whose value is `fo`, the entry after it gives fo_next (filesz when there
     is none), then remove the found key.  Not found: nothing removed, fo_next = filesz. *)
  Fixpoint find_next (filesz fo : N) (m : kmap K N) : option K * N :=
    match m with
    | [] => (None, filesz)
    | (k, v) :: r =>
        if v =? fo
        then (Some k, match r with [] => filesz | (_, v') :: _ => v' end)
        else find_next filesz fo r
    end.
  Definition process_entry_at (filesz fo : N) (m : kmap K N) : N * kmap K N :=
    match find_next filesz fo m with
    | (Some k, nxt) => (nxt, mremove kcmp k m)
    | (None, nxt) => (nxt, m)
    end.

  (* the loop of exec_fixedstructprocessor: `fileoffset >= filesz` ends it (Done); otherwise
     the entry at fo is sent and the loop continues at fo_next.  One unit of fuel per entry. *)
  Fixpoint walk (fuel : nat) (filesz fo : N) (m : kmap K N) (acc : list N) : walk_result :=
    if filesz <=? fo then WDone (rev acc)
    else match fuel with
         | O => WOutOfFuel (rev acc)
         | S f => let '(nxt, m') := process_entry_at filesz fo m in
                  walk f filesz nxt m' (fo :: acc)
         end.

  (* FixedStructReader::new + the driver loop, for a file of |tvs| entries of size sz *)
  Definition records_out (lo hi : option tv) (sz : N) (tvs : list tv) : walk_result :=
    let m := scan lo hi sz 0 tvs [] in
    match fileoffset_first m with
    | None => WDone []                      (* FileErrNoFixedStructWithinDtFilters / NoValid *)
    | Some fo => walk (length m) (sz * N.of_nat (length tvs)) fo m []
    end.
End Reader.
Arguments scan {K} kcmp mk lo hi sz fo tvs m.
Arguments fileoffset_first {K} kcmp m.
Arguments min_from {K} kcmp best m.
Arguments entry_cmp {K} kcmp a b.
Arguments find_next {K} filesz fo m.
Arguments process_entry_at {K} kcmp filesz fo m.
Arguments walk {K} kcmp fuel filesz fo m acc.
Arguments records_out {K} kcmp mk lo hi sz tvs.

(* An entry whose construction fails (FixedStruct::new returns Err for an entry whose bytes are
   all 0xFF) still takes part in the ordering, under the time value its bytes decode to.  When
   the walk reaches it, process_entry_at returns Err((Some(fo_next), _)) and the driver loop
   continues at fo_next: nothing is sent for that entry.  `bad fo` = the entry at fo is such an
   entry. *)
Definition records_sent (bad : N -> bool) (r : walk_result) : walk_result :=
  match r with
  | WDone l => WDone (filter (fun fo => negb (bad fo)) l)
  | WOutOfFuel l => WOutOfFuel (filter (fun fo => negb (bad fo)) l)
  end.

(* K1: the map keyed by the time value only (code before the fix) *)
Definition K1 : Type := tv.
Definition k1_cmp : K1 -> K1 -> comparison := tv_cmp.
Definition k1_mk (t : tv) (_ : N) : K1 := t.
Definition records_out_K1 := records_out k1_cmp k1_mk.

(* K2: the map keyed by (time value, file offset) (repaired code) *)
Definition K2 : Type := (tv * N)%type.
Definition k2_cmp : K2 -> K2 -> comparison := pair_cmp tv_cmp.
Definition k2_mk (t : tv) (fo : N) : K2 := (t, fo).
Definition records_out_K2 := records_out k2_cmp k2_mk.

(* ------------------------------------------------------------------ layouts *)
(* one row per FixedStructType, regenerated into Gen/FixedStructTables.v:
   size(), offset_tv(), size_tv() are the compiled constants; the four last fields say which
   bytes of the time field hold seconds and microseconds (little-endian two's complement),
   found by probing tv_pair_from_buffer with one-hot buffers (usec_len = 0: none;
   sec_signed: an all-0xFF field decodes to negative seconds).                              *)
Record layout : Type := mklayout {
  l_name : list N;        (* ASCII of the variant name *)
  l_size : N; l_offset_tv : N; l_size_tv : N;
  l_sec_off : N; l_sec_len : N; l_sec_signed : bool; l_usec_off : N; l_usec_len : N
}.

Fixpoint le_unsigned (bs : list N) : N :=
  match bs with [] => 0 | b :: r => b + 256 * le_unsigned r end.
Definition le_signed (bs : list N) : Z :=
  let u := Z.of_N (le_unsigned bs) in
  let w := (2 ^ (8 * Z.of_nat (length bs)))%Z in
  if (2 * u <? w)%Z then u else (u - w)%Z.

Definition slice (off len : N) (bs : list N) : list N :=
  firstn (N.to_nat len) (skipn (N.to_nat off) bs).

(* tv_pair_from_buffer on the time field of an entry *)
Definition decode_tv (l : layout) (entry : list N) : tv :=
  let f := slice (l_offset_tv l) (l_size_tv l) entry in
  ((if l_sec_signed l then le_signed (slice (l_sec_off l) (l_sec_len l) f)
    else Z.of_N (le_unsigned (slice (l_sec_off l) (l_sec_len l) f))),
   if l_usec_len l =? 0 then 0%Z else le_signed (slice (l_usec_off l) (l_usec_len l) f)).

(* the entries of a file of this layout *)
Fixpoint chunks (fuel : nat) (sz : nat) (bs : list N) : list (list N) :=
  match fuel with
  | O => []
  | S f => match bs with
           | [] => []
           | _ => if Nat.ltb (length bs) sz then [] else firstn sz bs :: chunks f sz (skipn sz bs)
           end
  end.
Definition file_tvs (l : layout) (file : list N) : list tv :=
  map (decode_tv l) (chunks (length file) (N.to_nat (l_size l)) file).
