(* Model/Normalise.v — C04: regex captures -> normalised buffer -> chrono strftime parse.
   Definitions only (proofs: Proofs/NormaliseProofs.v).

   Transcribes, from /repo/src/data/datetime.rs:
     DTFS_* enums, DTFSSet (+ has_tz / has_year / has_year4 / has_d2)
     captures_to_buffer_bytes          -> [normalise]
     month_bB_to_month_m_bytes         -> lookup in a table parameter (regenerated: Gen/DatetimeTables.month_table)
     MAP_TZZ_TO_TZz.get_entry          -> lookup in a table parameter (regenerated: tz_table)
     datetime_parse_from_str           -> [parse_buffer] (DateTime::parse_from_str when has_tz,
                                          NaiveDateTime::parse_from_str + from_local_datetime otherwise)
   and, from chrono 0.4.40 (format/strftime.rs, format/parse.rs, format/scan.rs, format/parsed.rs), exactly
   what is needed for the DTP_* pattern strings: %Y %y %m %d %H %M %S %f %s, literals, %z %:z %#z.
   Bytes are N, instants are Z nanoseconds since the epoch.  [None] of [normalise] = a Rust panic
   (unwrap of a missing capture group, unexpected month text, bad day length). *)
From Coq Require Import String.
From S4.Base Require Import Bytes.
From S4.Model Require Import Calendar.
Open Scope N_scope.

(* ------------------------------------------------------------------ DTFS enums *)
Inductive dtfs_year := Y_Y | Y_y | Y_fill | Y_none.
Inductive dtfs_month := Mo_m | Mo_ms | Mo_b | Mo_B | Mo_none.
Inductive dtfs_day := D_ed | D_none.
Inductive dtfs_hour := H_H | H_k | H_I | H_l | H_none.
Inductive dtfs_minute := Mi_M | Mi_none.
Inductive dtfs_second := S_S | S_fill | S_none.
Inductive dtfs_frac := F_f | F_none.
Inductive dtfs_tz := Tz_z | Tz_zc | Tz_zp | Tz_Z | Tz_fill | Tz_none.
Inductive dtfs_epoch := E_s | E_none.

Record dtfs := mkDtfs {
  f_year : dtfs_year; f_month : dtfs_month; f_day : dtfs_day; f_hour : dtfs_hour;
  f_minute : dtfs_minute; f_second : dtfs_second; f_frac : dtfs_frac; f_tz : dtfs_tz;
  f_epoch : dtfs_epoch; f_pattern : string }.

Definition has_tz (d : dtfs) : bool :=
  match f_tz d with Tz_z | Tz_zc | Tz_zp | Tz_Z => true | Tz_fill | Tz_none => false end.
Definition has_year (d : dtfs) : bool :=
  match f_year d with Y_Y | Y_y => true | _ => false end.
Definition has_year4 (d : dtfs) : bool :=
  match f_year d with Y_Y => true | _ => false end.
Definition has_d2 (d : dtfs) : bool :=
  match f_year d with Y_Y => true | _ =>
  match f_month d with Mo_m => true | _ =>
  match f_hour d with H_H | H_I => true | _ =>
  match f_minute d with Mi_M => true | _ =>
  match f_second d with S_S => true | _ =>
  match f_tz d with Tz_z | Tz_zc | Tz_zp => true | _ =>
  match f_epoch d with E_s => true | _ => false end end end end end end end.

(* one row of DATETIME_PARSE_DATAS, as far as the model needs it *)
Record dt_row := mkRow { r_index : N; r_dtfs : dtfs; r_start : N; r_end : N; r_line : N }.

(* ------------------------------------------------------------------ captures *)
(* the named capture groups of one regex match; None = the group did not participate *)
Record caps := mkCaps {
  c_year : option bytes; c_month : option bytes; c_day : option bytes; c_hour : option bytes;
  c_minute : option bytes; c_second : option bytes; c_frac : option bytes; c_tz : option bytes;
  c_epoch : option bytes }.

(* ------------------------------------------------------------------ small helpers *)
Definition is_digit (b : N) : bool := (48 <=? b) && (b <=? 57).
Definition zeros (n : nat) : bytes := repeat 48 n.

(* decimal rendering (Rust i32::to_string / {:02}) *)
Fixpoint dec_fuel (fuel : nat) (n : N) (acc : bytes) : bytes :=
  match fuel with
  | O => acc
  | S f => let acc' := (48 + n mod 10) :: acc in
           if n / 10 =? 0 then acc' else dec_fuel f (n / 10) acc'
  end.
Definition dec_of_N (n : N) : bytes := dec_fuel 40 n [].
Definition dec_of_Z (z : Z) : bytes :=
  match z with
  | Z0 => [48] | Zpos p => dec_of_N (Npos p) | Zneg p => 45 :: dec_of_N (Npos p)
  end.
Definition two_digits (n : N) : bytes := [48 + n / 10; 48 + n mod 10].

(* chrono  impl Display for FixedOffset  (the value of SyslineReader::tz_offset_string) *)
Definition offset_string (off : Z) : bytes :=
  let sign := if (off <? 0)%Z then 45 else 43 in
  let a := Z.to_N (Z.abs off) in
  let sec := a mod 60 in
  let mins := a / 60 in
  let mi := mins mod 60 in
  let h := mins / 60 in
  sign :: two_digits h ++ [58] ++ two_digits mi ++ (if sec =? 0 then [] else 58 :: two_digits sec).

(* ------------------------------------------------------------------ captures_to_buffer_bytes *)
Definition YEAR_FALLBACKDUMMY : bytes := [49; 57; 55; 50].   (* "1972" *)
Definition MINUS_SIGN : bytes := [226; 136; 146].            (* U+2212 *)

Definition starts_with (p s : bytes) : bool := beqb (firstn (length p) s) p.

Definition seg_epoch (d : dtfs) (c : caps) : option bytes :=
  match f_epoch d with E_s => c_epoch c | E_none => Some [] end.

Definition seg_year (d : dtfs) (c : caps) (year_opt : option Z) : option bytes :=
  match f_year d with
  | Y_Y | Y_y => c_year c
  | Y_fill => match c_year c with
              | Some y => Some y
              | None => match year_opt with Some y => Some (dec_of_Z y) | None => Some YEAR_FALLBACKDUMMY end
              end
  | Y_none => Some []
  end.

Definition seg_month (mt : list (bytes * bytes)) (d : dtfs) (c : caps) : option bytes :=
  match f_month d with
  | Mo_m => c_month c
  | Mo_ms => match c_month c with
             | Some m => match length m with 1%nat => Some (48 :: m) | _ => Some m end
             | None => None end
  | Mo_b | Mo_B => match c_month c with
                   | Some m => assoc m mt         (* no arm matches = panic!() *)
                   | None => None end
  | Mo_none => Some []
  end.

Definition seg_day (d : dtfs) (c : caps) : option bytes :=
  match f_day d with
  | D_ed => match c_day c with
            | Some [x] => Some [48; x]
            | Some [x; y] => if x =? 32 then Some [48; y] else Some [x; y]
            | _ => None end
  | D_none => Some []
  end.

Definition seg_hour (d : dtfs) (c : caps) : option bytes :=
  match f_hour d with
  | H_I | H_l | H_H => c_hour c
  | H_k => match c_hour c with
           | Some h => match length h with 1%nat => Some (48 :: h) | _ => Some h end
           | None => None end
  | H_none => Some []
  end.

Definition seg_minute (d : dtfs) (c : caps) : option bytes :=
  match f_minute d with Mi_M => c_minute c | Mi_none => Some [] end.

Definition seg_second (d : dtfs) (c : caps) : option bytes :=
  match f_second d with S_S => c_second c | S_fill => Some [48; 48] | S_none => Some [] end.

(* the ten-way (fourteen-arm) padding match *)
Definition pad_frac (f : bytes) : bytes :=
  match length f with
  | 0%nat => f ++ zeros 9 | 1%nat => f ++ zeros 8 | 2%nat => f ++ zeros 7 | 3%nat => f ++ zeros 6
  | 4%nat => f ++ zeros 5 | 5%nat => f ++ zeros 4 | 6%nat => f ++ zeros 3 | 7%nat => f ++ zeros 2
  | 8%nat => f ++ zeros 1 | 9%nat => f
  | 10%nat | 11%nat | 12%nat => firstn 9 f
  | _ => []
  end.

Definition seg_frac (d : dtfs) (c : caps) : option bytes :=
  match f_frac d with
  | F_f => match c_frac c with Some f => Some (46 :: pad_frac f) | None => None end
  | F_none => Some []
  end.

Definition seg_tz (tzt : list (bytes * bytes)) (d : dtfs) (c : caps) (tzs : bytes) : option bytes :=
  match f_tz d with
  | Tz_fill => Some tzs
  | Tz_z | Tz_zc | Tz_zp =>
      match c_tz c with
      | Some t => if starts_with MINUS_SIGN t
                  then (let rest := skipn 3 t in
                        (* from_utf8 fails on a broken tail: nothing more is copied *)
                        if forallb (fun b => b <? 128) rest then Some (45 :: rest) else Some [45])
                  else Some t
      | None => None end
  | Tz_Z =>
      match c_tz c with
      | Some t => match assoc t tzt with
                  | Some v => match v with [] => Some tzs | _ => Some v end
                  | None => Some tzs              (* not in the map (or not UTF-8): passed offset *)
                  end
      | None => None end
  | Tz_none => Some []
  end.

Definition obind {A B} (o : option A) (f : A -> option B) : option B :=
  match o with Some a => f a | None => None end.

(* buffer = epoch year month day 'T' hour minute second [. fraction] tz *)
Definition normalise (mt tzt : list (bytes * bytes)) (d : dtfs) (c : caps)
           (year_opt : option Z) (tzs : bytes) : option bytes :=
  obind (seg_epoch d c) (fun e =>
  obind (seg_year d c year_opt) (fun y =>
  obind (seg_month mt d c) (fun mo =>
  obind (seg_day d c) (fun dd =>
  obind (seg_hour d c) (fun h =>
  obind (seg_minute d c) (fun mi =>
  obind (seg_second d c) (fun s =>
  obind (seg_frac d c) (fun fr =>
  obind (seg_tz tzt d c tzs) (fun tz =>
  Some (e ++ y ++ mo ++ dd ++ [84] ++ h ++ mi ++ s ++ fr ++ tz)))))))))).

(* ------------------------------------------------------------------ chrono: strftime items *)
Inductive item :=
| IYear | IYear2 | IMonth | IDay | IHour | IMinute | ISecond | INano | ITimestamp
| ILit (b : N)
| IOffset (permissive : bool).   (* %z and %:z parse identically; %#z allows 'Z' and missing minutes *)

(* StrftimeItems::new for the specifiers the DTP_* strings use; anything else = Item::Error *)
Fixpoint pattern_items (fuel : nat) (s : bytes) : option (list item) :=
  match fuel with O => None | S fu =>
  match s with
  | [] => Some []
  | 37 :: 58 :: 122 :: r => option_map (cons (IOffset false)) (pattern_items fu r)     (* %:z *)
  | 37 :: 35 :: 122 :: r => option_map (cons (IOffset true)) (pattern_items fu r)      (* %#z *)
  | 37 :: c :: r =>
      let it := if c =? 89 then Some IYear else if c =? 121 then Some IYear2
                else if c =? 109 then Some IMonth else if c =? 100 then Some IDay
                else if c =? 72 then Some IHour else if c =? 77 then Some IMinute
                else if c =? 83 then Some ISecond else if c =? 102 then Some INano
                else if c =? 115 then Some ITimestamp else if c =? 122 then Some (IOffset false)
                else None in
      match it with Some i => option_map (cons i) (pattern_items fu r) | None => None end
  | c :: r => if (c =? 37) || (c =? 32) then None else option_map (cons (ILit c)) (pattern_items fu r)
  end end.

Definition items_of_pattern (p : string) : option (list item) :=
  let b := s2b p in pattern_items (S (length b)) b.

(* ------------------------------------------------------------------ chrono: scan *)
Definition is_ws (b : N) : bool := (b =? 32) || ((9 <=? b) && (b <=? 13)).
Fixpoint trim_start (s : bytes) : bytes :=
  match s with b :: r => if is_ws b then trim_start r else s | [] => [] end.

(* scan::number(s, 1, max): up to [max] digits, at least one *)
Fixpoint take_digits (max : nat) (s : bytes) (acc : Z) (cnt : nat) : Z * nat * bytes :=
  match max with
  | O => (acc, cnt, s)
  | S m => match s with
           | b :: r => if is_digit b then take_digits m r (acc * 10 + Z.of_N (b - 48))%Z (S cnt)
                       else (acc, cnt, s)
           | [] => (acc, cnt, s)
           end
  end.
Definition scan_number (max : nat) (s : bytes) : option (Z * bytes) :=
  let '(v, cnt, r) := take_digits max s 0%Z O in
  match cnt with O => None | _ => Some (v, r) end.

Fixpoint colon_or_space (s : bytes) : bytes :=
  match s with b :: r => if (b =? 58) || is_ws b then colon_or_space r else s | [] => [] end.

(* scan::timezone_offset(s, colon_or_space, allow_zulu, allow_missing_minutes, true) *)
Definition scan_offset (permissive : bool) (s : bytes) : option (Z * bytes) :=
  match s with
  | [] => None
  | b :: _ =>
    if permissive && ((b =? 90) || (b =? 122)) then Some (0%Z, tl s) else
    let sg := if b =? 43 then Some (false, tl s)
              else if b =? 45 then Some (true, tl s)
              else if starts_with MINUS_SIGN s then Some (true, skipn 3 s) else None in
    match sg with
    | None => None
    | Some (neg, s1) =>
      match s1 with
      | h1 :: h2 :: s2 =>
        if is_digit h1 && is_digit h2 then
          let hours := Z.of_N ((h1 - 48) * 10 + (h2 - 48)) in
          let s3 := colon_or_space s2 in
          let fin (minutes : Z) (rest : bytes) :=
              let secs := (hours * 3600 + minutes * 60)%Z in
              Some (if neg then (- secs)%Z else secs, rest) in
          match s3 with
          | m1 :: m2 :: s4 =>
              if (48 <=? m1) && (m1 <=? 53) && is_digit m2
              then fin (Z.of_N ((m1 - 48) * 10 + (m2 - 48))) s4
              else None                                   (* OUT_OF_RANGE / INVALID *)
          | [] => if permissive then fin 0%Z [] else None
          | [_] => None                                   (* TOO_SHORT either way *)
          end
        else None
      | _ => None
      end
    end
  end.

(* ------------------------------------------------------------------ chrono: Parsed *)
Record parsed := mkParsed {
  p_year : option Z; p_year2 : option Z; p_month : option Z; p_day : option Z;
  p_hour : option Z; p_minute : option Z; p_second : option Z; p_nano : option Z;
  p_ts : option Z; p_off : option Z }.
Definition parsed0 := mkParsed None None None None None None None None None None.

(* set_if_consistent *)
Definition setc (old : option Z) (v : Z) : option (option Z) :=
  match old with None => Some (Some v) | Some o => if (o =? v)%Z then Some old else None end.

Definition set_field (i : item) (v : Z) (p : parsed) : option parsed :=
  match i with
  | IYear => option_map (fun x => mkParsed x (p_year2 p) (p_month p) (p_day p) (p_hour p) (p_minute p) (p_second p) (p_nano p) (p_ts p) (p_off p)) (setc (p_year p) v)
  | IYear2 => if (v <? 100)%Z then option_map (fun x => mkParsed (p_year p) x (p_month p) (p_day p) (p_hour p) (p_minute p) (p_second p) (p_nano p) (p_ts p) (p_off p)) (setc (p_year2 p) v) else None
  | IMonth => option_map (fun x => mkParsed (p_year p) (p_year2 p) x (p_day p) (p_hour p) (p_minute p) (p_second p) (p_nano p) (p_ts p) (p_off p)) (setc (p_month p) v)
  | IDay => option_map (fun x => mkParsed (p_year p) (p_year2 p) (p_month p) x (p_hour p) (p_minute p) (p_second p) (p_nano p) (p_ts p) (p_off p)) (setc (p_day p) v)
  | IHour => option_map (fun x => mkParsed (p_year p) (p_year2 p) (p_month p) (p_day p) x (p_minute p) (p_second p) (p_nano p) (p_ts p) (p_off p)) (setc (p_hour p) v)
  | IMinute => option_map (fun x => mkParsed (p_year p) (p_year2 p) (p_month p) (p_day p) (p_hour p) x (p_second p) (p_nano p) (p_ts p) (p_off p)) (setc (p_minute p) v)
  | ISecond => option_map (fun x => mkParsed (p_year p) (p_year2 p) (p_month p) (p_day p) (p_hour p) (p_minute p) x (p_nano p) (p_ts p) (p_off p)) (setc (p_second p) v)
  | INano => option_map (fun x => mkParsed (p_year p) (p_year2 p) (p_month p) (p_day p) (p_hour p) (p_minute p) (p_second p) x (p_ts p) (p_off p)) (setc (p_nano p) v)
  | ITimestamp => option_map (fun x => mkParsed (p_year p) (p_year2 p) (p_month p) (p_day p) (p_hour p) (p_minute p) (p_second p) (p_nano p) x (p_off p)) (setc (p_ts p) v)
  | IOffset _ => option_map (fun x => mkParsed (p_year p) (p_year2 p) (p_month p) (p_day p) (p_hour p) (p_minute p) (p_second p) (p_nano p) (p_ts p) x) (setc (p_off p) v)
  | ILit _ => Some p
  end.

Definition width (i : item) : nat :=
  match i with
  | IYear => 4 | INano => 9 | ITimestamp => 40 (* usize::MAX; i64 overflow = OUT_OF_RANGE, see step *)
  | _ => 2
  end.

(* one item of parse_internal *)
Definition step (i : item) (s : bytes) (p : parsed) : option (bytes * parsed) :=
  match i with
  | ILit b => match s with c :: r => if c =? b then Some (r, p) else None | [] => None end
  | IOffset perm =>
      match scan_offset perm (trim_start s) with
      | Some (v, r) => option_map (fun p' => (r, p')) (set_field i v p)
      | None => None end
  | _ =>
      let s' := trim_start s in
      match s' with
      | b :: _ => if (b =? 43) || (b =? 45)
                  then None   (* a signed number: only %Y accepts it; never produced by [normalise]; not modelled *)
                  else match scan_number (width i) s' with
                       | Some (v, r) => if (v <=? 9223372036854775807)%Z
                                        then option_map (fun p' => (r, p')) (set_field i v p) else None
                       | None => None end
      | [] => None
      end
  end.

Fixpoint parse_items (its : list item) (s : bytes) (p : parsed) : option (bytes * parsed) :=
  match its with
  | [] => Some (s, p)
  | i :: r => match step i s p with Some (s', p') => parse_items r s' p' | None => None end
  end.

(* ------------------------------------------------------------------ chrono: resolution *)
(* Parsed::to_naive_date for year / year_mod_100 + month + day  -> days since the epoch *)
Definition resolve_year (p : parsed) : option Z :=
  match p_year p, p_year2 p with
  | Some y, None => Some y
  | Some y, Some r => if (0 <=? y)%Z && (y mod 100 =? r)%Z then Some y else None
  | None, Some r => Some (r + (if r <? 70 then 2000 else 1900))%Z
  | None, None => None
  end.

Definition naive_date (p : parsed) : option Z :=
  match resolve_year p, p_month p, p_day p with
  | Some y, Some m, Some d =>
      if valid_date y m d && (-262143 <=? y)%Z && (y <=? 262142)%Z then Some (days_from_civil y m d) else None
  | _, _, _ => None
  end.

(* Parsed::to_naive_time -> nanoseconds since midnight (second 60 = leap second = :59 + 1e9 ns) *)
Definition naive_time (p : parsed) : option Z :=
  match p_hour p, p_minute p with
  | Some h, Some mi =>
      if (h <=? 23)%Z && (mi <=? 59)%Z then
        let sec := match p_second p with Some s => s | None => 0%Z end in
        if (sec <=? 60)%Z then
          match p_nano p with
          | Some n => match p_second p with
                      | Some _ => if (n <=? 999999999)%Z then Some ((h * 3600 + mi * 60 + sec) * NS + n)%Z else None
                      | None => None end
          | None => Some ((h * 3600 + mi * 60 + sec) * NS)%Z
          end
        else None
      else None
  | _, _ => None
  end.

(* Parsed::to_naive_datetime_with_offset(offset): local civil time, ns since the epoch *)
Definition naive_datetime (p : parsed) (offset : Z) : option Z :=
  match naive_date p, naive_time p with
  | Some d, Some t =>
      (* a timestamp field, if present, must agree (never both in the DTP_* patterns) *)
      match p_ts p with
      | None => Some (d * 86400 * NS + t)%Z
      | Some ts => if ((d * 86400 * NS + t) / NS =? ts + offset)%Z then Some (d * 86400 * NS + t)%Z else None
      end
  | _, _ =>
      match p_ts p with
      | Some ts =>
          (* date/time rebuilt from the timestamp; remaining fields must be absent or consistent:
             the epoch patterns carry only %s and %f *)
          match p_year p, p_year2 p, p_month p, p_day p, p_hour p, p_minute p, p_second p with
          | None, None, None, None, None, None, None =>
              match p_nano p with
              | Some n => if (n <=? 999999999)%Z then Some ((ts + offset) * NS + n)%Z else None
              | None => Some ((ts + offset) * NS)%Z
              end
          | _, _, _, _, _, _, _ => None
          end
      | None => None
      end
  end.

Definition offset_in_range (o : Z) : bool := (-86400 <? o)%Z && (o <? 86400)%Z.

(* datetime_parse_from_str(data, pattern, has_tz, tz_offset) -> instant *)
Definition parse_buffer (pattern : string) (hastz : bool) (tz_offset : Z) (buf : bytes) : option Z :=
  match items_of_pattern pattern with
  | None => None
  | Some its =>
    match parse_items its buf parsed0 with
    | Some (rest, p) =>
        match rest with
        | _ :: _ => None                                    (* TOO_LONG *)
        | [] =>
          if hastz then
            (* DateTime::parse_from_str -> Parsed::to_datetime *)
            match p_off p with
            | Some o => if offset_in_range o
                        then option_map (fun l => (l - o * NS)%Z) (naive_datetime p o) else None
            | None => None
            end
          else
            (* NaiveDateTime::parse_from_str, then tz_offset.from_local_datetime(..).earliest() *)
            option_map (fun l => (l - tz_offset * NS)%Z) (naive_datetime p 0)
        end
    | None => None
    end
  end.

(* bytes_to_regex_to_datetime after the regex: captures -> instant *)
Definition model_instant (mt tzt : list (bytes * bytes)) (d : dtfs) (c : caps)
           (year_opt : option Z) (tz_offset : Z) : option Z :=
  match normalise mt tzt d c year_opt (offset_string tz_offset) with
  | Some buf => if (length buf <=? 35)%nat then parse_buffer (f_pattern d) (has_tz d) tz_offset buf
                else None    (* BUFLEN = 35: slice index panic *)
  | None => None
  end.

(* ------------------------------------------------------------------ EZCHECK pre-filters *)
Fixpoint contains_12 (s : bytes) : bool :=
  match s with b :: r => (b =? 49) || (b =? 50) || contains_12 r | [] => false end.
Fixpoint contains_d2_from (last_d : bool) (s : bytes) : bool :=
  match s with
  | b :: r => if is_digit b then (if last_d then true else contains_d2_from true r) else contains_d2_from false r
  | [] => false
  end.
Definition contains_d2 (s : bytes) : bool := contains_d2_from false s.
(* slice_contains_12_D2: '1' or '2' anywhere, OR two consecutive digits *)
Fixpoint contains_12_d2_from (last_d : bool) (s : bytes) : bool :=
  match s with
  | b :: r => if (b =? 49) || (b =? 50) then true
              else if is_digit b then (if last_d then true else contains_12_d2_from true r)
              else contains_12_d2_from false r
  | [] => false
  end.
Definition contains_12_d2 (s : bytes) : bool := contains_12_d2_from false s.
(* true = the regex is SKIPPED for this slice; [m] = the carried-over ezcheck*_min index *)
Definition ezcheck_skips (d : dtfs) (m : nat) (slice : bytes) : bool :=
  let s := skipn (Nat.min m (length slice)) slice in
  match has_year4 d, has_d2 d with
  | true, false => negb (contains_12 s)
  | false, true => negb (contains_d2 s)
  | true, true => negb (contains_12_d2 s)
  | false, false => false
  end.
