(* Model/LayoutDetect.v — executable model of the layout detection of FixedStructReader:
   filesz_to_types (src/data/fixedstruct.rs), FixedStruct::score_fixedstruct with its scoring
   macros, buffer_to_fixedstructptr's rejection of all-0x00 / all-0xFF entries and
   FixedStructReader::score_file (src/readers/fixedstructreader.rs).  Definitions only.

   Per FixedStructType the sequence of scoring macros with their field offsets and widths is
   DATA, regenerated into Gen/FixedStructTables.v (`fixedstruct_score`).  The macro bodies and the
   two loops of score_file are transcribed here by hand (their source text is fingerprinted by
   the generator).

   Two things the code does that a reader might not expect, both transcribed literally:
   * the `CStr` accessors (`utmpx.ut_user()` ...) are `CStr::from_ptr(field.as_ptr())`: the string
     scored by score_fixedstruct_cstr runs from the field's first byte to the first NUL byte IN
     MEMORY, through the following fields; when no NUL byte follows inside the struct the read
     leaves the Box allocation.  The bytes that follow the allocation are an explicit parameter
     (`after`; per candidate and entry: `mem`); with `after = []` the outcome None says exactly
     "the value is not determined by the entry";
   * score_file iterates `types_to_bonus`, a std HashMap, and replaces the current best only on
     `high_score > highest_score`: among candidates with equal high score the FIRST in iteration
     order wins, and the iteration order of a HashMap differs from run to run.  The model takes
     the candidate sequence as its argument. *)
From Coq Require Import List NArith ZArith Bool.
Import ListNotations.
From S4.Base Require Import Bytes.
From S4.Model Require Import Records RecordRender.
Open Scope N_scope.

Inductive sitem : Type :=
| SCstr (off : N)                                   (* score_fixedstruct_cstr on the CStr accessor *)
| SNoDataAfterNull (off w : N)                      (* score_fixedstruct_cstr_no_data_after_null *)
| SNullTerm (off w : N)                             (* score_fixedstruct_cstr_null_terminator *)
| SAllNull (off w : N)                              (* score_fixedstruct_buffer_all_null *)
| SValueNotZero (off sz : N)                        (* score_fixedstruct_value_not_zero *)
| SUtType (off sz : N) (signed : bool) (types : list Z)   (* score_fixedstruct_ut_type *)
| SAcFlags (off : N) (mask : N)                     (* score_fixedstruct_ac_flags *)
| STimeRange (off sz : N) (signed : bool) (lo hi : Z).    (* score_fixedstruct_time_range *)

(* ------------------------------------------------------------------ the macros *)
(* CStr::from_ptr at the field's first byte: up to the first NUL of the struct's remaining bytes
   followed by `after`, the bytes behind the allocation; None: no NUL in all of that *)
Definition cstr_mem (after : bytes) (off : N) (e : bytes) : option bytes :=
  let r := skipn (N.to_nat off) e ++ after in
  if existsb (N.eqb 0) r then Some (take_cstr r) else None.

(* the read stays inside the struct *)
Definition cstr_closed (off : N) (e : bytes) : bool := existsb (N.eqb 0) (skipn (N.to_nat off) e).

Definition byte_score (c : N) : Z :=
  if (32 <=? c) && (c <=? 126) then 2%Z else if c =? 255 then (-5)%Z else (-3)%Z.

Fixpoint sumZ (l : list Z) : Z := match l with [] => 0%Z | x :: r => (x + sumZ r)%Z end.

(* `if !is_empty(cstr) { score += 1; for c in bytes { +2 | -5 | -3 } }` *)
Definition cstr_score (t : bytes) : Z :=
  match t with [] => 0%Z | _ => (1 + sumZ (map byte_score t))%Z end.

(* -5 for every non-NUL byte after the first NUL of the array *)
Fixpoint nodata_score (found : bool) (bs : bytes) : Z :=
  match bs with
  | [] => 0%Z
  | b :: r => if b =? 0 then nodata_score true r
              else if found then (-5 + nodata_score found r)%Z else nodata_score found r
  end.

(* `buffer.iter().nth(len - 1)`: the last byte (the arrays are never empty) *)
Definition nullterm_score (bs : bytes) : Z := if last bs 0 =? 0 then 10%Z else (-10)%Z.

(* only the LAST byte is looked at: non-zero -4, zero +10 *)
Definition allnull_score (bs : bytes) : Z :=
  if negb (last bs 0 =? 0) then (-4)%Z else match bs with [] => 0%Z | _ => 10%Z end.

Definition notzero_score (v : N) : Z := if v =? 0 then (-10)%Z else 10%Z.

Fixpoint memZ (x : Z) (l : list Z) : bool :=
  match l with [] => false | y :: r => (x =? y)%Z || memZ x r end.

Definition uttype_score (v : Z) (types : list Z) : Z :=
  if memZ v types then (if (v =? 0)%Z then 5%Z else 15%Z) else 0%Z.

(* `value == 0` +2; `(!flags) & value != 0` -30; else +5 (on the raw byte: bits outside the mask) *)
Definition acflags_score (b mask : N) : Z :=
  if b =? 0 then 2%Z else if negb (N.land b (255 - mask) =? 0) then (-30)%Z else 5%Z.

Definition time_score (v lo hi : Z) : Z :=
  ((if (lo <=? v) && (v <=? hi) then 20 else -30) + (if v =? 0 then -40 else 0))%Z.

Definition sitem_score (after : bytes) (it : sitem) (e : bytes) : option Z :=
  match it with
  | SCstr off => match cstr_mem after off e with Some t => Some (cstr_score t) | None => None end
  | SNoDataAfterNull off w => Some (nodata_score false (slice off w e))
  | SNullTerm off w => Some (nullterm_score (slice off w e))
  | SAllNull off w => Some (allnull_score (slice off w e))
  | SValueNotZero off sz => Some (notzero_score (le_unsigned (slice off sz e)))
  | SUtType off sz signed types => Some (uttype_score (field_int off sz signed e) types)
  | SAcFlags off mask => Some (acflags_score (byte_at off e) mask)
  | STimeRange off sz signed lo hi => Some (time_score (field_int off sz signed e) lo hi)
  end.

Fixpoint items_score (after : bytes) (items : list sitem) (e : bytes) : option Z :=
  match items with
  | [] => Some 0%Z
  | it :: r => match sitem_score after it e, items_score after r e with
               | Some a, Some b => Some (a + b)%Z
               | _, _ => None
               end
  end.

(* FixedStruct::score_fixedstruct: `if bonus > 0 { score += bonus }` then the type's macros *)
Definition score_entry (after : bytes) (items : list sitem) (bonus : Z) (e : bytes) : option Z :=
  match items_score after items e with
  | Some s => Some ((if (0 <? bonus)%Z then bonus else 0) + s)%Z
  | None => None
  end.

(* buffer_to_fixedstructptr: None for an entry of only 0x00 or only 0xFF bytes *)
Definition convertible (e : bytes) : bool :=
  negb (forallb (N.eqb 0) e) && negb (forallb (N.eqb 255) e).

(* ------------------------------------------------------------------ score_file *)
(* the inner loop for one candidate type: entries in file order; `count_found_entries >= MAX`
   ends it; an entry that is not convertible is skipped without counting; `score <= high_score`
   keeps the high score (which starts at 0) *)
Fixpoint type_loop (mem : nat -> bytes) (maxfound : nat) (items : list sitem) (bonus : Z) (entries : list bytes)
         (idx found : nat) (high : Z) : option Z :=
  match entries with
  | [] => Some high
  | e :: r =>
      if Nat.leb maxfound found then Some high
      else if convertible e then
             match score_entry (mem idx) items bonus e with
             | Some s => type_loop mem maxfound items bonus r (S idx) (S found) (if (s <=? high)%Z then high else s)
             | None => None
             end
           else type_loop mem maxfound items bonus r (S idx) found high
  end.

(* mem i = the bytes behind the Box of the i-th entry read for this candidate *)
Definition type_high (mem : nat -> bytes) (maxfound : nat) (size : N) (items : list sitem) (bonus : Z) (file : bytes) : option Z :=
  type_loop mem maxfound items bonus (chunks (length file) (N.to_nat size) file) 0 0 0%Z.

(* the outer loop over the candidates in iteration order: `if high_score > highest_score` *)
Fixpoint best_of (scores : list (bytes * Z)) (best : option bytes) (hs : Z) : option bytes * Z :=
  match scores with
  | [] => (best, hs)
  | (n, h) :: r => if (hs <? h)%Z then best_of r (Some n) h else best_of r best hs
  end.

(* a candidate: (type name, entry size, scoring items, bonus) *)
Definition cand : Type := (bytes * N * list sitem * Z)%type.

(* each candidate's high score; None for a candidate one of whose reads found no NUL *)
Definition cand_scores_opt (mem : bytes -> nat -> bytes) (maxfound : nat) (cands : list cand) (file : bytes)
  : list (bytes * option Z) :=
  map (fun c => let '(n, size, items, bonus) := c in (n, type_high (mem n) maxfound size items bonus file)) cands.

Fixpoint all_some (l : list (bytes * option Z)) : option (list (bytes * Z)) :=
  match l with
  | [] => Some []
  | (n, Some h) :: r => match all_some r with Some l' => Some ((n, h) :: l') | None => None end
  | (_, None) :: _ => None
  end.

Definition cand_scores (mem : bytes -> nat -> bytes) (maxfound : nat) (cands : list cand) (file : bytes)
  : option (list (bytes * Z)) := all_some (cand_scores_opt mem maxfound cands file).

(* score_file on the candidates in iteration order `cands`: (None, _) = FileErrNoHighScore;
   the outer None = some read found no NUL *)
Definition score_file (mem : bytes -> nat -> bytes) (maxfound : nat) (cands : list cand) (file : bytes)
  : option (option bytes * Z) :=
  match cand_scores mem maxfound cands file with
  | Some l => Some (best_of l None 0%Z)
  | None => None
  end.

(* nothing behind any allocation: every outcome is determined by the file alone *)
Definition no_mem : bytes -> nat -> bytes := fun _ _ => [].

(* ------------------------------------------------------------------ filesz_to_types *)
(* the candidate set for a file kind and size: every type of the try-all list whose entry size
   divides the file size, with the bonus when (kind, type) is in the bonus table.  (A set: the
   order in which score_file meets its members is not determined by the code.) *)
Fixpoint find_size (n : bytes) (t : list layout) : option N :=
  match t with
  | [] => None
  | l :: r => if beqb n (l_name l) then Some (l_size l) else find_size n r
  end.

Fixpoint has_bonus (kind : N) (n : bytes) (t : list (N * bytes)) : bool :=
  match t with
  | [] => false
  | (k, m) :: r => ((k =? kind) && beqb n m) || has_bonus kind n r
  end.

Definition filesz_candidates (layouts : list layout) (bonus_tbl : list (N * bytes)) (try_all : list bytes)
           (score_tbl : list (bytes * list sitem)) (bonus : Z) (kind filesz : N) : list cand :=
  if filesz =? 0 then []
  else flat_map (fun n =>
                   match find_size n layouts, assoc n score_tbl with
                   | Some sz, Some items =>
                       if (0 <? sz) && (filesz mod sz =? 0)
                       then [(n, sz, items, if has_bonus kind n bonus_tbl then bonus else 0%Z)]
                       else []
                   | _, _ => []
                   end) try_all.

(* the order in which score_file meets the members of the candidate set.  Since commit a9566a30
   score_file sorts them by the enum discriminant (`*fixedstructtype as usize`) before its loop;
   `order` lists the type names by ascending discriminant (regenerated: candidate_order).  Before
   that commit the order was that of a std HashMap, different from run to run: every theorem
   about score_file therefore takes the candidate sequence as an argument. *)
Definition order_cands (order : list bytes) (cands : list cand) : list cand :=
  flat_map (fun n => filter (fun c : cand => beqb n (fst (fst (fst c)))) cands) order.
