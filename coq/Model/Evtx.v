(* Model/Evtx.v — executable model of EvtxReader's ordering core (src/readers/evtxreader.rs):
   `analyze` enumerates the parser's records, filters on the creation time with
   ts_pass_filters (inclusive both ends) and inserts into a BTreeMap keyed
   (timestamp, enumeration index); `next` is pop_first, called by exec_evtxprocessor until it
   returns None.  Definitions only. *)
From Coq Require Import List NArith ZArith Bool.
Import ListNotations.
From S4.Spec Require Import RecordsSpec.
From S4.Model Require Import Records.
Open Scope N_scope.

Definition EK : Type := (Z * N)%type.
Definition ek_cmp : EK -> EK -> comparison := pair_cmp Z.compare.

(* ts_pass_filters: `ts < da` => BeforeRange, `db < ts` => AfterRange, else InRange *)
Definition ts_pass (lo hi : option Z) (t : Z) : bool :=
  match lo, hi with
  | None, None => true
  | Some a, Some b => if (t <? a)%Z then false else if (b <? t)%Z then false else true
  | Some a, None => if (t <? a)%Z then false else true
  | None, Some b => if (b <? t)%Z then false else true
  end.

(* analyze: `for (index, result) in records().enumerate()`; an Err record only sets the
   error string; an Ok record inside the window is inserted under (timestamp, index) *)
Fixpoint analyze (lo hi : option Z) (i : N) (rs : list (option Z)) (m : kmap EK N) : kmap EK N :=
  match rs with
  | [] => m
  | None :: r => analyze lo hi (i + 1) r m
  | Some t :: r =>
      analyze lo hi (i + 1) r (if ts_pass lo hi t then minsert ek_cmp (t, i) i m else m)
  end.

Inductive drain_result : Type :=
| DDone (out : list N)         (* enumeration indexes of the records sent to the printer *)
| DOutOfFuel (out : list N).

(* `while let Some(evtx) = evtxreader.next()`; one unit of fuel per record sent *)
Fixpoint drain (fuel : nat) (m : kmap EK N) (acc : list N) : drain_result :=
  match mpop_first m with
  | None => DDone (rev acc)
  | Some ((_, v), m') =>
      match fuel with
      | O => DOutOfFuel (rev acc)
      | S f => drain f m' (v :: acc)
      end
  end.

Definition evtx_out (lo hi : option Z) (rs : list (option Z)) : drain_result :=
  let m := analyze lo hi 0 rs [] in
  drain (length m) m [].
