(* Model/StrftimeParse.v — `s4lib::data::datetime::datetime_parse_from_str(data, pattern, has_tz, tz)`
   for an ARBITRARY pattern over the specifier set of CliDt.tokenize
     %Y %m %d %H %M %S %s %f %3f %6f %9f %.3f %.6f %.9f %z %:z %#z %Z %T %F %% , literals, whitespace
   i.e. chrono 0.4.40 `DateTime::parse_from_str` / `NaiveDateTime::parse_from_str` + the Issue-660
   whitespace workaround.  It reuses the scanner of Model/CliDt.v and adds what the 76 rows of the
   command line never exercise, so that the model is exact for every pattern of that set:
     * Parsed::set_* range checks at the time a field is set (month 1..12, day 1..31, hour 0..23,
       minute 0..59, second 0..60, year within i32) and `set_if_consistent` (a field set twice must
       get the same value: "%H %T", "%.3f %6f");
     * the timestamp-only branch of to_naive_datetime_with_offset keeps the parsed nanoseconds
       ("%s%.9f");
     * timestamp together with SOME but not all of year/month/day/hour/minute (chrono then
       reconstructs the missing fields from the timestamp and cross-checks) is outside the model:
       [PUnmodelled], so that the correspondence run never compares a guess.
   Used by the print-then-parse round trip of C13 (Proofs/StrftimeRoundtrip.v) and evaluated against
   the real function by harness/src/bin/c13.rs.  Definitions only. *)
From S4.Base Require Import Bytes.
From S4.Model Require Import Calendar CliDt.
Open Scope Z_scope.

Inductive pres := POk (v : Z) | PErr | PUnmodelled.

Definition num_value (neg : bool) (ds : list N) : Z := if neg then - dnum ds else dnum ds.

(* Parsed::set_year .. set_offset: the value must be in the field's range when it is set *)
Definition set_range_ok (f : rawfield) : bool :=
  match f with
  | RNum k neg ds =>
    let v := num_value neg ds in
    (dnum ds <=? I64_MAX) &&
    match k with
    | NYear => (-2147483648 <=? v) && (v <=? 2147483647)
    | NMonth => (1 <=? v) && (v <=? 12)
    | NDay => (1 <=? v) && (v <=? 31)
    | NHour => v <=? 23
    | NMinute => v <=? 59
    | NSecond => v <=? 60
    | NTimestamp => true
    end
  | RFrac _ _ => true
  | ROff _ _ _ (Some (m1, _)) => Z.of_N m1 <=? 5
  | ROff _ _ _ None => true
  | ROffZulu => true
  end.

Fixpoint all_same (l : list Z) : bool :=
  match l with
  | a :: ((b :: _) as r) => (a =? b) && all_same r
  | _ => true
  end.

Definition nums_of (k : numkind) (fs : list rawfield) : list Z :=
  flat_map (fun f => match f with
                     | RNum k' neg ds => if numkind_eqb k k' then [num_value neg ds] else []
                     | _ => []
                     end) fs.
Definition nanos_of (fs : list rawfield) : list Z :=
  flat_map (fun f => match f with RFrac n ds => [dnum ds * pow10 (9 - n)] | _ => [] end) fs.
Definition offs_of (fs : list rawfield) : list Z :=
  flat_map (fun f => match f with
                     | ROff neg h1 h0 m => [off_value neg h1 h0 m]
                     | ROffZulu => [0]
                     | _ => []
                     end) fs.

Definition all_kinds : list numkind := [NYear; NMonth; NDay; NHour; NMinute; NSecond; NTimestamp].

(* set_if_consistent *)
Definition sets_consistent (fs : list rawfield) : bool :=
  forallb (fun k => all_same (nums_of k fs)) all_kinds && all_same (nanos_of fs) && all_same (offs_of fs).

Definition is_some {A} (o : option A) : bool := match o with Some _ => true | None => false end.

Inductive nres := NOk (loc nano : Z) | NErr | NUnmodelled.

(* Parsed::to_naive_datetime_with_offset *)
Definition naive2 (fs : list rawfield) (offset : Z) : nres :=
  let ts := find_num NTimestamp fs None in
  let oy := find_num NYear fs None in
  let omo := find_num NMonth fs None in
  let od := find_num NDay fs None in
  let oh := find_num NHour fs None in
  let omi := find_num NMinute fs None in
  let so := find_num NSecond fs None in
  match oy, omo, od, oh, omi with
  | Some y, Some mo, Some d, Some h, Some mi =>
    let s := match so with Some s => s | None => 0 end in
    let nano := match find_nano fs None with
                | Some n => match so with Some _ => Some n | None => None end
                | None => Some 0
                end in
    match nano with
    | None => NErr
    | Some n =>
      if (YEAR_MIN <=? y) && (y <=? YEAR_MAX) && valid_date y mo d
         && (0 <=? h) && (h <=? 23) && (0 <=? mi) && (mi <=? 59) && (0 <=? s) && (s <=? 60)
      then
        let loc := days_from_civil y mo d * 86400 + h * 3600 + mi * 60 + s in
        match ts with
        | Some t => if t =? loc - offset then NOk loc n else NErr
        | None => NOk loc n
        end
      else NErr
    end
  | _, _, _, _, _ =>
    match ts with
    | Some t =>
      if is_some oy || is_some omo || is_some od || is_some oh || is_some omi || is_some so
      then NUnmodelled
      else if (TS_MIN <=? t + offset) && (t + offset <=? TS_MAX)
           then NOk (t + offset) (match find_nano fs None with Some n => n | None => 0 end)
           else NErr
    | None => NErr
    end
  end.

(* Parsed::to_datetime (has_tz) / NaiveDateTime::parse_from_str + from_local_datetime (no zone) *)
Definition validate2 (has_tz : bool) (tz : Z) (fs : list rawfield) : pres :=
  if negb (forallb set_range_ok fs && sets_consistent fs) then PErr
  else if has_tz then
    let off := match find_off fs None, find_num NTimestamp fs None with
               | Some o, _ => Some o
               | None, Some _ => Some 0
               | None, None => None
               end in
    match off with
    | None => PErr
    | Some o =>
      if (-86400 <? o) && (o <? 86400) then
        match naive2 fs o with
        | NOk loc n => POk ((loc - o) * NS + n)
        | NErr => PErr
        | NUnmodelled => PUnmodelled
        end
      else PErr
    end
  else
    match naive2 fs 0 with
    | NOk loc n => POk ((loc - tz) * NS + n)
    | NErr => PErr
    | NUnmodelled => PUnmodelled
    end.

(* datetime_parse_from_str(value, pattern, has_tz, tz) *)
Definition chrono_parse (pat : bytes) (has_tz : bool) (tz : Z) (v : list sym) : pres :=
  match scan (tokenize pat) v with
  | None => PErr
  | Some fs =>
    match validate2 has_tz tz fs with
    | POk r => if issue660_ok (map sym_ws_class v) (map ws_class pat) then POk r else PErr
    | other => other
    end
  end.
