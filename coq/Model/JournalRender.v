(* Model/JournalRender.v — executable model of the ten `--journal-output` renderings
     src/readers/journalreader.rs :: next_dispatch / next_short / next_verbose / next_export / next_cat,
                                     get_source_realtime_timestamp, get_monotonic_usec
     src/data/journal.rs         :: realtime_or_source_realtime_timestamp_to_datetimel, DT_USES_SOURCE_OVERRIDE
     src/bin/s4.rs               :: exec_journalprocessor (Found -> print, ErrIgnore -> continue)
   Definitions only; proofs live in Proofs/JournalRender*.v.

   One entry is rendered from: its data objects in enumeration order (Journal.e_fields), its
   receive time (e_time, microseconds), its cursor, its monotonic time (e_mono), the zone offset
   of --tz-offset (seconds) and ONE bit of the host ([env_boot_ok], see get_monotonic_usec below).
   No state is carried from one entry to the next (the code keeps only summary counters; s4
   prints no `-- Boot <id> --` separator line).

   Everything the code takes from constants or tables is a field of [jcfg]; the translator
   tools/gen/journal.py regenerates Gen/JournalTables.v :: src_cfg from the current source.

   Calendar arithmetic and the strftime specifiers %Y %m %d %H %M %S %6f %z %s are those of
   Model/PrintCal.v and Model/Strftime.v (C13); this file only adds the three specifiers the
   journal formats use beyond that set (%b %a %Z) on top of the same [civil_of]. *)
From Coq Require Import String.
From S4.Base Require Export Bytes.
From S4.Model Require Import PrintCal Strftime.
From S4.Model Require Export Journal.
Open Scope N_scope.

(* ------------------------------------------------------------------ configuration (scraped) *)

Inductive dt_source := DsRealtime | DsSource.            (* DtUsesSource *)

Inductive output :=                                       (* JournalOutput *)
| OShort | OShortPrecise | OShortIso | OShortIsoPrecise | OShortFull
| OShortMonotonic | OShortUnix | OVerbose | OExport | OCat.

Definition all_outputs : list output :=
  [OShort; OShortPrecise; OShortIso; OShortIsoPrecise; OShortFull; OShortMonotonic; OShortUnix; OVerbose; OExport; OCat].

(* one arm of next_dispatch *)
Inductive dispatch := DShort (fmt : bytes) (mono : bool) | DVerbose | DExport | DCat.

Record jcfg := mkCfg {
  cfg_override : option dt_source;      (* DT_USES_SOURCE_OVERRIDE *)
  cfg_dispatch : output -> dispatch;    (* next_dispatch *)
  cfg_fmt_verbose : bytes;              (* DATETIME_FORMAT_VERBOSE *)
  cfg_order : list bytes;               (* FIELD_ORDER_VERBOSE *)
  cfg_field_beg : bytes;                (* FIELD_BEG_VERBOSE *)
  cfg_emerg_short : nat;                (* `while emerg_stop_data_enumerate < N` of next_short *)
  cfg_emerg_verbose : nat;              (* ... of next_verbose *)
  cfg_emerg_export : nat;               (* ... of next_export (Journal.EMERG_STOP) *)
  (* the six slots of next_short, in the order of its found-tuple *)
  cfg_k_host : bytes; cfg_k_ident : bytes; cfg_k_spid : bytes; cfg_k_comm : bytes; cfg_k_pid : bytes; cfg_k_msg : bytes;
  cfg_short_need : list bool;           (* the tuple pattern that ends the enumeration early; false = `_` *)
  cfg_k_selinux : bytes;                (* KEY_SELINUX_CONTEXT *)
  cfg_trim : list N;                    (* bytes trimmed from the end of its value by next_verbose *)
  cfg_k_source_rt : bytes;              (* KEY_SOURCE_REALTIME_TIMESTAMP *)
  cfg_k_mono : bytes;                   (* KEY__MONOTONIC_TIMESTAMP *)
  cfg_k_cat : bytes;                    (* KEY_MESSAGE_CSTR *)
  cfg_mono_div : Z;                     (* `mu as f64 / 1000000.0` *)
  cfg_mono_width : nat; cfg_mono_prec : nat;   (* format!("{:>12.6}", mud) *)
  cfg_mono_blank : bytes;               (* "[            ]" *)
  cfg_mono_needs_host : bool;           (* does get_monotonic_usec call sd_id128_get_boot (the HOST's boot id) first? *)
  cfg_verbose_multi : bool              (* does next_verbose keep every data object (Vec) or one value per name (HashMap)? *)
}.

(* what one run adds to the entry: the zone of --tz-offset and one bit of the HOST.
   When [cfg_mono_needs_host] (scraped): get_monotonic_usec first calls `sd_id128_get_boot` (the boot id
   of the machine s4 runs on) and returns None when that fails — before it ever asks the journal
   for the entry's monotonic time. *)
Record env := mkEnv { env_off : Z; env_boot_ok : bool }.

(* ------------------------------------------------------------------ which instant is shown *)

Definition is_digit (b : N) : bool := (48 <=? b) && (b <=? 57).
Fixpoint dec_value (acc : Z) (l : bytes) : Z :=
  match l with [] => acc | d :: r => dec_value (acc * 10 + Z.of_N (d - 48)) r end.

(* u64::from_str: optional '+', at least one digit, digits only, value < 2^64 *)
Definition parse_u64 (v : bytes) : option Z :=
  let ds := match v with 43 :: r => r | _ => v end in
  match ds with
  | [] => None
  | _ => if forallb is_digit ds
         then let n := dec_value 0 ds in if (n <? 18446744073709551616)%Z then Some n else None
         else None
  end.

(* get_source_realtime_timestamp: sd_journal_get_data(_SOURCE_REALTIME_TIMESTAMP), the value after
   the first '=', str::from_utf8, u64::from_str; any failure is None *)
Definition source_rt (cfg : jcfg) (e : entry) : option Z :=
  match get_data (cfg_k_source_rt cfg) e with
  | Some v => parse_u64 v
  | None => None
  end.

(* realtime_or_source_realtime_timestamp_to_datetimel *)
Definition shown_us (cfg : jcfg) (e : entry) : Z :=
  match cfg_override cfg with
  | Some DsRealtime => e_time e
  | Some DsSource | None => match source_rt cfg e with Some s => s | None => e_time e end
  end.

(* ------------------------------------------------------------------ timestamp text *)

Definition month_abbr (m : Z) : bytes :=
  nth (Z.to_nat (m - 1))
      (map s2b ["Jan"; "Feb"; "Mar"; "Apr"; "May"; "Jun"; "Jul"; "Aug"; "Sep"; "Oct"; "Nov"; "Dec"]%string) [].

(* local day number of instant t (ns) at offset off (s): the same quotient as PrintCal.civil_of *)
Definition local_days (t off : Z) : Z := ((t + off * NS) / NS / 86400)%Z.
(* 1970-01-01 was a Thursday *)
Definition wday_abbr (days : Z) : bytes :=
  nth (Z.to_nat ((days + 3) mod 7))
      (map s2b ["Mon"; "Tue"; "Wed"; "Thu"; "Fri"; "Sat"; "Sun"]%string) [].

(* chrono `%Z` of a DateTime<FixedOffset>: Display of FixedOffset, "+HH:MM" or "+HH:MM:SS" *)
Definition zone_name (off : Z) : bytes :=
  let a := Z.abs off in
  let sec := (a mod 60)%Z in
  let mins := (a / 60)%Z in
  (if (off <? 0)%Z then 45 else 43) :: digits_n 2 (mins / 60) ++ 58 :: digits_n 2 (mins mod 60)
  ++ (if (sec =? 0)%Z then [] else 58 :: digits_n 2 sec).

(* a format string is cut at %b %a %Z; the pieces in between are Strftime formats.
   Characters are consumed in pairs after a '%', so "%%b" stays inside a piece. *)
Inductive seg := SPlain (b : bytes) | SMon | SWday | SZone.

Definition flush (cur : bytes) : list seg := match cur with [] => [] | _ => [SPlain (rev cur)] end.

Fixpoint split_fmt (l : bytes) (cur : bytes) : list seg :=
  match l with
  | [] => flush cur
  | b :: r =>
    if b =? 37 then
      match r with
      | [] => flush (b :: cur)
      | c :: r' =>
        if c =? 98 then flush cur ++ SMon :: split_fmt r' []
        else if c =? 97 then flush cur ++ SWday :: split_fmt r' []
        else if c =? 90 then flush cur ++ SZone :: split_fmt r' []
        else split_fmt r' (c :: b :: cur)
      end
    else split_fmt r (b :: cur)
  end.

Definition fmt_seg (t off : Z) (s : seg) : option bytes :=
  match s with
  | SPlain b => strftime b t off
  | SMon => Some (month_abbr (c_mon (civil_of t off)))
  | SWday => Some (wday_abbr (local_days t off))
  | SZone => Some (zone_name off)
  end.

Fixpoint concat_opt (l : list (option bytes)) : option bytes :=
  match l with
  | [] => Some []
  | None :: _ => None
  | Some b :: r => match concat_opt r with Some x => Some (b ++ x) | None => None end
  end.

(* `dt.format(fmt).to_string()`; None = chrono rejects the format (to_string would panic) *)
Definition jstrftime (fmt : bytes) (t off : Z) : option bytes :=
  concat_opt (map (fmt_seg t off) (split_fmt fmt [])).

(* the datetime text of an entry: microseconds -> ns *)
Definition entry_dt_text (cfg : jcfg) (ev : env) (fmt : bytes) (e : entry) : option bytes :=
  jstrftime fmt (shown_us cfg e * 1000)%Z (env_off ev).

(* ------------------------------------------------------------------ short-monotonic: f64 arithmetic *)

(* a / b rounded to the nearest integer, ties to even (a >= 0, b > 0) *)
Definition rne_div (a b : Z) : Z :=
  (let q := a / b in
   let r := a mod b in
   if 2 * r <? b then q else if b <? 2 * r then q + 1 else if Z.even q then q else q + 1)%Z.

(* the binary64 nearest to the rational a/b (a >= 0, b > 0; normal range): (m, e) stands for m * 2^e
   with 2^52 <= m <= 2^53 *)
Definition f64_scale (a b e : Z) : Z * Z :=
  (if 0 <=? e then (a, b * 2 ^ e) else (a * 2 ^ (- e), b))%Z.
Definition f64_round (a b : Z) : Z * Z :=
  (if a =? 0 then (0, 0) else
   let e0 := Z.log2 a - Z.log2 b - 52 in
   let '(n0, d0) := f64_scale a b e0 in
   let e := if n0 <? d0 * 2 ^ 52 then e0 - 1 else e0 in
   let '(n, d) := f64_scale a b e in
   (rne_div n d, e))%Z.
(* `mu as f64` *)
Definition f64_of_u64 (mu : Z) : Z * Z := (if mu <? 2 ^ 53 then (mu, 0) else f64_round mu 1)%Z.
Definition f64_q (x : Z * Z) : Z * Z :=
  (let '(m, e) := x in if 0 <=? e then (m * 2 ^ e, 1) else (m, 2 ^ (- e)))%Z.

(* round((mu as f64 / div) * 10^prec) — what `{:.prec}` prints, as an integer of 10^-prec units
   (core::fmt float formatting is exact: correctly rounded, ties to even) *)
Definition mono_scaled (div : Z) (prec : nat) (mu : Z) : Z :=
  (let '(a, b) := f64_q (f64_of_u64 mu) in
   let '(a2, b2) := f64_q (f64_round a (b * div)) in
   rne_div (a2 * 10 ^ Z.of_nat prec) b2)%Z.

Definition fmt_fixed (prec : nat) (n : Z) : bytes :=
  Strftime.dec (n / 10 ^ Z.of_nat prec)
  ++ match prec with O => [] | _ => 46 :: digits_n prec (n mod 10 ^ Z.of_nat prec) end.
Definition pad_left (w : nat) (s : bytes) : bytes := repeat 32 (w - length s) ++ s.

Definition fmt_mono (cfg : jcfg) (mu : N) : bytes :=
  pad_left (cfg_mono_width cfg) (fmt_fixed (cfg_mono_prec cfg) (mono_scaled (cfg_mono_div cfg) (cfg_mono_prec cfg) (Z.of_N mu))).

(* get_monotonic_usec: when it first asks the host for its boot id, a failure there ends it *)
Definition mono_usec (cfg : jcfg) (ev : env) (e : entry) : option N :=
  if cfg_mono_needs_host cfg && negb (env_boot_ok ev) then None else e_mono e.

(* ------------------------------------------------------------------ next_short *)

(* the data objects of an entry as sd_journal_enumerate_available_data returns them *)
Definition raw_data (e : entry) : list bytes := map data_of (e_fields e).

Record sfound := mkSF {
  sf_host : option bytes; sf_ident : option bytes; sf_spid : option bytes;
  sf_comm : option bytes; sf_pid : option bytes; sf_msg : option bytes }.
Definition sf_empty : sfound := mkSF None None None None None None.

(* `match key { KEY_HOSTNAME_BYTES => ..., ... , _ => {} }` (first matching arm) *)
Definition sf_update (cfg : jcfg) (st : sfound) (k v : bytes) : sfound :=
  if beqb k (cfg_k_host cfg) then mkSF (Some v) (sf_ident st) (sf_spid st) (sf_comm st) (sf_pid st) (sf_msg st)
  else if beqb k (cfg_k_ident cfg) then mkSF (sf_host st) (Some v) (sf_spid st) (sf_comm st) (sf_pid st) (sf_msg st)
  else if beqb k (cfg_k_spid cfg) then mkSF (sf_host st) (sf_ident st) (Some v) (sf_comm st) (sf_pid st) (sf_msg st)
  else if beqb k (cfg_k_comm cfg) then mkSF (sf_host st) (sf_ident st) (sf_spid st) (Some v) (sf_pid st) (sf_msg st)
  else if beqb k (cfg_k_pid cfg) then mkSF (sf_host st) (sf_ident st) (sf_spid st) (sf_comm st) (Some v) (sf_msg st)
  else if beqb k (cfg_k_msg cfg) then mkSF (sf_host st) (sf_ident st) (sf_spid st) (sf_comm st) (sf_pid st) (Some v)
  else st.

Definition is_some {A} (o : option A) : bool := match o with Some _ => true | None => false end.

(* the tuple match that ends the enumeration: every slot the pattern names `true` is found *)
Definition sf_flags (st : sfound) : list bool :=
  [is_some (sf_host st); is_some (sf_ident st); is_some (sf_spid st); is_some (sf_comm st); is_some (sf_pid st); is_some (sf_msg st)].
Fixpoint need_met (need have : list bool) : bool :=
  match need, have with
  | [], [] => true
  | n :: nr, h :: hr => (if n then h else true) && need_met nr hr
  | _, _ => false
  end.
Definition sf_all (cfg : jcfg) (st : sfound) : bool := need_met (cfg_short_need cfg) (sf_flags st).

(* the enumeration loop: a data object without '=' is skipped; a later object of the same key
   replaces the earlier one; the loop ends as soon as the needed slots are filled *)
Fixpoint scan_short (cfg : jcfg) (ds : list bytes) (st : sfound) : sfound :=
  match ds with
  | [] => st
  | d :: r =>
    match split_at EQ d with
    | None => scan_short cfg r st
    | Some (k, v) =>
      let st' := sf_update cfg st k v in
      if sf_all cfg st' then st' else scan_short cfg r st'
    end
  end.

Definition short_found (cfg : jcfg) (e : entry) : sfound :=
  scan_short cfg (firstn (cfg_emerg_short cfg) (raw_data e)) sf_empty.

Definition SP : N := 32.
Definition bracketed (p : bytes) : bytes := 91 :: p ++ [93].

(* fields 2..5 and the end of line *)
Definition short_tail (st : sfound) : bytes :=
  (match sf_host st with Some h => SP :: h | None => [] end)
  ++ (match sf_ident st with
      | Some i => SP :: i
      | None => match sf_comm st with Some c => SP :: c | None => [] end
      end)
  ++ (match sf_pid st with
      | Some p => bracketed p
      | None => match sf_spid st with Some p => bracketed p | None => [] end
      end)
  ++ (match sf_msg st with Some m => 58 :: SP :: m | None => [] end)
  ++ [NL].

(* field 1 *)
Definition short_head (cfg : jcfg) (ev : env) (fmt : bytes) (mono : bool) (e : entry) : option bytes :=
  if mono then
    Some (match mono_usec cfg ev e with
          | Some mu => bracketed (fmt_mono cfg mu)
          | None => cfg_mono_blank cfg
          end)
  else entry_dt_text cfg ev fmt e.

Definition render_short (cfg : jcfg) (ev : env) (fmt : bytes) (mono : bool) (e : entry) : option bytes :=
  match short_head cfg ev fmt mono e with
  | Some h => Some (h ++ short_tail (short_found cfg e))
  | None => None
  end.

(* ------------------------------------------------------------------ next_verbose *)

(* key and value of a data object: split at the first '='; without '=' the whole object is the key *)
Definition vkv (d : bytes) : bytes * bytes :=
  match split_at EQ d with Some kv => kv | None => (d, []) end.

Fixpoint drop_while (p : N -> bool) (l : bytes) : bytes :=
  match l with [] => [] | x :: r => if p x then drop_while p r else l end.
Definition rtrim (set : list N) (v : bytes) : bytes :=
  rev (drop_while (fun b => existsb (N.eqb b) set) (rev v)).

Definition vfield (cfg : jcfg) (d : bytes) : bytes * bytes :=
  let '(k, v) := vkv d in
  (k, if beqb k (cfg_k_selinux cfg) then rtrim (cfg_trim cfg) v else v).

(* the collection `fields` of next_verbose as a list of (name, value):
   [cfg_verbose_multi] = false: a HashMap<&[u8], &[u8]> (insert replaces the value of an existing name; unique names);
   [cfg_verbose_multi] = true : a Vec<(&[u8], &[u8])> (push keeps every data object, in enumeration order) *)
Fixpoint vm_insert (k v : bytes) (m : list field) : list field :=
  match m with
  | [] => [(k, v)]
  | (k', v') :: r => if beqb k k' then (k, v) :: r else (k', v') :: vm_insert k v r
  end.
Definition vm_put (multi : bool) (k v : bytes) (m : list field) : list field :=
  if multi then m ++ [(k, v)] else vm_insert k v m.
(* remove every binding of name k: its values in order, and what is left (HashMap::remove on unique
   names: at most one value) *)
Fixpoint vm_take (k : bytes) (m : list field) : list bytes * list field :=
  match m with
  | [] => ([], [])
  | (k', v') :: r => let '(vs, r') := vm_take k r in
                     if beqb k k' then (v' :: vs, r') else (vs, (k', v') :: r')
  end.
Definition vm_mem (k : bytes) (m : list field) : bool := is_some (assoc k m).

Definition vm_of (cfg : jcfg) (ds : list bytes) : list field :=
  fold_left (fun m d => let '(k, v) := vfield cfg d in vm_put (cfg_verbose_multi cfg) k v m) ds [].

(* Ord of &[u8] (lexicographic, unsigned bytes) and of the (key, value) tuple *)
Fixpoint bytes_cmp (a b : bytes) : comparison :=
  match a, b with
  | [], [] => Eq
  | [], _ :: _ => Lt
  | _ :: _, [] => Gt
  | x :: a', y :: b' => match x ?= y with Eq => bytes_cmp a' b' | c => c end
  end.
Definition field_leb (f g : field) : bool :=
  match bytes_cmp (fst f) (fst g) with
  | Lt => true
  | Gt => false
  | Eq => match bytes_cmp (snd f) (snd g) with Gt => false | _ => true end
  end.
Fixpoint insert_sorted (f : field) (l : list field) : list field :=
  match l with
  | [] => [f]
  | g :: r => if field_leb f g then f :: l else g :: insert_sorted f r
  end.
Definition sort_fields (l : list field) : list field := fold_right insert_sorted [] l.

Definition vline (cfg : jcfg) (k v : bytes) : bytes := cfg_field_beg cfg ++ k ++ EQ :: v ++ [NL].

Definition vlines (cfg : jcfg) (k : bytes) (vs : list bytes) : bytes := concat (map (vline cfg k) vs).

(* `for field in FIELD_ORDER_VERBOSE { fields.remove(field) ... }` : lines written, what is left *)
Fixpoint take_ordered (cfg : jcfg) (order : list bytes) (m : list field) : bytes * list field :=
  match order with
  | [] => ([], m)
  | k :: r =>
    let '(vs, m') := vm_take k m in
    let '(out, m'') := take_ordered cfg r m' in
    (vlines cfg k vs ++ out, m'')
  end.

(* the collection after the enumeration and the __MONOTONIC_TIMESTAMP insertion *)
Definition verbose_map (cfg : jcfg) (ev : env) (e : entry) : list field :=
  let m := vm_of cfg (firstn (cfg_emerg_verbose cfg) (raw_data e)) in
  if vm_mem (cfg_k_mono cfg) m then m
  else match mono_usec cfg ev e with
       | Some mu => vm_put (cfg_verbose_multi cfg) (cfg_k_mono cfg) (dec mu) m
       | None => m
       end.

Definition verbose_body (cfg : jcfg) (m : list field) : bytes :=
  let '(src, m1) := vm_take (cfg_k_source_rt cfg) m in
  let '(out, m2) := take_ordered cfg (cfg_order cfg) m1 in
  out
  ++ concat (map (fun f => vline cfg (fst f) (snd f)) (sort_fields m2))
  ++ vlines cfg (cfg_k_source_rt cfg) src.

Definition render_verbose (cfg : jcfg) (ev : env) (e : entry) : option bytes :=
  match entry_dt_text cfg ev (cfg_fmt_verbose cfg) e with
  | Some ts => Some (ts ++ SP :: bracketed (e_cursor e) ++ NL :: verbose_body cfg (verbose_map cfg ev e))
  | None => None
  end.

(* ------------------------------------------------------------------ export, cat: Model/Journal.v *)

(* the entry as this host's run sees it (monotonic time only when get_monotonic_usec succeeds) *)
Definition host_view (cfg : jcfg) (ev : env) (e : entry) : entry :=
  mkEntry (e_time e) (e_cursor e) (mono_usec cfg ev e) (e_fields e).

(* ------------------------------------------------------------------ next_dispatch, exec_journalprocessor *)

Inductive next_res := NFound (b : bytes) | NErrIgnore | NPanic.

Definition of_opt (o : option bytes) : next_res := match o with Some b => NFound b | None => NPanic end.

(* what JournalReader::next returns for an entry that passed next_common *)
Definition next_entry (cfg : jcfg) (ev : env) (o : output) (e : entry) : next_res :=
  match cfg_dispatch cfg o with
  | DShort fmt mono => of_opt (render_short cfg ev fmt mono e)
  | DVerbose => of_opt (render_verbose cfg ev e)
  | DExport => NFound (render_export (host_view cfg ev e))
  | DCat => match get_data (cfg_k_cat cfg) e with
            | Some m => NFound (m ++ [NL])
            | None => NErrIgnore
            end
  end.

(* the bytes written for one entry (ErrIgnore: nothing, the loop continues) *)
Definition entry_bytes (r : next_res) : bytes := match r with NFound b => b | _ => [] end.
Definition is_found (r : next_res) : bool := match r with NFound _ => true | _ => false end.
Definition is_panic (r : next_res) : bool := match r with NPanic => true | _ => false end.

(* stdout of the loop of exec_journalprocessor; a panic ends the output *)
Fixpoint emit (rs : list next_res) : bytes :=
  match rs with
  | [] => []
  | NPanic :: _ => []
  | r :: rest => entry_bytes r ++ emit rest
  end.

(* bytes on stdout for one journal file, for any of the ten renderings *)
Definition journal_stdout10 sd_head sd_rt stop (cfg : jcfg) (ev : env) (o : output)
           (A B : option Z) (j : journal) : bytes :=
  emit (map (next_entry cfg ev o) (journal_run sd_head sd_rt stop A B j)).

(* number of records printed *)
Definition journal_printed10 sd_head sd_rt stop (cfg : jcfg) (ev : env) (o : output)
           (A B : option Z) (j : journal) : nat :=
  length (filter is_found (map (next_entry cfg ev o) (journal_run sd_head sd_rt stop A B j))).

(* ------------------------------------------------------------------ conditions on the configuration *)

(* every datetime format the dispatch table names is accepted by the formatter (checked on one
   instant: acceptance does not depend on the instant) *)
Definition fmt_accepted (fmt : bytes) : bool := is_some (jstrftime fmt 0 0).
Definition dispatch_fmt_ok (d : dispatch) : bool :=
  match d with DShort fmt false => fmt_accepted fmt | _ => true end.
Definition cfg_formats_ok (cfg : jcfg) : bool :=
  forallb (fun o => dispatch_fmt_ok (cfg_dispatch cfg o)) all_outputs && fmt_accepted (cfg_fmt_verbose cfg).

(* the entries handed to the renderer, each with what the renderer returned *)
Definition journal_trace10 sd_head sd_rt stop (cfg : jcfg) (ev : env) (o : output)
           (A B : option Z) (j : journal) : list (entry * next_res) :=
  map (fun e => (e, next_entry cfg ev o e)) (journal_run sd_head sd_rt stop A B j).

(* the six keys of next_short are pairwise different, so that the first matching arm is the only one *)
Definition short_keys (cfg : jcfg) : list bytes :=
  [cfg_k_host cfg; cfg_k_ident cfg; cfg_k_spid cfg; cfg_k_comm cfg; cfg_k_pid cfg; cfg_k_msg cfg].
Fixpoint distinctb (l : list bytes) : bool :=
  match l with
  | [] => true
  | k :: r => negb (existsb (beqb k) r) && distinctb r
  end.

(* decidable conditions under which the theorems of Proofs/JournalRender*.v hold; Gen/JournalTables.v ::
   src_cfg satisfies them (Proofs/JournalRenderCfg.v, by computation: it fails when the source changes
   in a way the theorems do not cover) *)
Definition cfg_ok (cfg : jcfg) : bool :=
  cfg_formats_ok cfg
  && distinctb (short_keys cfg)
  && (Nat.eqb (length (cfg_short_need cfg)) 6 && nth 5 (cfg_short_need cfg) false)   (* the early end needs MESSAGE *)
  && beqb (cfg_k_cat cfg) (cfg_k_msg cfg)
  && negb (beqb (cfg_k_msg cfg) (cfg_k_selinux cfg))
  && negb (beqb (cfg_k_msg cfg) (cfg_k_mono cfg))
  && negb (beqb (cfg_k_msg cfg) (cfg_k_source_rt cfg))
  && Nat.eqb (cfg_emerg_export cfg) EMERG_STOP.

Definition is_cat (d : dispatch) : bool := match d with DCat => true | _ => false end.

(* [a] occurs in [b] as a contiguous block *)
Definition infix (a b : bytes) : Prop := exists p s, b = p ++ a ++ s.

(* the configuration with / without the call of sd_id128_get_boot in get_monotonic_usec, with a HashMap / a Vec
   in next_verbose, with another order table *)
Definition set_flags (host multi : bool) (order : list bytes) (cfg : jcfg) : jcfg :=
  mkCfg (cfg_override cfg) (cfg_dispatch cfg) (cfg_fmt_verbose cfg) order (cfg_field_beg cfg)
        (cfg_emerg_short cfg) (cfg_emerg_verbose cfg) (cfg_emerg_export cfg)
        (cfg_k_host cfg) (cfg_k_ident cfg) (cfg_k_spid cfg) (cfg_k_comm cfg) (cfg_k_pid cfg) (cfg_k_msg cfg)
        (cfg_short_need cfg) (cfg_k_selinux cfg) (cfg_trim cfg) (cfg_k_source_rt cfg) (cfg_k_mono cfg) (cfg_k_cat cfg)
        (cfg_mono_div cfg) (cfg_mono_width cfg) (cfg_mono_prec cfg) (cfg_mono_blank cfg) host multi.
Definition set_needs_host (b : bool) (cfg : jcfg) : jcfg := set_flags b (cfg_verbose_multi cfg) (cfg_order cfg) cfg.
Definition set_verbose_multi (b : bool) (cfg : jcfg) : jcfg := set_flags (cfg_mono_needs_host cfg) b (cfg_order cfg) cfg.
Definition set_order (o : list bytes) (cfg : jcfg) : jcfg := set_flags (cfg_mono_needs_host cfg) (cfg_verbose_multi cfg) o cfg.

(* boolean test of [infix] *)
Fixpoint prefixb (a b : bytes) : bool :=
  match a, b with
  | [], _ => true
  | x :: a', y :: b' => (x =? y) && prefixb a' b'
  | _ :: _, [] => false
  end.
Fixpoint infixb (a b : bytes) : bool :=
  prefixb a b || match b with [] => false | _ :: b' => infixb a b' end.
