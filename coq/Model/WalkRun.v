(* Model/WalkRun.v — C15, work package L: the RUN that a command line stands for.
   Definitions only.  The output of a run is a function [prog] of the list of sources that the
   processed list opens: one per FileValid record, in order (PathId = position).  What a record
   (path string, file type) opens is the filesystem's business: an oracle [file_of].
   [spec_prog] is the [prog] of interest: the composed program SPECIFICATION of work package H
   (Model/Program.v [program_spec]: stdout items and summary totals as a function of the options
   and the list of sources). *)
From Coq Require Import List NArith ZArith.
Import ListNotations.
From S4.Base Require Import Bytes.
From S4.Model Require Import Classify Walk.
From S4.Model Require Program.

Section Run.
  Variable sfx_table : list (bytes * sfx_action).
  Variable name_table : list (bytes * name_action).
  Variable junk junk_lead : list N.
  (* the source a FileValid record opens: its prepended name, its kind, its (decompressed) bytes *)
  Variable file_of : bytes -> ftype -> Program.pfile.
  Variable R : Type.
  Variable prog : list Program.pfile -> R.      (* the rest of the program, options applied *)

  Definition files_of (l : list ppr) : list Program.pfile :=
    flat_map (fun r => match r with PValid p t => [file_of p t] | _ => [] end) l.

  (* s4 <argv> with <stdin>, cwd = the model root *)
  Definition run_output (root : tree) (argv : list bytes) (stdin : bytes) : R :=
    prog (files_of (run_s sfx_table name_table junk junk_lead root (args_of argv stdin))).
End Run.

(* program_spec as a [prog].  Model/Program.v is being extended while this is written: its oracles
   were two Section variables (dated, dtspan) and become one record.  The oracle argument(s) are
   read off the type of program_spec, so both forms elaborate here. *)
Definition spec_oracles : Type :=
  ltac:(let t := type of Program.program_spec in
        match t with
        | ?A -> Program.options -> _ => exact A
        | ?A -> ?B -> Program.options -> _ => exact (A * B)%type
        end).
Definition spec_prog : spec_oracles -> Program.options -> list Program.pfile -> list Print.out * Summary.summ :=
  ltac:(let t := type of Program.program_spec in
        match t with
        | ?A -> Program.options -> _ => exact Program.program_spec
        | ?A -> ?B -> Program.options -> _ => exact (fun d : A * B => Program.program_spec (fst d) (snd d))
        end).
