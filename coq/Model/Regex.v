(* Model/Regex.v — C04: a regex-with-captures model for the timestamp patterns of
   DATETIME_PARSE_DATAS (src/data/datetime.rs), as `regex::bytes::Regex::new(pattern)` builds them:
   Unicode mode ON (classes, `.` and literals range over Unicode scalar values and consume one whole
   UTF-8 encoded code point; a byte sequence that is not valid UTF-8 matches no class), no multi-line
   flag (`^` = offset 0 of the haystack, `$` = its end), leftmost-first (Perl-like) match priority:
   alternation prefers the left branch, greedy repetition prefers one more iteration, `x{m,n}` is
   m copies followed by n-m NESTED optionals (as regex-syntax/regex-automata compile it), an unanchored
   search tries every byte offset from the left.
   Definitions only (proofs: Proofs/RegexProofs.v).  The AST covers exactly the syntax the project's
   patterns use; tools/gen/regexes.py parses the compiled pattern strings into it (Gen/RegexTables.v)
   and refuses anything else.

   The engine is a continuation-passing backtracking matcher, generic in the machine state (Section
   Engine): the concrete instance runs on bytes, the symbolic instance on texts whose characters are
   SETS of bytes and answers Unknown when a test is not decided by the sets — that instance is what
   the universal theorems evaluate (Proofs/RegexProofs.v proves it sound for every concretisation).
   Explicit fuel for unbounded repetition (OutOfFuel); an iteration of `*`/`+` that consumes nothing
   is rejected (the translator refuses unbounded repetition of a nullable body, and
   Proofs/RegexProofs.no_nullable_star re-checks the regenerated table, so this rule is never used). *)
From Coq.Strings Require Import Byte.
From S4.Base Require Import Bytes.
Open Scope N_scope.

(* ------------------------------------------------------------------ syntax *)
Inductive posix := P_alnum | P_alpha | P_ascii | P_blank | P_cntrl | P_digit | P_graph | P_lower
                 | P_print | P_punct | P_space | P_upper | P_word | P_xdigit.
Inductive citem := CRange (lo hi : N) | CPosix (neg : bool) (p : posix).
Record cls := mkCls { cls_neg : bool; cls_items : list citem }.

Inductive re :=
| REps | RBol | REol
| RDot                                   (* any scalar value except U+000A *)
| RChar (ci : bool) (c : N)              (* one code point; ci = inside a (?i) region *)
| RBytes (l : bytes)                     (* a run of case-sensitive literals, UTF-8 encoded *)
| RClass (ci : bool) (c : cls)
| RSeq (a b : re)
| RAlt (a b : re)
| RRep (mn : nat) (mx : option nat) (greedy : bool) (a : re)
| RGroup (g : N) (a : re).               (* capture group number g >= 1 (named or not) *)

Fixpoint seqs (l : list re) : re :=
  match l with [] => REps | [x] => x | x :: r => RSeq x (seqs r) end.
Fixpoint alts (l : list re) : re :=
  match l with [] => REps | [x] => x | x :: r => RAlt x (alts r) end.

(* one row of the generated table *)
Record rx_row := mkRx {
  rx_index : N; rx_re : re; rx_ncap : N;
  rx_names : list (N * N);                (* (field id, capture group number) *)
  rx_start : N; rx_end : N;               (* slice range of the line the regex is run on *)
  rx_first : N; rx_last : N }.            (* group numbers of cgn_first / cgn_last *)

(* ------------------------------------------------------------------ character predicates *)
Definition btw (lo hi c : N) : bool := (lo <=? c) && (c <=? hi).
Definition in_posix (p : posix) (c : N) : bool :=
  match p with
  | P_alnum => btw 48 57 c || btw 65 90 c || btw 97 122 c
  | P_alpha => btw 65 90 c || btw 97 122 c
  | P_ascii => c <=? 127
  | P_blank => (c =? 32) || (c =? 9)
  | P_cntrl => (c <=? 31) || (c =? 127)
  | P_digit => btw 48 57 c
  | P_graph => btw 33 126 c
  | P_lower => btw 97 122 c
  | P_print => btw 32 126 c
  | P_punct => btw 33 47 c || btw 58 64 c || btw 91 96 c || btw 123 126 c
  | P_space => btw 9 13 c || (c =? 32)
  | P_upper => btw 65 90 c
  | P_word => btw 48 57 c || btw 65 90 c || btw 97 122 c || (c =? 95)
  | P_xdigit => btw 48 57 c || btw 65 70 c || btw 97 102 c
  end.
Definition in_item (c : N) (it : citem) : bool :=
  match it with
  | CRange lo hi => btw lo hi c
  | CPosix neg p => xorb neg (in_posix p c)
  end.

(* Unicode simple case folding, restricted to what can fold onto ASCII (the translator admits only
   ASCII inside (?i)): the letters, U+017F LATIN SMALL LETTER LONG S ~ s, U+212A KELVIN SIGN ~ k *)
Definition orbit (c : N) : list N :=
  if btw 65 90 c then c :: (c + 32) :: (if c =? 83 then [383] else if c =? 75 then [8490] else [])
  else if btw 97 122 c then c :: (c - 32) :: (if c =? 115 then [383] else if c =? 107 then [8490] else [])
  else if c =? 383 then [c; 115; 83]
  else if c =? 8490 then [c; 107; 75]
  else [c].

Definition in_cls (ci : bool) (cl : cls) (c : N) : bool :=
  xorb (cls_neg cl)
       (if ci then existsb (fun x => existsb (in_item x) (cls_items cl)) (orbit c)
        else existsb (in_item c) (cls_items cl)).
Definition is_char (ci : bool) (lit c : N) : bool :=
  if ci then existsb (N.eqb lit) (orbit c) else c =? lit.
Definition is_dot (c : N) : bool := negb (c =? 10).

(* ------------------------------------------------------------------ UTF-8 (strict: no overlong forms,
   no surrogates, nothing above U+10FFFF) *)
Definition cont (b : N) : bool := btw 128 191 b.
Definition decode (s : bytes) : option (N * N * bytes) :=     (* code point, byte length, rest *)
  match s with
  | [] => None
  | b0 :: r =>
    if b0 <? 128 then Some (b0, 1, r)
    else if b0 <? 194 then None
    else if b0 <? 224 then
      match r with
      | b1 :: r1 => if cont b1 then Some ((b0 - 192) * 64 + (b1 - 128), 2, r1) else None
      | _ => None end
    else if b0 <? 240 then
      match r with
      | b1 :: b2 :: r2 =>
          if (if b0 =? 224 then btw 160 191 b1 else if b0 =? 237 then btw 128 159 b1 else cont b1) && cont b2
          then Some ((b0 - 224) * 4096 + (b1 - 128) * 64 + (b2 - 128), 3, r2) else None
      | _ => None end
    else if b0 <? 245 then
      match r with
      | b1 :: b2 :: b3 :: r3 =>
          if (if b0 =? 240 then btw 144 191 b1 else if b0 =? 244 then btw 128 143 b1 else cont b1) && cont b2 && cont b3
          then Some ((b0 - 240) * 262144 + (b1 - 128) * 4096 + (b2 - 128) * 64 + (b3 - 128), 4, r3) else None
      | _ => None end
    else None
  end.

(* ------------------------------------------------------------------ outcomes *)
Inductive res (A : Type) := Match (a : A) | NoMatch | OutOfFuel | Unknown.
Arguments Match {A} a. Arguments NoMatch {A}. Arguments OutOfFuel {A}. Arguments Unknown {A}.
Inductive sres (St : Type) := SOk (s : St) | SFail | SUnk.
Arguments SOk {St} s. Arguments SFail {St}. Arguments SUnk {St}.
Inductive tri := TT | TF | TU.

(* ------------------------------------------------------------------ the engine *)
Section Engine.
  Variable St : Type.                                   (* machine state: position, input, captures *)
  Variable A : Type.                                    (* answer of the final continuation *)
  Variable step_cp : (N -> bool) -> St -> sres St.      (* consume one code point satisfying the predicate *)
  Variable step_bytes : bytes -> St -> sres St.         (* consume exactly these bytes *)
  Variable at_bol : St -> tri.
  Variable at_eol : St -> tri.
  Variable set_group : N -> St -> St -> St.             (* group, state at its start, state at its end *)
  Variable progressed : St -> St -> bool.               (* the second state is strictly further *)

  Definition kont := St -> res A.
  Definition mfun := St -> kont -> res A.

  Definition do_step (r : sres St) (k : kont) : res A :=
    match r with SOk s' => k s' | SFail => NoMatch | SUnk => Unknown end.
  Definition do_test (t : tri) (s : St) (k : kont) : res A :=
    match t with TT => k s | TF => NoMatch | TU => Unknown end.

  (* n mandatory copies *)
  Fixpoint seqn (n : nat) (body : mfun) (s : St) (k : kont) : res A :=
    match n with
    | O => k s
    | Datatypes.S n' => body s (fun s' => seqn n' body s' k)
    end.
  (* up to n further copies, nested: (x(x(x)?)?)? *)
  Fixpoint optn (n : nat) (g : bool) (body : mfun) (s : St) (k : kont) : res A :=
    match n with
    | O => k s
    | Datatypes.S n' =>
        if g then match body s (fun s' => optn n' g body s' k) with NoMatch => k s | r => r end
        else match k s with NoMatch => body s (fun s' => optn n' g body s' k) | r => r end
    end.
  (* unbounded: one unit of fuel per iteration; an iteration must consume *)
  Fixpoint star (fuel : nat) (g : bool) (body : mfun) (s : St) (k : kont) : res A :=
    match fuel with
    | O => OutOfFuel
    | Datatypes.S f =>
        if g then match body s (fun s' => if progressed s s' then star f g body s' k else NoMatch) with
                  | NoMatch => k s | r => r end
        else match k s with
             | NoMatch => body s (fun s' => if progressed s s' then star f g body s' k else NoMatch)
             | r => r end
    end.

  Variable fuel : nat.

  Fixpoint m (r : re) : mfun :=
    match r with
    | REps => fun s k => k s
    | RBol => fun s k => do_test (at_bol s) s k
    | REol => fun s k => do_test (at_eol s) s k
    | RDot => fun s k => do_step (step_cp is_dot s) k
    | RChar ci c => fun s k => do_step (step_cp (is_char ci c) s) k
    | RBytes l => fun s k => do_step (step_bytes l s) k
    | RClass ci c => fun s k => do_step (step_cp (in_cls ci c) s) k
    | RSeq a b => fun s k => m a s (fun s' => m b s' k)
    | RAlt a b => fun s k => match m a s k with NoMatch => m b s k | x => x end
    | RRep mn mx g a => fun s k =>
        seqn mn (m a) s (fun s' => match mx with
                                   | None => star fuel g (m a) s' k
                                   | Some x => optn (x - mn) g (m a) s' k
                                   end)
    | RGroup g a => fun s k => m a s (fun s' => k (set_group g s s'))
    end.
End Engine.

(* ------------------------------------------------------------------ the concrete instance: bytes *)
Record cst := mkC { c_pos : N; c_rem : bytes; c_caps : list (N * (N * N)) }.

Definition c_step_cp (p : N -> bool) (s : cst) : sres cst :=
  match decode (c_rem s) with
  | Some (c, len, r) => if p c then SOk (mkC (c_pos s + len) r (c_caps s)) else SFail
  | None => SFail
  end.
Fixpoint eat (l rem : bytes) (pos : N) : option (N * bytes) :=
  match l with
  | [] => Some (pos, rem)
  | x :: l' => match rem with
               | y :: rem' => if x =? y then eat l' rem' (pos + 1) else None
               | [] => None end
  end.
Definition c_step_bytes (l : bytes) (s : cst) : sres cst :=
  match eat l (c_rem s) (c_pos s) with
  | Some (p, r) => SOk (mkC p r (c_caps s))
  | None => SFail
  end.
Definition c_at_bol (s : cst) : tri := if c_pos s =? 0 then TT else TF.
Definition c_at_eol (s : cst) : tri := match c_rem s with [] => TT | _ => TF end.
Definition c_set_group (g : N) (s0 s1 : cst) : cst :=
  mkC (c_pos s1) (c_rem s1) ((g, (c_pos s0, c_pos s1)) :: c_caps s1).
Definition c_progressed (s0 s1 : cst) : bool := c_pos s0 <? c_pos s1.

Definition cm (A : Type) (fuel : nat) : re -> cst -> (cst -> res A) -> res A :=
  m cst A c_step_cp c_step_bytes c_at_bol c_at_eol c_set_group c_progressed fuel.

(* a match: start offset and the final state (end offset, captures; latest entry of a group wins) *)
Definition accept : cst -> res cst := fun s => Match s.
Definition match_at (fuel : nat) (r : re) (pos : N) (rem : bytes) : res cst :=
  cm cst fuel r (mkC pos rem []) accept.

(* leftmost: the first BYTE offset at which the pattern matches *)
Fixpoint search_from (fuel : nat) (r : re) (pos : N) (rem : bytes) : res (N * cst) :=
  match match_at fuel r pos rem with
  | Match s => Match (pos, s)
  | NoMatch => match rem with
               | [] => NoMatch
               | _ :: rem' => search_from fuel r (pos + 1) rem'
               end
  | OutOfFuel => OutOfFuel
  | Unknown => Unknown
  end.

Definition fuel_for (text : bytes) : nat := Datatypes.S (length text).
Definition search (r : re) (text : bytes) : res (N * cst) := search_from (fuel_for text) r 0 text.

Fixpoint cap_lookup (g : N) (caps : list (N * (N * N))) : option (N * N) :=
  match caps with
  | [] => None
  | (g', sp) :: r => if g' =? g then Some sp else cap_lookup g r
  end.

(* spans of groups 0..n of a match (0 = the whole match), as Captures::get(i) reports them *)
Fixpoint spans_upto (n : nat) (g : N) (caps : list (N * (N * N))) : list (option (N * N)) :=
  match n with
  | O => []
  | Datatypes.S n' => cap_lookup g caps :: spans_upto n' (g + 1) caps
  end.
Definition spans_of (ncap : N) (m : N * cst) : list (option (N * N)) :=
  Some (fst m, c_pos (snd m)) :: spans_upto (N.to_nat ncap) 1 (c_caps (snd m)).

(* ------------------------------------------------------------------ a row applied to a line *)
(* SyslineReader: data = line[range.start .. min(len, range.end)], skipped when empty *)
Definition slice_of (row : rx_row) (line : bytes) : option bytes :=
  let len := N.of_nat (length line) in
  if len <=? rx_start row then None
  else let e := N.min len (rx_end row) in
       if e <=? rx_start row then None
       else Some (firstn (N.to_nat (e - rx_start row)) (skipn (N.to_nat (rx_start row)) line)).

Definition shift_span (d : N) (o : option (N * N)) : option (N * N) :=
  match o with Some (a, b) => Some (a + d, b + d) | None => None end.

(* None = the regex is not run or does not match; spans are offsets into the LINE *)
Definition row_spans (row : rx_row) (line : bytes) : res (option (list (option (N * N)))) :=
  match slice_of row line with
  | None => Match None
  | Some sl => match search (rx_re row) sl with
               | Match mt => Match (Some (map (shift_span (rx_start row)) (spans_of (rx_ncap row) mt)))
               | NoMatch => Match None
               | OutOfFuel => OutOfFuel
               | Unknown => Unknown
               end
  end.

(* ------------------------------------------------------------------ the symbolic instance *)
(* a symbolic character: one concrete byte, or any ONE byte of a set of ASCII bytes; a symbolic text
   ends either at the end of the haystack or in an unconstrained remainder *)
Inductive sym := SyB (b : N) | SyS (set : list N).
(* tail: end of the haystack / anything / any number (possibly zero) of bytes all taken from a set of ASCII bytes *)
Inductive stail := TEnd | TAny | TStar (set : list N).
(* what is known about the haystack offset of symbolic position 0:
   OAbs = it is offset 0 (`^` is decided by s_pos); ONz = it is some offset >= 1 (`^` fails); OUnk = nothing *)
Inductive org := OAbs | ONz | OUnk.
Record sst := mkS { s_pos : N; s_org : org; s_rem : list sym; s_tail : stail; s_caps : list (N * (N * N)) }.

Definition sym_ascii (y : sym) : bool :=
  match y with SyB b => b <? 128 | SyS l => forallb (fun b => b <? 128) l end.

(* concrete prefix of a symbolic text (for decoding a multi-byte literal) *)
Fixpoint sym_bytes (n : nat) (l : list sym) : option bytes :=
  match n with
  | O => Some []
  | Datatypes.S n' => match l with
                      | SyB b :: r => option_map (cons b) (sym_bytes n' r)
                      | _ => None end
  end.
Definition lead_len (b : N) : nat :=
  if b <? 128 then 1 else if b <? 224 then 2 else if b <? 240 then 3 else 4.

Definition s_step_cp (p : N -> bool) (s : sst) : sres sst :=
  match s_rem s with
  | [] => match s_tail s with
          | TEnd => SFail
          | TAny => SUnk
          | TStar set => (* the next byte, if there is one, is an ASCII byte of the set: one code point *)
              if forallb (fun b => (b <? 128) && negb (p b)) set then SFail else SUnk
          end
  | SyS set :: r =>
      if forallb (fun b => b <? 128) set then
        match set with
        | [] => SUnk
        | _ => if forallb p set then SOk (mkS (s_pos s + 1) (s_org s) r (s_tail s) (s_caps s))
               else if forallb (fun b => negb (p b)) set then SFail else SUnk
        end
      else SUnk
  | SyB b :: r =>
      if b <? 128 then (if p b then SOk (mkS (s_pos s + 1) (s_org s) r (s_tail s) (s_caps s)) else SFail)
      else let n := lead_len b in
           match sym_bytes n (s_rem s) with
           | Some bs => match decode bs with
                        | Some (c, len, _) =>
                            if p c then SOk (mkS (s_pos s + len) (s_org s) (skipn (N.to_nat len) (s_rem s)) (s_tail s) (s_caps s))
                            else SFail
                        | None => (* the n concrete bytes are no valid encoding *) SFail
                        end
           | None => SUnk
           end
  end.

Fixpoint s_eat (l : bytes) (rem : list sym) (tail : stail) (pos : N) : sres (N * list sym) :=
  match l with
  | [] => SOk (pos, rem)
  | x :: l' => match rem with
               | SyB y :: rem' => if x =? y then s_eat l' rem' tail (pos + 1) else SFail
               | SyS set :: rem' =>
                   match set with
                   | [] => SUnk
                   | _ => if forallb (N.eqb x) set then s_eat l' rem' tail (pos + 1)
                          else if forallb (fun b => negb (x =? b)) set then SFail else SUnk
                   end
               | [] => match tail with
                       | TEnd => SFail
                       | TAny => SUnk
                       | TStar set => if forallb (fun b => negb (x =? b)) set then SFail else SUnk
                       end
               end
  end.
Definition s_step_bytes (l : bytes) (s : sst) : sres sst :=
  match s_eat l (s_rem s) (s_tail s) (s_pos s) with
  | SOk (p, r) => SOk (mkS p (s_org s) r (s_tail s) (s_caps s))
  | SFail => SFail
  | SUnk => SUnk
  end.
Definition s_at_bol (s : sst) : tri :=
  match s_org s with
  | OAbs => if s_pos s =? 0 then TT else TF
  | ONz => TF
  | OUnk => TU
  end.
Definition s_at_eol (s : sst) : tri :=
  match s_rem s with
  | _ :: _ => TF
  | [] => match s_tail s with TEnd => TT | _ => TU end
  end.
Definition s_set_group (g : N) (s0 s1 : sst) : sst :=
  mkS (s_pos s1) (s_org s1) (s_rem s1) (s_tail s1) ((g, (s_pos s0, s_pos s1)) :: s_caps s1).
Definition s_progressed (s0 s1 : sst) : bool := s_pos s0 <? s_pos s1.

Definition sm (A : Type) (fuel : nat) : re -> sst -> (sst -> res A) -> res A :=
  m sst A s_step_cp s_step_bytes s_at_bol s_at_eol s_set_group s_progressed fuel.
Definition s_accept : sst -> res sst := fun s => Match s.

(* ------------------------------------------------------------------ hex strings for generated data
   (lists of Byte.byte: one constructor per character, a third of the kernel's work compared with
   Ascii-based [string] literals) *)
Record hexs := mkH { hb : list Byte.byte }.
Declare Scope hex_scope.
Delimit Scope hex_scope with hex.
String Notation hexs mkH hb : hex_scope.
Definition hv (b : Byte.byte) : N :=
  let n := Byte.to_N b in if 97 <=? n then n - 87 else if 65 <=? n then n - 55 else n - 48.
Fixpoint unhexb (l : list Byte.byte) : bytes :=
  match l with a :: b :: r => (16 * hv a + hv b) :: unhexb r | _ => [] end.
Definition unhexs (h : hexs) : bytes := unhexb (hb h).

(* one documented example of a row (`_test_cases` of the DTPD! entry): text, expected [dt_beg, dt_end),
   documented offset (None = O_L, the local / fallback zone), documented fields
   (year None = YD, the dummy year of a year-less notation; month day hour minute second nanosecond) *)
Record rx_example := mkEx {
  ex_row : N; ex_text : hexs; ex_beg : N; ex_end : N; ex_off : option Z;
  ex_year : option Z; ex_rest : Z * Z * Z * Z * Z * Z }.
