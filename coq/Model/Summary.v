(* Model/Summary.v — the printing half of `processing_loop` (src/bin/s4.rs) and the
   accounting of src/printer/summary.rs (SummaryPrinted), transcribed.
   Definitions only.

   The coordinator's choice of WHICH message is printed next is the subject of
   C01/C06; here the input is the sequence of print events it performs. *)
From S4.Base Require Import Bytes.
From S4.Model Require Import Strftime Print.
Open Scope nat_scope.

(* the string that is prepended for a source: its basename (-n) or its path (-p),
   with `chars().count()` and unicode display width (both = length for ASCII) *)
Record source := { s_name : bytes; s_nchars : nat; s_width : nat }.

Record cli := {
  c_colour : bool;            (* --color always (true) / never (false) *)
  c_prepend_file : bool;      (* -n or -p *)
  c_align : bool;             (* -w *)
  c_psep : bytes;             (* --prepend-separator *)
  c_fmt : option bytes;       (* prepend_dt_format after cli_process_args: Some when -u/-l/-z/-d *)
  c_off : Z;                  (* cli_opt_prepend_offset, seconds *)
  c_sep : bytes;              (* --separator, already unescaped *)
  c_summary : bool            (* --summary *)
}.

Record event := { e_src : nat; e_msg : msg; e_is_last : bool }.

(* --separator: unescape::unescape_str.  None = error exit *)
Definition unescape_char (c : N) : option N :=
  (if c =? 48 then Some 0          (* \0 *)
   else if c =? 97 then Some 7     (* \a *)
   else if c =? 98 then Some 8     (* \b *)
   else if c =? 101 then Some 27   (* \e *)
   else if c =? 102 then Some 12   (* \f *)
   else if c =? 110 then Some 10   (* \n *)
   else if c =? 114 then Some 13   (* \r *)
   else if c =? 92 then Some 92    (* \\ *)
   else if c =? 116 then Some 9    (* \t *)
   else if c =? 118 then Some 11   (* \v *)
   else None)%N.

Fixpoint unescape (l : bytes) : option bytes :=
  match l with
  | [] => Some []
  | b :: r =>
    if (b =? 92)%N then
      match r with
      | [] => None
      | c :: r' => match unescape_char c with
                   | Some x => ocons x (unescape r')
                   | None => None
                   end
      end
    else ocons b (unescape r)
  end.

(* ---------------------------------------------------------------- first_print block *)
Definition dsrc : source := {| s_name := []; s_nchars := 0; s_width := 0 |}.
Definition src_at (srcs : list source) (i : nat) : source := nth i srcs dsrc.

(* prependname_width: maximum display width over the sources that hold a message *)
Definition prepend_width (c : cli) (srcs : list source) (printed : list nat) : nat :=
  if c_align c then fold_right (fun i w => Nat.max (s_width (src_at srcs i)) w) 0 printed else 0.

(* format!("{0:<1$}{2}", name, width, sep): pads by character count *)
Definition file_field (c : cli) (width : nat) (s : source) : bytes :=
  s_name s ++ repeat 32%N (width - s_nchars s) ++ c_psep c.

Definition date_fmt (c : cli) : bytes :=
  match c_fmt c with Some f => f ++ c_psep c | None => [] end.

Definition printer_opts (c : cli) (width : nat) (s : source) : popts :=
  {| o_colour := c_colour c;
     o_file := c_prepend_file c;
     o_date := negb (nilb (date_fmt c));
     o_ff := file_field c width s;
     o_fmt := date_fmt c;
     o_off := c_off c |}.

(* ---------------------------------------------------------------- SummaryPrinted *)
Record summ := {
  u_bytes : N; u_lines : N;
  u_sys : N; u_fixed : N; u_evtx : N; u_journal : N;
  u_first : option Z; u_last : option Z
}.

Definition summ0 : summ :=
  {| u_bytes := 0; u_lines := 0; u_sys := 0; u_fixed := 0; u_evtx := 0; u_journal := 0;
     u_first := None; u_last := None |}.

Definition upd_first (o : option Z) (t : Z) : option Z :=
  match o with Some f => if (t <? f)%Z then Some t else Some f | None => Some t end.
Definition upd_last (o : option Z) (t : Z) : option Z :=
  match o with Some f => if (t >? f)%Z then Some t else Some f | None => Some t end.

(* summaryprint_update_{sysline,fixedstruct,evtx,journalentry} *)
Definition summ_update (u : summ) (m : msg) (printed : N) : summ :=
  let one (k : kind) := match m_kind m, k with
                        | KSys, KSys | KFixed, KFixed | KEvtx, KEvtx | KJournal, KJournal => 1%N
                        | _, _ => 0%N end in
  {| u_bytes := (u_bytes u + printed)%N;
     u_lines := (u_lines u + match m_kind m with KSys => N.of_nat (length (m_lines m)) | _ => 0 end)%N;
     u_sys := (u_sys u + one KSys)%N;
     u_fixed := (u_fixed u + one KFixed)%N;
     u_evtx := (u_evtx u + one KEvtx)%N;
     u_journal := (u_journal u + one KJournal)%N;
     u_first := upd_first (u_first u) (m_t m);
     u_last := upd_last (u_last u) (m_t m) |}.

Definition summ_add_bytes (u : summ) (n : N) : summ :=
  {| u_bytes := (u_bytes u + n)%N; u_lines := u_lines u; u_sys := u_sys u; u_fixed := u_fixed u;
     u_evtx := u_evtx u; u_journal := u_journal u; u_first := u_first u; u_last := u_last u |}.

(* ---------------------------------------------------------------- the print site *)
Definition ends_with_newline (m : msg) : bool :=
  match rev (m_data m) with b :: _ => (b =? 10)%N | [] => false end.

(* `is_last && !syslinep.ends_with_newline()`, text messages only *)
Definition supplied_nl (e : event) : bool :=
  match m_kind (e_msg e) with
  | KSys => e_is_last e && negb (ends_with_newline (e_msg e))
  | _ => false
  end.

Definition trailer (c : cli) (e : event) : bytes :=
  c_sep c ++ (if supplied_nl e then [10%N] else []).

Record cstate := {
  k_stdout : list out;
  k_lasts : nat -> option cls;     (* color_spec_last of each source's printer *)
  k_total : summ;                  (* summaryprinted *)
  k_files : nat -> summ            (* map_pathid_sumpr *)
}.

Definition fupd {A} (f : nat -> A) (i : nat) (v : A) : nat -> A :=
  fun j => if Nat.eqb j i then v else f j.

Definition cstate0 : cstate :=
  {| k_stdout := []; k_lasts := fun _ => None; k_total := summ0; k_files := fun _ => summ0 |}.

Definition step (c : cli) (popt : nat -> popts) (st : cstate) (e : event) : cstate :=
  let i := e_src e in
  let m := e_msg e in
  let r := exec_buf BUFFER_CAP (print_msg (popt i) m)
             {| p_out := []; p_buf := []; p_printed := 0; p_last := k_lasts st i |} in
  let printed := p_printed r in
  let tr := trailer c e in
  {| k_stdout := k_stdout st ++ p_out r ++ obs tr;
     k_lasts := fupd (k_lasts st) i (p_last r);
     k_total := if c_summary c
                then summ_update (summ_add_bytes (k_total st) (blen tr)) m printed
                else k_total st;
     k_files := if c_summary c
                then fupd (k_files st) i (summ_update (k_files st i) m printed)
                else k_files st |}.

Definition popt_of (c : cli) (srcs : list source) (evs : list event) : nat -> popts :=
  let w := prepend_width c srcs (map e_src evs) in
  fun i => printer_opts c w (src_at srcs i).

Definition run_from (c : cli) (popt : nat -> popts) (st : cstate) (evs : list event) : cstate :=
  fold_left (step c popt) evs st.

Definition run (c : cli) (srcs : list source) (evs : list event) : cstate :=
  run_from c (popt_of c srcs evs) cstate0 evs.

(* what the same events print without any decoration *)
Definition plain_run (evs : list event) : bytes :=
  flat_map (fun e => plain (e_msg e) ++ (if supplied_nl e then [10%N] else [])) evs.

(* expected shape of the decorated stdout, for [strip_msgs] *)
Definition shape_of (c : cli) (popt : nat -> popts) (evs : list event) : list mshape :=
  map (fun e => shape_of_msg (popt (e_src e)) (e_msg e) (c_sep c)
                             (if supplied_nl e then [10%N] else [])) evs.
