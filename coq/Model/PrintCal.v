(* Model/PrintCal.v — the calendar arithmetic needed to print an instant
   (civil date from a day count, proleptic Gregorian).  Definitions only.
   (Written for C13 because Model/Calendar.v of C14 did not exist yet; the two
   agree by construction with chrono's NaiveDate for the printed range, which
   the correspondence run of C13 checks against the binary and python datetime.) *)
From Coq Require Import ZArith.
Open Scope Z_scope.

(* days since 1970-01-01  ->  (year, month 1..12, day 1..31) *)
Definition civil_from_days (z0 : Z) : Z * Z * Z :=
  let z := z0 + 719468 in
  let era := z / 146097 in
  let doe := z - era * 146097 in
  let yoe := (doe - doe / 1460 + doe / 36524 - doe / 146096) / 365 in
  let y := yoe + era * 400 in
  let doy := doe - (365 * yoe + yoe / 4 - yoe / 100) in
  let mp := (5 * doy + 2) / 153 in
  let d := doy - (153 * mp + 2) / 5 + 1 in
  let m := if mp <? 10 then mp + 3 else mp - 9 in
  (if m <=? 2 then y + 1 else y, m, d).

(* inverse direction, used only by examples *)
Definition days_from_civil (y0 m d : Z) : Z :=
  let y := if m <=? 2 then y0 - 1 else y0 in
  let era := y / 400 in
  let yoe := y - era * 400 in
  let mp := if m >? 2 then m - 3 else m + 9 in
  let doy := (153 * mp + 2) / 5 + d - 1 in
  let doe := yoe * 365 + yoe / 4 - yoe / 100 + doy in
  era * 146097 + doe - 719468.

Definition NS : Z := 1000000000.

(* broken-down local time of instant [t] (ns since the epoch) at offset [off] seconds *)
Record civil := { c_year : Z; c_mon : Z; c_day : Z; c_hour : Z; c_min : Z; c_sec : Z; c_nano : Z }.

Definition civil_of (t off : Z) : civil :=
  let loc := t + off * NS in
  let secs := loc / NS in
  let nano := loc mod NS in
  let days := secs / 86400 in
  let sod := secs mod 86400 in
  let '(y, m, d) := civil_from_days days in
  {| c_year := y; c_mon := m; c_day := d;
     c_hour := sod / 3600; c_min := (sod mod 3600) / 60; c_sec := sod mod 60; c_nano := nano |}.
