(* Model/Retain.v — what a text-log reader keeps in memory while it streams a file (property C17).

   Code modelled
     src/bin/s4.rs                    exec_syslogprocessor: stage-2 find of the first message, then the
                                      stage-3 loop  find k ; send k ; (is_last -> break) ;
                                      drop_data_try(previous) ; previous := k
     src/readers/syslogprocessor.rs   drop_data_try: `bo_first > 1` -> drop_data(bo_first - 2);
                                      drop_data: skipped when blockoffset == drop_block_last (initially 0,
                                      and only ever set to a value already handled) — so the net effect is
                                      "drop_data(bo) runs iff bo >= 1", i.e. iff first_block(previous) >= 3
     src/readers/syslinereader.rs     drop_data(bo): every stored sysline with blockoffset_last <= bo is
                                      REMOVED FROM THE INDEX; its lines are released only if
                                      Arc::try_unwrap succeeds (nobody else holds the message)
     src/readers/linereader.rs        drop_line: the line leaves `lines`; the blocks of all its parts BUT
                                      THE LAST leave `blocks`
     src/readers/blockreader.rs       blocks are read once, in increasing order; streamed decoders
                                      (gz/bz2/lz4/xz) drop block b-1 from `blocks` when block b is first
                                      read (READ_BLOCK_LOOKBACK_DROP); high-water marks are taken at every
                                      insertion (blocks_highest, lines_stored_highest,
                                      syslines_stored_highest = the --summary lines "blocks high",
                                      "lines high", "syslines high")

   A file is seen through its LAYOUT: the list of (line length incl. newline, line is dated).
   A message is a dated line and the undated lines after it.  `find k` reads the lines of message k
   that are not yet read and one line more (the first line of message k+1, which ends message k).

   Two policies:
     P_cur    the current code: a message that is still referenced by the consumer side (`held`)
              when try_drop reaches it leaves the index and is FORGOTTEN (finding F9a); a block is
              released only as a non-final part of a released line (finding F9b)
     P_retry  (repair, not implemented) such a message is kept in `pending` and retried at the next
              try_drop; a block is also released when the line that ENDS EXACTLY ON ITS LAST BYTE is
              released.
   Definitions only; proofs are in Proofs/RetainProofs.v (bound of P_retry, F9b, F9c),
   Proofs/RetainLayout.v (every layout is well formed), Proofs/RetainLag.v (F9a for every n).
   The windowed reader (search phase first) is Model/RetainSearch.v. *)
From Coq Require Import List NArith Bool Sorted.
Import ListNotations.
Open Scope N_scope.

Inductive policy := P_cur | P_retry.
Record cfg := { pol : policy; streamed : bool }.

(* a line: key (index in the file), first block, last block, "its last byte is the last byte of a
   block", file offset of its last byte, file offset of its first byte *)
Record lspan := { lkey : N; lfb : N; llb : N; ledge : bool; lend : N; lbeg : N }.

(* a message: key (index), first line, other lines, the first line of the next message *)
Record msg := { mkey : N; mfirst : lspan; mbody : list lspan; mnext : option lspan }.

Definition mlines (m : msg) : list lspan := mfirst m :: mbody m.
Definition mlast (m : msg) : lspan := last (mbody m) (mfirst m).
Definition mfb (m : msg) : N := lfb (mfirst m).
Definition mlb (m : msg) : N := llb (mlast m).
Definition mend (m : msg) : N := lend (mlast m).

Definition lenN {A} (l : list A) : N := N.of_nat (length l).
Definition memN (x : N) (l : list N) : bool := existsb (N.eqb x) l.

Record st := {
  blocks : list N;          (* BlockReader.blocks : keys *)
  lines : list lspan;       (* LineReader.lines : the stored lines (key inside) *)
  syslines : list msg;      (* SyslineReader.syslines : the stored messages *)
  pending : list msg;       (* P_retry only: failed releases waiting for a retry *)
  held : list N;            (* keys of messages the consumer side still references *)
  hb : N; hl : N; hs : N;   (* blocks high / lines high / syslines high *)
  nread : N;                (* blocks 0 .. nread-1 have been read *)
  front : option lspan;     (* the last line read (the reader's position) *)
  todo : list msg;          (* messages not yet found, in file order *)
  stage2 : bool;            (* the next find is the stage-2 find of the first message *)
  wprev : option msg;       (* syslinep_last_opt *)
  dok : N; derr : N         (* drop_sysline Ok / Err counters *)
}.

Definition init (ms : list msg) : st :=
  {| blocks := []; lines := []; syslines := []; pending := []; held := [];
     hb := 0; hl := 0; hs := 0; nread := 0; front := None; todo := ms; stage2 := true; wprev := None;
     dok := 0; derr := 0 |}.

(* ---- reading *)
Definition set_blocks (s : st) (bl : list N) (h n : N) : st :=
  {| blocks := bl; lines := lines s; syslines := syslines s; pending := pending s; held := held s;
     hb := h; hl := hl s; hs := hs s; nread := n; front := front s; todo := todo s; stage2 := stage2 s;
     wprev := wprev s; dok := dok s; derr := derr s |}.

(* first read of block b (= nread s): store, take the mark, then the look-behind drop *)
Definition read_block (c : cfg) (s : st) (b : N) : st :=
  let bl := blocks s ++ [b] in
  let h := N.max (hb s) (lenN bl) in
  let bl' := if streamed c && (0 <? b) then filter (fun x => negb (x =? b - 1)) bl else bl in
  set_blocks s bl' h (b + 1).

Fixpoint read_blocks (c : cfg) (cnt : nat) (b : N) (s : st) : st :=
  match cnt with
  | O => s
  | S cnt' => read_blocks c cnt' (b + 1) (read_block c s b)
  end.

Definition add_line (s : st) (l : lspan) : st :=
  let ls := lines s ++ [l] in
  {| blocks := blocks s; lines := ls; syslines := syslines s; pending := pending s; held := held s;
     hb := hb s; hl := N.max (hl s) (lenN ls); hs := hs s; nread := nread s; front := Some l;
     todo := todo s;
     stage2 := stage2 s; wprev := wprev s; dok := dok s; derr := derr s |}.

(* LineReader::find_line of a line not yet stored: read the unread blocks up to its last block *)
Definition read_line (c : cfg) (s : st) (l : lspan) : st :=
  add_line (read_blocks c (N.to_nat (llb l + 1 - nread s)) (nread s) s) l.

Definition opt_list {A} (o : option A) : list A := match o with Some x => [x] | None => [] end.

(* the lines `find m` reads *)
Definition mread (first : bool) (m : msg) : list lspan :=
  (if first then [mfirst m] else []) ++ mbody m ++ opt_list (mnext m).

Definition store_msg (s : st) (m : msg) : st :=
  let sl := syslines s ++ [m] in
  {| blocks := blocks s; lines := lines s; syslines := sl; pending := pending s;
     held := held s ++ [mkey m];
     hb := hb s; hl := hl s; hs := N.max (hs s) (lenN sl); nread := nread s; front := front s;
     todo := todo s;
     stage2 := stage2 s; wprev := wprev s; dok := dok s; derr := derr s |}.

(* find + send: the message is stored and handed to the consumer side *)
Definition do_find (c : cfg) (s : st) (first : bool) (m : msg) : st :=
  store_msg (fold_left (read_line c) (mread first m) s) m.

(* ---- releasing *)
(* the blocks that leave `blocks` when line l is released *)
Definition exitsb (p : policy) (l : lspan) (b : N) : bool :=
  (lfb l <=? b) &&
  match p with
  | P_cur => b <? llb l
  | P_retry => (b <? llb l) || ((b =? llb l) && ledge l)
  end.

Definition release_line (p : policy) (bl : list N) (l : lspan) : list N :=
  filter (fun b => negb (exitsb p l b)) bl.

Definition line_of (m : msg) (l : lspan) : bool := existsb (fun x => lkey x =? lkey l) (mlines m).

Definition release_msg (p : policy) (s : st) (m : msg) : st :=
  {| blocks := fold_left (release_line p) (mlines m) (blocks s);
     lines := filter (fun l => negb (line_of m l)) (lines s);
     syslines := syslines s; pending := pending s; held := held s;
     hb := hb s; hl := hl s; hs := hs s; nread := nread s; front := front s; todo := todo s;
     stage2 := stage2 s; wprev := wprev s; dok := dok s; derr := derr s |}.

Definition is_held (s : st) (m : msg) : bool := memN (mkey m) (held s).

Definition set_index (s : st) (sl pd : list msg) (k e : N) : st :=
  {| blocks := blocks s; lines := lines s; syslines := sl; pending := pd; held := held s;
     hb := hb s; hl := hl s; hs := hs s; nread := nread s; front := front s; todo := todo s;
     stage2 := stage2 s; wprev := wprev s; dok := k; derr := e |}.

(* drop_data_try(p) *)
Definition do_try_drop (c : cfg) (s : st) (p : msg) : st :=
  if mfb p <? 3 then s else
  let bo := mfb p - 2 in
  let retry := filter (fun m => negb (is_held s m)) (pending s) in
  let still := filter (is_held s) (pending s) in
  let cand := filter (fun m => mlb m <=? bo) (syslines s) in
  let keep := filter (fun m => negb (mlb m <=? bo)) (syslines s) in
  let ok := filter (fun m => negb (is_held s m)) cand in
  let fail := filter (is_held s) cand in
  let s1 := fold_left (release_msg (pol c)) (retry ++ ok) s in
  set_index s1 keep
    (match pol c with P_cur => [] | P_retry => still ++ fail end)
    (dok s + lenN retry + lenN ok) (derr s + lenN fail).

Definition set_worker (s : st) (td : list msg) (st2 : bool) (wp : option msg) : st :=
  {| blocks := blocks s; lines := lines s; syslines := syslines s; pending := pending s;
     held := held s; hb := hb s; hl := hl s; hs := hs s; nread := nread s; front := front s;
     todo := td;
     stage2 := st2; wprev := wp; dok := dok s; derr := derr s |}.

(* one iteration of the worker (exec_syslogprocessor) *)
Definition wstep (c : cfg) (s : st) : st :=
  match todo s with
  | [] => s
  | m :: rest =>
      let s1 := do_find c s (stage2 s) m in
      if stage2 s then set_worker s1 rest false None
      else match rest with
           | [] => set_worker s1 [] false (wprev s)                  (* is_last: break *)
           | _ => let s2 := match wprev s with Some p => do_try_drop c s1 p | None => s1 end in
                  set_worker s2 rest false (Some m)
           end
  end.

Inductive event := EW | ER (j : N).

Definition release (s : st) (j : N) : st :=
  {| blocks := blocks s; lines := lines s; syslines := syslines s; pending := pending s;
     held := filter (fun x => negb (x =? j)) (held s);
     hb := hb s; hl := hl s; hs := hs s; nread := nread s; front := front s; todo := todo s;
     stage2 := stage2 s; wprev := wprev s; dok := dok s; derr := derr s |}.

Definition step (c : cfg) (s : st) (e : event) : st :=
  match e with EW => wstep c s | ER j => release s j end.

Definition run (c : cfg) (s : st) (evs : list event) : st := fold_left (step c) evs s.

(* the schedule respects "at most H messages referenced by the consumer side" *)
Fixpoint sched_ok (H : N) (c : cfg) (s : st) (evs : list event) : bool :=
  match evs with
  | [] => true
  | e :: r => let s' := step c s e in (lenN (held s') <=? H) && sched_ok H c s' r
  end.

(* ---- canonical schedules: the consumer is `lag` messages behind (lag = 1: it keeps up) *)
Fixpoint nseq (start : N) (cnt : nat) : list N :=
  match cnt with O => [] | S c => start :: nseq (start + 1) c end.

Definition sched_lag (lag : N) (n : nat) : list event :=
  flat_map (fun k => (if lag <=? k then [ER (k - lag)] else []) ++ [EW]) (nseq 0 n).

(* ---- from a layout to messages *)
Fixpoint spans (bs off key : N) (layout : list (N * bool)) : list (lspan * bool) :=
  match layout with
  | [] => []
  | (len, dated) :: r =>
      let e := off + len - 1 in
      ({| lkey := key; lfb := off / bs; llb := e / bs; ledge := (off + len) mod bs =? 0; lend := e;
         lbeg := off |},
       dated) :: spans bs (off + len) (key + 1) r
  end.

(* group from the right: (undated lines in front of the messages collected so far, messages) *)
Definition group_step (x : lspan * bool) (acc : list lspan * list (lspan * list lspan))
  : list lspan * list (lspan * list lspan) :=
  if snd x then ([], (fst x, fst acc) :: snd acc) else (fst x :: fst acc, snd acc).
Definition group (l : list (lspan * bool)) : list lspan * list (lspan * list lspan) :=
  fold_right group_step ([], []) l.

Fixpoint link (key : N) (g : list (lspan * list lspan)) : list msg :=
  match g with
  | [] => []
  | (f, b) :: r =>
      {| mkey := key; mfirst := f; mbody := b;
         mnext := match r with [] => None | (f', _) :: _ => Some f' end |} :: link (key + 1) r
  end.

(* lines in front of the first dated line belong to no message (outside the property's domain) *)
Definition layout_msgs (bs : N) (layout : list (N * bool)) : list msg :=
  link 0 (snd (group (spans bs 0 0 layout))).

Fixpoint repeat_list {A} (l : list A) (n : nat) : list A :=
  match n with O => [] | S n' => l ++ repeat_list l n' end.

(* high-water marks (blocks, lines, syslines) of a complete run with the consumer `lag` behind *)
Definition marks (s : st) : N * N * N := (hb s, hl s, hs s).
Definition run_layout (c : cfg) (bs : N) (layout : list (N * bool)) (lag : N) : st :=
  let ms := layout_msgs bs layout in
  run c (init ms) (sched_lag lag (length ms)).

(* ---- year-less timestamp notations (finding F9c): stage 2 (process_missing_year) walks the
   whole file backwards and stores every message before anything is printed, and for streamed
   containers blockzero_analysis calls disable_drop_data(), so nothing is ever released.  The
   stores then hold what a run of finds without any drop holds (the order of the finds does not
   matter for the counts). *)
Definition find_all (c : cfg) (ms : list msg) : st :=
  fold_left (fun s m => do_find c s false m) ms (init ms).

(* ---- well-formed message sequences (what Proofs/RetainProofs.v assumes of the input;
   Proofs/RetainLayout.v proves it for every layout) *)
Definition line_ok (bs : N) (l : lspan) : Prop :=
  lfb l <= llb l /\ llb l * bs <= lend l /\ lend l < (llb l + 1) * bs.
(* b is the line after a *)
Definition succ_ok (a b : lspan) : Prop :=
  lkey a < lkey b /\ lend a < lend b /\ lfb b = (if ledge a then llb a + 1 else llb a).
Fixpoint chain {A} (R : A -> A -> Prop) (l : list A) : Prop :=
  match l with
  | x :: t => match t with y :: _ => R x y | [] => True end /\ chain R t
  | [] => True
  end.
Definition file_lines (ms : list msg) : list lspan := flat_map mlines ms.
Definition msg_lt (a b : msg) : Prop := mkey a < mkey b /\ mend a < mend b.
(* at most ml lines, at most span blocks *)
Definition msg_ok (span ml : N) (m : msg) : Prop :=
  lenN (mlines m) <= ml /\ mlb m + 1 <= mfb m + span /\
  Forall (fun l => mfb m <= lfb l /\ llb l <= mlb m) (mlines m).
Fixpoint linked (ms : list msg) : Prop :=
  match ms with
  | [] => True
  | m :: r => mnext m = match r with [] => None | q :: _ => Some (mfirst q) end /\ linked r
  end.
Definition wf (bs span ml : N) (ms : list msg) : Prop :=
  0 < bs /\
  Forall (line_ok bs) (file_lines ms) /\ chain succ_ok (file_lines ms) /\
  match ms with m :: _ => lfb (mfirst m) = 0 | [] => True end /\
  StronglySorted msg_lt ms /\ Forall (msg_ok span ml) ms /\ linked ms.

(* the bounds of the repaired policy: H = messages the consumer side may reference (cap + 2) *)
Definition bound_syslines (bs span : N) : N := (2 * span + 2) * bs + 1.
Definition bound_lines (bs span ml H : N) : N := (bound_syslines bs span + H + 1) * ml + 2.
Definition bound_blocks (bs span H : N) : N := (bound_syslines bs span + H + 3) * span.

(* ---- a decidable version of wf (sound: Proofs/RetainProofs.v wfb_sound), evaluated on every
   generated case by the correspondence run, and the two parameters of a message sequence *)
Definition line_okb (bs : N) (l : lspan) : bool :=
  (lfb l <=? llb l) && (llb l * bs <=? lend l) && (lend l <? (llb l + 1) * bs).
Definition succ_okb (a b : lspan) : bool :=
  (lkey a <? lkey b) && (lend a <? lend b) && (lfb b =? (if ledge a then llb a + 1 else llb a)).
Fixpoint chainb {A} (R : A -> A -> bool) (l : list A) : bool :=
  match l with
  | x :: t => match t with y :: _ => R x y | [] => true end && chainb R t
  | [] => true
  end.
Definition msg_ltb (a b : msg) : bool := (mkey a <? mkey b) && (mend a <? mend b).
Definition msg_okb (span ml : N) (m : msg) : bool :=
  (lenN (mlines m) <=? ml) && (mlb m + 1 <=? mfb m + span) &&
  forallb (fun l => (mfb m <=? lfb l) && (llb l <=? mlb m)) (mlines m).
Definition lspan_eqb (a b : lspan) : bool :=
  (lkey a =? lkey b) && (lfb a =? lfb b) && (llb a =? llb b) && Bool.eqb (ledge a) (ledge b) &&
  (lend a =? lend b) && (lbeg a =? lbeg b).
Fixpoint linkedb (ms : list msg) : bool :=
  match ms with
  | [] => true
  | m :: r => match mnext m, r with
              | None, [] => true
              | Some x, q :: _ => lspan_eqb x (mfirst q)
              | _, _ => false
              end && linkedb r
  end.
Definition wfb (bs span ml : N) (ms : list msg) : bool :=
  (0 <? bs) && forallb (line_okb bs) (file_lines ms) && chainb succ_okb (file_lines ms) &&
  match ms with m :: _ => lfb (mfirst m) =? 0 | [] => true end &&
  chainb msg_ltb ms && forallb (msg_okb span ml) ms && linkedb ms.

Definition max_span (ms : list msg) : N := fold_left (fun a m => N.max a (mlb m + 1 - mfb m)) ms 1.
Definition max_lines (ms : list msg) : N := fold_left (fun a m => N.max a (lenN (mlines m))) ms 1.
