(* Model/StrftimeRt.v — definitions (no proofs) about strftime FORMATS used by the print-then-parse
   round trip of C13: expansion of composite specifiers, the parse-side items of a format item, and
   the decidable condition [rt_ok] "complete and unambiguous".  Evaluated by Corr/C13rt.v. *)
From Coq Require Import ZArith List Bool.
From S4.Base Require Import Bytes.
From S4.Model Require Import Calendar PrintCal Strftime CliDt.
Import ListNotations.
Open Scope Z_scope.

Definition is_digit_b (b : N) : bool := ((48 <=? b) && (b <=? 57))%N.

Definition expand1 (it : fitem) : list fitem :=
  match it with
  | FT => [FH; FLit 58; FM; FLit 58; FS]
  | FF => [FY; FLit 45; Fm; FLit 45; Fd]
  | FPct => [FLit 37]
  | x => [x]
  end.

Definition expand (its : list fitem) : list fitem := flat_map expand1 its.

Definition pitem (it : fitem) : list item :=
  match it with
  | FLit b => [if is_ws_c b then ISpace else ILit b]
  | FY => [INum NYear] | Fm => [INum NMonth] | Fd => [INum NDay]
  | FH => [INum NHour] | FM => [INum NMinute] | FS => [INum NSecond]
  | FDot3 | FDot6 | FDot9 => [IDotFrac]
  | F3 => [IFrac 3] | F6 => [IFrac 6] | F9 => [IFrac 9]
  | Ff => [INano]
  | Fz | Fcz => [ITz false false]
  | Fs => [INum NTimestamp]
  | FT => [INum NHour; ILit 58; INum NMinute; ILit 58; INum NSecond]
  | FF => [INum NYear; ILit 45; INum NMonth; ILit 45; INum NDay]
  | FPct => [ILit 37]
  end.

Definition simple (it : fitem) : bool := match it with FT | FF | FPct => false | _ => true end.

Definition off_min (off : Z) : Z := (Z.abs off + 30) / 60.

Definition needs_nondigit_after (it : fitem) : bool :=
  match it with Fs | FDot3 | FDot6 | FDot9 => true | _ => false end.

Definition starts_nondigit (r : list fitem) : bool :=
  match r with
  | [] => true
  | FLit b :: _ => negb (is_digit_b b)
  | (FDot3 | FDot6 | FDot9 | Fz | Fcz) :: _ => true
  | _ => false
  end.

Fixpoint adj_ok (its : list fitem) : bool :=
  match its with
  | [] => true
  | it :: r => (if needs_nondigit_after it then starts_nondigit r else true) && adj_ok r
  end.

Definition is_ws_lit (it : fitem) : bool := match it with FLit b => is_ws_c b | _ => false end.

Definition item_kind (it : fitem) : option numkind :=
  match it with
  | FY => Some NYear | Fm => Some NMonth | Fd => Some NDay | FH => Some NHour
  | FM => Some NMinute | FS => Some NSecond | Fs => Some NTimestamp | _ => None
  end.

Definition is_kind (k : numkind) (it : fitem) : bool :=
  match item_kind it with Some k' => numkind_eqb k k' | None => false end.

Definition has (k : numkind) (its : list fitem) : bool := existsb (is_kind k) its.

Definition prec_of (it : fitem) : option nat :=
  match it with
  | FDot3 | F3 => Some 3%nat | FDot6 | F6 => Some 6%nat | FDot9 | F9 | Ff => Some 9%nat | _ => None
  end.

Definition is_frac (it : fitem) : bool := match prec_of it with Some _ => true | None => false end.

Definition has_frac (its : list fitem) : bool := existsb is_frac its.

Definition frac_prec_ok (p : nat) (its : list fitem) : bool :=
  forallb (fun it => match prec_of it with Some q => Nat.eqb q p | None => true end) its.

Definition is_zone (it : fitem) : bool := match it with Fz | Fcz => true | _ => false end.

Definition has_z (its : list fitem) : bool := existsb is_zone its.

Definition unit_of_prec (p : nat) : Z := 10 ^ Z.of_nat (9 - p).

Definition trunc_nano (p : nat) (n : Z) : Z := n / unit_of_prec p * unit_of_prec p.

Definition fam_full (e : list fitem) : bool :=
  has NYear e && has NMonth e && has NDay e && has NHour e && has NMinute e && has NSecond e.

Definition fam_epoch (e : list fitem) : bool :=
  has NTimestamp e && negb (has NYear e || has NMonth e || has NDay e || has NHour e || has NMinute e || has NSecond e).

Definition result_unit (p : nat) (e : list fitem) : Z := if has_frac e then unit_of_prec p else 1000000000.

Definition rt_ok (e : list fitem) (p : nat) : bool :=
  adj_ok e && frac_prec_ok p e && ((fam_full e && (negb (has NTimestamp e) || has_z e)) || fam_epoch e).
