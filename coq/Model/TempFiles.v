(* Model/TempFiles.v — interleaving model of the temporary-file protocol (property C18).

   Code modelled:
     src/readers/filedecompressor.rs  decompress_to_ntf : tempfile() ; NAMED_TEMP_FILES.push ; extract
     src/bin/s4.rs                    set_signal_handler closure : clear channel map ; remove every
                                      registered file ; set EXIT_EARLY
                                      main : processing_loop ... ; (fix) remove_named_temp_files ; exit
     NamedTempFile::drop              the owning worker removes its own file when its reader is dropped,
                                      AFTER it has sent its FileSummary (worker threads are not joined).

   One worker per compressed/archived journal or evtx source.  A worker is
   (pc, has_file, registered); the file system and the registry are derived from the
   workers, which keeps every invariant pointwise.

   Three protocols:
     Pold   : the tree before the first fix commit — main exits without touching the files
     Pcur   : the tree after the first fix commit (F11) — main removes every registered file
              before it exits; tempfile() and the push to the registry are separate steps
     Pfixed : the tree after the second fix commit (F5) — creation and registration are one
              atomic step under the registry lock, and are refused once the registry was
              closed by the handler or by main's final sweep (NAMED_TEMP_FILES_CLOSED)
   Which one the current tree implements is read from the source on every run
   (tools/gen/tempproto.py -> Gen/TempProto.v, [current_proto]).
   Definitions only; proofs are in Proofs/TempFilesProofs.v. *)
From Coq Require Import List Bool Arith.
Import ListNotations.

Inductive proto := Pold | Pcur | Pfixed.

Inductive wpc :=
| WInit        (* thread started, nothing created *)
| WCreated     (* tempfile() returned, not yet pushed to NAMED_TEMP_FILES *)
| WRegistered  (* pushed; extracting / reading / sending messages *)
| WDone        (* FileSummary sent (or every send failed); reader not yet dropped *)
| WDropped     (* reader dropped: NamedTempFile removed its file *)
| WRefused.    (* Pfixed only: registration refused, no file was created *)

Record worker := { pc : wpc; has_file : bool; registered : bool }.

Inductive mpc := MRun | MSwept | MExited.

Record state := {
  ws : list worker;
  hpc : nat;          (* handler: 0 not started, 1 channel map cleared, 2 files removed, 3 EXIT_EARLY set *)
  closed : bool;      (* Pfixed: registry closed *)
  mp : mpc
}.

Definition w0 : worker := {| pc := WInit; has_file := false; registered := false |}.
Definition init (n : nat) : state :=
  {| ws := repeat w0 n; hpc := 0; closed := false; mp := MRun |}.

Inductive event :=
| EW (i : nat)   (* worker i takes its next step *)
| EH             (* the signal handler takes its next step (SIGINT was delivered) *)
| EM.            (* main takes its next step towards exit, if its guard allows *)

Definition wstep (p : proto) (is_closed : bool) (w : worker) : worker :=
  match pc w with
  | WInit =>
      match p with
      | Pfixed => if is_closed then {| pc := WRefused; has_file := false; registered := false |}
                  else {| pc := WRegistered; has_file := true; registered := true |}
      | _ => {| pc := WCreated; has_file := true; registered := false |}
      end
  | WCreated => {| pc := WRegistered; has_file := has_file w; registered := true |}
  | WRegistered => {| pc := WDone; has_file := has_file w; registered := registered w |}
  | WDone => {| pc := WDropped; has_file := false; registered := registered w |}
  | WDropped => w
  | WRefused => w
  end.

(* std::fs::remove_file on every registered path *)
Definition sweep (w : worker) : worker :=
  if registered w then {| pc := pc w; has_file := false; registered := true |} else w.

Fixpoint upd {A} (i : nat) (f : A -> A) (l : list A) : list A :=
  match l, i with
  | [], _ => []
  | x :: r, O => f x :: r
  | x :: r, S i' => x :: upd i' f r
  end.

Definition finished (w : worker) : bool :=
  match pc w with WDone | WDropped | WRefused => true | _ => false end.

(* main may leave the processing loop when every worker has sent its summary
   (normal end) or when EXIT_EARLY is set (hpc = 3) *)
Definition main_may_leave (s : state) : bool :=
  forallb finished (ws s) || Nat.eqb (hpc s) 3.

Definition step (p : proto) (s : state) (e : event) : state :=
  match mp s with
  | MExited => s                      (* the process has ended: nothing runs any more *)
  | _ =>
    match e with
    | EW i => {| ws := upd i (wstep p (closed s)) (ws s); hpc := hpc s; closed := closed s; mp := mp s |}
    | EH =>
        match hpc s with
        | 0 => {| ws := ws s; hpc := 1; closed := closed s; mp := mp s |}
        | 1 => {| ws := map sweep (ws s); hpc := 2;
                  closed := match p with Pfixed => true | _ => closed s end; mp := mp s |}
        | 2 => {| ws := ws s; hpc := 3; closed := closed s; mp := mp s |}
        | _ => s
        end
    | EM =>
        match mp s with
        | MRun =>
            if main_may_leave s then
              match p with
              | Pold => {| ws := ws s; hpc := hpc s; closed := closed s; mp := MExited |}
              | Pcur => {| ws := map sweep (ws s); hpc := hpc s; closed := closed s; mp := MSwept |}
              | Pfixed => {| ws := map sweep (ws s); hpc := hpc s; closed := true; mp := MSwept |}
              end
            else s
        | MSwept => {| ws := ws s; hpc := hpc s; closed := closed s; mp := MExited |}
        | MExited => s
        end
    end
  end.

Definition run (p : proto) (s : state) (evs : list event) : state := fold_left (step p) evs s.

Definition files (s : state) : nat := length (filter has_file (ws s)).
Definition exited (s : state) : bool := match mp s with MExited => true | _ => false end.
Definition no_signal (evs : list event) : bool :=
  forallb (fun e => match e with EH => false | _ => true end) evs.

(* ---- promptness (finding F5b) --------------------------------------------------------------
   The handler's first step needs the write lock of the channel map; the coordinator holds the
   read lock for the whole blocking select (`recv_many_chan(&MAP_PATHID_CHANRECVDATUM.read()...)`).
   [blocked] = main is inside select and no worker has sent since.  While blocked, neither the
   handler nor main can move; only a worker's send ends the select.  [with_timeout] models the
   repair (a select with a timeout, so that main leaves select and releases the lock by itself). *)
Record pstate := { blocked : bool; hdone : bool; pexit : bool }.
Inductive pevent := PHandler | PMain | PWorkerSilent | PWorkerSend.
Definition pstep (with_timeout : bool) (s : pstate) (e : pevent) : pstate :=
  if pexit s then s else
  match e with
  | PHandler =>
      if blocked s then s                                    (* waits for the write lock *)
      else {| blocked := false; hdone := true; pexit := false |}
  | PMain =>
      if blocked s then
        if with_timeout then {| blocked := false; hdone := hdone s; pexit := false |} else s
      else if hdone s then {| blocked := false; hdone := true; pexit := true |}   (* exit_early_check *)
      else {| blocked := true; hdone := false; pexit := false |}                  (* enters select again *)
  | PWorkerSilent => s
  | PWorkerSend => {| blocked := false; hdone := hdone s; pexit := false |}
  end.
Definition prun (t : bool) (s : pstate) (evs : list pevent) : pstate := fold_left (pstep t) evs s.
Definition no_send (evs : list pevent) : bool :=
  forallb (fun e => match e with PWorkerSend => false | _ => true end) evs.
Definition pblocked0 : pstate := {| blocked := true; hdone := false; pexit := false |}.

(* ---- promptness, general form.  Two independent features of the code:
     timeout    : the coordinator's wait on the channels is bounded (select_timeout) and the main
                  loop re-checks EXIT_EARLY after a wait that received nothing;
     flag_first : the handler sets EXIT_EARLY BEFORE it asks for the write lock of the channel
                  map (so its signal does not depend on winning that lock).
   [pstep] above is [pstep_gen t false].  With the timeout alone the handler can still starve: the
   coordinator releases the read lock only for an instant between two waits
   ([prompt_timeout_alone_starves]); with both, every schedule that gives main two steps after
   the handler's first step reaches the exit ([prompt_both_all_schedules]). *)
Definition pstep_gen (timeout flag_first : bool) (s : pstate) (e : pevent) : pstate :=
  if pexit s then s else
  match e with
  | PHandler =>
      if flag_first then {| blocked := blocked s; hdone := true; pexit := false |}
      else if blocked s then s
      else {| blocked := false; hdone := true; pexit := false |}
  | PMain =>
      if blocked s then
        if timeout then {| blocked := false; hdone := hdone s; pexit := false |} else s
      else if hdone s then {| blocked := false; hdone := true; pexit := true |}
      else {| blocked := true; hdone := false; pexit := false |}
  | PWorkerSilent => s
  | PWorkerSend => {| blocked := false; hdone := hdone s; pexit := false |}
  end.
Definition prun_gen (t f : bool) (s : pstate) (evs : list pevent) : pstate := fold_left (pstep_gen t f) evs s.
Definition count_main (evs : list pevent) : nat :=
  length (filter (fun e => match e with PMain => true | _ => false end) evs).
