(* Model/Gate.v — executable model of the block-zero acceptance gate
   (SyslogProcessor::blockzero_analysis{,_bytes,_lines,_syslines} with
   LineReader::find_line_in_block and SyslineReader::find_sysline_in_block_year).
   Definitions only.  The count thresholds come from the regenerated Gen/BlockConsts.v.

   find_line_in_block is transcribed AS IT IS for the way the gate calls it: at offset 0 and
   then at each returned fo_next on one reader.  In that sequential use every line found is
   stored, so
     * a line that is complete inside the block of its first byte is Found (shortcut A1b:
       the preceding line is stored) — also when that block is not block zero;
     * when the newline is NOT in that block the function returns (Done, partial) where the
       partial Line is [line start .. requested offset] — ONE byte, because `bi_middle_end`
       keeps its initial value (in find_line the corresponding branch sets it to the block
       end): finding F3a; and (Done, None) when the line starts on the first byte of a block
       other than block zero.
   `gate` (Section Dated) is the analysis for ONE line-level oracle `dated` (no pattern
   bookkeeping); `gate2` (Section Gate2, below) is the complete analysis: per-row pattern
   counts (dt_patterns_counts), the try order of parse_datetime_in_line, the
   parse_datetime_in_line LRU cache, dt_patterns_analysis (highest count, lowest index on a
   tie) and the second pass taken when more than one pattern matched.  Section Ez is
   find_datetime_in_line with the EZCHECK pre-filters and their counters. *)
From S4.Base Require Import Bytes Chunk.
From S4.Gen Require Import BlockConsts.
From S4.Model Require Import Lines.
Open Scope N_scope.

Inductive lineres : Type :=
| LFound (beg e : N)          (* a whole line, offsets inclusive *)
| LPartial (beg e : N)        (* (Done, Some partial) *)
| LNone.                      (* (Done, None) *)

Definition find_line_in_block_seq (bs : N) (f : file) (fo : N) : lineres :=
  let filesz := lenN f in
  if filesz <=? fo then LNone
  else
    let bo := block_offset_at_file_offset fo bs in
    let bi := block_index_at_file_offset fo bs in
    let blk := block bs f bo in
    match find_nl (skipnN bi blk) with
    | Some d => LFound fo (fo + d)
    | None =>
        if bo =? blockoffset_last filesz bs then LFound fo (filesz - 1)
        else if (bi =? 0) && negb (fo =? 0) then LNone
        else LPartial fo fo          (* F3a: bi_middle_end = bi_middle *)
    end.

Fixpoint range_lookup (m : list (N * N * N)) (x : N) : option N :=
  match m with
  | [] => None
  | (a, b, c) :: r => if (a <=? x) && (x <? b) then Some c else range_lookup r x
  end.

Inductive gate_result : Type :=
| FileOk | FileErrEmpty | FileErrTooSmall | FileErrNullBytes | FileErrNoLinesFound
| FileErrNoSyslinesFound | GatePanic | GateOutOfFuel.

Definition gate_code (r : gate_result) : N :=
  match r with
  | FileOk => 0 | FileErrEmpty => 1 | FileErrTooSmall => 2 | FileErrNullBytes => 3
  | FileErrNoLinesFound => 4 | FileErrNoSyslinesFound => 5 | GatePanic => 8 | GateOutOfFuel => 9
  end.

Section Dated.
  Variable dated : list N -> option Z.

  (* blockzero_analysis_lines: number of lines found (stops at found_min) *)
  Fixpoint bz_lines (fuel : nat) (bs : N) (f : file) (fo found found_min : N) : N :=
    match fuel with
    | O => found
    | S k =>
        if found_min <=? found then found
        else match find_line_in_block_seq bs f fo with
             | LFound _ e =>
                 if negb (block_offset_at_file_offset (e + 1) bs =? 0) then found + 1
                 else bz_lines k bs f (e + 1) (found + 1) found_min
             | LPartial _ _ => found + 1
             | LNone => found
             end
    end.

  (* find_sysline_in_block: loop B.  Result: Some fo_b = Found, None = (Done, true) *)
  Fixpoint sib_loop_b (fuel : nat) (bs : N) (f : file) (fo1 sl_end : N) : option N :=
    match fuel with
    | O => None
    | S k =>
        match find_line_in_block_seq bs f fo1 with
        | LFound b e =>
            match dated (slice f b (e + 1)) with
            | None => sib_loop_b k bs f (e + 1) e
            | Some _ => Some fo1
            end
        | _ => if fo1 <? lenN f - 1 then None else Some (sl_end + 1)
        end
    end.

  Inductive sibres : Type := SFound (fo_next : N) | SDone (partial_found : bool).

  (* find_sysline_in_block: loop A then loop B *)
  Fixpoint sib_loop_a (fuel : nat) (bs : N) (f : file) (fo1 : N) : sibres :=
    match fuel with
    | O => SDone false
    | S k =>
        match find_line_in_block_seq bs f fo1 with
        | LFound b e =>
            match dated (slice f b (e + 1)) with
            | Some _ =>
                if e =? lenN f - 1 then SFound (e + 1)
                else match sib_loop_b fuel bs f (e + 1) e with
                     | Some fo_b => SFound fo_b
                     | None => SDone true
                     end
            | None => sib_loop_a k bs f (e + 1)
            end
        | LPartial b e =>
            match dated (slice f b (e + 1)) with
            | Some _ => SDone true
            | None => SDone false
            end
        | LNone => SDone false
        end
    end.

  (* blockzero_analysis_syslines: number of syslines found *)
  Fixpoint bz_syslines (fuel : nat) (bs : N) (f : file) (fo found found_min : N) : N :=
    match fuel with
    | O => found
    | S k =>
        if (found <? found_min) && (block_offset_at_file_offset fo bs =? 0) then
          match sib_loop_a (S (length f)) bs f fo with
          | SFound fo_next => bz_syslines k bs f fo_next (found + 1) found_min
          | SDone true => found + 1
          | SDone false => found
          end
        else found
    end.

  Definition all_zero (l : list N) : bool := forallb (fun b => b =? 0) l.

  Definition gate (bs : N) (f : file) : gate_result :=
    let filesz := lenN f in
    if filesz =? 0 then FileErrEmpty
    else
      let blk0 := block bs f 0 in
      let blocksz0 := lenN blk0 in
      if blocksz0 <? N.min bytes_min bs then FileErrTooSmall
      else if all_zero (firstnN bytes_null_max blk0) then FileErrNullBytes
      else
        match range_lookup line_min_map blocksz0, range_lookup sysline_min_map blocksz0 with
        | Some lmin, Some smin =>
            let fuel := S (length f) in
            if bz_lines fuel bs f 0 0 lmin <? lmin then FileErrNoLinesFound
            else
              let found := bz_syslines fuel bs f 0 0 smin in
              if found =? 0 then FileErrNoSyslinesFound
              else if found <? smin then FileErrNoSyslinesFound
              else FileOk
        | _, _ => GatePanic                     (* RangeMap::get(..).unwrap() *)
        end.
End Dated.


(* ======================================================================================
   The complete block-zero analysis: pattern bookkeeping, analysis, second pass
   ====================================================================================== *)

(* dt_patterns_counts : BTreeMap<row index, count>, ascending keys *)
Definition counts := list (N * N).

Definition counts_init (rows : list N) : counts := map (fun r => (r, 0)) rows.

(* dt_patterns_update; None = the panic! "index not present in self.dt_patterns_counts" *)
Fixpoint counts_incr (c : counts) (r : N) : option counts :=
  match c with
  | [] => None
  | (k, n) :: t =>
      if k =? r then Some ((k, n + 1) :: t)
      else match counts_incr t r with Some t' => Some ((k, n) :: t') | None => None end
  end.

(* itertools sorted_by(|a, b| Ord::cmp(&b.1, &a.1)): STABLE sort by count, descending; the
   result of a stable sort is unique, insertion sort computes it *)
Fixpoint ins_desc (x : N * N) (l : counts) : counts :=
  match l with
  | [] => [x]
  | y :: t => if snd x <? snd y then y :: ins_desc x t else x :: y :: t
  end.
Fixpoint sort_desc (c : counts) : counts :=
  match c with
  | [] => []
  | x :: t => ins_desc x (sort_desc t)
  end.
(* the order in which parse_datetime_in_line tries the rows *)
Definition try_order (c : counts) : list N := map fst (sort_desc c).

(* dt_patterns_counts_in_use *)
Definition in_use (c : counts) : N := lenN (filter (fun x => 0 <? snd x) c).

(* dt_patterns_analysis: None = `return false` (no pattern was counted) *)
Definition counts_max (c : counts) : N := fold_left (fun a x => N.max a (snd x)) c 0.
Definition analysis (c : counts) : option counts :=
  let m := counts_max c in
  if m =? 0 then None
  else Some (firstn (N.to_nat dt_pattern_max) (filter (fun x => m <=? snd x) c)).   (* retain; pop_last *)

(* dt_pattern_index_max_count after the analysis: first of dt_patterns_indexes *)
Definition chosen_row (c : counts) : option N :=
  match sort_desc c with (k, _) :: _ => Some k | [] => None end.

(* the `lru` crate: get promotes the entry; put inserts in front and evicts the least
   recently used entry beyond the capacity *)
Definition lru (V : Type) := list (N * V).
Fixpoint lru_find {V} (k : N) (l : lru V) : option V :=
  match l with
  | [] => None
  | (k', v) :: t => if k' =? k then Some v else lru_find k t
  end.
Definition lru_del {V} (k : N) (l : lru V) : lru V := filter (fun e => negb (fst e =? k)) l.
Definition lru_get {V} (k : N) (l : lru V) : option (V * lru V) :=
  match lru_find k l with
  | Some v => Some (v, (k, v) :: lru_del k l)
  | None => None
  end.
Definition lru_put {V} (cap : N) (k : N) (v : V) (l : lru V) : lru V :=
  firstnN cap ((k, v) :: lru_del k l).

Section Rows.
  (* ORACLE: the instant row r's pattern gives the line (regex on the row's slice + conversion) *)
  Variable dated_by_row : N -> list N -> option Z.

  (* find_datetime_in_line without the EZCHECK pre-filters: first row of the order that dates the line *)
  Fixpoint find_dt (order : list N) (l : list N) : option (Z * N) :=
    match order with
    | [] => None
    | r :: t => match dated_by_row r l with
                | Some dt => Some (dt, r)
                | None => find_dt t l
                end
    end.

  (* parse_datetime_in_line on the current counts (DATETIME_STR_MIN pre-check included) *)
  Definition parse_plain (c : counts) (l : list N) : option (Z * N) :=
    if lenN l <? datetime_str_min then None else find_dt (try_order c) l.
End Rows.

Section Gate2.
  (* parse_datetime_in_line as a function of dt_patterns_counts and the line: (instant, row) *)
  Variable parse : counts -> list N -> option (Z * N).

  (* the SyslineReader state the analysis depends on.  p_trace: every real parse call (LRU
     miss), newest first: (counts at the call, line begin, line end exclusive) *)
  Record pst := mkPst { p_counts : counts; p_lru : lru (Z * N); p_panic : bool;
                        p_trace : list (counts * N * N) }.

  (* parse_datetime_in_line_cached: a cache hit does NOT call dt_patterns_update *)
  Definition parse_cached (f : file) (st : pst) (b e1 : N) : pst * option (Z * N) :=
    match lru_get b (p_lru st) with
    | Some (v, l') => (mkPst (p_counts st) l' (p_panic st) (p_trace st), Some v)
    | None =>
        let tr := (p_counts st, b, e1) :: p_trace st in
        match parse (p_counts st) (slice f b e1) with
        | None => (mkPst (p_counts st) (p_lru st) (p_panic st) tr, None)
        | Some (dt, r) =>
            match counts_incr (p_counts st) r with
            | Some c' => (mkPst c' (lru_put parse_lru_sz b (dt, r) (p_lru st)) (p_panic st) tr, Some (dt, r))
            | None => (mkPst (p_counts st) (p_lru st) true tr, Some (dt, r))
            end
        end
    end.

  (* find_sysline_in_block_year: loop B *)
  Fixpoint sib2_loop_b (fuel : nat) (bs : N) (f : file) (st : pst) (fo1 sl_end : N) : pst * option N :=
    match fuel with
    | O => (st, None)
    | S k =>
        match find_line_in_block_seq bs f fo1 with
        | LFound b e =>
            match parse_cached f st b (e + 1) with
            | (st', None) => sib2_loop_b k bs f st' (e + 1) e
            | (st', Some _) => (st', Some fo1)
            end
        | _ => (st, if fo1 <? lenN f - 1 then None else Some (sl_end + 1))
        end
    end.

  (* loop A then loop B *)
  Fixpoint sib2_loop_a (fuel : nat) (bs : N) (f : file) (st : pst) (fo1 : N) : pst * sibres :=
    match fuel with
    | O => (st, SDone false)
    | S k =>
        match find_line_in_block_seq bs f fo1 with
        | LFound b e =>
            match parse_cached f st b (e + 1) with
            | (st', Some _) =>
                if e =? lenN f - 1 then (st', SFound (e + 1))
                else match sib2_loop_b fuel bs f st' (e + 1) e with
                     | (st'', Some fo_b) => (st'', SFound fo_b)
                     | (st'', None) => (st'', SDone true)
                     end
            | (st', None) => sib2_loop_a k bs f st' (e + 1)
            end
        | LPartial b e =>
            match parse_cached f st b (e + 1) with
            | (st', Some _) => (st', SDone true)
            | (st', None) => (st', SDone false)
            end
        | LNone => (st, SDone false)
        end
    end.

  (* one pass of the `while found < found_min && block_offset_at_file_offset(fo) == 0` loop *)
  Fixpoint bz2_syslines (fuel : nat) (bs : N) (f : file) (st : pst) (fo found found_min : N) : pst * N :=
    match fuel with
    | O => (st, found)
    | S k =>
        if (found <? found_min) && (block_offset_at_file_offset fo bs =? 0) then
          match sib2_loop_a (S (length f)) bs f st fo with
          | (st', SFound fo_next) => bz2_syslines k bs f st' fo_next (found + 1) found_min
          | (st', SDone true) => (st', found + 1)
          | (st', SDone false) => (st', found)
          end
        else (st, found)
    end.

  Record gate_out := mkOut {
    g_res : gate_result;
    g_row : option N;            (* the row every later line is parsed with (FileOk only) *)
    g_found1 : N;                (* syslines found by the first pass *)
    g_counts1 : counts;          (* dt_patterns_counts before dt_patterns_analysis *)
    g_found : N;                 (* syslines found by the deciding pass *)
    g_counts : counts;           (* dt_patterns_counts when blockzero_analysis returns *)
    g_trace : list (counts * N * N) }.

  Definition out_err (r : gate_result) : gate_out := mkOut r None 0 [] 0 [] [].

  Definition gate2 (rows : list N) (bs : N) (f : file) : gate_out :=
    let filesz := lenN f in
    if filesz =? 0 then out_err FileErrEmpty
    else
      let blk0 := block bs f 0 in
      let blocksz0 := lenN blk0 in
      if blocksz0 <? N.min bytes_min bs then out_err FileErrTooSmall
      else if all_zero (firstnN bytes_null_max blk0) then out_err FileErrNullBytes
      else
        match range_lookup line_min_map blocksz0, range_lookup sysline_min_map blocksz0 with
        | Some lmin, Some smin =>
            let fuel := S (length f) in
            if bz_lines fuel bs f 0 0 lmin <? lmin then out_err FileErrNoLinesFound
            else
              let st0 := mkPst (counts_init rows) [] false [] in
              let '(st1, found1) := bz2_syslines fuel bs f st0 0 0 smin in
              if found1 =? 0
              then mkOut FileErrNoSyslinesFound None found1 (p_counts st1) found1 (p_counts st1) (p_trace st1)
              else
                match analysis (p_counts st1) with
                | None => mkOut FileErrNoSyslinesFound None found1 (p_counts st1) found1 (p_counts st1) (p_trace st1)
                | Some c1 =>
                    let '(st2, found) :=
                      if 1 <? in_use (p_counts st1)
                      then (* clear_syslines (both LRU caches emptied), found = 0, fo = 0, same loop *)
                           bz2_syslines fuel bs f (mkPst c1 [] (p_panic st1) (p_trace st1)) 0 0 smin
                      else (mkPst c1 (p_lru st1) (p_panic st1) (p_trace st1), found1) in
                    let res := if p_panic st2 then GatePanic
                               else if found <? smin then FileErrNoSyslinesFound else FileOk in
                    mkOut res (match res with FileOk => chosen_row (p_counts st2) | _ => None end)
                          found1 (p_counts st1) found (p_counts st2) (p_trace st2)
                end
        | _, _ => out_err GatePanic
        end.
End Gate2.

(* the analysis over the per-row oracle, without the EZCHECK pre-filters *)
Definition gate_rows (dated_by_row : N -> list N -> option Z) (rows : list N) (bs : N) (f : file)
  : gate_result * option N :=
  let o := gate2 (parse_plain dated_by_row) rows bs f in (g_res o, g_row o).

(* ======================================================================================
   find_datetime_in_line with the EZCHECK pre-filters (SyslineReader::ezcheck_slice)
   ====================================================================================== *)

Definition is_dig (b : N) : bool := (48 <=? b) && (b <=? 57).
(* slice_contains_X_2(slice, b"12") *)
Fixpoint contains_12 (s : list N) : bool :=
  match s with b :: r => (b =? 49) || (b =? 50) || contains_12 r | [] => false end.
(* slice_contains_D2_custom *)
Fixpoint contains_d2_from (last_d : bool) (s : list N) : bool :=
  match s with
  | b :: r => if is_dig b then (if last_d then true else contains_d2_from true r) else contains_d2_from false r
  | [] => false
  end.
Definition contains_d2 (s : list N) : bool := contains_d2_from false s.
(* slice_contains_12_D2 *)
Fixpoint contains_12_d2_from (last_d : bool) (s : list N) : bool :=
  match s with
  | b :: r => if (b =? 49) || (b =? 50) then true
              else if is_dig b then (if last_d then true else contains_12_d2_from true r)
              else contains_12_d2_from false r
  | [] => false
  end.
Definition contains_12_d2 (s : list N) : bool := contains_12_d2_from false s.

(* the EZCHECK state of one find_datetime_in_line call, and the reader's counters *)
Record ezmin := mkEzmin { m12 : N; md2 : N; m12d2 : N }.
Record ezcnt := mkEzcnt {
  c_attempted : N;                               (* regex_captures_attempted *)
  c12_hit : N; c12_miss : N; c12_hit_max : N;
  cd2_hit : N; cd2_miss : N; cd2_hit_max : N;
  c12d2_hit : N; c12d2_miss : N; c12d2_hit_max : N }.
Definition ezcnt0 : ezcnt := mkEzcnt 0 0 0 0 0 0 0 0 0 0.

(* one row of DATETIME_PARSE_DATAS as far as find_datetime_in_line needs it *)
Record rowinfo := mkRowinfo { ri_start : N; ri_end : N; ri_year4 : bool; ri_d2 : bool }.

Section Ez.
  (* ORACLE: bytes_to_regex_to_datetime of row r on the slice handed to the regex *)
  Variable match_slice : N -> list N -> option Z.
  Variable info : N -> rowinfo.

  (* the line-level oracle the analysis uses, derived as find_datetime_in_line slices the line *)
  Definition dated_by_row_of (r : N) (line : list N) : option Z :=
    let i := info r in
    if lenN line <=? ri_start i then None
    else let se := N.min (lenN line) (ri_end i) in
         if se <=? ri_start i then None
         else match_slice r (slice line (ri_start i) se).

  (* ezcheck_slice: (skip the regex?, new minima, new counters) *)
  Definition ezcheck_slice (i : rowinfo) (s : list N) (m : ezmin) (c : ezcnt) : bool * ezmin * ezcnt :=
    match ri_year4 i, ri_d2 i with
    | true, false =>
        if negb (contains_12 (skipnN (N.min (m12 m) (lenN s)) s)) then
          let m' := if (ri_start i =? 0) && (m12 m <? lenN s) then lenN s - 1 else m12 m in
          (true, mkEzmin m' (md2 m) (m12d2 m),
           mkEzcnt (c_attempted c) (c12_hit c + 1) (c12_miss c) (N.max (c12_hit_max c) m')
                   (cd2_hit c) (cd2_miss c) (cd2_hit_max c) (c12d2_hit c) (c12d2_miss c) (c12d2_hit_max c))
        else (false, m,
              mkEzcnt (c_attempted c) (c12_hit c) (c12_miss c + 1) (c12_hit_max c)
                      (cd2_hit c) (cd2_miss c) (cd2_hit_max c) (c12d2_hit c) (c12d2_miss c) (c12d2_hit_max c))
    | false, true =>
        if negb (contains_d2 (skipnN (N.min (md2 m) (lenN s)) s)) then
          let m' := if (ri_start i =? 0) && (md2 m <? lenN s) then lenN s - 1 else md2 m in
          (true, mkEzmin (m12 m) m' (m12d2 m),
           mkEzcnt (c_attempted c) (c12_hit c) (c12_miss c) (c12_hit_max c)
                   (cd2_hit c + 1) (cd2_miss c) (N.max (cd2_hit_max c) m') (c12d2_hit c) (c12d2_miss c) (c12d2_hit_max c))
        else (false, m,
              mkEzcnt (c_attempted c) (c12_hit c) (c12_miss c) (c12_hit_max c)
                      (cd2_hit c) (cd2_miss c + 1) (cd2_hit_max c) (c12d2_hit c) (c12d2_miss c) (c12d2_hit_max c))
    | true, true =>
        if negb (contains_12_d2 (skipnN (N.min (m12d2 m) (lenN s)) s)) then
          let m' := if (ri_start i =? 0) && (m12d2 m <? lenN s) then lenN s - 1 else m12d2 m in
          (true, mkEzmin (m12 m) (md2 m) m',
           mkEzcnt (c_attempted c) (c12_hit c) (c12_miss c) (c12_hit_max c)
                   (cd2_hit c) (cd2_miss c) (cd2_hit_max c) (c12d2_hit c + 1) (c12d2_miss c) (N.max (c12d2_hit_max c) m'))
        else (false, m,
              mkEzcnt (c_attempted c) (c12_hit c) (c12_miss c) (c12_hit_max c)
                      (cd2_hit c) (cd2_miss c) (cd2_hit_max c) (c12d2_hit c) (c12d2_miss c + 1) (c12d2_hit_max c))
    | false, false => (false, m, c)
    end.

  Definition bump (f : ezcnt -> ezcnt) (c : ezcnt) := f c.

  (* the `for index in parse_data_indexes` loop of find_datetime_in_line *)
  Fixpoint fdl_loop (order : list N) (line : list N) (m : ezmin) (c : ezcnt) : option (Z * N) * ezcnt :=
    match order with
    | [] => (None, c)
    | r :: t =>
        let i := info r in
        let len := lenN line in
        if len <=? ri_start i then fdl_loop t line m c
        else if len <=? m12 m then
          fdl_loop t line m (mkEzcnt (c_attempted c) (c12_hit c + 1) (c12_miss c) (c12_hit_max c)
                                     (cd2_hit c) (cd2_miss c) (cd2_hit_max c) (c12d2_hit c) (c12d2_miss c) (c12d2_hit_max c))
        else if len <=? md2 m then
          fdl_loop t line m (mkEzcnt (c_attempted c) (c12_hit c) (c12_miss c) (c12_hit_max c)
                                     (cd2_hit c + 1) (cd2_miss c) (cd2_hit_max c) (c12d2_hit c) (c12d2_miss c) (c12d2_hit_max c))
        else if len <=? m12d2 m then
          fdl_loop t line m (mkEzcnt (c_attempted c) (c12_hit c) (c12_miss c) (c12_hit_max c)
                                     (cd2_hit c) (cd2_miss c) (cd2_hit_max c) (c12d2_hit c + 1) (c12d2_miss c) (c12d2_hit_max c))
        else
          let se := N.min len (ri_end i) in
          if se <=? ri_start i then fdl_loop t line m c
          else
            let s := slice line (ri_start i) se in
            match ezcheck_slice i s m c with
            | (true, m', c') => fdl_loop t line m' c'
            | (false, m', c') =>
                let c'' := mkEzcnt (c_attempted c' + 1) (c12_hit c') (c12_miss c') (c12_hit_max c')
                                   (cd2_hit c') (cd2_miss c') (cd2_hit_max c') (c12d2_hit c') (c12d2_miss c') (c12d2_hit_max c') in
                match match_slice r s with
                | Some dt => (Some (dt, r), c'')
                | None => fdl_loop t line m' c''
                end
            end
    end.

  (* find_datetime_in_line *)
  Definition find_datetime_in_line (order : list N) (line : list N) (c : ezcnt) : option (Z * N) * ezcnt :=
    if lenN line <? datetime_str_min then (None, c)
    else fdl_loop order line (mkEzmin 0 0 0) c.

  (* parse_datetime_in_line on the current counts, as coded *)
  Definition parse_ez (c : counts) (line : list N) : option (Z * N) :=
    fst (find_datetime_in_line (try_order c) line ezcnt0).
End Ez.

(* the analysis as coded: EZCHECK pre-filters included *)
Definition gate_ez (match_slice : N -> list N -> option Z) (info : N -> rowinfo) (rows : list N) (bs : N) (f : file)
  : gate_result * option N :=
  let o := gate2 (parse_ez match_slice info) rows bs f in (g_res o, g_row o).
