(* Model/Gate.v — executable model of the block-zero acceptance gate
   (SyslogProcessor::blockzero_analysis{,_bytes,_lines,_syslines} with
   LineReader::find_line_in_block and SyslineReader::find_sysline_in_block_year).
   Definitions only.  The count thresholds come from the regenerated Gen/BlockConsts.v.

   find_line_in_block is transcribed AS IT IS for the way the gate calls it: at offset 0 and
   then at each returned fo_next on one reader.  In that sequential use every line found is
   stored, so
     * a line that is complete inside the block of its first byte is Found (shortcut A1b:
       the preceding line is stored) — also when that block is not block zero;
     * when the newline is NOT in that block the function returns (Done, partial) where the
       partial Line is [line start .. requested offset] — ONE byte, because `bi_middle_end`
       keeps its initial value (in find_line the corresponding branch sets it to the block
       end): finding F3a; and (Done, None) when the line starts on the first byte of a block
       other than block zero.
   The second pass of blockzero_analysis_syslines (taken only when more than one pattern
   matched) repeats the first on cached data and is not modelled. *)
From S4.Base Require Import Bytes Chunk.
From S4.Gen Require Import BlockConsts.
From S4.Model Require Import Lines.
Open Scope N_scope.

Inductive lineres : Type :=
| LFound (beg e : N)          (* a whole line, offsets inclusive *)
| LPartial (beg e : N)        (* (Done, Some partial) *)
| LNone.                      (* (Done, None) *)

Definition find_line_in_block_seq (bs : N) (f : file) (fo : N) : lineres :=
  let filesz := lenN f in
  if filesz <=? fo then LNone
  else
    let bo := block_offset_at_file_offset fo bs in
    let bi := block_index_at_file_offset fo bs in
    let blk := block bs f bo in
    match find_nl (skipnN bi blk) with
    | Some d => LFound fo (fo + d)
    | None =>
        if bo =? blockoffset_last filesz bs then LFound fo (filesz - 1)
        else if (bi =? 0) && negb (fo =? 0) then LNone
        else LPartial fo fo          (* F3a: bi_middle_end = bi_middle *)
    end.

Fixpoint range_lookup (m : list (N * N * N)) (x : N) : option N :=
  match m with
  | [] => None
  | (a, b, c) :: r => if (a <=? x) && (x <? b) then Some c else range_lookup r x
  end.

Inductive gate_result : Type :=
| FileOk | FileErrEmpty | FileErrTooSmall | FileErrNullBytes | FileErrNoLinesFound
| FileErrNoSyslinesFound | GatePanic | GateOutOfFuel.

Definition gate_code (r : gate_result) : N :=
  match r with
  | FileOk => 0 | FileErrEmpty => 1 | FileErrTooSmall => 2 | FileErrNullBytes => 3
  | FileErrNoLinesFound => 4 | FileErrNoSyslinesFound => 5 | GatePanic => 8 | GateOutOfFuel => 9
  end.

Section Dated.
  Variable dated : list N -> option Z.

  (* blockzero_analysis_lines: number of lines found (stops at found_min) *)
  Fixpoint bz_lines (fuel : nat) (bs : N) (f : file) (fo found found_min : N) : N :=
    match fuel with
    | O => found
    | S k =>
        if found_min <=? found then found
        else match find_line_in_block_seq bs f fo with
             | LFound _ e =>
                 if negb (block_offset_at_file_offset (e + 1) bs =? 0) then found + 1
                 else bz_lines k bs f (e + 1) (found + 1) found_min
             | LPartial _ _ => found + 1
             | LNone => found
             end
    end.

  (* find_sysline_in_block: loop B.  Result: Some fo_b = Found, None = (Done, true) *)
  Fixpoint sib_loop_b (fuel : nat) (bs : N) (f : file) (fo1 sl_end : N) : option N :=
    match fuel with
    | O => None
    | S k =>
        match find_line_in_block_seq bs f fo1 with
        | LFound b e =>
            match dated (slice f b (e + 1)) with
            | None => sib_loop_b k bs f (e + 1) e
            | Some _ => Some fo1
            end
        | _ => if fo1 <? lenN f - 1 then None else Some (sl_end + 1)
        end
    end.

  Inductive sibres : Type := SFound (fo_next : N) | SDone (partial_found : bool).

  (* find_sysline_in_block: loop A then loop B *)
  Fixpoint sib_loop_a (fuel : nat) (bs : N) (f : file) (fo1 : N) : sibres :=
    match fuel with
    | O => SDone false
    | S k =>
        match find_line_in_block_seq bs f fo1 with
        | LFound b e =>
            match dated (slice f b (e + 1)) with
            | Some _ =>
                if e =? lenN f - 1 then SFound (e + 1)
                else match sib_loop_b fuel bs f (e + 1) e with
                     | Some fo_b => SFound fo_b
                     | None => SDone true
                     end
            | None => sib_loop_a k bs f (e + 1)
            end
        | LPartial b e =>
            match dated (slice f b (e + 1)) with
            | Some _ => SDone true
            | None => SDone false
            end
        | LNone => SDone false
        end
    end.

  (* blockzero_analysis_syslines: number of syslines found *)
  Fixpoint bz_syslines (fuel : nat) (bs : N) (f : file) (fo found found_min : N) : N :=
    match fuel with
    | O => found
    | S k =>
        if (found <? found_min) && (block_offset_at_file_offset fo bs =? 0) then
          match sib_loop_a (S (length f)) bs f fo with
          | SFound fo_next => bz_syslines k bs f fo_next (found + 1) found_min
          | SDone true => found + 1
          | SDone false => found
          end
        else found
    end.

  Definition all_zero (l : list N) : bool := forallb (fun b => b =? 0) l.

  Definition gate (bs : N) (f : file) : gate_result :=
    let filesz := lenN f in
    if filesz =? 0 then FileErrEmpty
    else
      let blk0 := block bs f 0 in
      let blocksz0 := lenN blk0 in
      if blocksz0 <? N.min bytes_min bs then FileErrTooSmall
      else if all_zero (firstnN bytes_null_max blk0) then FileErrNullBytes
      else
        match range_lookup line_min_map blocksz0, range_lookup sysline_min_map blocksz0 with
        | Some lmin, Some smin =>
            let fuel := S (length f) in
            if bz_lines fuel bs f 0 0 lmin <? lmin then FileErrNoLinesFound
            else
              let found := bz_syslines fuel bs f 0 0 smin in
              if found =? 0 then FileErrNoSyslinesFound
              else if found <? smin then FileErrNoSyslinesFound
              else FileOk
        | _, _ => GatePanic                     (* RangeMap::get(..).unwrap() *)
        end.
End Dated.
