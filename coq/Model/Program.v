(* Model/Program.v — WHOLE-PROGRAM composition (work package H; hosted by C01 and C06):
   one model and one specification from (files, options) to (stdout, summary totals).
   Definitions only (proofs: Proofs/ProgramProofs.v).

   The component models keep their own message types; this file holds the ADAPTERS between them
   and the composition:

     bytes of a file
       --(Model/Lines.v, Model/Syslines.v: block-wise reader at block size bs)-->   sysline (line parts)
       --[adapter A1: rmsg / reader_find]-->     the `find` oracle of the search loop
       --(the search loop of Model/Search.v, re-stated here over an ABSTRACT find that returns a
          payload: binary search when plain, linear when streamed; stage-2/3 driver)-->
                                                 the worker's NewMessage sequence (sysline, is_last)
       --[adapter A2: tags]-->                   Merge.msg (source, position, instant)
       --(Model/Coord.v: the coordinator transition system run under a schedule)-->
                                                 the printed sequence of tags
       --[adapter A3: ev_of]-->                  Summary.event (Print.msg with the line PARTS as slices)
       --(Model/Print.v print_msg variant chosen from the options, the 2056-byte buffer;
          Model/Summary.v: separator, supplied final newline, accounting)-->
                                                 stdout items + SummaryPrinted totals

   [program_m] is that CODE-LEVEL composition.  [program_spec] is the SPEC-LEVEL function: the
   stable sort by instant (source order, then file order, on ties) of the windowed spec groups
   (Spec/LinesSpec.v) of every file, each canonically decorated (Print.decorate), with the totals
   defined as measures of that output.  The spec mentions no block size, no schedule, no cache,
   no line parts, no buffer and no search strategy.

   Why the search loop is re-stated: Model/Search.v defines its `find` from a layout (the
   specification of find_sysline); the composed code-level model must run the loop against the
   BLOCK READER.  Section GSearch is the same transcription of
   find_sysline_at_datetime_filter_{binary,linear}_search / find_sysline_between_datetime_filters
   / exec_syslogprocessor with `find` abstract and returning a payload;
   ProgramProofs.gsearch_refines shows it coincides with Model/Search.v whenever its `find`
   agrees with Search.find — the adapter obligation that C02's find_sysline_correct discharges.

   Oracles (Section variables, as in C02/C03): [dated] the instant of a line if a supported
   timestamp pattern matches it; [dtspan] the (dt_beg, dt_end) byte positions of that timestamp
   in the line (only used to place colour).

   Out of the composed model (each is a hypothesis of program_correct or named in the check):
   year-less notations (process_missing_year re-dates messages from context), non-text sources,
   I/O errors, a print error (EPIPE), SIGINT. *)
From Coq Require Import List NArith ZArith Bool Arith.
Import ListNotations.
From S4.Base Require Bytes Chunk.
From S4.Spec Require LinesSpec WindowSpec.
From S4.Model Require Lines Syslines Search Merge Coord Strftime Print Summary Gate.

(* ================================================================ inputs *)

(* one named source: the string that -n / -p prepends (Summary.source), whether the container is
   streamed (gz, ...: linear search) or seekable (plain: binary search), and the (decompressed) bytes *)
Record pfile := mkPfile {
  pf_src : Summary.source;
  pf_streamed : bool;
  pf_data : Chunk.file }.

(* the options that reach the pipeline: the printing/summary options of Model/Summary.v and the
   resolved datetime window (-a / -b; C14 is the property about their resolution) *)
Record options := mkOptions {
  op_cli : Summary.cli;
  op_after : option Z;
  op_before : option Z }.

(* ================================================================ the search loop over an abstract find *)

(* result of find_sysline: Found((fo, syslinep)) | Done; GFault = the reader model itself ended
   in Panic / OutOfFuel (excluded by C02 for every block size > 0) *)
Inductive gfres (M : Type) : Type :=
| GFound (fo : N) (m : M)
| GDone
| GFault (code : N).
Arguments GFound {M} fo m.
Arguments GDone {M}.
Arguments GFault {M} code.

Inductive gsres (M : Type) : Type :=
| GSFound (fo : N) (m : M)
| GSDone
| GSDoneErr (code : N)
| GSPanic (code : N)
| GSOutOfFuel
| GSFault (code : N).
Arguments GSFound {M} fo m.
Arguments GSDone {M}.
Arguments GSDoneErr {M} code.
Arguments GSPanic {M} code.
Arguments GSOutOfFuel {M}.
Arguments GSFault {M} code.

Inductive gstatus : Type := GOk | GErr (code : N) | GPanicked (code : N) | GNoFuel | GFaulted (code : N).

Section GSearch.
  Variable M : Type.
  Variable view : M -> Search.sl.        (* fileoffset_begin, len, dt() of the payload *)
  Variable gfind : N -> gfres M.         (* SyslineReader::find_sysline *)
  Variable filesz : N.

  Local Open Scope N_scope.

  (* SyslineReader::is_sysline_last *)
  Definition g_is_last (m : M) : bool := Search.s_end (view m) =? filesz - 1.

  Record gbst := mkGB {
    g_try_fo : N; g_try_fo_last : N; g_fo_a : N; g_fo_b : N;
    g_last_found : option M }.

  Inductive gbout := GContinue (st : gbst) | GReturn (r : gsres M).

  Section GBsearch.
    Variable dt_filter : option Z.
    Variable fileoffset : N.

    (* `let fo_: FileOffset = syslinep.fileoffset_next(); return Found((fo_, syslinep))` *)
    Definition g_found_next (m : M) : gsres M := GSFound (Search.s_next (view m)) m.

    Definition g_endgame (done : bool) (st : gbst) : gbout :=
      if done && (g_try_fo st =? g_try_fo_last st) then GReturn GSDone
      else if negb (g_try_fo st =? g_try_fo_last st) then GContinue st
      else
        match g_last_found st with
        | None => GReturn (GSPanic 4)
        | Some m =>
          let s := view m in
          let fo_beg := Search.s_beg s in
          if g_is_last m && (fo_beg <? g_try_fo st) then GReturn GSDone
          else if fo_beg <? g_try_fo st then
            match gfind (Search.s_next s) with
            | GDone => GReturn GSDone
            | GFault c => GReturn (GSFault c)
            | GFound _ mn =>
              match Search.dt_after_or_before (Search.s_t s) dt_filter,
                    Search.dt_after_or_before (Search.s_t (view mn)) dt_filter with
              | _, Search.Pass | Search.Pass, _ => GReturn (GSDoneErr 1)
              | Search.OccursBefore, Search.OccursBefore => GReturn (g_found_next mn)
              | Search.OccursBefore, Search.OccursAtOrAfter => GReturn (g_found_next mn)
              | Search.OccursAtOrAfter, Search.OccursAtOrAfter => GReturn (g_found_next m)
              | Search.OccursAtOrAfter, Search.OccursBefore => GReturn (GSDoneErr 2)
              end
            end
          else GReturn (g_found_next m)
        end.

    (* arms A and B return the `fo` that find_sysline returned *)
    Definition g_bmatch (st : gbst) : (bool * gbst) + gsres M :=
      match gfind (g_try_fo st) with
      | GFound fo m =>
        let s := view m in
        match Search.dt_after_or_before (Search.s_t s) dt_filter with
        | Search.Pass => inr (GSFound fo m)
        | Search.OccursAtOrAfter =>
          if g_try_fo st =? fileoffset then inr (GSFound fo m)
          else
            let tl := g_try_fo st in
            let b' := N.min (Search.s_beg s) tl in
            if g_fo_a st <=? b' then
              inl (false, mkGB (g_fo_a st + (b' - g_fo_a st) / 2) tl (g_fo_a st) b' (Some m))
            else inr (GSPanic 1)
        | Search.OccursBefore =>
          let foe := Search.s_end s in
          let tl := g_try_fo st in
          if tl <=? foe then
            let a' := N.min foe (g_fo_b st) in
            inl (false, mkGB (a' + (g_fo_b st - a') / 2) tl a' (g_fo_b st) (Some m))
          else inr (GSPanic 2)
        end
      | GDone =>
        if g_fo_a st <=? g_fo_b st then
          inl (true, mkGB (g_fo_a st + (g_fo_b st - g_fo_a st) / 2) (g_try_fo st) (g_fo_a st) (g_fo_b st)
                          (g_last_found st))
        else inr (GSPanic 3)
      | GFault c => inr (GSFault c)
      end.

    Definition g_bstep (st : gbst) : gbout :=
      match g_bmatch st with
      | inr r => GReturn r
      | inl (done, st') => g_endgame done st'
      end.

    Fixpoint g_bloop (fuel : nat) (st : gbst) : gsres M :=
      match fuel with
      | O => GSOutOfFuel
      | S f => match g_bstep st with
               | GReturn r => r
               | GContinue st' => g_bloop f st'
               end
      end.

    Definition g_bstart : gbst := mkGB fileoffset fileoffset fileoffset filesz None.
    Definition g_bsearch (fuel : nat) : gsres M := g_bloop fuel g_bstart.

    (* linear search returns the reader's `fo` and advances the cursor to it *)
    Fixpoint g_linear_from (fuel : nat) (fo_cursor : N) : gsres M :=
      match fuel with
      | O => GSOutOfFuel
      | S f =>
        match gfind fo_cursor with
        | GDone => GSDone
        | GFault c => GSFault c
        | GFound fo m =>
          match Search.dt_after_or_before (Search.s_t (view m)) dt_filter with
          | Search.Pass | Search.OccursAtOrAfter => GSFound fo m
          | Search.OccursBefore => g_linear_from f fo
          end
        end
      end.
    Definition g_linear (fuel : nat) : gsres M := g_linear_from fuel fileoffset.
  End GBsearch.

  (* budgets computed from the file size only: the binary search as in Model/Search.v
     (2 + bit length of the size); the linear scan and the stage-3 loop advance by at least one
     byte per iteration, so size + 1 iterations always suffice *)
  Definition g_lfuel : nat := S (N.to_nat filesz).

  Definition g_find_at (streamed : bool) (dt_filter : option Z) (fileoffset : N) : gsres M :=
    if streamed then g_linear dt_filter fileoffset g_lfuel
    else g_bsearch dt_filter fileoffset (Search.bfuel filesz).

  Definition g_find_between (streamed : bool) (fa fb : option Z) (fileoffset : N) : gsres M :=
    match g_find_at streamed fa fileoffset with
    | GSFound fo m =>
      match Search.dt_pass_filters (Search.s_t (view m)) fa fb with
      | Search.InRange => GSFound fo m
      | Search.BeforeRange => GSDoneErr 3
      | Search.AfterRange => GSDone
      end
    | r => r
    end.

  (* exec_syslogprocessor, stage 2 + stage 3: the NewMessage datums (payload, is_last) in send order *)
  Fixpoint g_stream (fuel : nat) (streamed : bool) (fa fb : option Z) (fo1 : N) : list (M * bool) * gstatus :=
    match fuel with
    | O => ([], GNoFuel)
    | S f =>
      match g_find_between streamed fa fb fo1 with
      | GSFound fo m =>
        if g_is_last m then ([(m, true)], GOk)
        else let '(out, st) := g_stream f streamed fa fb fo in ((m, false) :: out, st)
      | GSDone => ([], GOk)
      | GSDoneErr c => ([], GErr c)
      | GSPanic c => ([], GPanicked c)
      | GSOutOfFuel => ([], GNoFuel)
      | GSFault c => ([], GFaulted c)
      end
    end.

  Definition g_text_out (streamed : bool) (fa fb : option Z) : list (M * bool) * gstatus :=
    g_stream g_lfuel streamed fa fb 0.
End GSearch.

Arguments g_text_out {M} view gfind filesz streamed fa fb.
Arguments g_stream {M} view gfind filesz fuel streamed fa fb fo1.
Arguments g_find_between {M} view gfind filesz streamed fa fb fileoffset.
Arguments g_find_at {M} view gfind filesz streamed dt_filter fileoffset.
Arguments g_linear {M} view gfind dt_filter fileoffset fuel.
Arguments g_linear_from {M} view gfind dt_filter fuel fo_cursor.
Arguments g_bsearch {M} view gfind filesz dt_filter fileoffset fuel.
Arguments g_bloop {M} view gfind filesz dt_filter fileoffset fuel st.
Arguments g_bstep {M} view gfind filesz dt_filter fileoffset st.
Arguments g_bmatch {M} view gfind dt_filter fileoffset st.
Arguments g_endgame {M} view gfind filesz dt_filter done st.
Arguments g_bstart {M} filesz fileoffset.
Arguments g_is_last {M} view filesz m.
Arguments g_found_next {M} view m.
Arguments mkGB {M} _ _ _ _ _.
Arguments g_try_fo {M} _.
Arguments g_try_fo_last {M} _.
Arguments g_fo_a {M} _.
Arguments g_fo_b {M} _.
Arguments g_last_found {M} _.
Arguments GContinue {M} st.
Arguments GReturn {M} r.

(* ================================================================ generic stable sort (spec side) *)

Section SortBy.
  Context {A : Type}.
  Variable key : A -> Z.
  (* x precedes every element of l in the input: it is placed before the elements of equal key *)
  Fixpoint insert_by (x : A) (l : list A) : list A :=
    match l with
    | [] => [x]
    | y :: r => if (key x <=? key y)%Z then x :: y :: r else y :: insert_by x r
    end.
  Definition stable_sort_by (l : list A) : list A := fold_right insert_by [] l.
End SortBy.

(* the last element of a list is flagged *)
Fixpoint mark_last {A} (l : list A) : list (A * bool) :=
  match l with
  | [] => []
  | x :: r => match r with
              | [] => [(x, true)]
              | _ :: _ => (x, false) :: mark_last r
              end
  end.

(* minimum / maximum of a list of instants *)
Definition zmin_list (l : list Z) : option Z :=
  match l with [] => None | x :: r => Some (fold_left Z.min r x) end.
Definition zmax_list (l : list Z) : option Z :=
  match l with [] => None | x :: r => Some (fold_left Z.max r x) end.

Section Oracles.
  Variable dated : list N -> option Z.
  Variable dtspan : list N -> nat * nat.

  Local Open Scope N_scope.

  (* ============================================================== A1: reader -> search *)

  (* what the search loop and the coordinator hold for one found message: the Sysline as the
     block reader assembled it (line parts), and its (begin, length, instant) *)
  Record rmsg := mkRmsg { r_sl : Search.sl; r_sys : Syslines.sysline }.

  (* Sysline::fileoffset_begin / len / dt.  (fileoffset_end is begin + len - 1: the lines of a
     Sysline are contiguous, C02 `lines_repr`.) *)
  Definition reader_find (bs : N) (f : Chunk.file) (fo : N) : gfres rmsg :=
    match Syslines.find_sysline_m dated bs f fo with
    | Lines.Found (fo_next, sl) =>
        match Syslines.sysline_fo_begin bs sl with
        | Some b => GFound fo_next (mkRmsg (Search.mkSl b (Chunk.lenN (Syslines.sysline_bytes bs f sl)) (fst sl)) sl)
        | None => GFault 1
        end
    | Lines.Done => GDone
    | Lines.OutOfFuel => GFault 2
    | Lines.Panic => GFault 3
    end.

  (* ============================================================== A3 (message part): reader -> printer *)

  (* the Print.msg of a Sysline: every Line is its list of parts, each part the slice of its block
     (LinePart::as_slice); dt_beg / dt_end from the timestamp oracle on the first line *)
  Definition pmsg_of (bs : N) (f : Chunk.file) (sl : Syslines.sysline) : Print.msg :=
    let first := Lines.bytes_of bs f (hd [] (snd sl)) in
    {| Print.m_kind := Print.KSys;
       Print.m_t := fst sl;
       Print.m_lines := map (map (Lines.part_bytes bs f)) (snd sl);
       Print.m_beg := fst (dtspan first);
       Print.m_end := snd (dtspan first) |}.

  (* ============================================================== one worker (exec_syslogprocessor) *)

  (* stage 1 (block-zero gate), then stage 2 + 3.  A file the gate rejects sends FileInfo and
     FileSummary only.  Result: the NewMessage datums as print events (source index filled in by
     the caller), and how the search ended *)
  Definition worker_out (bs : N) (o : options) (pf : pfile) : list (Print.msg * bool) * gstatus :=
    let f := pf_data pf in
    match Gate.gate dated bs f with
    | Gate.FileOk =>
        let '(out, st) := g_text_out r_sl (reader_find bs f) (Chunk.lenN f) (pf_streamed pf)
                                     (op_after o) (op_before o) in
        (map (fun mb => (pmsg_of bs f (r_sys (fst mb)), snd mb)) out, st)
    | _ => ([], GOk)
    end.

  Definition mk_events (i : nat) (l : list (Print.msg * bool)) : list Summary.event :=
    map (fun mb => {| Summary.e_src := i; Summary.e_msg := fst mb; Summary.e_is_last := snd mb |}) l.

  Definition ev_t (e : Summary.event) : Z := Print.m_t (Summary.e_msg e).

  (* ============================================================== A2: worker -> coordinator *)

  (* the coordinator acts on (PathId, position, instant) only *)
  Definition tags_of (evs : list (list Summary.event)) : list (list Merge.msg) :=
    Merge.tag_srcs (map (map ev_t) evs).

  (* ============================================================== A3: coordinator -> print site *)

  Definition dummy_msg : Print.msg :=
    {| Print.m_kind := Print.KSys; Print.m_t := 0%Z; Print.m_lines := []; Print.m_beg := 0%nat; Print.m_end := 0%nat |}.
  Definition dummy_event : Summary.event :=
    {| Summary.e_src := 0%nat; Summary.e_msg := dummy_msg; Summary.e_is_last := false |}.

  (* the datum the coordinator holds for a printed tag (in the code the tag and the payload are
     one value, `(LogMessage, is_last)`) *)
  Definition ev_of (evs : list (list Summary.event)) (m : Merge.msg) : Summary.event :=
    nth (Merge.m_pos m) (nth (Merge.m_src m) evs []) dummy_event.

  (* ============================================================== the composed code-level model *)

  Definition schedule := list Coord.event.

  Inductive outcome : Type :=
  | POk (r : list Print.out * Summary.summ)   (* stdout items, SummaryPrinted totals *)
  | PWorker (i : nat) (st : gstatus)          (* worker i ended abnormally (search error exit / panic / fuel) *)
  | PSchedule                                 (* the schedule is not an execution of the coordinator *)
  | PNotFinal.                                (* ... or stops before every channel is disconnected *)

  (* all workers, in PathId order; the first abnormal one is reported *)
  Fixpoint workers (bs : N) (o : options) (i : nat) (files : list pfile)
    : list (list Summary.event) + (nat * gstatus) :=
    match files with
    | [] => inl []
    | pf :: r =>
        match worker_out bs o pf with
        | (out, GOk) =>
            match workers bs o (S i) r with
            | inl l => inl (mk_events i out :: l)
            | inr e => inr e
            end
        | (_, st) => inr (i, st)
        end
    end.

  Definition sources_of (files : list pfile) : list Summary.source := map pf_src files.

  Definition program_m (cap : nat) (bs : N) (sched : schedule) (o : options) (files : list pfile) : outcome :=
    match workers bs o 0 files with
    | inr (i, st) => PWorker i st
    | inl evs =>
        match Coord.run cap (Coord.init (tags_of evs)) sched with
        | None => PSchedule
        | Some s' =>
            if Coord.final s' then
              let printed := map (ev_of evs) (Coord.printed s') in
              let r := Summary.run (op_cli o) (sources_of files) printed in
              POk (Summary.k_stdout r, Summary.k_total r)
            else PNotFinal
        end
    end.

  (* ============================================================== the specification *)

  (* a spec group as a printable message: one part per line *)
  Definition spec_msg (g : LinesSpec.group) : Print.msg :=
    {| Print.m_kind := Print.KSys;
       Print.m_t := fst g;
       Print.m_lines := map (fun l => [l]) (snd g);
       Print.m_beg := fst (dtspan (hd [] (snd g)));
       Print.m_end := snd (dtspan (hd [] (snd g))) |}.

  (* the messages of one file inside the window, each with "is the file's last message" *)
  Definition spec_file_msgs (a b : option Z) (f : Chunk.file) : list (LinesSpec.group * bool) :=
    filter (fun gl => WindowSpec.in_window a b (fst (fst gl))) (mark_last (LinesSpec.syslines dated f)).

  Definition spec_file_events (o : options) (i : nat) (pf : pfile) : list Summary.event :=
    mk_events i (map (fun gl => (spec_msg (fst gl), snd gl)) (spec_file_msgs (op_after o) (op_before o) (pf_data pf))).

  Fixpoint spec_sources_from (o : options) (i : nat) (files : list pfile) : list (list Summary.event) :=
    match files with
    | [] => []
    | pf :: r => spec_file_events o i pf :: spec_sources_from o (S i) r
    end.
  Definition spec_sources (o : options) (files : list pfile) : list (list Summary.event) :=
    spec_sources_from o 0 files.

  (* all messages in the window, stable-sorted by instant: ties keep source order, then file order *)
  Definition spec_events (o : options) (files : list pfile) : list Summary.event :=
    stable_sort_by ev_t (concat (spec_sources o files)).

  (* stdout: each message canonically decorated (Print.decorate with the per-source options of
     Summary.printer_opts: file field padded to the widest printed name, date field), then the
     separator, then one newline for a file's last message that lacks it.  [lasts] = the colour
     each source's printer last selected (termcolor skips a repeated set_color) *)
  Fixpoint render (c : Summary.cli) (popt : nat -> Print.popts) (lasts : nat -> option Print.cls)
           (evs : list Summary.event) : list Print.out :=
    match evs with
    | [] => []
    | e :: r =>
        let i := Summary.e_src e in
        let '(o, l') := Print.sem (Print.decorate (popt i) (Summary.e_msg e)) (lasts i) in
        o ++ Print.obs (Summary.trailer c e) ++ render c popt (Summary.fupd lasts i l') r
    end.

  (* the same for colour off, as plain bytes: prefix ++ line for every line, separator, newline *)
  Definition render_bytes (c : Summary.cli) (popt : nat -> Print.popts) (evs : list Summary.event) : Bytes.bytes :=
    flat_map (fun e => concat (map (fun l => Print.prefix (popt (Summary.e_src e)) (Summary.e_msg e) ++ l)
                                   (Print.flat_lines (Summary.e_msg e)))
                       ++ Summary.trailer c e) evs.

  (* totals as measures of the output (only tallied with --summary) *)
  Definition spec_totals (c : Summary.cli) (evs : list Summary.event) (stdout : list Print.out) : Summary.summ :=
    if Summary.c_summary c then
      {| Summary.u_bytes := Print.blen (Print.payload stdout);
         Summary.u_lines := N.of_nat (length (concat (map (fun e => Print.m_lines (Summary.e_msg e)) evs)));
         Summary.u_sys := N.of_nat (length evs);
         Summary.u_fixed := 0; Summary.u_evtx := 0; Summary.u_journal := 0;
         Summary.u_first := zmin_list (map ev_t evs);
         Summary.u_last := zmax_list (map ev_t evs) |}
    else Summary.summ0.

  Definition program_spec (o : options) (files : list pfile) : list Print.out * Summary.summ :=
    let c := op_cli o in
    let evs := spec_events o files in
    let out := render c (Summary.popt_of c (sources_of files) evs) (fun _ => None) evs in
    (out, spec_totals c evs out).

  (* ============================================================== schedules, domain *)

  (* a complete execution of the coordinator for the spec-level sources: an event list that the
     transition system accepts from the initial state and after which every channel is disconnected *)
  Definition complete (cap : nat) (o : options) (files : list pfile) (sched : schedule) : Prop :=
    exists s', Coord.run cap (Coord.init (tags_of (spec_sources o files))) sched = Some s' /\
               Coord.final s' = true.

  (* the hypotheses of the component theorems, per file *)
  Definition file_chronological (f : Chunk.file) : Prop :=            (* C03 (binary search), C01 (closed form) *)
    WindowSpec.nondecreasing fst (LinesSpec.syslines dated f) = true.
  Definition file_msgs_2bytes (f : Chunk.file) : Prop :=              (* C03 bsearch_first_geq *)
    Forall (fun g => 2 <= Chunk.lenN (LinesSpec.group_bytes g)) (LinesSpec.syslines dated f).
  Definition span_ok : Prop :=                                        (* C13 variants_agree (dt_beg <= dt_end) *)
    forall l, (fst (dtspan l) <= snd (dtspan l))%nat.

  Definition file_ok (f : Chunk.file) : Prop :=
    file_chronological f /\ file_msgs_2bytes f.

  Definition domain (files : list pfile) : Prop :=
    span_ok /\ Forall (fun pf => file_ok (pf_data pf)) files.

  (* stage 1 accepted every file at this block size (C12: the gate is NOT block-size independent,
     findings F3a/F3b/F3c; hence a hypothesis that names the block size) *)
  Definition gate_passed (bs : N) (files : list pfile) : Prop :=
    Forall (fun pf => Gate.gate dated bs (pf_data pf) = Gate.FileOk) files.
End Oracles.

(* the undecorated run of the same invocation: no prepended field, no separator, no colour *)
Definition undecorated (c : Summary.cli) : Summary.cli :=
  {| Summary.c_colour := false; Summary.c_prepend_file := false; Summary.c_align := false;
     Summary.c_psep := []; Summary.c_fmt := None; Summary.c_off := Summary.c_off c;
     Summary.c_sep := []; Summary.c_summary := Summary.c_summary c |}.
Definition undecorated_opts (o : options) : options :=
  mkOptions (undecorated (op_cli o)) (op_after o) (op_before o).
