(* Model/Program.v — WHOLE-PROGRAM composition (work package H; hosted by C01 and C06):
   one model and one specification from (files, options) to (stdout, summary totals).
   Definitions only (proofs: Proofs/ProgramProofs.v).

   The component models keep their own message types; this file holds the ADAPTERS between them
   and the composition:

     bytes of a file
       --(Model/Lines.v, Model/Syslines.v: block-wise reader at block size bs)-->   sysline (line parts)
       --[adapter A1: rmsg / reader_find]-->     the `find` oracle of the search loop
       --(the search loop of Model/Search.v, re-stated here over an ABSTRACT find that returns a
          payload: binary search when plain, linear when streamed; stage-2/3 driver)-->
                                                 the worker's NewMessage sequence (sysline, is_last)
       --[adapter A2: tags]-->                   Merge.msg (source, position, instant)
       --(Model/Coord.v: the coordinator transition system run under a schedule)-->
                                                 the printed sequence of tags
       --[adapter A3: ev_of]-->                  Summary.event (Print.msg with the line PARTS as slices)
       --(Model/Print.v print_msg variant chosen from the options, the 2056-byte buffer;
          Model/Summary.v: separator, supplied final newline, accounting)-->
                                                 stdout items + SummaryPrinted totals

   [program_m] is that CODE-LEVEL composition.  [program_spec] is the SPEC-LEVEL function: the
   stable sort by instant (source order, then file order, on ties) of the windowed spec groups
   (Spec/LinesSpec.v) of every file, each canonically decorated (Print.decorate), with the totals
   defined as measures of that output.  The spec mentions no block size, no schedule, no cache,
   no line parts, no buffer and no search strategy.

   Why the search loop is re-stated: Model/Search.v defines its `find` from a layout (the
   specification of find_sysline); the composed code-level model must run the loop against the
   BLOCK READER.  Section GSearch is the same transcription of
   find_sysline_at_datetime_filter_{binary,linear}_search / find_sysline_between_datetime_filters
   / exec_syslogprocessor with `find` abstract and returning a payload;
   ProgramProofs.gsearch_refines shows it coincides with Model/Search.v whenever its `find`
   agrees with Search.find — the adapter obligation that C02's find_sysline_correct discharges.

   Oracles (Section variables, as in C02/C03): [dated] the instant of a line if a supported
   timestamp pattern matches it; [dtspan] the (dt_beg, dt_end) byte positions of that timestamp
   in the line (only used to place colour).

   SOURCE KINDS (second stage).  A source is a text log, a YEAR-LESS text log (process_missing_year =
   Model/Year.v in front of the window and the merge), an accounting-record file (layout detection
   Model/LayoutDetect.v, ordering core Model/Records.v, text Model/RecordRender.v), an event log
   (Model/Evtx.v over the parser's enumeration) or a journal (Model/Journal.v, libsystemd an
   oracle): [pkind], [worker_out] / [spec_out] per kind, [oracles] bundles the oracle functions.

   THIRD STAGE.  (1) a journal entry's text and merge instant are Model/JournalRender.v for the ten
   --journal-output forms (no oracle); (2) a text file runs over the CACHED reader machine of
   Model/Caches.v (block-zero analysis pattern, then the stage driver with a drop plan) wherever work
   package A proves a driver theorem (every file without a datetime window, every streamed file:
   [cached_case]) and, for a seekable file with a window, the binary search threaded through that machine
   (Section SSearch, [cached_win_worker]); [program_pure] keeps every text file on the pure block-wise reader; (3) the year
   walk of a year-less file stops early at --dt-after ([walk_until], finding F17).

   FOURTH STAGE.  A text source of kind [KTextRows dbr rows] carries no timestamp oracle of its own: stage 1 is
   the complete per-row block-zero analysis Model/Gate.gate_rows over the per-row function [dbr] (instantiated in
   Proofs/ProgramRegex.v with work package B's regex model of bytes_to_regex_to_datetime), the row it names dates
   every line of stages 2 + 3; the specification uses the bs-free decision Model/GateSpec.spec_accept.

   Out of the composed model (each is a hypothesis of program_correct or named in the check):
   the container formats of event logs and journals, the caches of a year-less file (pure reader there), I/O errors, a print error (EPIPE), SIGINT. *)
From Coq Require Import List NArith ZArith Bool Arith.
Import ListNotations.
From S4.Base Require Bytes Chunk.
From S4.Spec Require LinesSpec WindowSpec.
From Coq Require Sorted.
From S4.Spec Require RecordsSpec JournalSpec.
From S4.Model Require Lines Syslines Search Merge Coord Strftime Print Summary Gate GateSpec Caches.
From S4.Model Require Calendar Year Records RecordRender LayoutDetect Evtx Journal JournalRender.
From S4.Gen Require FixedStructTables JournalTables.

(* ================================================================ inputs *)

(* the options that reach the pipeline: the printing/summary options of Model/Summary.v and the
   resolved datetime window (-a / -b; C14 is the property about their resolution) *)
Record options := mkOptions {
  op_cli : Summary.cli;
  op_after : option Z;
  op_before : option Z;
  op_jout : JournalRender.output;      (* --journal-output *)
  op_jenv : JournalRender.env }.       (* what a run adds to a journal entry: the zone of --tz-offset, one bit of the host *)

(* ================================================================ the search loop over an abstract find *)

(* result of find_sysline: Found((fo, syslinep)) | Done; GFault = the reader model itself ended
   in Panic / OutOfFuel (excluded by C02 for every block size > 0) *)
Inductive gfres (M : Type) : Type :=
| GFound (fo : N) (m : M)
| GDone
| GFault (code : N).
Arguments GFound {M} fo m.
Arguments GDone {M}.
Arguments GFault {M} code.

Inductive gsres (M : Type) : Type :=
| GSFound (fo : N) (m : M)
| GSDone
| GSDoneErr (code : N)
| GSPanic (code : N)
| GSOutOfFuel
| GSFault (code : N).
Arguments GSFound {M} fo m.
Arguments GSDone {M}.
Arguments GSDoneErr {M} code.
Arguments GSPanic {M} code.
Arguments GSOutOfFuel {M}.
Arguments GSFault {M} code.

Inductive gstatus : Type := GOk | GErr (code : N) | GPanicked (code : N) | GNoFuel | GFaulted (code : N).

Section GSearch.
  Variable M : Type.
  Variable view : M -> Search.sl.        (* fileoffset_begin, len, dt() of the payload *)
  Variable gfind : N -> gfres M.         (* SyslineReader::find_sysline *)
  Variable filesz : N.

  Local Open Scope N_scope.

  (* SyslineReader::is_sysline_last *)
  Definition g_is_last (m : M) : bool := Search.s_end (view m) =? filesz - 1.

  Record gbst := mkGB {
    g_try_fo : N; g_try_fo_last : N; g_fo_a : N; g_fo_b : N;
    g_last_found : option M }.

  Inductive gbout := GContinue (st : gbst) | GReturn (r : gsres M).

  Section GBsearch.
    Variable dt_filter : option Z.
    Variable fileoffset : N.

    (* `let fo_: FileOffset = syslinep.fileoffset_next(); return Found((fo_, syslinep))` *)
    Definition g_found_next (m : M) : gsres M := GSFound (Search.s_next (view m)) m.

    Definition g_endgame (done : bool) (st : gbst) : gbout :=
      if done && (g_try_fo st =? g_try_fo_last st) then GReturn GSDone
      else if negb (g_try_fo st =? g_try_fo_last st) then GContinue st
      else
        match g_last_found st with
        | None => GReturn (GSPanic 4)
        | Some m =>
          let s := view m in
          let fo_beg := Search.s_beg s in
          if g_is_last m && (fo_beg <? g_try_fo st) then GReturn GSDone
          else if fo_beg <? g_try_fo st then
            match gfind (Search.s_next s) with
            | GDone => GReturn GSDone
            | GFault c => GReturn (GSFault c)
            | GFound _ mn =>
              match Search.dt_after_or_before (Search.s_t s) dt_filter,
                    Search.dt_after_or_before (Search.s_t (view mn)) dt_filter with
              | _, Search.Pass | Search.Pass, _ => GReturn (GSDoneErr 1)
              | Search.OccursBefore, Search.OccursBefore => GReturn (g_found_next mn)
              | Search.OccursBefore, Search.OccursAtOrAfter => GReturn (g_found_next mn)
              | Search.OccursAtOrAfter, Search.OccursAtOrAfter => GReturn (g_found_next m)
              | Search.OccursAtOrAfter, Search.OccursBefore => GReturn (GSDoneErr 2)
              end
            end
          else GReturn (g_found_next m)
        end.

    (* arms A and B return the `fo` that find_sysline returned *)
    Definition g_bmatch (st : gbst) : (bool * gbst) + gsres M :=
      match gfind (g_try_fo st) with
      | GFound fo m =>
        let s := view m in
        match Search.dt_after_or_before (Search.s_t s) dt_filter with
        | Search.Pass => inr (GSFound fo m)
        | Search.OccursAtOrAfter =>
          if g_try_fo st =? fileoffset then inr (GSFound fo m)
          else
            let tl := g_try_fo st in
            let b' := N.min (Search.s_beg s) tl in
            if g_fo_a st <=? b' then
              inl (false, mkGB (g_fo_a st + (b' - g_fo_a st) / 2) tl (g_fo_a st) b' (Some m))
            else inr (GSPanic 1)
        | Search.OccursBefore =>
          let foe := Search.s_end s in
          let tl := g_try_fo st in
          if tl <=? foe then
            let a' := N.min foe (g_fo_b st) in
            inl (false, mkGB (a' + (g_fo_b st - a') / 2) tl a' (g_fo_b st) (Some m))
          else inr (GSPanic 2)
        end
      | GDone =>
        if g_fo_a st <=? g_fo_b st then
          inl (true, mkGB (g_fo_a st + (g_fo_b st - g_fo_a st) / 2) (g_try_fo st) (g_fo_a st) (g_fo_b st)
                          (g_last_found st))
        else inr (GSPanic 3)
      | GFault c => inr (GSFault c)
      end.

    Definition g_bstep (st : gbst) : gbout :=
      match g_bmatch st with
      | inr r => GReturn r
      | inl (done, st') => g_endgame done st'
      end.

    Fixpoint g_bloop (fuel : nat) (st : gbst) : gsres M :=
      match fuel with
      | O => GSOutOfFuel
      | S f => match g_bstep st with
               | GReturn r => r
               | GContinue st' => g_bloop f st'
               end
      end.

    Definition g_bstart : gbst := mkGB fileoffset fileoffset fileoffset filesz None.
    Definition g_bsearch (fuel : nat) : gsres M := g_bloop fuel g_bstart.

    (* linear search returns the reader's `fo` and advances the cursor to it *)
    Fixpoint g_linear_from (fuel : nat) (fo_cursor : N) : gsres M :=
      match fuel with
      | O => GSOutOfFuel
      | S f =>
        match gfind fo_cursor with
        | GDone => GSDone
        | GFault c => GSFault c
        | GFound fo m =>
          match Search.dt_after_or_before (Search.s_t (view m)) dt_filter with
          | Search.Pass | Search.OccursAtOrAfter => GSFound fo m
          | Search.OccursBefore => g_linear_from f fo
          end
        end
      end.
    Definition g_linear (fuel : nat) : gsres M := g_linear_from fuel fileoffset.
  End GBsearch.

  (* budgets computed from the file size only: the binary search as in Model/Search.v
     (2 + bit length of the size); the linear scan and the stage-3 loop advance by at least one
     byte per iteration, so size + 1 iterations always suffice *)
  Definition g_lfuel : nat := S (N.to_nat filesz).

  Definition g_find_at (streamed : bool) (dt_filter : option Z) (fileoffset : N) : gsres M :=
    if streamed then g_linear dt_filter fileoffset g_lfuel
    else g_bsearch dt_filter fileoffset (Search.bfuel filesz).

  Definition g_find_between (streamed : bool) (fa fb : option Z) (fileoffset : N) : gsres M :=
    match g_find_at streamed fa fileoffset with
    | GSFound fo m =>
      match Search.dt_pass_filters (Search.s_t (view m)) fa fb with
      | Search.InRange => GSFound fo m
      | Search.BeforeRange => GSDoneErr 3
      | Search.AfterRange => GSDone
      end
    | r => r
    end.

  (* exec_syslogprocessor, stage 2 + stage 3: the NewMessage datums (payload, is_last) in send order *)
  Fixpoint g_stream (fuel : nat) (streamed : bool) (fa fb : option Z) (fo1 : N) : list (M * bool) * gstatus :=
    match fuel with
    | O => ([], GNoFuel)
    | S f =>
      match g_find_between streamed fa fb fo1 with
      | GSFound fo m =>
        if g_is_last m then ([(m, true)], GOk)
        else let '(out, st) := g_stream f streamed fa fb fo in ((m, false) :: out, st)
      | GSDone => ([], GOk)
      | GSDoneErr c => ([], GErr c)
      | GSPanic c => ([], GPanicked c)
      | GSOutOfFuel => ([], GNoFuel)
      | GSFault c => ([], GFaulted c)
      end
    end.

  Definition g_text_out (streamed : bool) (fa fb : option Z) : list (M * bool) * gstatus :=
    g_stream g_lfuel streamed fa fb 0.
End GSearch.

Arguments g_text_out {M} view gfind filesz streamed fa fb.
Arguments g_stream {M} view gfind filesz fuel streamed fa fb fo1.
Arguments g_find_between {M} view gfind filesz streamed fa fb fileoffset.
Arguments g_find_at {M} view gfind filesz streamed dt_filter fileoffset.
Arguments g_linear {M} view gfind dt_filter fileoffset fuel.
Arguments g_linear_from {M} view gfind dt_filter fuel fo_cursor.
Arguments g_bsearch {M} view gfind filesz dt_filter fileoffset fuel.
Arguments g_bloop {M} view gfind filesz dt_filter fileoffset fuel st.
Arguments g_bstep {M} view gfind filesz dt_filter fileoffset st.
Arguments g_bmatch {M} view gfind dt_filter fileoffset st.
Arguments g_endgame {M} view gfind filesz dt_filter done st.
Arguments g_bstart {M} filesz fileoffset.
Arguments g_is_last {M} view filesz m.
Arguments g_found_next {M} view m.
Arguments mkGB {M} _ _ _ _ _.
Arguments g_try_fo {M} _.
Arguments g_try_fo_last {M} _.
Arguments g_fo_a {M} _.
Arguments g_fo_b {M} _.
Arguments g_last_found {M} _.
Arguments GContinue {M} st.
Arguments GReturn {M} r.

(* ================================================================ the same loop over a find WITH STATE *)

(* SyslineReader::find_sysline changes the reader (caches, stored lines, blocks): [sfind st fo] returns the
   new state; [sdrop st m] is SyslogProcessor::drop_data_try(m).  The binary search, find_between and the
   stage-2/3 driver are those of Section GSearch with the reader state threaded through; stage 3 calls
   drop_data_try(the message before) at the opportunities [plan] selects (Model/Caches.v plan_at). *)
Section SSearch.
  Variable St M : Type.
  Variable view : M -> Search.sl.
  Variable sfind : St -> N -> St * gfres M.
  Variable sdrop : St -> M -> St.
  Variable filesz : N.

  Local Open Scope N_scope.

  Section SBsearch.
    Variable dt_filter : option Z.
    Variable fileoffset : N.

    Definition s_endgame (done : bool) (st : gbst M) (s : St) : St * gbout M :=
      if done && (g_try_fo st =? g_try_fo_last st) then (s, GReturn GSDone)
      else if negb (g_try_fo st =? g_try_fo_last st) then (s, GContinue st)
      else
        match g_last_found st with
        | None => (s, GReturn (GSPanic 4))
        | Some m =>
          let v := view m in
          let fo_beg := Search.s_beg v in
          if g_is_last view filesz m && (fo_beg <? g_try_fo st) then (s, GReturn GSDone)
          else if fo_beg <? g_try_fo st then
            match sfind s (Search.s_next v) with
            | (s', GDone) => (s', GReturn GSDone)
            | (s', GFault c) => (s', GReturn (GSFault c))
            | (s', GFound _ mn) =>
              (s', match Search.dt_after_or_before (Search.s_t v) dt_filter,
                         Search.dt_after_or_before (Search.s_t (view mn)) dt_filter with
                   | _, Search.Pass | Search.Pass, _ => GReturn (GSDoneErr 1)
                   | Search.OccursBefore, Search.OccursBefore => GReturn (g_found_next view mn)
                   | Search.OccursBefore, Search.OccursAtOrAfter => GReturn (g_found_next view mn)
                   | Search.OccursAtOrAfter, Search.OccursAtOrAfter => GReturn (g_found_next view m)
                   | Search.OccursAtOrAfter, Search.OccursBefore => GReturn (GSDoneErr 2)
                   end)
            end
          else (s, GReturn (g_found_next view m))
        end.

    Definition s_bmatch (s : St) (st : gbst M) : St * ((bool * gbst M) + gsres M) :=
      match sfind s (g_try_fo st) with
      | (s', GFound fo m) =>
        (s', let v := view m in
             match Search.dt_after_or_before (Search.s_t v) dt_filter with
             | Search.Pass => inr (GSFound fo m)
             | Search.OccursAtOrAfter =>
               if g_try_fo st =? fileoffset then inr (GSFound fo m)
               else
                 let tl := g_try_fo st in
                 let b' := N.min (Search.s_beg v) tl in
                 if g_fo_a st <=? b' then
                   inl (false, mkGB (g_fo_a st + (b' - g_fo_a st) / 2) tl (g_fo_a st) b' (Some m))
                 else inr (GSPanic 1)
             | Search.OccursBefore =>
               let foe := Search.s_end v in
               let tl := g_try_fo st in
               if tl <=? foe then
                 let a' := N.min foe (g_fo_b st) in
                 inl (false, mkGB (a' + (g_fo_b st - a') / 2) tl a' (g_fo_b st) (Some m))
               else inr (GSPanic 2)
             end)
      | (s', GDone) =>
        (s', if g_fo_a st <=? g_fo_b st then
               inl (true, mkGB (g_fo_a st + (g_fo_b st - g_fo_a st) / 2) (g_try_fo st) (g_fo_a st) (g_fo_b st)
                               (g_last_found st))
             else inr (GSPanic 3))
      | (s', GFault c) => (s', inr (GSFault c))
      end.

    Definition s_bstep (s : St) (st : gbst M) : St * gbout M :=
      match s_bmatch s st with
      | (s', inr r) => (s', GReturn r)
      | (s', inl (done, st')) => s_endgame done st' s'
      end.

    Fixpoint s_bloop (fuel : nat) (s : St) (st : gbst M) : St * gsres M :=
      match fuel with
      | O => (s, GSOutOfFuel)
      | S k => match s_bstep s st with
               | (s', GReturn r) => (s', r)
               | (s', GContinue st') => s_bloop k s' st'
               end
      end.

    Definition s_bsearch (fuel : nat) (s : St) : St * gsres M := s_bloop fuel s (g_bstart filesz fileoffset).
  End SBsearch.

  (* find_sysline_between_datetime_filters on a seekable file *)
  Definition s_find_between (fa fb : option Z) (fileoffset : N) (s : St) : St * gsres M :=
    match s_bsearch fa fileoffset (Search.bfuel filesz) s with
    | (s', GSFound fo m) =>
      (s', match Search.dt_pass_filters (Search.s_t (view m)) fa fb with
           | Search.InRange => GSFound fo m
           | Search.BeforeRange => GSDoneErr 3
           | Search.AfterRange => GSDone
           end)
    | x => x
    end.

  (* exec_syslogprocessor stage 2 + 3, with drop_data_try(the message before) after every message but the last *)
  Fixpoint s_stream (fuel : nat) (fa fb : option Z) (plan : list bool) (i : nat) (s : St) (fo1 : N) (prev : option M)
    : St * (list (M * bool) * gstatus) :=
    match fuel with
    | O => (s, ([], GNoFuel))
    | S k =>
      match s_find_between fa fb fo1 s with
      | (s1, GSFound fo m) =>
        if g_is_last view filesz m then (s1, ([(m, true)], GOk))
        else
          let '(s2, i2) := match prev with
                           | Some p => (if Caches.plan_at plan i then sdrop s1 p else s1, S i)
                           | None => (s1, i)
                           end in
          let '(s3, (out, st)) := s_stream k fa fb plan i2 s2 fo (Some m) in
          (s3, ((m, false) :: out, st))
      | (s1, GSDone) => (s1, ([], GOk))
      | (s1, GSDoneErr c) => (s1, ([], GErr c))
      | (s1, GSPanic c) => (s1, ([], GPanicked c))
      | (s1, GSOutOfFuel) => (s1, ([], GNoFuel))
      | (s1, GSFault c) => (s1, ([], GFaulted c))
      end
    end.
End SSearch.

Arguments s_stream {St M} view sfind sdrop filesz fuel fa fb plan i s fo1 prev.
Arguments s_find_between {St M} view sfind filesz fa fb fileoffset s.
Arguments s_bsearch {St M} view sfind filesz dt_filter fileoffset fuel s.
Arguments s_bloop {St M} view sfind filesz dt_filter fileoffset fuel s st.
Arguments s_bstep {St M} view sfind filesz dt_filter fileoffset s st.
Arguments s_bmatch {St M} view sfind dt_filter fileoffset s st.
Arguments s_endgame {St M} view sfind filesz dt_filter done st s.

(* ================================================================ generic stable sort (spec side) *)

Section SortBy.
  Context {A : Type}.
  Variable key : A -> Z.
  (* x precedes every element of l in the input: it is placed before the elements of equal key *)
  Fixpoint insert_by (x : A) (l : list A) : list A :=
    match l with
    | [] => [x]
    | y :: r => if (key x <=? key y)%Z then x :: y :: r else y :: insert_by x r
    end.
  Definition stable_sort_by (l : list A) : list A := fold_right insert_by [] l.
End SortBy.

(* the last element of a list is flagged *)
Fixpoint mark_last {A} (l : list A) : list (A * bool) :=
  match l with
  | [] => []
  | x :: r => match r with
              | [] => [(x, true)]
              | _ :: _ => (x, false) :: mark_last r
              end
  end.

(* minimum / maximum of a list of instants *)
Definition zmin_list (l : list Z) : option Z :=
  match l with [] => None | x :: r => Some (fold_left Z.min r x) end.
Definition zmax_list (l : list Z) : option Z :=
  match l with [] => None | x :: r => Some (fold_left Z.max r x) end.

(* what the composed model takes from a run besides the schedule, per text worker: how many
   find_line_in_block / find_sysline_in_block calls block-zero analysis made, and which of the
   drop_data_try opportunities of stage 3 ran (Model/Caches.v `plan`); for a streamed file, which block
   discipline its container has (sequential decoder with look-behind drop / sliced at open / re-read on
   every miss).  The theorems hold for EVERY value *)
Record rparams := mkRp { rp_k1 : nat; rp_k2 : nat; rp_plan : list bool;
                         rp_ck : Caches.ckind }.     (* a streamed file's container: .gz/.bz2/.lz4, .xz, tar member *)

Section Oracles.
  Variable dated : list N -> option Z.
  Variable dtspan : list N -> nat * nat.

  Local Open Scope N_scope.

  (* ============================================================== A1: reader -> search *)

  (* what the search loop and the coordinator hold for one found message: the Sysline as the
     block reader assembled it (line parts), and its (begin, length, instant) *)
  Record rmsg := mkRmsg { r_sl : Search.sl; r_sys : Syslines.sysline }.

  (* Sysline::fileoffset_begin / len / dt.  (fileoffset_end is begin + len - 1: the lines of a
     Sysline are contiguous, C02 `lines_repr`.) *)
  Definition reader_find (bs : N) (f : Chunk.file) (fo : N) : gfres rmsg :=
    match Syslines.find_sysline_m dated bs f fo with
    | Lines.Found (fo_next, sl) =>
        match Syslines.sysline_fo_begin bs sl with
        | Some b => GFound fo_next (mkRmsg (Search.mkSl b (Chunk.lenN (Syslines.sysline_bytes bs f sl)) (fst sl)) sl)
        | None => GFault 1
        end
    | Lines.Done => GDone
    | Lines.OutOfFuel => GFault 2
    | Lines.Panic => GFault 3
    end.

  (* ============================================================== A3 (message part): reader -> printer *)

  (* the Print.msg of a Sysline: every Line is its list of parts, each part the slice of its block
     (LinePart::as_slice); dt_beg / dt_end from the timestamp oracle on the first line *)
  Definition pmsg_of (bs : N) (f : Chunk.file) (sl : Syslines.sysline) : Print.msg :=
    let first := Lines.bytes_of bs f (hd [] (snd sl)) in
    {| Print.m_kind := Print.KSys;
       Print.m_t := fst sl;
       Print.m_lines := map (map (Lines.part_bytes bs f)) (snd sl);
       Print.m_beg := fst (dtspan first);
       Print.m_end := snd (dtspan first) |}.

  (* ============================================================== one text worker (exec_syslogprocessor) *)

  (* stage 1 (block-zero gate), then stage 2 + 3.  A file the gate rejects sends FileInfo and
     FileSummary only.  Result: the NewMessage datums (message, is_last), and how the search ended *)
  Definition text_worker (bs : N) (a b : option Z) (streamed : bool) (f : Chunk.file)
    : list (Print.msg * bool) * gstatus :=
    match Gate.gate dated bs f with
    | Gate.FileOk =>
        let '(out, st) := g_text_out r_sl (reader_find bs f) (Chunk.lenN f) streamed a b in
        (map (fun mb => (pmsg_of bs f (r_sys (fst mb)), snd mb)) out, st)
    | _ => ([], GOk)
    end.

  (* stages 2 + 3 alone (stage 1 decided elsewhere: a file read through the per-row analysis, KTextRows) *)
  Definition text_run (bs : N) (a b : option Z) (streamed : bool) (f : Chunk.file)
    : list (Print.msg * bool) * gstatus :=
    let '(out, st) := g_text_out r_sl (reader_find bs f) (Chunk.lenN f) streamed a b in
    (map (fun mb => (pmsg_of bs f (r_sys (fst mb)), snd mb)) out, st).

  (* ============================================================== the same worker over the CACHED reader *)

  (* Model/Caches.v (work package A) is the reader AS THE CODE RUNS IT: BlockReader (which blocks are read,
     stored, dropped; the look-behind drop of a streamed container), LineReader and SyslineReader with their
     maps and LRU caches.  A text worker is: stage 1 on that reader (c_gate: k1 find_line_in_block and k2
     find_sysline_in_block calls from offset 0), then stages 2 + 3 = the stage driver with a drop plan:
       - a file WITHOUT datetime window: c_stream (find_sysline at 0, then at each fo_next;
         drop_data_try of the message before);
       - a STREAMED file with a window: c_stream_win (the linear search of
         find_sysline_at_datetime_filter, find_sysline_between_datetime_filters).
       - a SEEKABLE file WITH a window: the binary search of find_sysline_at_datetime_filter (Section
         SSearch: the loop of Section GSearch with the reader state threaded through) calling
         find_sysline of that machine, drop_data_try of the message before after every message
         (cached_win_worker below; work package A's step lemmas find_step / drop_try_ok apply because
         every call of a search started at fileoffset is at or after fileoffset, and everything dropped
         lies before it).
     The year-less files (reverse pass of process_missing_year first) run over the pure block-wise reader
     (text_worker above). *)
  Definition cached_case (a b : option Z) (streamed : bool) : bool :=
    streamed || match a, b with None, None => true | _, _ => false end.

  (* the datum sent for a stored Sysline: its line parts as slices, SyslineReader::is_sysline_last *)
  Definition cmsg_of (bs : N) (f : Chunk.file) (s : Caches.ssl) : Print.msg * bool :=
    (pmsg_of bs f (Caches.ss_sysline s), Syslines.is_sysline_last bs f (Caches.ss_sysline s)).

  Definition cached_driver (bs : N) (rp : rparams) (a b : option Z) (streamed : bool) (f : Chunk.file)
    : Caches.sr_state * Lines.res (list Caches.ssl) :=
    if streamed then
      Caches.c_stream_win dated bs f a b (rp_plan rp)
        (Caches.c_gate dated (rp_k1 rp) (rp_k2 rp) bs f (Caches.sr_init_b (Caches.b_open (rp_ck rp) bs (Chunk.lenN f))))
    else Caches.c_stream dated bs f (rp_plan rp) (Caches.c_gate dated (rp_k1 rp) (rp_k2 rp) bs f Caches.sr_init).

  Definition cached_text_worker (bs : N) (rp : rparams) (a b : option Z) (streamed : bool) (f : Chunk.file)
    : list (Print.msg * bool) * gstatus :=
    match Gate.gate dated bs f with
    | Gate.FileOk =>
        match snd (cached_driver bs rp a b streamed f) with
        | Lines.Found l => (map (cmsg_of bs f) l, GOk)
        | Lines.Done => ([], GFaulted 4)
        | Lines.OutOfFuel => ([], GNoFuel)
        | Lines.Panic => ([], GPanicked 40)        (* find_sysline inside the range of a dropped Sysline *)
        end
    | _ => ([], GOk)
    end.

  (* a seekable file with a window.  Sysline::fileoffset_begin / len / dt of a stored Sysline *)
  Definition cview (bs : N) (f : Chunk.file) (s : Caches.ssl) : Search.sl :=
    Search.mkSl (match Caches.ss_begin bs s with Some b => b | None => 0 end)
                (Chunk.lenN (Syslines.sysline_bytes bs f (Caches.ss_sysline s))) (Caches.ss_dt s).

  Definition cached_find (bs : N) (f : Chunk.file) (st : Caches.sr_state) (fo : N)
    : Caches.sr_state * gfres Caches.ssl :=
    match Caches.c_find_sysline dated bs f st fo with
    | (st', Lines.Found (n, s), _) =>
        match Caches.ss_begin bs s with Some _ => (st', GFound n s) | None => (st', GFault 1) end
    | (st', Lines.Done, _) => (st', GDone)
    | (st', Lines.OutOfFuel, _) => (st', GFault 2)
    | (st', Lines.Panic, _) => (st', GFault 3)          (* inside the range of a dropped Sysline *)
    end.

  Definition cached_win_driver (bs : N) (rp : rparams) (a b : option Z) (f : Chunk.file)
    : Caches.sr_state * (list (Caches.ssl * bool) * gstatus) :=
    s_stream (cview bs f) (cached_find bs f) (Caches.c_drop_data_try bs) (Chunk.lenN f) (g_lfuel (Chunk.lenN f))
             a b (rp_plan rp) 0 (Caches.c_gate dated (rp_k1 rp) (rp_k2 rp) bs f Caches.sr_init) 0 None.

  Definition cached_win_worker (bs : N) (rp : rparams) (a b : option Z) (f : Chunk.file)
    : list (Print.msg * bool) * gstatus :=
    match Gate.gate dated bs f with
    | Gate.FileOk =>
        let '(out, st) := snd (cached_win_driver bs rp a b f) in
        (map (fun mb : Caches.ssl * bool => (pmsg_of bs f (Caches.ss_sysline (fst mb)), snd mb)) out, st)
    | _ => ([], GOk)
    end.

  (* a text file of a year-bearing notation: always over the cached machine *)
  Definition text_worker_c (bs : N) (rp : rparams) (a b : option Z) (streamed : bool) (f : Chunk.file)
    : list (Print.msg * bool) * gstatus :=
    if cached_case a b streamed then cached_text_worker bs rp a b streamed f
    else cached_win_worker bs rp a b f.

  (* stages 2 + 3 over the cached machine, stage 1's verdict taken elsewhere (KTextRows) *)
  Definition text_run_c (bs : N) (rp : rparams) (a b : option Z) (streamed : bool) (f : Chunk.file)
    : list (Print.msg * bool) * gstatus :=
    if cached_case a b streamed then
      match snd (cached_driver bs rp a b streamed f) with
      | Lines.Found l => (map (cmsg_of bs f) l, GOk)
      | Lines.Done => ([], GFaulted 4)
      | Lines.OutOfFuel => ([], GNoFuel)
      | Lines.Panic => ([], GPanicked 40)
      end
    else
      let '(out, st) := snd (cached_win_driver bs rp a b f) in
      (map (fun mb : Caches.ssl * bool => (pmsg_of bs f (Caches.ss_sysline (fst mb)), snd mb)) out, st).

  (* oracle hypothesis of block-zero analysis on the cached reader (Props/C02.v gate_then_refines): the
     partial line find_line_in_block hands to the parser is the first byte of a line (finding F3a); it
     never dates differently from the line *)
  Definition first_byte_ok (f : Chunk.file) : Prop :=
    forall b z, b < Chunk.lenN f -> LinesSpec.line_beg f b = b ->
      dated (Chunk.slice f b (b + 1)) = Some z -> dated (Chunk.slice f b (LinesSpec.line_end f b + 1)) = Some z.

  (* ============================================================== the text specification *)

  (* a spec group as a printable message: one part per line *)
  Definition spec_msg (g : LinesSpec.group) : Print.msg :=
    {| Print.m_kind := Print.KSys;
       Print.m_t := fst g;
       Print.m_lines := map (fun l => [l]) (snd g);
       Print.m_beg := fst (dtspan (hd [] (snd g)));
       Print.m_end := snd (dtspan (hd [] (snd g))) |}.

  (* the messages of one file inside the window, each with "is the file's last message" *)
  Definition spec_file_msgs (a b : option Z) (f : Chunk.file) : list (LinesSpec.group * bool) :=
    filter (fun gl => WindowSpec.in_window a b (fst (fst gl))) (mark_last (LinesSpec.syslines dated f)).

  Definition text_spec (a b : option Z) (f : Chunk.file) : list (Print.msg * bool) :=
    map (fun gl => (spec_msg (fst gl), snd gl)) (spec_file_msgs a b f).

  (* the hypotheses of the component theorems, per text file *)
  Definition file_chronological (f : Chunk.file) : Prop :=            (* C03 (binary search), C01 (closed form) *)
    WindowSpec.nondecreasing fst (LinesSpec.syslines dated f) = true.
  Definition file_msgs_2bytes (f : Chunk.file) : Prop :=              (* C03 bsearch_first_geq *)
    Forall (fun g => 2 <= Chunk.lenN (LinesSpec.group_bytes g)) (LinesSpec.syslines dated f).
  Definition span_ok : Prop :=                                        (* C13 variants_agree (dt_beg <= dt_end) *)
    forall l, (fst (dtspan l) <= snd (dtspan l))%nat.
  Definition file_ok (f : Chunk.file) : Prop :=
    file_chronological f /\ file_msgs_2bytes f.

  (* ============================================================== messages of the other kinds *)

  (* a record / event / journal entry as a printable message: one part per line (a record: its whole
     text is the one "line"; an event / entry: LinesSpec.lines of its text); dt_beg / dt_end from
     the span oracle on the whole text *)
  Definition kmsg (k : Print.kind) (t : Z) (lines : list Bytes.bytes) : Print.msg :=
    {| Print.m_kind := k; Print.m_t := t;
       Print.m_lines := map (fun l => [l]) lines;
       Print.m_beg := fst (dtspan (concat lines));
       Print.m_end := snd (dtspan (concat lines)) |}.
End Oracles.

(* ================================================================ events, tags, print site (all kinds) *)

Definition mk_events (i : nat) (l : list (Print.msg * bool)) : list Summary.event :=
  map (fun mb => {| Summary.e_src := i; Summary.e_msg := fst mb; Summary.e_is_last := snd mb |}) l.

Definition ev_t (e : Summary.event) : Z := Print.m_t (Summary.e_msg e).

(* A2, worker -> coordinator: the coordinator acts on (PathId, position, instant) only *)
Definition tags_of (evs : list (list Summary.event)) : list (list Merge.msg) :=
  Merge.tag_srcs (map (map ev_t) evs).

Definition dummy_msg : Print.msg :=
  {| Print.m_kind := Print.KSys; Print.m_t := 0%Z; Print.m_lines := []; Print.m_beg := 0%nat; Print.m_end := 0%nat |}.
Definition dummy_event : Summary.event :=
  {| Summary.e_src := 0%nat; Summary.e_msg := dummy_msg; Summary.e_is_last := false |}.

(* A3, coordinator -> print site: the datum the coordinator holds for a printed tag (in the code
   the tag and the payload are one value, `(LogMessage, is_last)`) *)
Definition ev_of (evs : list (list Summary.event)) (m : Merge.msg) : Summary.event :=
  nth (Merge.m_pos m) (nth (Merge.m_src m) evs []) dummy_event.

Definition schedule := list Coord.event.

Inductive outcome : Type :=
| POk (r : list Print.out * Summary.summ)   (* stdout items, SummaryPrinted totals *)
| PWorker (i : nat) (st : gstatus)          (* worker i ended abnormally (search error exit / panic / fuel / reader fault) *)
| PSchedule                                 (* the schedule is not an execution of the coordinator *)
| PNotFinal.                                (* ... or stops before every channel is disconnected *)

(* stdout: each message canonically decorated (Print.decorate with the per-source options of
   Summary.printer_opts: file field padded to the widest printed name, date field), then the
   separator, then one newline for a text file's last message that lacks it.  [lasts] = the colour
   each source's printer last selected (termcolor skips a repeated set_color) *)
Fixpoint render (c : Summary.cli) (popt : nat -> Print.popts) (lasts : nat -> option Print.cls)
         (evs : list Summary.event) : list Print.out :=
  match evs with
  | [] => []
  | e :: r =>
      let i := Summary.e_src e in
      let '(o, l') := Print.sem (Print.decorate (popt i) (Summary.e_msg e)) (lasts i) in
      o ++ Print.obs (Summary.trailer c e) ++ render c popt (Summary.fupd lasts i l') r
  end.

(* the same for colour off, as plain bytes: prefix ++ line for every line, separator, newline *)
Definition render_bytes (c : Summary.cli) (popt : nat -> Print.popts) (evs : list Summary.event) : Bytes.bytes :=
  flat_map (fun e => concat (map (fun l => Print.prefix (popt (Summary.e_src e)) (Summary.e_msg e) ++ l)
                                 (Print.flat_lines (Summary.e_msg e)))
                     ++ Summary.trailer c e) evs.

Definition kind_eqb (a b : Print.kind) : bool :=
  match a, b with
  | Print.KSys, Print.KSys | Print.KFixed, Print.KFixed | Print.KEvtx, Print.KEvtx | Print.KJournal, Print.KJournal => true
  | _, _ => false
  end.
Definition count_of (k : Print.kind) (evs : list Summary.event) : N :=
  N.of_nat (length (filter (fun e => kind_eqb (Print.m_kind (Summary.e_msg e)) k) evs)).

(* totals as measures of the output (only tallied with --summary): bytes that are not part of a
   colour sequence, messages per kind, lines of TEXT messages only, earliest / latest instant *)
Definition spec_totals (c : Summary.cli) (evs : list Summary.event) (stdout : list Print.out) : Summary.summ :=
  if Summary.c_summary c then
    {| Summary.u_bytes := Print.blen (Print.payload stdout);
       Summary.u_lines := N.of_nat (length (concat (map (fun e => Print.m_lines (Summary.e_msg e))
                                                    (filter (fun e => kind_eqb (Print.m_kind (Summary.e_msg e)) Print.KSys) evs))));
       Summary.u_sys := count_of Print.KSys evs;
       Summary.u_fixed := count_of Print.KFixed evs;
       Summary.u_evtx := count_of Print.KEvtx evs;
       Summary.u_journal := count_of Print.KJournal evs;
       Summary.u_first := zmin_list (map ev_t evs);
       Summary.u_last := zmax_list (map ev_t evs) |}
  else Summary.summ0.

(* ================================================================ source kinds *)

(* what a named source is.  Text kinds carry their bytes in pf_data; a record file also; for an
   event log and a journal the container format is outside the model: the source IS the
   enumeration its parser library yields (the evtx crate; libsystemd, an oracle with contract J1) *)
Inductive pkind : Type :=
| KText                                          (* text log, notation with a year *)
| KYearless (off mtime : Z)                      (* text log, year-less notation: fallback zone (s east of UTC),
                                                    modification time (s since the epoch) *)
| KRecords (hint : N) (layout : Bytes.bytes)     (* accounting records: the FileType hint from the name (C16) and
                                                    the layout the file was written in (ground truth of the spec) *)
| KEvtxFile (recs : list (option (Z * Bytes.bytes)))   (* event log: per enumerated record its creation instant (ns)
                                                    and rendered text; None = a record the parser could not decode *)
| KJournalFile (j : Journal.journal)             (* journal: entries in libsystemd's enumeration order *)
| KTextRows (dbr : N -> list N -> option Z) (rows : list N).
                                                 (* text log read through the PER-ROW analysis (fourth stage): [dbr r l] = the
                                                    instant pattern row r gives line l; stage 1 is the complete block-zero
                                                    analysis Model/Gate.gate_rows over all rows, which names the row the file
                                                    is parsed with; stages 2 + 3 date every line with that row alone *)

Record pfile := mkPfile {
  pf_src : Summary.source;      (* the string that -n / -p prepends *)
  pf_streamed : bool;           (* text kinds: streamed container (gz, ...: linear search) or seekable (binary search) *)
  pf_data : Chunk.file;         (* the (decompressed) bytes; [] for KEvtxFile / KJournalFile *)
  pf_kind : pkind }.

(* the oracles of the composed model *)
Record oracles := mkOracles {
  o_dated : list N -> option Z;                  (* instant of a line when a year-bearing pattern matches it *)
  o_dtspan : list N -> nat * nat;                (* (dt_beg, dt_end) of the timestamp in a text (colour only) *)
  o_ydate : list N -> option Year.ymsg;          (* (month, day, time of day) when a year-less pattern matches the line *)
  o_f32 : Bytes.bytes -> Bytes.bytes;            (* format!("{}", f32) of the four bytes of an acct field *)
  o_sd_head : Journal.journal -> list Journal.entry;          (* libsystemd: seek_head + next* *)
  o_sd_rt : Journal.journal -> Z -> list Journal.entry }.     (* libsystemd: seek_realtime_usec + next* *)

Section Kinds.
  Variable O : oracles.
  Local Open Scope N_scope.

  Let dated := o_dated O.
  Let dtspan := o_dtspan O.

  (* ============================================================== year-less text *)
  (* SyslogProcessor::process_missing_year (Model/Year.v, C11) runs in stage 2 over the file's
     messages and fixes the year of each; afterwards find_sysline answers with those instants.
     Here: the messages are found with "a year-less pattern matches the line", assign_years gives
     each its instant, and the text pipeline runs with the resulting line -> instant table.
     (The early stop of the walk at --dt-after, C11 theorem 7, leaves the messages above it dated
     in the filler year: not modelled; it cannot matter for a lower bound after the filler year.) *)
  Definition ydated0 (l : list N) : option Z := option_map (fun _ => 0%Z) (o_ydate O l).
  Definition yl_heads (f : Chunk.file) : list (list N) :=
    map (fun g : LinesSpec.group => hd [] (snd g)) (LinesSpec.syslines ydated0 f).
  Definition yl_msgs (f : Chunk.file) : list Year.ymsg :=
    flat_map (fun h => match o_ydate O h with Some m => [m] | None => [] end) (yl_heads f).
  Definition yl_table (off mtime : Z) (f : Chunk.file) : option (list (Bytes.bytes * Z)) :=
    match Year.assign_years 2 off (Year.year_of_seconds off mtime) (yl_msgs f) with
    | Some ys => Some (combine (yl_heads f) (map snd ys))
    | None => None
    end.

  (* THE WALK AS THE CODE RUNS IT, with its early stop: after a message is accepted, `match
     dt_after_or_before(dt, filter_dt_after) { OccursBefore => break }` — the walk ends at the first
     message (from the end of the file) that lies before --dt-after.  The messages above it are
     never re-dated: find_sysline later parses them with the filler year (YEAR_FALLBACKDUMMY). *)
  Definition FILLER_YEAR : Z := 1972.
  Fixpoint walk_until (a : option Z) (fuel : nat) (off year : Z) (prev : option Z) (rmsgs : list Year.ymsg)
    : option (list (Z * Z)) :=
    match rmsgs with
    | [] => Some []
    | m :: r =>
        match Year.redate fuel off year prev m with
        | Year.Dated y t =>
            match a with
            | Some av => if (t <? av)%Z then Some [(y, t)]
                         else option_map (cons (y, t)) (walk_until a fuel off y (Some t) r)
            | None => option_map (cons (y, t)) (walk_until a fuel off y (Some t) r)
            end
        | _ => None
        end
    end.
  Definition filler_inst (off : Z) (m : Year.ymsg) : Z :=
    match Year.with_year off FILLER_YEAR m with Some t => t | None => 0%Z end.
  (* instants in file order: the filler for the messages the walk did not reach, then the walked ones *)
  Definition es_instants (a : option Z) (off mtime : Z) (f : Chunk.file) : option (list Z) :=
    let ms := yl_msgs f in
    match walk_until a 2 off (Year.year_of_seconds off mtime) None (rev ms) with
    | Some w => Some (map (filler_inst off) (firstn (length ms - length w) ms) ++ map snd (rev w))
    | None => None
    end.
  Definition yl_table_es (a : option Z) (off mtime : Z) (f : Chunk.file) : option (list (Bytes.bytes * Z)) :=
    match es_instants a off mtime f with
    | Some ts => Some (combine (yl_heads f) ts)
    | None => None
    end.
  Definition yl_dated (tab : list (Bytes.bytes * Z)) (l : list N) : option Z :=
    match o_ydate O l with Some _ => Bytes.assoc l tab | None => None end.

  (* ============================================================== accounting records *)
  (* FixedStructReader::new: the layout is chosen by score_file over the candidates of
     filesz_to_types (Model/LayoutDetect.v, tables regenerated); preprocess_timevalues + the
     process_entry_at loop (Model/Records.v, key (time value, offset)); an entry of 0xFF bytes
     cannot be constructed and is dropped when reached; the text is FixedStruct::as_bytes
     (Model/RecordRender.v) into the printer's buffer *)
  Definition p_detect (hint : N) (file : Bytes.bytes) : option (option Bytes.bytes * Z) :=
    LayoutDetect.score_file LayoutDetect.no_mem FixedStructTables.count_found_entries_max
      (LayoutDetect.order_cands FixedStructTables.candidate_order
         (LayoutDetect.filesz_candidates FixedStructTables.fixedstruct_layouts FixedStructTables.filesz_bonus
            FixedStructTables.filesz_try_all FixedStructTables.fixedstruct_score FixedStructTables.score_bonus
            hint (N.of_nat (length file))))
      file.
  Definition find_layout (n : Bytes.bytes) : option Records.layout :=
    find (fun l => Bytes.beqb n (Records.l_name l)) FixedStructTables.fixedstruct_layouts.

  (* tv_pair -> DateTimeL (convert_tvpair_to_datetime, 0 <= usec < 10^6) and back (the filter) *)
  Definition tv_inst (t : RecordsSpec.tv) : Z := (fst t * 1000000000 + snd t * 1000)%Z.
  Definition tv_of_ns (z : Z) : RecordsSpec.tv := ((z / 1000000000)%Z, ((z mod 1000000000) / 1000)%Z).
  Definition all_ff (e : Bytes.bytes) : bool := forallb (N.eqb 255) e.

  Definition rec_flag (sz : N) (file : Bytes.bytes) (fo : N) : bool := fo + sz =? N.of_nat (length file).
  Definition rec_msg (L : Records.layout) (text : Bytes.bytes) (file : Bytes.bytes) (fo : N) : Print.msg :=
    kmsg dtspan Print.KFixed (tv_inst (Records.decode_tv L (Records.slice fo (Records.l_size L) file))) [text].

  Fixpoint records_render (L : Records.layout) (items : list RecordRender.ritem) (file : Bytes.bytes) (fos : list N)
    : list (Print.msg * bool) * gstatus :=
    match fos with
    | [] => ([], GOk)
    | fo :: r =>
        match RecordRender.as_bytes (o_f32 O) FixedStructTables.print_buffer_cap items FixedStructTables.as_bytes_tail
                                    (Records.slice fo (Records.l_size L) file) with
        | RecordRender.ROk text =>
            let '(out, st) := records_render L items file r in
            ((rec_msg L text file fo, rec_flag (Records.l_size L) file fo) :: out, st)
        | RecordRender.RFail _ => ([], GFaulted 10)
        end
    end.

  Definition records_worker (a b : option Z) (hint : N) (file : Bytes.bytes) : list (Print.msg * bool) * gstatus :=
    match p_detect hint file with
    | Some (Some n, _) =>
        match find_layout n, Bytes.assoc n FixedStructTables.fixedstruct_render with
        | Some L, Some items =>
            let sz := Records.l_size L in
            match Records.records_sent (fun fo => all_ff (Records.slice fo sz file))
                    (Records.records_out_K2 (option_map tv_of_ns a) (option_map tv_of_ns b) sz (Records.file_tvs L file)) with
            | Records.WDone fos => records_render L items file fos
            | Records.WOutOfFuel _ => ([], GNoFuel)
            end
        | _, _ => ([], GFaulted 11)
        end
    | Some (None, _) => ([], GOk)            (* FileErrNoHighScore: FileInfo and FileSummary only *)
    | None => ([], GFaulted 12)              (* a scored C string without NUL inside the struct *)
    end.

  (* spec: the non-null, constructible records inside the window (bounds truncated to the
     microsecond of the time value), stable-sorted by time value — equal times keep file order —
     each rendered in the file's own layout *)
  Definition records_kept (a b : option Z) (L : Records.layout) (file : Bytes.bytes) : list RecordsSpec.rec :=
    filter (fun r => negb (all_ff (Records.slice (RecordsSpec.r_fo r) (Records.l_size L) file)))
           (filter (RecordsSpec.rec_keep (option_map tv_of_ns a) (option_map tv_of_ns b))
                   (RecordsSpec.index_recs (Records.l_size L) 0 (Records.file_tvs L file))).
  Definition records_spec (a b : option Z) (lname : Bytes.bytes) (file : Bytes.bytes) : list (Print.msg * bool) :=
    match find_layout lname, Bytes.assoc lname FixedStructTables.fixedstruct_render with
    | Some L, Some items =>
        let sz := Records.l_size L in
        map (fun r => (rec_msg L (RecordRender.render (o_f32 O) items FixedStructTables.as_bytes_tail
                                    (Records.slice (RecordsSpec.r_fo r) sz file)) file (RecordsSpec.r_fo r),
                       rec_flag sz file (RecordsSpec.r_fo r)))
            (RecordsSpec.stable_sort_by_time (records_kept a b L file))
    | _, _ => []
    end.

  (* ============================================================== event logs *)
  Definition evtx_times (recs : list (option (Z * Bytes.bytes))) : list (option Z) := map (option_map fst) recs.
  Definition evtx_msg (recs : list (option (Z * Bytes.bytes))) (i : N) : Print.msg * bool :=
    match nth (N.to_nat i) recs None with
    | Some (t, text) => (kmsg dtspan Print.KEvtx t (LinesSpec.lines text), false)
    | None => (kmsg dtspan Print.KEvtx 0%Z [], false)
    end.
  Definition evtx_worker (a b : option Z) (recs : list (option (Z * Bytes.bytes))) : list (Print.msg * bool) * gstatus :=
    match Evtx.evtx_out a b (evtx_times recs) with
    | Evtx.DDone idx => (map (evtx_msg recs) idx, GOk)
    | Evtx.DOutOfFuel _ => ([], GNoFuel)
    end.
  Definition evtx_spec (a b : option Z) (recs : list (option (Z * Bytes.bytes))) : list (Print.msg * bool) :=
    map (fun e => evtx_msg recs (RecordsSpec.e_idx e))
        (RecordsSpec.spec_events a b (RecordsSpec.index_evs 0 (evtx_times recs))).

  (* ============================================================== journals *)
  Definition us_of_ns (z : Z) : Z := (z / 1000)%Z.      (* DateTime::timestamp_micros *)
  (* JournalReader::next for an entry that passed next_common: Model/JournalRender.v with the
     configuration regenerated from the source (Gen/JournalTables.src_cfg); Found -> a message whose
     text is the rendering and whose instant is the one the rendering shows (shown_us), ErrIgnore
     (`cat` without MESSAGE) -> nothing, the loop continues; a formatter panic ends the worker *)
  Definition jentry_inst (e : Journal.entry) : Z := (JournalRender.shown_us JournalTables.src_cfg e * 1000)%Z.
  Definition journal_msg (e : Journal.entry) (text : Bytes.bytes) : Print.msg * bool :=
    (kmsg dtspan Print.KJournal (jentry_inst e) (LinesSpec.lines text), false).
  Fixpoint journal_emit (o : options) (es : list Journal.entry) : list (Print.msg * bool) * gstatus :=
    match es with
    | [] => ([], GOk)
    | e :: r =>
        match JournalRender.next_entry JournalTables.src_cfg (op_jenv o) (op_jout o) e with
        | JournalRender.NFound t => let '(out, st) := journal_emit o r in (journal_msg e t :: out, st)
        | JournalRender.NErrIgnore => journal_emit o r
        | JournalRender.NPanic => ([], GPanicked 30)
        end
    end.
  Definition journal_worker (o : options) (j : Journal.journal) : list (Print.msg * bool) * gstatus :=
    journal_emit o (Journal.journal_run (o_sd_head O) (o_sd_rt O) Journal.stop_after
                                        (option_map us_of_ns (op_after o)) (option_map us_of_ns (op_before o)) j).
  (* spec: the in-window entries (receive time, bounds truncated to the microsecond), journal
     order, each rendered in the selected output form; `cat` skips entries without MESSAGE *)
  Definition journal_spec (o : options) (j : Journal.journal) : list (Print.msg * bool) :=
    flat_map (fun e => match JournalRender.next_entry JournalTables.src_cfg (op_jenv o) (op_jout o) e with
                       | JournalRender.NFound t => [journal_msg e t]
                       | _ => []
                       end)
             (JournalSpec.window Journal.e_time (option_map us_of_ns (op_after o)) (option_map us_of_ns (op_before o)) j).

  (* ============================================================== one worker, one source of the spec *)
  Definition worker_pure (bs : N) (o : options) (pf : pfile) : list (Print.msg * bool) * gstatus :=
    let a := op_after o in let b := op_before o in
    match pf_kind pf with
    | KText => text_worker dated dtspan bs a b (pf_streamed pf) (pf_data pf)
    | KYearless off mtime =>
        match yl_table_es a off mtime (pf_data pf) with        (* stage 2: the year walk, stopped early at --dt-after *)
        | Some tab => text_worker (yl_dated tab) dtspan bs a b (pf_streamed pf) (pf_data pf)
        | None => ([], GFaulted 20)          (* a message that has no date in a candidate year (Issue #245) *)
        end
    | KRecords hint _ => records_worker a b hint (pf_data pf)
    | KEvtxFile recs => evtx_worker a b recs
    | KJournalFile j => journal_worker o j
    | KTextRows dbr rows =>
        match GateSpec.accepted (Gate.gate_rows dbr rows bs (pf_data pf)) with
        | Some r => text_run (dbr r) dtspan bs a b (pf_streamed pf) (pf_data pf)
        | None => ([], GOk)
        end
    end.

  Definition spec_out (o : options) (pf : pfile) : list (Print.msg * bool) :=
    let a := op_after o in let b := op_before o in
    match pf_kind pf with
    | KText => text_spec dated dtspan a b (pf_data pf)
    | KYearless off mtime =>
        match yl_table off mtime (pf_data pf) with
        | Some tab => text_spec (yl_dated tab) dtspan a b (pf_data pf)
        | None => []
        end
    | KRecords _ lname => records_spec a b lname (pf_data pf)
    | KEvtxFile recs => evtx_spec a b recs
    | KJournalFile j => journal_spec o j
    | KTextRows dbr rows =>           (* the bs-free decision of Model/GateSpec.v: the first row, in table order, that dates the first dated line *)
        match GateSpec.spec_accept dbr rows (pf_data pf) with
        | Some r => text_spec (dbr r) dtspan a b (pf_data pf)
        | None => []
        end
    end.

  (* ============================================================== the composed code-level model *)

  (* the worker as the code runs it: a text file over the cached reader machine where work package A
     has a driver theorem (cached_case), every other source as in worker_pure *)
  Definition worker_out (bs : N) (rp : rparams) (o : options) (pf : pfile) : list (Print.msg * bool) * gstatus :=
    match pf_kind pf with
    | KText => text_worker_c dated dtspan bs rp (op_after o) (op_before o) (pf_streamed pf) (pf_data pf)
    | KTextRows dbr rows =>
        match GateSpec.accepted (Gate.gate_rows dbr rows bs (pf_data pf)) with
        | Some r => text_run_c (dbr r) dtspan bs rp (op_after o) (op_before o) (pf_streamed pf) (pf_data pf)
        | None => ([], GOk)
        end
    | _ => worker_pure bs o pf
    end.

  (* all workers, in PathId order; the first abnormal one is reported *)
  Fixpoint workers_of (W : nat -> pfile -> list (Print.msg * bool) * gstatus) (i : nat) (files : list pfile)
    : list (list Summary.event) + (nat * gstatus) :=
    match files with
    | [] => inl []
    | pf :: r =>
        match W i pf with
        | (out, GOk) =>
            match workers_of W (S i) r with
            | inl l => inl (mk_events i out :: l)
            | inr e => inr e
            end
        | (_, st) => inr (i, st)
        end
    end.
  Definition workers_pure (bs : N) (o : options) : nat -> list pfile -> list (list Summary.event) + (nat * gstatus) :=
    workers_of (fun _ pf => worker_pure bs o pf).
  Definition workers (bs : N) (rps : nat -> rparams) (o : options) : nat -> list pfile -> list (list Summary.event) + (nat * gstatus) :=
    workers_of (fun i pf => worker_out bs (rps i) o pf).

  Definition sources_of (files : list pfile) : list Summary.source := map pf_src files.

  (* coordinator under the schedule, print site, summary *)
  Definition finish (cap : nat) (sched : schedule) (o : options) (files : list pfile)
             (w : list (list Summary.event) + (nat * gstatus)) : outcome :=
    match w with
    | inr (i, st) => PWorker i st
    | inl evs =>
        match Coord.run cap (Coord.init (tags_of evs)) sched with
        | None => PSchedule
        | Some s' =>
            if Coord.final s' then
              let printed := map (ev_of evs) (Coord.printed s') in
              let r := Summary.run (op_cli o) (sources_of files) printed in
              POk (Summary.k_stdout r, Summary.k_total r)
            else PNotFinal
        end
    end.

  (* THE COMPOSED CODE-LEVEL MODEL: the text readers with their caches (rps: per PathId the reader parameters) *)
  Definition program_m (cap : nat) (bs : N) (rps : nat -> rparams) (sched : schedule) (o : options) (files : list pfile) : outcome :=
    finish cap sched o files (workers bs rps o 0 files).

  (* the same with every text file over the pure block-wise reader (Model/Lines.v, Model/Syslines.v) *)
  Definition program_pure (cap : nat) (bs : N) (sched : schedule) (o : options) (files : list pfile) : outcome :=
    finish cap sched o files (workers_pure bs o 0 files).

  (* ============================================================== the specification *)

  Definition spec_file_events (o : options) (i : nat) (pf : pfile) : list Summary.event :=
    mk_events i (spec_out o pf).

  Fixpoint spec_sources_from (o : options) (i : nat) (files : list pfile) : list (list Summary.event) :=
    match files with
    | [] => []
    | pf :: r => spec_file_events o i pf :: spec_sources_from o (S i) r
    end.
  Definition spec_sources (o : options) (files : list pfile) : list (list Summary.event) :=
    spec_sources_from o 0 files.

  (* all messages in the window, stable-sorted by instant: ties keep source order, then file order *)
  Definition spec_events (o : options) (files : list pfile) : list Summary.event :=
    stable_sort_by ev_t (concat (spec_sources o files)).

  Definition program_spec (o : options) (files : list pfile) : list Print.out * Summary.summ :=
    let c := op_cli o in
    let evs := spec_events o files in
    let out := render c (Summary.popt_of c (sources_of files) evs) (fun _ => None) evs in
    (out, spec_totals c evs out).

  (* ============================================================== schedules, domain *)

  (* a complete execution of the coordinator for the spec-level sources: an event list that the
     transition system accepts from the initial state and after which every channel is disconnected *)
  Definition complete (cap : nat) (o : options) (files : list pfile) (sched : schedule) : Prop :=
    exists s', Coord.run cap (Coord.init (tags_of (spec_sources o files))) sched = Some s' /\
               Coord.final s' = true.

  (* text of an event / entry ends with a newline (print_evtx_* / print_journalentry_* loop over
     newline-terminated lines: a trailing fragment would be printed by the plain variant only) *)
  Definition nl_terminated (t : Bytes.bytes) : Prop := t = [] \/ exists p, t = p ++ [10].

  (* the hypotheses of the component theorems, per source kind *)
  Definition src_ok (o : options) (pf : pfile) : Prop :=
    match pf_kind pf with
    | KText => file_ok dated (pf_data pf) /\                                (* C03, C01 *)
               first_byte_ok dated (pf_data pf)                              (* C02 gate_then_refines *)
    | KYearless off mtime =>
        let f := pf_data pf in
        (* C11: the full walk dates every message; the file is a text file under the INFERRED instants *)
        (exists tab, yl_table off mtime f = Some tab /\ file_ok (yl_dated tab) f) /\
        (* the run as the code performs it (walk stopped early): also a text file, ... *)
        (exists tes, yl_table_es (op_after o) off mtime f = Some tes /\ file_ok (yl_dated tes) f) /\
        NoDup (yl_heads f) /\                      (* the oracle is a function of the line: equal head lines would share an instant *)
        (* ... and the window does not reach back to the filler year (finding F17): every message the
           walk did not reach lies before --dt-after under its filler date too *)
        (forall av, op_after o = Some av ->
           forall w, walk_until (op_after o) 2 off (Year.year_of_seconds off mtime) None (rev (yl_msgs f)) = Some w ->
           Forall (fun m => (filler_inst off m < av)%Z) (firstn (length (yl_msgs f) - length w) (yl_msgs f)))
    | KRecords hint lname =>
        let f := pf_data pf in
        (exists s, p_detect hint f = Some (Some lname, s)) /\                (* C08 detection picks the file's layout *)
        (exists L items, find_layout lname = Some L /\ Bytes.assoc lname FixedStructTables.fixedstruct_render = Some items /\
           (* valid timevals: the order of the time values is the order of the instants *)
           Forall (fun r => (0 <= snd (RecordsSpec.r_tv r) < 1000000)%Z) (records_kept (op_after o) (op_before o) L f)) /\
        Forall (fun b => b < 256) f /\                                      (* C08 as_bytes_is_render *)
        (forall b4, (length (o_f32 O b4) <= 64)%nat)
    | KEvtxFile recs =>
        Forall (fun r => match r with Some (_, t) => nl_terminated t | None => True end) recs
    | KJournalFile j =>
        Journal.J1_contract (o_sd_head O) (o_sd_rt O) /\                    (* C09 *)
        Journal.nondecreasing (Journal.times j) /\ Journal.valid_realtimes (Journal.times j) /\
        JournalSpec.bound_rep (option_map us_of_ns (op_after o)) /\ JournalSpec.bound_rep (option_map us_of_ns (op_before o)) /\
        (* every rendering of an in-window entry ends with a newline (print_journalentry_* precondition) *)
        Forall (fun e => nl_terminated (JournalRender.entry_bytes
                            (JournalRender.next_entry JournalTables.src_cfg (op_jenv o) (op_jout o) e))) j
    | KTextRows dbr rows =>
        (* the decision names a row, and under THAT row the file is a text file in the sense of KText *)
        exists r, GateSpec.spec_accept dbr rows (pf_data pf) = Some r /\
                  file_ok (dbr r) (pf_data pf) /\ first_byte_ok (dbr r) (pf_data pf)
    end.

  Definition domain (o : options) (files : list pfile) : Prop :=
    span_ok dtspan /\ Forall (src_ok o) files.

  (* stage 1 accepted every TEXT file at this block size (C12: the gate is NOT block-size
     independent, findings F3a-d; hence a hypothesis that names the block size) *)
  Definition gate_passed (bs : N) (o : options) (files : list pfile) : Prop :=
    Forall (fun pf => match pf_kind pf with
                      | KText => Gate.gate dated bs (pf_data pf) = Gate.FileOk
                      | KYearless off mtime =>      (* stage 1 sees the lines as the stopped walk leaves them dated *)
                          forall tab, yl_table_es (op_after o) off mtime (pf_data pf) = Some tab ->
                                      Gate.gate (yl_dated tab) bs (pf_data pf) = Gate.FileOk
                      | KTextRows dbr rows =>       (* the complete analysis at this block size decides as the bs-free decision
                                                       (C12 gate_accept_spec: outside the classes F3a-d) *)
                          GateSpec.accepted (Gate.gate_rows dbr rows bs (pf_data pf)) = GateSpec.spec_accept dbr rows (pf_data pf)
                      | _ => True
                      end) files.
End Kinds.

(* the undecorated run of the same invocation: no prepended field, no separator, no colour *)
Definition undecorated (c : Summary.cli) : Summary.cli :=
  {| Summary.c_colour := false; Summary.c_prepend_file := false; Summary.c_align := false;
     Summary.c_psep := []; Summary.c_fmt := None; Summary.c_off := Summary.c_off c;
     Summary.c_sep := []; Summary.c_summary := Summary.c_summary c |}.
Definition undecorated_opts (o : options) : options :=
  mkOptions (undecorated (op_cli o)) (op_after o) (op_before o) (op_jout o) (op_jenv o).
