(* Model/Coord.v — the worker / bounded channel / coordinator transition system of
   `processing_loop` in src/bin/s4.rs (property C06; definitions only).

   Per source i (one worker thread, one bounded crossbeam channel, PathId = i):
     unsent  : the datums the worker has still to send, in order
               (protocol: FileInfo, NewMessage*, FileSummary — `exec_*processor`)
     queue   : the channel contents (FIFO, at most `cap` = CHANNEL_CAPACITY)
     pending : `map_pathid_datum[i]` / `set_pathid` — the message on hand
     live    : i is a key of MAP_PATHID_CHANRECVDATUM
     got_fi  : `map_pathid_received_fileinfo[i]`
   Global: fi_open = `!map_pathid_received_fileinfo.is_empty()` (the map is
   cleared once, when every value is true, and never refilled); printed = stdout.

   Events.  Send i: worker i's blocking `chan_send`, possible iff the channel is
   not full.  Recv i: one iteration of the loop in wait mode in which `select`
   returned channel i — possible iff i is live, not filtered by `set_pathid`
   (no pending message) and its channel is ready (a datum queued, or the sender
   gone: RecvError).  Print: one iteration of the else-branch.  Which ready
   channel `select` returns, and how sends interleave, is the nondeterminism. *)
From Coq Require Import List ZArith Bool Arith.
From S4.Model Require Import Merge.
Import ListNotations.

Inductive datum : Type :=
| DInfo                (* ChanDatum::FileInfo *)
| DMsg (m : msg)       (* ChanDatum::NewMessage *)
| DSum.                (* ChanDatum::FileSummary *)

Record src : Type := mkSrc {
  unsent : list datum;
  queue : list datum;
  pending : option msg;
  live : bool;
  got_fi : bool }.

Record state : Type := mkState {
  srcs : list src;
  fi_open : bool;
  printed : list msg }.

Inductive event : Type :=
| Send (i : nat)
| Recv (i : nat)
| Print.

(* what a worker sends for a source whose in-window messages are l; a source that
   fails after k messages sends worker_datums (firstn k l) *)
Definition worker_datums (l : list msg) : list datum := DInfo :: map DMsg l ++ [DSum].

Definition init_src (l : list msg) : src := mkSrc (worker_datums l) [] None true false.

Definition init (Ss : list (list msg)) : state :=
  mkState (map init_src Ss) (match Ss with [] => false | _ => true end) [].

Fixpoint upd {A} (i : nat) (f : A -> A) (l : list A) : list A :=
  match l, i with
  | [], _ => []
  | x :: r, O => f x :: r
  | x :: r, S i' => x :: upd i' f r
  end.

Definition is_some {A} (o : option A) : bool :=
  match o with Some _ => true | None => false end.
Definition has_pending (x : src) : bool := is_some (pending x).

Definition count_live (l : list src) : nat := length (filter live l).
Definition count_pending (l : list src) : nat := length (filter has_pending l).

(* `MAP_PATHID_CHANRECVDATUM.len() != map_pathid_datum.len()
    || !map_pathid_received_fileinfo.is_empty()` *)
Definition wait_mode (s : state) : bool :=
  negb (Nat.eqb (count_live (srcs s)) (count_pending (srcs s))) || fi_open s.

(* the three `match chan_datum` arms; q = the channel after the receive *)
Definition recv_datum (d : datum) (x : src) (q : list datum) : src :=
  match d with
  | DInfo => mkSrc (unsent x) q (pending x) (live x) true
  | DMsg m => mkSrc (unsent x) q (Some m) (live x) (got_fi x)
  | DSum => mkSrc (unsent x) q (pending x) false (got_fi x)   (* disconnect.push *)
  end.

(* `if !map.is_empty() && map.iter().all(|(_, v)| v == &true) { ...; map.clear() }` *)
Definition close_fi (open : bool) (l : list src) : bool :=
  if open && forallb got_fi l then false else open.

Definition clear_pending (x : src) : src :=
  mkSrc (unsent x) (queue x) None (live x) (got_fi x).

Definition step (cap : nat) (s : state) (e : event) : option state :=
  match e with
  | Send i =>
      match nth_error (srcs s) i with
      | Some x =>
          match unsent x with
          | d :: u =>
              if Nat.ltb (length (queue x)) cap
              then Some (mkState
                           (upd i (fun _ => mkSrc u (queue x ++ [d]) (pending x) (live x) (got_fi x)) (srcs s))
                           (fi_open s) (printed s))
              else None
          | [] => None
          end
      | None => None
      end
  | Recv i =>
      if wait_mode s then
        match nth_error (srcs s) i with
        | Some x =>
            if live x && negb (has_pending x) then
              match queue x with
              | d :: q =>
                  let l' := upd i (fun _ => recv_datum d x q) (srcs s) in
                  Some (mkState l' (close_fi (fi_open s) l') (printed s))
              | [] =>
                  match unsent x with
                  | [] => (* sender gone: Err(RecvError), disconnect *)
                      let l' := upd i (fun _ => mkSrc [] [] (pending x) false (got_fi x)) (srcs s) in
                      Some (mkState l' (close_fi (fi_open s) l') (printed s))
                  | _ :: _ => None   (* `select` keeps blocking on this channel *)
                  end
              end
            else None
        | None => None
        end
      else None
  | Print =>
      if wait_mode s then None
      else
        match first_min (map pending (srcs s)) with
        | Some (i, m) =>
            Some (mkState (upd i clear_pending (srcs s)) (fi_open s) (printed s ++ [m]))
        | None => None   (* the code would `continue` forever; CoordProofs: unreachable *)
        end
  end.

(* the loop breaks when no channel is left *)
Definition final (s : state) : bool := forallb (fun x => negb (live x)) (srcs s).

Fixpoint run (cap : nat) (s : state) (es : list event) : option state :=
  match es with
  | [] => Some s
  | e :: r => match step cap s e with Some s' => run cap s' r | None => None end
  end.

Inductive reachable (cap : nat) (Ss : list (list msg)) : state -> Prop :=
| reach_init : reachable cap Ss (init Ss)
| reach_step s e s' : reachable cap Ss s -> step cap s e = Some s' -> reachable cap Ss s'.

(* termination measure: every step strictly decreases it *)
Definition weight (x : src) : nat :=
  3 * length (unsent x) + 2 * length (queue x)
  + (if has_pending x then 1 else 0) + (if live x then 1 else 0).
Definition mu (s : state) : nat := list_sum (map weight (srcs s)).

(* what a source still has to deliver: pending, then channel, then unsent *)
Definition opt_d (o : option msg) : list datum :=
  match o with Some m => [DMsg m] | None => [] end.
Definition rd (x : src) : list datum := opt_d (pending x) ++ queue x ++ unsent x.
Fixpoint msgs_of (ds : list datum) : list msg :=
  match ds with
  | [] => []
  | DMsg m :: r => m :: msgs_of r
  | _ :: r => msgs_of r
  end.
Definition remaining (x : src) : list msg := msgs_of (rd x).
Definition drained (x : src) : Prop := pending x = None /\ queue x = [] /\ unsent x = [].

(* ---------------------------------------------------------------------------
   Deterministic replay of the coordinator from its observed receive sequence.
   The trace hook logs `R pathid kind` for every receive; the coordinator's
   other decisions (print which source, disconnect) are a function of that
   sequence and of the message instants.  An observed receive of source i is
   replayed as worker i's Send immediately followed by Recv i, so a replay is
   an execution of the transition system above. *)
Inductive kind : Type := KI | KM | KS | KE.
Inductive tev : Type :=
| TR (i : nat) (k : kind)
| TP (i : nat)
| TD (i : nat).

Inductive replay_result : Type :=
| RDone (t : list tev) (s : state)
| RBad (why : nat) (t : list tev)   (* 1 receive after the end, 2 trace ends while waiting,
                                       3 receive not permitted by the model, 4 nothing to print *)
| ROutOfFuel.

Definition datum_kind (d : datum) : kind :=
  match d with DInfo => KI | DMsg _ => KM | DSum => KS end.
Definition kind_eqb (a b : kind) : bool :=
  match a, b with KI, KI | KM, KM | KS, KS | KE, KE => true | _, _ => false end.

Definition replay_recv (cap : nat) (s : state) (i : nat) (k : kind) : option state :=
  match nth_error (srcs s) i with
  | Some x =>
      match unsent x with
      | d :: _ =>
          if kind_eqb (datum_kind d) k then
            match step cap s (Send i) with
            | Some s1 => step cap s1 (Recv i)
            | None => None
            end
          else None
      | [] => if kind_eqb k KE then step cap s (Recv i) else None
      end
  | None => None
  end.

Definition prepend (t : list tev) (r : replay_result) : replay_result :=
  match r with
  | RDone t' s => RDone (t ++ t') s
  | RBad w t' => RBad w (t ++ t')
  | ROutOfFuel => ROutOfFuel
  end.

Definition disconnects (k : kind) : bool :=
  match k with KS | KE => true | _ => false end.

Fixpoint replay (fuel cap : nat) (s : state) (recvs : list (nat * kind)) : replay_result :=
  match fuel with
  | O => ROutOfFuel
  | S f =>
      if final s then
        match recvs with [] => RDone [] s | _ :: _ => RBad 1 [] end
      else if wait_mode s then
        match recvs with
        | [] => RBad 2 []
        | (i, k) :: r =>
            match replay_recv cap s i k with
            | Some s' =>
                prepend (TR i k :: if disconnects k then [TD i] else []) (replay f cap s' r)
            | None => RBad 3 []
            end
        end
      else
        match first_min (map pending (srcs s)), step cap s Print with
        | Some (i, _), Some s' => prepend [TP i] (replay f cap s' recvs)
        | _, _ => RBad 4 []
        end
  end.

(* fuel mu+1 suffices (CoordProofs.replay_fuel_enough) *)
Definition coord_replay (cap : nat) (Ss : list (list msg)) (recvs : list (nat * kind)) : replay_result :=
  replay (S (mu (init Ss))) cap (init Ss) recvs.
