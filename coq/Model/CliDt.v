(* Model/CliDt.v — executable model of the datetime-filter argument processing of
   src/bin/s4.rs (process_dt, string_wdhms_to_duration, string_to_rel_offset_datetime,
   cli_process_args (the -a/-b part), cli_process_tz_offset) and of the part of
   chrono 0.4 `parse_from_str` that the CLI_FILTER_PATTERNS rows exercise.
   Definitions only.  Tables (rows, append strings, relative-offset expression
   pieces, zone table) are parameters; the regenerated values are in Gen/CliDtTables.v.

   Strings are ASCII byte lists, pre-classified into [sym]: a decimal digit with its
   value, or any other byte.  The classification is part of the model ([classify]).
   Instants are Z nanoseconds since the Unix epoch; zone offsets Z seconds east.
   [None] as a result always means: the process exits with a non-zero status. *)
From Coq Require Import String.
From S4.Base Require Import Bytes.
From S4.Model Require Import Calendar.
Open Scope N_scope.

(* ------------------------------------------------------------------ symbols *)
Inductive sym := Dg (v : N) | Ch (c : N).

Definition classify1 (c : N) : sym :=
  if (48 <=? c) && (c <=? 57) then Dg (c - 48) else Ch c.
Definition classify (s : bytes) : list sym := map classify1 s.

Definition sym_byte (x : sym) : N := match x with Ch c => c | Dg v => 48 + v end.

(* char::is_whitespace / is_alphabetic restricted to ASCII *)
Definition is_ws_c (c : N) : bool := (c =? 32) || ((9 <=? c) && (c <=? 13)).
Definition is_alpha_c (c : N) : bool :=
  ((65 <=? c) && (c <=? 90)) || ((97 <=? c) && (c <=? 122)).
Definition sym_ws (x : sym) : bool := match x with Ch c => is_ws_c c | Dg _ => false end.
Definition sym_alpha (x : sym) : bool := match x with Ch c => is_alpha_c c | Dg _ => false end.
(* is [x] the character [c]?  (written so that a digit symbol with an unknown value is
   decided without arithmetic whenever [c] is not a digit character) *)
Definition sym_is (x : sym) (c : N) : bool :=
  match x with
  | Ch c' => c' =? c
  | Dg v => (48 <=? c) && (c <=? 57) && (v =? c - 48)
  end.

Fixpoint trim_ws (s : list sym) : list sym :=
  match s with
  | x :: r => if sym_ws x then trim_ws r else s
  | [] => []
  end.

(* scan::number: up to [max] leading digits *)
Fixpoint take_digits (max : nat) (s : list sym) : list N * list sym :=
  match max, s with
  | S k, Dg v :: r => let '(ds, r') := take_digits k r in (v :: ds, r')
  | _, _ => ([], s)
  end.

(* ------------------------------------------------------------------ strftime items *)
Inductive numkind := NYear | NMonth | NDay | NHour | NMinute | NSecond | NTimestamp.

Inductive item :=
| ILit (c : N)                (* one literal character *)
| ISpace                      (* whitespace in the pattern: trims any whitespace *)
| INum (k : numkind)
| IFrac (n : nat)             (* %3f / %6f : exactly n digits, no dot *)
| ITz (zulu missing : bool)   (* %z %:z (false,false); %#z (true,true) *)
| ITzName                     (* %Z : skips non-whitespace, sets nothing *)
| IDotFrac                    (* %.3f %.6f %.9f when PARSING: optional '.', then 1..9 digits scaled by
                                 their count, further digits skipped (chrono Fixed::Nanosecond3/6/9) *)
| INano                       (* %f when parsing: numeric, 1..9 digits = nanoseconds (not scaled) *)
| IErr.                       (* specifier outside the modelled subset *)

(* StrftimeItems for the subset used by the table, plus (for the print-then-parse round trip of
   C13) the remaining specifiers of the prepended datetime field: %f %9f %.3f %.6f %.9f %T %F %%.
   37 '%'  89 Y 109 m 100 d 72 H 77 M 83 S 115 s 51 '3' 54 '6' 57 '9' 102 f 122 z 58 ':' 35 '#' 90 Z
   84 T 70 F 46 '.' 45 '-' *)
Fixpoint tokenize (p : bytes) : list item :=
  match p with
  | [] => []
  | c :: r =>
    if c =? 37 then
      match r with
      | c1 :: r1 =>
        if c1 =? 89 then INum NYear :: tokenize r1
        else if c1 =? 109 then INum NMonth :: tokenize r1
        else if c1 =? 100 then INum NDay :: tokenize r1
        else if c1 =? 72 then INum NHour :: tokenize r1
        else if c1 =? 77 then INum NMinute :: tokenize r1
        else if c1 =? 83 then INum NSecond :: tokenize r1
        else if c1 =? 115 then INum NTimestamp :: tokenize r1
        else if c1 =? 122 then ITz false false :: tokenize r1
        else if c1 =? 90 then ITzName :: tokenize r1
        else if c1 =? 102 then INano :: tokenize r1
        else if c1 =? 37 then ILit 37 :: tokenize r1
        else if c1 =? 84 then INum NHour :: ILit 58 :: INum NMinute :: ILit 58 :: INum NSecond :: tokenize r1
        else if c1 =? 70 then INum NYear :: ILit 45 :: INum NMonth :: ILit 45 :: INum NDay :: tokenize r1
        else match r1 with
             | c2 :: r2 =>
               if (c1 =? 51) && (c2 =? 102) then IFrac 3 :: tokenize r2
               else if (c1 =? 54) && (c2 =? 102) then IFrac 6 :: tokenize r2
               else if (c1 =? 57) && (c2 =? 102) then IFrac 9 :: tokenize r2
               else if (c1 =? 58) && (c2 =? 122) then ITz false false :: tokenize r2
               else if (c1 =? 35) && (c2 =? 122) then ITz true true :: tokenize r2
               else if (c1 =? 46) && ((c2 =? 51) || (c2 =? 54) || (c2 =? 57)) then
                 match r2 with
                 | c3 :: r3 => if c3 =? 102 then IDotFrac :: tokenize r3 else [IErr]
                 | [] => [IErr]
                 end
               else [IErr]
             | [] => [IErr]
             end
      | [] => [IErr]
      end
    else if is_ws_c c then ISpace :: tokenize r
    else ILit c :: tokenize r
  end.

(* ------------------------------------------------------------------ scanning (structure only) *)
Inductive rawfield :=
| RNum (k : numkind) (neg : bool) (ds : list N)
| RFrac (n : nat) (ds : list N)
| ROff (neg : bool) (h1 h0 : N) (m : option (N * N))
| ROffZulu.

Definition num_width (k : numkind) (s : list sym) : nat :=
  match k with NYear => 4%nat | NTimestamp => length s | _ => 2%nat end.

Definition is_year (k : numkind) : bool := match k with NYear => true | _ => false end.

(* Item::Numeric: trim, optional sign for %Y (then unlimited width), 1..width digits *)
Definition scan_num (k : numkind) (s : list sym) : option (rawfield * list sym) :=
  let s1 := trim_ws s in
  let '(neg, (ds, r)) :=
    match s1 with
    | x :: t =>
      if is_year k && sym_is x 45 then (true, take_digits (length t) t)
      else if is_year k && sym_is x 43 then (false, take_digits (length t) t)
      else (false, take_digits (num_width k s1) s1)
    | [] => (false, ([], []))
    end in
  match ds with
  | [] => None
  | _ :: _ => Some (RNum k neg ds, r)
  end.

(* scan::colon_or_space *)
Fixpoint drop_cs (s : list sym) : list sym :=
  match s with
  | x :: r => if sym_ws x || sym_is x 58 then drop_cs r else s
  | [] => []
  end.

Fixpoint drop_nonws (s : list sym) : list sym :=
  match s with
  | x :: r => if sym_ws x then s else drop_nonws r
  | [] => []
  end.

(* scan::timezone_offset(s.trim_start(), colon_or_space, zulu, missing, _) *)
Definition scan_tz (zulu missing : bool) (s : list sym) : option (rawfield * list sym) :=
  match trim_ws s with
  | [] => None
  | x :: t =>
    if zulu && (sym_is x 90 || sym_is x 122) then Some (ROffZulu, t)
    else
      let sign := if sym_is x 43 then Some false else if sym_is x 45 then Some true else None in
      match sign with
      | None => None
      | Some neg =>
        match t with
        | Dg h1 :: Dg h0 :: t2 =>
          match drop_cs t2 with
          | Dg m1 :: Dg m0 :: t4 => Some (ROff neg h1 h0 (Some (m1, m0)), t4)
          | _ :: _ :: _ => None
          | [_] => None
          | [] => if missing then Some (ROff neg h1 h0 None, []) else None
          end
        | _ => None
        end
      end
  end.

Definition cons_opt {A} (x : A) (o : option (list A)) : option (list A) :=
  match o with Some l => Some (x :: l) | None => None end.

(* str::trim_start_matches(is_ascii_digit) *)
Fixpoint drop_digits (s : list sym) : list sym :=
  match s with
  | Dg _ :: r => drop_digits r
  | _ => s
  end.

(* parse_internal + "no trailing characters" *)
Fixpoint scan (items : list item) (s : list sym) : option (list rawfield) :=
  match items with
  | [] => match s with [] => Some [] | _ :: _ => None end
  | it :: rest =>
    match it with
    | ILit c => match s with
                | x :: t => if sym_is x c then scan rest t else None
                | [] => None
                end
    | ISpace => scan rest (trim_ws s)
    | INum k => match scan_num k s with
                | Some (f, t) => cons_opt f (scan rest t)
                | None => None
                end
    | IFrac n => let '(ds, t) := take_digits n s in
                 if Nat.eqb (length ds) n then cons_opt (RFrac n ds) (scan rest t) else None
    | ITz z m => match scan_tz z m s with
                 | Some (f, t) => cons_opt f (scan rest t)
                 | None => None
                 end
    | ITzName => scan rest (drop_nonws s)
    | IDotFrac => match s with
                  | x :: t =>
                    if sym_is x 46 then
                      let '(ds, r) := take_digits 9 t in
                      match ds with
                      | [] => None
                      | _ :: _ => cons_opt (RFrac (length ds) ds) (scan rest (drop_digits r))
                      end
                    else scan rest s
                  | [] => scan rest s
                  end
    | INano => let '(ds, r) := take_digits 9 (trim_ws s) in
               match ds with
               | [] => None
               | _ :: _ => cons_opt (RFrac 9 ds) (scan rest r)
               end
    | IErr => None
    end
  end.

(* datetime_from_str_workaround_Issue660: leading / trailing counts of space, tab,
   line-end characters of value and pattern must agree *)
Definition ws_class (c : N) : N :=
  if c =? 32 then 1 else if c =? 9 then 2 else if (c =? 10) || (c =? 13) then 3 else 0.

Definition sym_ws_class (x : sym) : N := match x with Dg _ => 0 | Ch c => ws_class c end.

(* [l]: the ws_class of each character *)
Fixpoint lead_counts (l : list N) (sc tc ec : N) : (N * N * N) * bool :=
  match l with
  | [] => ((sc, tc, ec), false)
  | k :: r =>
    if k =? 1 then lead_counts r (sc + 1) tc ec
    else if k =? 2 then lead_counts r sc (tc + 1) ec
    else if k =? 3 then lead_counts r sc tc (ec + 1)
    else ((sc, tc, ec), true)
  end.

Definition eq3 (a b : N * N * N) : bool :=
  let '(a1, a2, a3) := a in let '(b1, b2, b3) := b in (a1 =? b1) && (a2 =? b2) && (a3 =? b3).

(* [v], [p]: ws_class of each character of value and pattern *)
Definition issue660_ok (v p : list N) : bool :=
  let '(cv, vb) := lead_counts v 0 0 0 in
  let '(cp, pb) := lead_counts p 0 0 0 in
  if negb (eq3 cv cp) then false
  else
    let tv := if vb then fst (lead_counts (rev v) 0 0 0) else (0, 0, 0) in
    let tp := if pb then fst (lead_counts (rev p) 0 0 0) else (0, 0, 0) in
    eq3 tv tp.

(* ------------------------------------------------------------------ validation (values) *)
Open Scope Z_scope.

Definition dnum (ds : list N) : Z := fold_left (fun a d => 10 * a + Z.of_N d) ds 0.

Definition I64_MAX : Z := 9223372036854775807.
Definition YEAR_MIN : Z := -262143.
Definition YEAR_MAX : Z := 262142.
Definition TS_MIN : Z := -8334601228800.   (* chrono DateTime::<Utc>::MIN_UTC *)
Definition TS_MAX : Z := 8210266876799.    (* chrono DateTime::<Utc>::MAX_UTC *)

Definition field_ok (f : rawfield) : bool :=
  match f with
  | RNum _ _ ds => dnum ds <=? I64_MAX
  | RFrac _ _ => true
  | ROff _ _ _ (Some (m1, _)) => (Z.of_N m1 <=? 5)
  | ROff _ _ _ None => true
  | ROffZulu => true
  end.

Definition numkind_eqb (a b : numkind) : bool :=
  match a, b with
  | NYear, NYear | NMonth, NMonth | NDay, NDay | NHour, NHour
  | NMinute, NMinute | NSecond, NSecond | NTimestamp, NTimestamp => true
  | _, _ => false
  end.

(* last value set for a numeric field *)
Fixpoint find_num (k : numkind) (fs : list rawfield) (acc : option Z) : option Z :=
  match fs with
  | [] => acc
  | RNum k' neg ds :: r =>
    if numkind_eqb k k' then find_num k r (Some (if neg then - dnum ds else dnum ds))
    else find_num k r acc
  | _ :: r => find_num k r acc
  end.

Definition pow10 (n : nat) : Z := Z.pow 10 (Z.of_nat n).

Fixpoint find_nano (fs : list rawfield) (acc : option Z) : option Z :=
  match fs with
  | [] => acc
  | RFrac n ds :: r => find_nano r (Some (dnum ds * pow10 (9 - n)))
  | _ :: r => find_nano r acc
  end.

Definition off_value (neg : bool) (h1 h0 : N) (m : option (N * N)) : Z :=
  let hh := 10 * Z.of_N h1 + Z.of_N h0 in
  let mm := match m with Some (m1, m0) => 10 * Z.of_N m1 + Z.of_N m0 | None => 0 end in
  let v := hh * 3600 + mm * 60 in
  if neg then - v else v.

Fixpoint find_off (fs : list rawfield) (acc : option Z) : option Z :=
  match fs with
  | [] => acc
  | ROff neg h1 h0 m :: r => find_off r (Some (off_value neg h1 h0 m))
  | ROffZulu :: r => find_off r (Some 0)
  | _ :: r => find_off r acc
  end.

(* Parsed::to_naive_datetime_with_offset: (local seconds since epoch, nanoseconds) *)
Definition naive_of (fs : list rawfield) (offset : Z) : option (Z * Z) :=
  let ts := find_num NTimestamp fs None in
  match find_num NYear fs None, find_num NMonth fs None, find_num NDay fs None,
        find_num NHour fs None, find_num NMinute fs None with
  | Some y, Some mo, Some d, Some h, Some mi =>
    let so := find_num NSecond fs None in
    let s := match so with Some s => s | None => 0 end in
    let nano := match find_nano fs None with
                | Some n => match so with Some _ => Some n | None => None end
                | None => Some 0
                end in
    match nano with
    | None => None
    | Some n =>
      if (YEAR_MIN <=? y) && (y <=? YEAR_MAX) && valid_date y mo d
         && (0 <=? h) && (h <=? 23) && (0 <=? mi) && (mi <=? 59) && (0 <=? s) && (s <=? 60)
      then
        let loc := days_from_civil y mo d * 86400 + h * 3600 + mi * 60 + s in
        match ts with
        | Some t => if t =? loc - offset then Some (loc, n) else None
        | None => Some (loc, n)
        end
      else None
    end
  | _, _, _, _, _ =>
    match ts with
    | Some t => if (TS_MIN <=? t + offset) && (t + offset <=? TS_MAX) then Some (t + offset, 0) else None
    | None => None
    end
  end.

(* datetime_parse_from_str after a successful scan *)
Definition validate (has_tz : bool) (tz : Z) (fs : list rawfield) : option Z :=
  if negb (forallb field_ok fs) then None
  else if has_tz then
    let off := match find_off fs None, find_num NTimestamp fs None with
               | Some o, _ => Some o
               | None, Some _ => Some 0
               | None, None => None
               end in
    match off with
    | None => None
    | Some o =>
      if (-86400 <? o) && (o <? 86400) then
        match naive_of fs o with
        | Some (loc, n) => Some ((loc - o) * NS + n)
        | None => None
        end
      else None
    end
  else
    match naive_of fs 0 with
    | Some (loc, n) => Some ((loc - tz) * NS + n)
    | None => None
    end.

(* ------------------------------------------------------------------ process_dt: absolute rows *)
Open Scope N_scope.

Record row := mkrow { r_pat : bytes; r_has_year : bool; r_has_tz : bool; r_has_tzZ : bool; r_has_time : bool }.

Definition mkrows (t : list (string * bool * bool * bool * bool)) : list row :=
  map (fun x => let '(p, a, b, c, d) := x in mkrow (s2b p) a b c d) t.

Fixpoint pop_alpha_rev (r : list sym) (acc : list sym) : list sym * list sym :=
  match r with
  | x :: t => if sym_alpha x then pop_alpha_rev t (x :: acc) else (r, acc)
  | [] => ([], acc)
  end.
(* (what is left, the popped trailing alphabetic characters in order) *)
Definition pop_alpha (s : list sym) : list sym * list sym :=
  let '(r, name) := pop_alpha_rev (rev s) [] in (rev r, name).

(* str::replacen("%Z", "%z", 1) *)
Fixpoint replace_first_Z (p : bytes) : bytes :=
  match p with
  | a :: ((b :: r) as t) => if (a =? 37) && (b =? 90) then 37 :: 122 :: r else a :: replace_first_Z t
  | _ => p
  end.

(* str::contains("%s") *)
Fixpoint contains_pct_s (p : bytes) : bool :=
  match p with
  | a :: ((b :: _) as t) => ((a =? 37) && (b =? 115)) || contains_pct_s t
  | _ => false
  end.

Section Tables.
  Variable rows : list row.
  Variable append_value append_pattern : bytes.
  Variable tzt : list (bytes * bytes).              (* MAP_TZZ_TO_TZz *)
  (* the relative-offset expression: '@', '+', '-', unit letters in alternation order
     with the unit they set (0 s, 1 m, 2 h, 3 d, 4 w), anchors *)
  Variable at_c plus_c minus_c : N.
  Variable units : list (N * N).
  Variable anchor_start anchor_end : bool.
  (* process_dt reads a pattern containing "%s" in UTC instead of the --tz-offset zone *)
  Variable epoch_utc : bool.

  (* value and pattern handed to datetime_parse_from_str, or None = `continue` *)
  Definition prepare_row (rw : row) (arg : list sym) : option (list sym * bytes) :=
    let zed :=
      if r_has_tzZ rw then
        let '(body, name) := pop_alpha arg in
        match assoc (map sym_byte name) tzt with
        | Some v => Some (body ++ classify v, replace_first_Z (r_pat rw))
        | None => None
        end
      else Some (arg, r_pat rw) in
    match zed with
    | None => None
    | Some (dts, pat) =>
      if r_has_time rw then Some (dts, pat)
      else Some (dts ++ classify append_value, pat ++ append_pattern)
    end.

  Definition scan_row (rw : row) (arg : list sym) : option (list rawfield) :=
    match prepare_row rw arg with
    | None => None
    | Some (dts, pat) =>
      if issue660_ok (map sym_ws_class dts) (map ws_class pat) then scan (tokenize pat) dts else None
    end.

  (* the pattern finally handed to the parser (after the %Z rewriting and the append) *)
  Definition final_pattern (rw : row) : bytes :=
    let p := if r_has_tzZ rw then replace_first_Z (r_pat rw) else r_pat rw in
    if r_has_time rw then p else (p ++ append_pattern)%list.

  Definition try_row (tz : Z) (arg : list sym) (rw : row) : option Z :=
    match scan_row rw arg with
    | Some fs =>
      let tz' := if epoch_utc && contains_pct_s (final_pattern rw) then 0%Z else tz in
      validate (r_has_tz rw) tz' fs
    | None => None
    end.

  Fixpoint first_some {A B} (f : A -> option B) (l : list A) : option B :=
    match l with
    | [] => None
    | x :: r => match f x with Some v => Some v | None => first_some f r end
    end.

  Definition resolve_abs (arg : list sym) (tz : Z) : option Z :=
    first_some (try_row tz arg) rows.

  (* ---------------------------------------------------------------- relative offsets *)
  Fixpoint unit_of (us : list (N * N)) (c : N) : option N :=
    match us with
    | [] => None
    | (l, u) :: r => if l =? c then Some u else unit_of r c
    end.

  (* the greedy loop ( [\d]+s | [\d]+m | ... )+ : captures in order, and the input left
     after the last complete item *)
  Fixpoint rel_loop (s bnd : list sym) (cur : list N) (caps : list (N * list N))
    : list (N * list N) * list sym :=
    match s with
    | Dg v :: t => rel_loop t bnd (cur ++ [v]) caps
    | Ch c :: t =>
      match cur, unit_of units c with
      | _ :: _, Some u => rel_loop t t [] (caps ++ [(u, cur)])
      | _, _ => (caps, bnd)
      end
    | [] => (caps, bnd)
    end.

  (* a match starting exactly here: (is '@', is '-', captures, rest) *)
  Definition rel_match_here (s : list sym) : option (bool * bool * list (N * list N) * list sym) :=
    let '(at_, s1) := match s with
                      | x :: t => if sym_is x at_c then (true, t) else (false, s)
                      | [] => (false, s)
                      end in
    match s1 with
    | x :: t =>
      let sign := if sym_is x plus_c then Some false else if sym_is x minus_c then Some true else None in
      match sign with
      | None => None
      | Some neg =>
        let '(caps, rest) := rel_loop t t [] [] in
        match caps with
        | [] => None
        | _ :: _ => Some (at_, neg, caps, rest)
        end
      end
    | [] => None
    end.

  Definition rel_here_anch (s : list sym) :=
    match rel_match_here s with
    | Some (a, n, caps, rest) =>
      if anchor_end then match rest with [] => Some (a, n, caps) | _ :: _ => None end
      else Some (a, n, caps)
    | None => None
    end.

  (* Regex::captures: leftmost start *)
  Fixpoint rel_search (s : list sym) : option (bool * bool * list (N * list N)) :=
    match rel_here_anch s with
    | Some r => Some r
    | None =>
      if anchor_start then None
      else match s with
           | [] => None
           | _ :: t => rel_search t
           end
    end.

  (* a named group that took part in several iterations keeps its last capture *)
  Fixpoint last_cap (u : N) (caps : list (N * list N)) (acc : option (list N)) : option (list N) :=
    match caps with
    | [] => acc
    | (u', ds) :: r => if u' =? u then last_cap u r (Some ds) else last_cap u r acc
    end.

  Open Scope Z_scope.
  Definition DUR_MAX_SECS : Z := 9223372036854775.   (* TimeDelta::MAX.secs *)

  Inductive durres := DurNone | DurExit | DurOk (secs : Z) (other : bool).

  Definition unit_secs (u : N) : Z :=
    match u with
    | 0%N => 1 | 1%N => 60 | 2%N => 3600 | 3%N => 86400 | _ => 604800
    end.

  (* string_wdhms_to_duration.  [sum_panics]: how the five TimeDelta values are added — with `+`
     (panics on overflow: the code before the repair) or with checked_add (overflow = not parseable) *)
  Definition wdhms_gen (sum_panics : bool) (s : list sym) : durres :=
    match s with
    | [] => DurNone
    | _ :: _ =>
      match rel_search s with
      | None => DurNone
      | Some (at_, neg, caps) =>
        let val (u : N) : option Z :=
          match last_cap u caps None with Some ds => Some (dnum ds) | None => Some 0 end in
        let vs := map (fun u => match last_cap u caps None with Some ds => dnum ds | None => 0 end)
                      [0%N; 1%N; 2%N; 3%N; 4%N] in
        if negb (forallb (fun v => v <=? I64_MAX) vs) then DurExit        (* from_str_radix Err: exit(1) *)
        else
          let secs := map (fun uv => let '(u, v) := uv in unit_secs u * v)
                          (combine [0%N; 1%N; 2%N; 3%N; 4%N] vs) in
          if negb (forallb (fun v => v <=? DUR_MAX_SECS) secs) then DurNone   (* try_* None *)
          else
            let total := fold_left Z.add secs 0 in
            if negb (total <=? DUR_MAX_SECS)
            then (if sum_panics then DurExit else DurNone)    (* `+` panicked; checked_add: None *)
            else DurOk (if neg then - total else total) at_
      end
    end.

  Definition wdhms := wdhms_gen false.

  (* process_dt: None = could not be resolved (the caller exits) or the process exited *)
  Definition resolve (arg : list sym) (tz : Z) (other : option Z) (now_s : Z) : option Z :=
    match resolve_abs arg tz with
    | Some v => Some v
    | None =>
      match wdhms arg with
      | DurOk d false =>
        let r := now_s + d in
        if (TS_MIN <=? r) && (r <=? TS_MAX) then Some (r * NS) else None
      | DurOk d true =>
        match other with
        | Some o =>
          let r := o + d * NS in
          if (TS_MIN * NS <=? r) && (r <=? TS_MAX * NS + (NS - 1)) then Some r else None
        | None => None
        end
      | _ => None
      end
    end.

  (* cli_process_args, the -a/-b part.  Outer None = non-zero exit *)
  Definition opt_arg (a : option (list sym)) : list sym := match a with Some s => s | None => [] end.

  Definition resolve_opt (a : option (list sym)) (tz : Z) (other : option Z) (now_s : Z)
    : option (option Z) :=
    match a with
    | None => Some None
    | Some s => match resolve s tz other now_s with Some v => Some (Some v) | None => None end
    end.

  Definition is_exit (d : durres) : bool := match d with DurExit => true | _ => false end.
  Definition is_other (d : durres) : bool := match d with DurOk _ true => true | _ => false end.

  Definition cli_bounds (a b : option (list sym)) (tz : Z) (now_s : Z)
    : option (option Z * option Z) :=
    let pa := wdhms (opt_arg a) in
    let pb := wdhms (opt_arg b) in
    if is_exit pa || is_exit pb then None
    else if is_other pa && is_other pb then None
    else
      let fab :=
        if is_other pa then
          match resolve_opt b tz None now_s with
          | None => None
          | Some fb => match resolve_opt a tz fb now_s with
                       | None => None
                       | Some fa => Some (fa, fb)
                       end
          end
        else
          match resolve_opt a tz None now_s with
          | None => None
          | Some fa => match resolve_opt b tz fa now_s with
                       | None => None
                       | Some fb => Some (fa, fb)
                       end
          end in
      match fab with
      | Some (Some x, Some y) => if y <? x then None else fab
      | _ => fab
      end.

  (* cli_process_tz_offset: named (unambiguous) or numeric --tz-offset value -> seconds *)
  Definition tz_probe_prefix : bytes := s2b "2000-01-02 03:04:05 ".
  Definition tz_probe_patterns : list bytes :=
    [s2b "%Y-%m-%d %H:%M:%S %:z"; s2b "%Y-%m-%d %H:%M:%S %z"; s2b "%Y-%m-%d %H:%M:%S %#z"].

  Definition cli_tz (tzo : bytes) : option Z :=
    let v := match assoc tzo tzt with
             | Some [] => None
             | Some v => Some v
             | None => Some tzo
             end in
    match v with
    | None => None
    | Some v =>
      let data := classify (tz_probe_prefix ++ v)%list in
      first_some (fun pat =>
                    if issue660_ok (map sym_ws_class data) (map ws_class pat) then
                      match scan (tokenize pat) data with
                      | Some fs =>
                        match validate true 0 fs with
                        | Some _ => find_off fs None
                        | None => None
                        end
                      | None => None
                      end
                    else None) tz_probe_patterns
    end.
End Tables.
