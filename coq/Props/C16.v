(* Props/C16.v — property C16: statements only; every proof is `exact <lemma>`. *)
From S4.Base Require Import Bytes.
From S4.Model Require Import Classify.
From S4.Gen Require Import ClassifyTables.
From S4.Spec Require Import ClassifyRef ClassifySpec.
From S4.Proofs Require Import ClassifyTablesOk.
Open Scope N_scope.

(* The regenerated tables satisfy the side conditions of the generic theorems. *)
Theorem C16_tables_wf : tables_wf sfx_table junk junk_lead = true.
Proof. exact tables_wf_ok. Qed.
Print Assumptions C16_tables_wf.

(* Every word of the frozen reference tables selects, in the regenerated tables,
   the reader/container the reference says (the junk sets are equal). *)
Theorem C16_tables_agree_ref :
  (forall w act, In (w, act) ref_sfx_table -> assoc w sfx_table = Some act) /\
  (forall w act, In (w, act) ref_name_table -> assoc w name_table = Some act) /\
  junk = ref_junk /\ junk_lead = ref_junk_lead.
Proof. exact tables_agree_ref_ok. Qed.
Print Assumptions C16_tables_agree_ref.
