(* Props/C16.v — property C16: statements only; every proof is `exact <lemma>`. *)
From S4.Base Require Import Bytes.
From S4.Model Require Import Classify.
From S4.Gen Require Import ClassifyTables.
From S4.Spec Require Import ClassifyRef ClassifySpec.
From S4.Proofs Require Import ClassifyTablesOk.
Open Scope N_scope.

(* The regenerated tables satisfy the side conditions of the generic theorems. *)
Theorem C16_tables_wf : tables_wf sfx_table junk junk_lead = true.
Proof. exact tables_wf_ok. Qed.
Print Assumptions C16_tables_wf.

(* Every word of the frozen reference tables selects, in the regenerated tables,
   the reader/container the reference says (the junk sets are equal). *)
Theorem C16_tables_agree_ref :
  (forall w act, In (w, act) ref_sfx_table -> assoc w sfx_table = Some act) /\
  (forall w act, In (w, act) ref_name_table -> assoc w name_table = Some act) /\
  junk = ref_junk /\ junk_lead = ref_junk_lead.
Proof. exact tables_agree_ref_ok. Qed.
Print Assumptions C16_tables_agree_ref.

(* ======================================================================================
   General theorems (Proofs/ClassifyProofs.v, ClassifyStructured.v, ClassifyInst.v).
   [classify ... fuel uat a p] is the model of pathbuf_to_filetype_impl(p, uat, Some a),
   [classify_top ... uat p] of path_to_filetype(p, uat); all are stated for the
   regenerated tables.  (The generic versions take any tables with [tables_wf].)
   ====================================================================================== *)
From S4.Proofs Require Import ClassifyProofs ClassifyStructured ClassifyInst.
From Coq Require Import String.
Open Scope string_scope.  (* only for the literals in the examples *)
Open Scope list_scope.
Open Scope N_scope.

(* 1. Classification terminates, without error, for EVERY byte string (empty, dots only,
      invalid UTF-8, any length), from every container: fuel |p|+1 is always enough. *)
Theorem C16_classify_total : forall (uat : bool) (a : fta) (p : bytes),
  classify sfx_table name_table junk junk_lead (S (List.length p)) uat a p <> ROutOfFuel.
Proof. exact inst_classify_total. Qed.
Print Assumptions C16_classify_total.

Theorem C16_classify_top_total : forall (uat : bool) (p : bytes),
  classify_top sfx_table name_table junk junk_lead uat p <> ROutOfFuel.
Proof. exact inst_classify_top_total. Qed.
Print Assumptions C16_classify_top_total.

(* more fuel never changes a result *)
Theorem C16_classify_fuel_mono : forall (fuel k : nat) (uat : bool) (a : fta) (p : bytes) (r : result),
  classify sfx_table name_table junk junk_lead fuel uat a p = r -> r <> ROutOfFuel ->
  classify sfx_table name_table junk junk_lead (fuel + k) uat a p = r.
Proof. exact inst_classify_fuel_mono. Qed.
Print Assumptions C16_classify_fuel_mono.

(* 2. The property as one theorem: on every structured name
        pre ++ c0 ++ "." ++ c1 ++ ... ++ "." ++ ck ++ post
      the classifier returns what the spec reads off the components from the right. *)
(* 2a. domain of Spec/ClassifySpec.v: junk without dots on both sides, ASCII components *)
Theorem C16_classify_structured : forall (uat : bool) (pre c0 : bytes) (comps : list bytes) (post : bytes),
  wf_sname junk junk_lead pre c0 comps post = true ->
  classify_top sfx_table name_table junk junk_lead uat (render pre c0 comps post)
  = spec_classify sfx_table name_table uat c0 comps.
Proof. exact inst_classify_structured. Qed.
Print Assumptions C16_classify_structured.

(* 2b. leading junk may contain dots, outside the class of known finding F6
       (two or more leading junk characters the last of which is a dot) *)
Theorem C16_classify_structured_wide : forall (uat : bool) (pre c0 : bytes) (comps : list bytes) (post : bytes),
  wf_sname_wide junk junk_lead pre c0 comps post = true -> f6_pre pre = false ->
  classify_top sfx_table name_table junk junk_lead uat (render pre c0 comps post)
  = spec_classify sfx_table name_table uat c0 comps.
Proof. exact inst_classify_structured_wide. Qed.
Print Assumptions C16_classify_structured_wide.

(* 2c. widest domain: components are any valid UTF-8 *)
Theorem C16_classify_structured_u : forall (uat : bool) (pre c0 : bytes) (comps : list bytes) (post : bytes),
  wf_sname_u junk junk_lead pre c0 comps post = true -> f6_pre pre = false ->
  classify_top sfx_table name_table junk junk_lead uat (render pre c0 comps post)
  = spec_classify sfx_table name_table uat c0 comps.
Proof. exact inst_classify_structured_u. Qed.
Print Assumptions C16_classify_structured_u.

(* 2d. from every container and with every sufficient fuel *)
Theorem C16_classify_structured_from :
  forall (uat : bool) (a : fta) (fuel : nat) (pre c0 : bytes) (comps : list bytes) (post : bytes),
  wf_sname_u junk junk_lead pre c0 comps post = true -> f6_pre pre = false ->
  (List.length comps < fuel)%nat ->
  classify sfx_table name_table junk junk_lead fuel uat a (render pre c0 comps post)
  = spec_scan sfx_table name_table uat a c0 (rev comps).
Proof. exact inst_classify_structured_from. Qed.
Print Assumptions C16_classify_structured_from.

Example C16_ex_structured :
  wf_sname junk junk_lead (s2b "~") (s2b "SysLog") [s2b "LOG"; s2b "1"; s2b "GZ"] (s2b "~") = true /\
  render (s2b "~") (s2b "SysLog") [s2b "LOG"; s2b "1"; s2b "GZ"] (s2b "~") = s2b "~SysLog.LOG.1.GZ~" /\
  spec_classify sfx_table name_table true (s2b "SysLog") [s2b "LOG"; s2b "1"; s2b "GZ"] = RFile (Text Gz).
Proof. exact ex_structured. Qed.
Print Assumptions C16_ex_structured.

Example C16_ex_structured_u :
  wf_sname_u junk junk_lead (s2b ".-") (unhex "e697a5e69cac") [s2b "utmp"; s2b "xz"] [] = true /\
  f6_pre (s2b ".-") = false /\
  wf_sname_wide junk junk_lead (s2b ".-") (unhex "e697a5e69cac") [s2b "utmp"; s2b "xz"] [] = false /\
  spec_classify sfx_table name_table false (unhex "e697a5e69cac") [s2b "utmp"; s2b "xz"] = RFile (Fixed Xz Utmp).
Proof. exact ex_structured_u. Qed.
Print Assumptions C16_ex_structured_u.

(* 3a. upper/lower case never matters: names whose components agree up to ASCII case
       (whatever their junk) classify equally *)
Theorem C16_classify_case :
  forall (uat : bool) (pre c0 : bytes) (comps : list bytes) (post pre' c0' : bytes) (comps' : list bytes) (post' : bytes),
  wf_sname_u junk junk_lead pre c0 comps post = true -> f6_pre pre = false ->
  wf_sname_u junk junk_lead pre' c0' comps' post' = true -> f6_pre pre' = false ->
  lower_bytes c0 = lower_bytes c0' -> map lower_bytes comps = map lower_bytes comps' ->
  classify_top sfx_table name_table junk junk_lead uat (render pre c0 comps post)
  = classify_top sfx_table name_table junk junk_lead uat (render pre' c0' comps' post').
Proof. exact inst_classify_case. Qed.
Print Assumptions C16_classify_case.

Example C16_ex_case :
  wf_sname_u junk junk_lead (s2b "~") (s2b "Messages") [s2b "GZ"] [] = true /\ f6_pre (s2b "~") = false /\
  wf_sname_u junk junk_lead [] (s2b "messages") [s2b "gz"] (s2b ";") = true /\ f6_pre [] = false /\
  lower_bytes (s2b "Messages") = lower_bytes (s2b "messages") /\
  map lower_bytes [s2b "GZ"] = map lower_bytes [s2b "gz"].
Proof. exact ex_case. Qed.
Print Assumptions C16_ex_case.

(* 3b. rotation: any number of trailing numeric or unrecognised components is ignored *)
Theorem C16_classify_rotation :
  forall (uat : bool) (pre c0 : bytes) (comps extra : list bytes) (post : bytes),
  wf_sname_u junk junk_lead pre c0 (comps ++ extra) post = true -> f6_pre pre = false ->
  forallb (rot_comp sfx_table) extra = true ->
  classify_top sfx_table name_table junk junk_lead uat (render pre c0 (comps ++ extra) post)
  = classify_top sfx_table name_table junk junk_lead uat (render pre c0 comps post).
Proof. exact inst_classify_rotation. Qed.
Print Assumptions C16_classify_rotation.

Example C16_ex_rotation :
  wf_sname_u junk junk_lead [] (s2b "auth") ([s2b "log"] ++ [s2b "1"; s2b "old"; s2b "20230101"]) (s2b "~") = true /\
  f6_pre [] = false /\
  forallb (rot_comp sfx_table) [s2b "1"; s2b "old"; s2b "20230101"] = true.
Proof. exact ex_rotation. Qed.
Print Assumptions C16_ex_rotation.

(* 3c. compression: a trailing compression word only sets the container: the name
       classifies as the rest of the name does when started in that container
       (so of several stacked compression words the left-most one wins) *)
Theorem C16_classify_compress :
  forall (uat : bool) (pre c0 : bytes) (comps : list bytes) (c post : bytes) (a' : fta),
  wf_sname_u junk junk_lead pre c0 (comps ++ [c]) post = true -> f6_pre pre = false ->
  assoc (lower_bytes c) sfx_table = Some (SCompress a') ->
  classify_top sfx_table name_table junk junk_lead uat (render pre c0 (comps ++ [c]) post)
  = spec_scan sfx_table name_table uat a' c0 (rev comps)
  /\ classify_top sfx_table name_table junk junk_lead uat (render pre c0 (comps ++ [c]) post)
     = classify sfx_table name_table junk junk_lead (S (List.length (render pre c0 comps post))) uat a'
         (render pre c0 comps post).
Proof. exact inst_classify_compress. Qed.
Print Assumptions C16_classify_compress.

Example C16_ex_compress :
  wf_sname_u junk junk_lead [] (s2b "wtmp") ([s2b "1"] ++ [s2b "Xz"]) [] = true /\ f6_pre [] = false /\
  assoc (lower_bytes (s2b "Xz")) sfx_table = Some (SCompress Xz) /\
  spec_scan sfx_table name_table false Xz (s2b "wtmp") (rev [s2b "1"]) = RFile (Fixed Xz Utmp).
Proof. exact ex_compress. Qed.
Print Assumptions C16_ex_compress.

(* 3d. a name without any recognised word is read as a plain text log *)
Theorem C16_classify_default_text :
  forall (uat : bool) (pre c0 : bytes) (comps : list bytes) (post : bytes),
  wf_sname_u junk junk_lead pre c0 comps post = true -> f6_pre pre = false ->
  (forall c, In c comps -> assoc (lower_bytes c) sfx_table = None) ->
  assoc (lower_bytes c0) name_table = None ->
  classify_top sfx_table name_table junk junk_lead uat (render pre c0 comps post) = RFile (Text Normal).
Proof. exact inst_classify_default_text. Qed.
Print Assumptions C16_classify_default_text.

Example C16_ex_default_text :
  wf_sname_u junk junk_lead (s2b "-") (s2b "kern") [s2b "prev"; s2b "2"] [] = true /\ f6_pre (s2b "-") = false /\
  forallb (fun c => match assoc (lower_bytes c) sfx_table with None => true | Some _ => false end)
          [s2b "prev"; s2b "2"] = true /\
  assoc (lower_bytes (s2b "kern")) name_table = None.
Proof. exact ex_default_text. Qed.
Print Assumptions C16_ex_default_text.

(* 3e. leading and trailing junk characters are ignored *)
Theorem C16_classify_junk :
  forall (uat : bool) (pre c0 : bytes) (comps : list bytes) (post : bytes),
  wf_sname_u junk junk_lead pre c0 comps post = true -> f6_pre pre = false ->
  classify_top sfx_table name_table junk junk_lead uat (render pre c0 comps post)
  = classify_top sfx_table name_table junk junk_lead uat (render [] c0 comps []).
Proof. exact inst_classify_junk. Qed.
Print Assumptions C16_classify_junk.

(* 4. Known finding F6 (known_findings.d/C16.json, predicate first_component_all_junk):
      without [f6_pre pre = false] theorem 2b is false — "-.foo.messages" in a walked
      directory is Unparsable for the code, Text/Normal for the spec. *)
Theorem C16_classify_junk_first_component_refuted :
  exists pre c0 comps post,
    wf_sname_wide junk junk_lead pre c0 comps post = true /\
    classify_top sfx_table name_table junk junk_lead false (render pre c0 comps post)
    <> spec_classify sfx_table name_table false c0 comps.
Proof. exact classify_junk_first_component_refuted. Qed.
Print Assumptions C16_classify_junk_first_component_refuted.

Theorem C16_f6_witness_values :
  f6_pre (s2b "-.") = true /\
  render (s2b "-.") (s2b "foo") [s2b "messages"] [] = s2b "-.foo.messages" /\
  classify_top sfx_table name_table junk junk_lead false (s2b "-.foo.messages") = RFile Unparsable /\
  spec_classify sfx_table name_table false (s2b "foo") [s2b "messages"] = RFile (Text Normal).
Proof. exact f6_witness_values. Qed.
Print Assumptions C16_f6_witness_values.

(* 4b. The F6 class completely described: on EVERY structured name whose leading junk is of
       the class, the code reads the first component as one more suffix and finds no name
       ([f6_classify], Spec/ClassifySpec.v) ... *)
Theorem C16_classify_structured_f6 :
  forall (uat : bool) (pre c0 : bytes) (comps : list bytes) (post : bytes),
  wf_sname_u junk junk_lead pre c0 comps post = true -> f6_pre pre = true ->
  classify_top sfx_table name_table junk junk_lead uat (render pre c0 comps post)
  = f6_classify sfx_table uat c0 comps.
Proof. exact inst_classify_structured_f6. Qed.
Print Assumptions C16_classify_structured_f6.

(* ... so in a walked directory every name of the class none of whose components decides the
   type (numeric, unrecognised, compression words) is skipped as Unparsable, which the
   property's reading never says: the whole subclass deviates, not only the witness. *)
Theorem C16_classify_f6_walked_unparsable :
  forall (pre c0 : bytes) (comps : list bytes) (post : bytes),
  wf_sname_u junk junk_lead pre c0 comps post = true -> f6_pre pre = true ->
  forallb (transparent_comp sfx_table) (c0 :: comps) = true ->
  classify_top sfx_table name_table junk junk_lead false (render pre c0 comps post) = RFile Unparsable
  /\ spec_classify sfx_table name_table false c0 comps <> RFile Unparsable.
Proof. exact inst_classify_f6_walked_unparsable. Qed.
Print Assumptions C16_classify_f6_walked_unparsable.

Example C16_ex_f6 :
  wf_sname_u junk junk_lead (s2b "~-.") (s2b "Foo") [s2b "messages"; s2b "GZ"; s2b "3"] (s2b ";") = true /\
  f6_pre (s2b "~-.") = true /\
  forallb (transparent_comp sfx_table) (s2b "Foo" :: [s2b "messages"; s2b "GZ"; s2b "3"]) = true /\
  f6_classify sfx_table true (s2b "Foo") [s2b "messages"; s2b "GZ"; s2b "3"] = RFile (Text Gz).
Proof. exact ex_f6. Qed.
Print Assumptions C16_ex_f6.
