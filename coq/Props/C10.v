(* Props/C10.v — property C10 (event-log files: every record once, ordered by creation time):
   statements only; every proof is `exact <lemma>`. *)
From Coq Require Import List NArith ZArith Bool Sorted Permutation.
Import ListNotations.
From S4.Spec Require Import RecordsSpec.
From S4.Model Require Import Records Evtx.
From S4.Proofs Require Import StableSort KeyedMap EvtxProofs.
Open Scope N_scope.

(* analyze + next: for every enumeration of records (any order, equal creation times,
   undecodable records in between) and every window, the `next` loop ends (fuel = number of
   stored records) and sends exactly the spec's records in the spec's order: stable sort by
   creation time of the records inside the window. *)
Theorem C10_evtx_out_correct : forall lo hi rs,
  evtx_out lo hi rs = DDone (map e_idx (spec_events lo hi (index_evs 0 rs))).
Proof. exact evtx_out_correct. Qed.
Print Assumptions C10_evtx_out_correct.

Theorem C10_drain_fuel : forall lo hi rs,
  length (analyze lo hi 0 rs []) = length (filter (ev_keep lo hi) (index_evs 0 rs)).
Proof. exact evtx_map_size. Qed.
Print Assumptions C10_drain_fuel.

Theorem C10_spec_each_once : forall lo hi evs,
  Permutation (spec_events lo hi evs) (filter (ev_keep lo hi) evs).
Proof. exact spec_events_perm. Qed.
Print Assumptions C10_spec_each_once.

Theorem C10_printed_indexes_distinct : forall lo hi rs,
  NoDup (map e_idx (spec_events lo hi (index_evs 0 rs))).
Proof. exact evtx_out_nodup. Qed.
Print Assumptions C10_printed_indexes_distinct.

Theorem C10_spec_time_order : forall lo hi evs,
  StronglySorted (fun a b => (e_ts a <= e_ts b)%Z) (spec_events lo hi evs).
Proof. exact spec_events_sorted. Qed.
Print Assumptions C10_spec_time_order.

Theorem C10_spec_stable : forall lo hi evs t,
  filter (fun e => Z.eqb t (e_ts e)) (spec_events lo hi evs)
  = filter (fun e => Z.eqb t (e_ts e)) (filter (ev_keep lo hi) evs).
Proof. exact spec_events_stable. Qed.
Print Assumptions C10_spec_stable.

Theorem C10_window_inclusive : forall lo hi e,
  ev_keep lo hi e = true <->
  (forall a, lo = Some a -> (a <= e_ts e)%Z) /\ (forall b, hi = Some b -> (e_ts e <= b)%Z).
Proof. exact ev_keep_inclusive. Qed.
Print Assumptions C10_window_inclusive.

Example C10_example :
  evtx_out (Some 10%Z) (Some 20%Z) [Some 20; Some 10; None; Some 15; Some 10; Some 21; Some 9; Some 20]%Z
  = DDone [1; 4; 3; 0; 7].
Proof. exact evtx_out_example. Qed.
Print Assumptions C10_example.
