(* Props/C02.v — property C02 "every message of a text log is printed exactly once, byte for
   byte": statements only; every proof is `exact <lemma>`.
   All statements hold for every block size bs > 0, every file over arbitrary bytes (NUL, CR,
   invalid UTF-8 are ordinary values of N) and every timestamp oracle `dated`. *)
From S4.Base Require Import Bytes Chunk.
From S4.Spec Require Import LinesSpec.
From S4.Model Require Import Lines Syslines.
From S4.Proofs Require Import LinesProofs SyslinesProofs.
Open Scope N_scope.

(* find_line returns the spec line containing fo: fo_next = end+1; the parts are contiguous and
   well formed (`chain`: each part begins where the previous one ends, bi_beg < bi_end <= bs),
   they cover exactly line_beg .. line_end and their bytes are that slice of the file *)
Theorem find_line_correct : forall bs (f : file) fo, 0 < bs -> fo < lenN f ->
  exists ps, find_line_m bs f fo = Found (line_end f fo + 1, ps) /\
             chain bs ps (line_beg f fo) (line_end f fo + 1) /\
             bytes_of bs f ps = slice f (line_beg f fo) (line_end f fo + 1) /\
             line_fo_begin bs ps = Some (line_beg f fo) /\
             line_fo_end bs ps = Some (line_end f fo).
Proof. exact LinesProofs.find_line_correct. Qed.
Print Assumptions find_line_correct.

Theorem find_line_done : forall bs (f : file) fo, lenN f <= fo -> find_line_m bs f fo = Done.
Proof. exact LinesProofs.find_line_done. Qed.
Print Assumptions find_line_done.

(* the same, as an equation between what a caller observes and the spec function *)
Theorem find_line_spec : forall bs (f : file) fo, 0 < bs ->
  obs_line bs f (find_line_m bs f fo) = spec_find_line f fo.
Proof. exact LinesProofs.find_line_spec. Qed.
Print Assumptions find_line_spec.

(* no index panic, no underflow, fuel |f|+1 suffices *)
Theorem find_line_total : forall bs (f : file) fo, 0 < bs ->
  find_line_m bs f fo <> Panic /\ find_line_m bs f fo <> OutOfFuel.
Proof. exact LinesProofs.find_line_total. Qed.
Print Assumptions find_line_total.

(* find_sysline: the spec group containing fo, the first group if fo precedes it, Done iff
   there is none *)
Theorem find_sysline_correct : forall dated bs (f : file) fo, 0 < bs ->
  obs_find_sysline bs f (find_sysline_m dated bs f fo) = spec_find_sysline dated f fo.
Proof. exact SyslinesProofs.find_sysline_correct. Qed.
Print Assumptions find_sysline_correct.

(* stream_complete, part 1: the messages the stage driver hands to the printer are exactly the
   spec groups, in order — none dropped, repeated, truncated, split or merged; the driver's
   fuel |f|+1 suffices (the result is Found) *)
Theorem stream_complete : forall dated bs (f : file), 0 < bs ->
  obs_stream bs f (stream_m dated bs f) = Some (syslines dated f).
Proof. exact SyslinesProofs.stream_groups. Qed.
Print Assumptions stream_complete.

(* stream_complete, part 2: concatenated, they are the file from its first dated line *)
Theorem stream_bytes_suffix : forall dated (f : file),
  stream_bytes dated f = skipnN (first_dated_offset dated f) f.
Proof. exact SyslinesProofs.stream_bytes_suffix. Qed.
Print Assumptions stream_bytes_suffix.

(* printed_bytes: with no decoration stdout is those bytes plus one newline iff something was
   printed and the file lacks a final newline *)
Theorem printed_bytes : forall dated (f : file),
  let s := skipnN (first_dated_offset dated f) f in
  printed dated f = match s with [] => [] | _ => if ends_with_nl s then s else s ++ [NL] end.
Proof. exact SyslinesProofs.printed_bytes. Qed.
Print Assumptions printed_bytes.

(* ---------------------------------------------------------------------------------------------
   The reader CACHES (Model/Caches.v: LineReader.lines, foend_to_fobeg, find_line LRU cache;
   SyslineReader.syslines, syslines_by_range, find_sysline LRU cache, parse_datetime LRU cache;
   drop_data / drop_sysline / drop_line; LRU caches on or off) are a refinement of the pure
   block-wise searches above, for every operation sequence, file, block size > 0 and oracle. *)
From S4.Model Require Import Caches.
From S4.Proofs Require Import CachesProofs CachesSysProofs CachesRunProofs CachesExamples.

(* without drops: the cached machine answers every operation (no Panic, same number of answers)
   and what the caller observes of each answer is what the PURE function gives for that
   operation (find_line_m / find_sysline_m / stream_m): find_line, find_sysline at arbitrary
   offsets in any order, repeated, backward; LRU caches switched off and on; find_line_in_block
   interleaved anywhere; the driver *)
Theorem cached_refines_pure : forall dated bs (f : file) ops, 0 < bs -> Forall op_nodrop ops ->
  map (obs_cres bs f) (snd (c_run dated bs f cinit ops)) = map (pure_cobs dated bs f) ops /\
  length (snd (c_run dated bs f cinit ops)) = length ops.
Proof. exact CachesRunProofs.cached_refines_pure. Qed.
Print Assumptions cached_refines_pure.

Theorem cached_nodrop_no_panic : forall dated bs (f : file) ops, 0 < bs -> Forall op_nodrop ops ->
  forallb (fun x => negb (cres_panicked x)) (snd (c_run dated bs f cinit ops)) = true.
Proof. exact CachesRunProofs.cached_nodrop_no_panic. Qed.
Print Assumptions cached_nodrop_no_panic.

(* with drops interleaved anywhere (drop_data at any block, drop_sysline at any offset, the driver
   with any drop plan): every answer is still the spec answer (results_ok / cres_spec); find_line
   always answers (a dropped line is searched again); the ONLY other outcome is find_sysline's
   Panic inside the range of a dropped sysline, which ends the run.  find_line_in_block may also
   answer Done ("not inside this block"), never a wrong line. *)
Theorem cached_run_sound : forall dated bs (f : file) ops, 0 < bs -> Forall op_safe ops ->
  results_ok dated bs f ops (snd (c_run dated bs f cinit ops)).
Proof. exact CachesRunProofs.cached_run_sound. Qed.
Print Assumptions cached_run_sound.

(* the call pattern of the stage driver is inside the safe region: over the CACHED reader, after
   any history of reads, for EVERY drop plan (SyslogProcessor::drop_data skips some calls), it
   emits exactly the spec groups: none dropped, repeated, truncated; no Panic; fuel suffices *)
Theorem cached_driver_complete : forall dated bs (f : file) ops plan, 0 < bs -> Forall op_nodrop ops ->
  obs_stream bs f (rmap (snd (c_stream dated bs f plan (snd (fst (c_run dated bs f cinit ops)))))) =
  Some (syslines dated f).
Proof. exact CachesRunProofs.cached_driver_complete. Qed.
Print Assumptions cached_driver_complete.

(* what the CURRENT code does NOT guarantee (each with a witness, reproduced in-process) *)
Theorem find_sysline_after_drop_refuted :
  exists (dated : list N -> option Z) (bs : N) (f : file) (ops : list cop),
    0 < bs /\ Forall op_safe ops /\
    exists st p, c_run dated bs f cinit ops = (st, [RS (Found (3, (0, 7%Z, [(0, [(0, 0, 2); (1, 0, 1)])]))) QSearch;
                                                    RU; RS Panic p]).
Proof. exact CachesExamples.find_sysline_after_drop_refuted. Qed.
Print Assumptions find_sysline_after_drop_refuted.

Theorem sysline_in_block_poisons_lru_refuted :
  exists (dated : list N -> option Z) (bs : N) (f : file) (fo : N),
    0 < bs /\
    nth 1 (map (obs_cres bs f) (snd (c_run dated bs f cinit [OSB fo; OS fo]))) CU <>
    CS (spec_find_sysline dated f fo).
Proof. exact CachesExamples.sysline_in_block_poisons_lru_refuted. Qed.
Print Assumptions sysline_in_block_poisons_lru_refuted.

Theorem sysline_in_block_truncates_refuted :
  exists (dated : list N -> option Z) (bs : N) (f : file) (fo : N),
    0 < bs /\
    nth 1 (map (obs_cres bs f) (snd (c_run dated bs f cinit [OSB fo; OS fo]))) CU <>
    CS (spec_find_sysline dated f fo).
Proof. exact CachesExamples.sysline_in_block_truncates_refuted. Qed.
Print Assumptions sysline_in_block_truncates_refuted.

(* block-zero analysis (SyslogProcessor stage 1) calls find_line_in_block and find_sysline_in_block from
   offset 0 and then at each returned offset on the reader that stages 2 and 3 use.  In THAT pattern
   find_sysline_in_block is safe: after it (any number of calls), every operation sequence without
   drops is answered as the spec says and the stage driver emits exactly the spec groups for every drop
   plan.  Oracle hypothesis: the first byte of a line never dates differently from the line (the partial
   line find_line_in_block hands to the parser is that byte, finding F3a). *)
From S4.Proofs Require Import CachesGateProofs.
Theorem gate_then_refines : forall dated bs (f : file) k1 k2 ops plan, 0 < bs ->
  (forall b z, b < lenN f -> line_beg f b = b ->
     dated (slice f b (b + 1)) = Some z -> dated (slice f b (line_end f b + 1)) = Some z) ->
  Forall op_nodrop ops ->
  let st0 := (lr_init, c_gate dated k1 k2 bs f sr_init) in
  map (obs_cres bs f) (snd (c_run dated bs f st0 ops)) = map (spec_cobs dated f) ops /\
  obs_stream bs f (rmap (snd (c_stream dated bs f plan (snd (fst (c_run dated bs f st0 ops)))))) =
  Some (syslines dated f).
Proof. exact CachesGateProofs.gate_then_refines. Qed.
Print Assumptions gate_then_refines.

(* ---------------------------------------------------------------------------------------------
   Streamed containers (gz / bz2 / lz4): the BlockReader is part of Model/Caches.v (which blocks are
   stored, read, cached; the look-behind drop of read_block_File{Gz,Bz2,Lz4}; disable_drop_data). *)
From S4.Proofs Require Import CachesStreamProofs.

(* with block drops DISABLED before anything was read (what SyslogProcessor does for a streamed file
   whose timestamps lack a year, before the reverse pass of process_missing_year) the streamed reader
   answers EVERY call history without cache drops as the spec says - backward calls included *)
Theorem streamed_drop_disabled_refines : forall dated bs (f : file) ops, 0 < bs -> Forall op_nodrop ops ->
  map (obs_cres bs f) (snd (c_run dated bs f (lr_init, sr_stream_nodrop) ops)) = map (spec_cobs dated f) ops /\
  forallb (fun x => negb (cres_panicked x)) (snd (c_run dated bs f (lr_init, sr_stream_nodrop) ops)) = true.
Proof. exact CachesStreamProofs.streamed_nodrop_refines. Qed.
Print Assumptions streamed_drop_disabled_refines.

(* a tar member (every miss reads all blocks of the member again): every block can be read at any time, so EVERY
   call history without cache drops is answered as the spec says, as for a plain file *)
Theorem tar_member_refines : forall dated bs (f : file) ops, 0 < bs -> Forall op_nodrop ops ->
  map (obs_cres bs f) (snd (c_run dated bs f (cinit_b b_init_tar) ops)) = map (spec_cobs dated f) ops /\
  forallb (fun x => negb (cres_panicked x)) (snd (c_run dated bs f (cinit_b b_init_tar) ops)) = true.
Proof. exact CachesStreamProofs.tar_refines. Qed.
Print Assumptions tar_member_refines.

(* with drops enabled: reading the newest block or any later block always succeeds and keeps the stream
   invariant SI (nothing read, cached or stored lies at or beyond the decoder; the newest block is stored) *)
Theorem read_block_forward : forall refd filesz last b bo, SI b -> b_dec b <= bo + 1 -> bo <= last -> 0 < filesz ->
  exists b', b_read_block refd filesz last b bo = (b', BFound) /\ SI b' /\ b_dec b' = N.max (b_dec b) (bo + 1).
Proof. exact CachesStreamProofs.b_read_block_fwd. Qed.
Print Assumptions read_block_forward.

(* ... and a block strictly below the newest one that is no longer stored is GONE: read_block answers Done *)
Theorem read_block_gone : forall refd filesz last b bo, SI b -> b_drop b = true ->
  nmem bo (b_lru b) = false -> nmem bo (b_blocks b) = false -> bo + 1 < b_dec b -> 0 < filesz -> bo <= last ->
  exists b', b_read_block refd filesz last b bo = (b', BDone).
Proof. exact CachesStreamProofs.b_read_block_gone. Qed.
Print Assumptions read_block_gone.

(* find_line at the begin of a line whose predecessor is known to the reader (shortcuts A0 / A1a / A1b, or a
   cache hit), at or after the newest block: the spec line, no block that is gone is needed, SI is kept.
   This is every find_line call of a forward sweep (the stage driver's pattern, theorems below). *)
Theorem find_line_stream_forward : forall bs (f : file) l fo l' r p, 0 < bs ->
  lr_inv0 bs f l -> lSI l -> fo < lenN f -> line_beg f fo = fo -> pred_known l fo -> ldec l <= blk bs fo + 1 ->
  c_find_line bs f l fo = (l', r, p) ->
  lr_inv0 bs f l' /\ lSI l' /\ lres_ok bs f fo r /\ ldec l <= ldec l' /\ ldec l' <= blk bs (line_end f fo) + 1.
Proof. exact CachesStreamProofs.find_line_stream_forward. Qed.
Print Assumptions find_line_stream_forward.

(* ---------------------------------------------------------------------------------------------
   The stage driver on a STREAMED reader with block drops ENABLED (the normal case of a .gz / .bz2 / .lz4 / .xz log
   or a tar member whose timestamps carry a year).  The proofs (Proofs/CachesFwd*.v) are generic in the BLOCK DISCIPLINE
   of the container - RD b k: every block from k on can be read, in ascending order; DN b j: block j was reached, so a
   block at least two below it may be dropped - and instantiated (open_discipline) for
     KSeq  .gz / .bz2 / .lz4  a sequential decoder; decoding a block drops the block visited before (look-behind drop)
     KXz   .xz                decompressed and sliced at open; a block that is dropped is gone, the others stay
     KTar  a tar member       every miss reads all blocks of the member again.
   Invariant SFW S d g: g is the frontier of the forward reads (every line that begins in d .. g-1 is stored, nothing
   beyond; every block from the block of g on can be read), d the horizon below which drop_data_try may have dropped
   lines. *)
From S4.Spec Require Import WindowSpec.
From S4.Proofs Require Import CachesFwdProofs CachesFwdSysProofs CachesFwdRunProofs.

(* the block disciplines exist for the three kinds of container, from the state BlockReader::new leaves *)
Theorem streamed_block_discipline : forall (c : ckind) bs (f : file), 0 < bs ->
  exists (RD DN : bstate -> N -> Prop),
    (forall b k k', RD b k -> k <= k' -> RD b k') /\
    (forall refd b k j, RD b k -> k <= j -> j <= blast bs f -> 0 < lenN f ->
       exists b', b_read_block refd (lenN f) (blast bs f) b j = (b', BFound) /\ RD b' j /\ DN b' j /\
                  (forall i, DN b i -> DN b' i)) /\
    (forall refd b k j bo, RD b k -> DN b j -> j <= k -> bo + 2 <= j ->
       RD (b_drop_block refd b bo) k /\ (forall i, DN b i -> DN (b_drop_block refd b bo) i)) /\
    RD (b_open c bs (lenN f)) 0.
Proof. exact CachesFwdRunProofs.open_discipline. Qed.
Print Assumptions streamed_block_discipline.

(* find_sysline at an offset between horizon and frontier that is 0, the begin of a message or the end of the file
   (scursor): answered as the spec says, never Panic, the reader stays in the forward state; loop A does not step
   back, loop B reads forward - no call needs a block that is gone.  The line after the message is stored (or the
   message ends the file), which makes the returned offset the next such offset. *)
Theorem streamed_find_sysline_forward : forall dated bs (f : file) (RD DN : bstate -> N -> Prop) S fo d g S' r p, 0 < bs ->
  (forall b k k', RD b k -> k <= k' -> RD b k') ->
  (forall refd b k j, RD b k -> k <= j -> j <= blast bs f -> 0 < lenN f ->
     exists b', b_read_block refd (lenN f) (blast bs f) b j = (b', BFound) /\ RD b' j /\ DN b' j /\
                (forall i, DN b i -> DN b' i)) ->
  SFW dated bs f RD DN S d g -> scursor dated f d g fo -> c_find_sysline dated bs f S fo = (S', r, p) ->
  r <> Panic /\ sres_ok dated bs f S fo r /\ sys_step dated bs f S S' r /\
  exists g', g <= g' /\ SFW dated bs f RD DN S' d g' /\
    (forall n s, r = Found (n, s) -> n = lenN f \/ stored_at (s_lr S') n).
Proof. intros dated bs f RD DN S fo d g S' r p H A1 A2. exact (c_find_sysline_fw dated bs f H RD DN A1 A2 S fo d g S' r p). Qed.
Print Assumptions streamed_find_sysline_forward.

(* drop_data_try(p) with the horizon at the begin of p: every line it drops ends before p, in a block at least two
   below the block of p (which was reached); the forward state is kept *)
Theorem streamed_drop_data_try_forward : forall dated bs (f : file) (RD DN : bstate -> N -> Prop) S p pb pg g, 0 < bs ->
  (forall refd b k j bo, RD b k -> DN b j -> j <= k -> bo + 2 <= j ->
     RD (b_drop_block refd b bo) k /\ (forall i, DN b i -> DN (b_drop_block refd b bo) i)) ->
  SFW dated bs f RD DN S pb g -> ssl_ok bs f p pb pg -> is_group dated f pb pg ->
  SFW dated bs f RD DN (c_drop_data_try bs S p) pb g.
Proof. intros dated bs f RD DN S p pb pg g H A3. exact (c_drop_data_try_fw dated bs f H RD DN A3 S p pb pg g). Qed.
Print Assumptions streamed_drop_data_try_forward.

(* THE DRIVER: block-zero analysis (any number of find_line_in_block and find_sysline_in_block calls from offset 0,
   then at each returned offset), first find at 0, then at each fo_next, drop_data_try after each message, for every
   container kind, block size, file, oracle (hypothesis of gate_then_refines) and drop plan: exactly the messages of
   the file *)
Theorem streamed_driver_complete : forall dated (c : ckind) bs (f : file) k1 k2 plan, 0 < bs ->
  (forall b z, b < lenN f -> line_beg f b = b ->
     dated (slice f b (b + 1)) = Some z -> dated (slice f b (line_end f b + 1)) = Some z) ->
  obs_stream bs f (rmap (snd (c_stream dated bs f plan (c_gate dated k1 k2 bs f (sr_init_b (b_open c bs (lenN f))))))) =
  Some (syslines dated f).
Proof. exact CachesFwdRunProofs.streamed_driver_complete. Qed.
Print Assumptions streamed_driver_complete.

(* without block-zero analysis: for EVERY oracle *)
Theorem streamed_driver_complete_fresh : forall dated (c : ckind) bs (f : file) plan, 0 < bs ->
  obs_stream bs f (rmap (snd (c_stream dated bs f plan (sr_init_b (b_open c bs (lenN f)))))) = Some (syslines dated f).
Proof. exact CachesFwdRunProofs.streamed_driver_complete_fresh. Qed.
Print Assumptions streamed_driver_complete_fresh.

(* THE WINDOW VARIANT: the datetime window A B of a streamed file is searched LINEARLY
   (find_sysline_at_datetime_filter_linear_search: find_sysline at the offset, then at each returned offset while
   the message lies before A; find_sysline_between_datetime_filters: Done when it lies after B), in stage 2 and
   again in every iteration of stage 3.  The driver emits exactly win_scan A B (syslines dated f): the messages a
   forward scan selects (skip while before A, stop at the first message after B) ... *)
Theorem streamed_window_driver : forall dated (c : ckind) bs (f : file) k1 k2 fa fb plan, 0 < bs ->
  (forall b z, b < lenN f -> line_beg f b = b ->
     dated (slice f b (b + 1)) = Some z -> dated (slice f b (line_end f b + 1)) = Some z) ->
  obs_stream bs f (rmap (snd (c_stream_win dated bs f fa fb plan
                                (c_gate dated k1 k2 bs f (sr_init_b (b_open c bs (lenN f))))))) =
  Some (win_scan fa fb (syslines dated f)).
Proof. exact CachesFwdRunProofs.streamed_window_driver. Qed.
Print Assumptions streamed_window_driver.

Theorem streamed_window_driver_fresh : forall dated (c : ckind) bs (f : file) fa fb plan, 0 < bs ->
  obs_stream bs f (rmap (snd (c_stream_win dated bs f fa fb plan (sr_init_b (b_open c bs (lenN f)))))) =
  Some (win_scan fa fb (syslines dated f)).
Proof. exact CachesFwdRunProofs.streamed_window_driver_fresh. Qed.
Print Assumptions streamed_window_driver_fresh.

(* ... which is exactly `window A B (syslines dated f)` (Spec/WindowSpec.v, both bounds inclusive) when the
   messages of the file are in time order; on a file that is not, a message inside the window that follows a
   message after B is not emitted (example win_scan_not_window) *)
Theorem streamed_window_chronological : forall dated (c : ckind) bs (f : file) k1 k2 fa fb plan, 0 < bs ->
  (forall b z, b < lenN f -> line_beg f b = b ->
     dated (slice f b (b + 1)) = Some z -> dated (slice f b (line_end f b + 1)) = Some z) ->
  nondecreasing (@fst Z (list (list N))) (syslines dated f) = true ->
  obs_stream bs f (rmap (snd (c_stream_win dated bs f fa fb plan
                                (c_gate dated k1 k2 bs f (sr_init_b (b_open c bs (lenN f))))))) =
  Some (window (@fst Z (list (list N))) fa fb (syslines dated f)).
Proof. exact CachesFwdRunProofs.streamed_window_chronological. Qed.
Print Assumptions streamed_window_chronological.

(* a backward call on a streamed reader with drops enabled is NOT answered (the plain reader answers it) *)
Theorem streamed_backward_refuted :
  exists (dated : list N -> option Z) (bs : N) (f : file) (ops : list cop),
    0 < bs /\ Forall op_nodrop ops /\
    map (obs_cres bs f) (snd (c_run dated bs f (cinit_k true) ops)) <> map (spec_cobs dated f) ops /\
    map (obs_cres bs f) (snd (c_run dated bs f (cinit_k false) ops)) = map (spec_cobs dated f) ops.
Proof. exact CachesStreamProofs.streamed_backward_refuted. Qed.
Print Assumptions streamed_backward_refuted.

(* ---------------------------------------------------------------------------------------------
   A log whose timestamps carry NO YEAR at driver level (Model/Caches.v, section YearLess: c_clear_syslines,
   c_remove_sysline, c_year_loop = the loop of SyslogProcessor::process_missing_year with the year as reader-side state,
   c_stream_year = stages 1 (end: disable_drop_data for a streamed file) - 2 - 3; tied on every run of the check against
   SyslogProcessor on plain / .gz / .bz2 / .lz4 files with set modification times, with year boundaries).
   D y = dated_y (Some y), the oracle of the year y.  Domain hypothesis (C11): whether a line carries a timestamp does
   not depend on the year filled in (29 February in a common year, Issue #245, is excluded). *)
From S4.Proofs Require Import CachesYearProofs CachesYearParam CachesYearDriver.

(* within one year: clear_syslines establishes the cache invariant of that year's oracle whatever oracle filled the
   caches before; remove_sysline keeps it and removes the range with the message (nothing dangles); every
   find_sysline_year call is answered as that year's spec says *)
Theorem yearless_reverse_pass_one_year : forall dated bs (f : file) st fo, 0 < bs ->
  (lr_inv bs f (s_lr st) ->
     @rinv dated bs f (lr_inv bs f) (c_clear_syslines st) /\ no_dangling (c_clear_syslines st)) /\
  (@rinv dated bs f (lr_inv bs f) st -> no_dangling st ->
     @rinv dated bs f (lr_inv bs f) (c_remove_sysline bs st fo) /\ no_dangling (c_remove_sysline bs st fo)) /\
  (forall st' r p, @rinv dated bs f (lr_inv bs f) st -> no_dangling st -> c_find_sysline dated bs f st fo = (st', r, p) ->
     @rinv dated bs f (lr_inv bs f) st' /\ no_dangling st' /\ r <> Panic /\ sres_ok dated bs f st fo r).
Proof. exact CachesYearProofs.yearless_ops_keep_invariant. Qed.
Print Assumptions yearless_reverse_pass_one_year.

(* (a) PARAMETRICITY: find_sysline looks at stored instants nowhere.  rdS phi st = st with the instant of every stored
   message replaced by phi (its offset); a call on st and the same call on rdS phi st do the same, provided the answer of
   the latter carries the instants phi gives (which it does when rdS phi st satisfies the invariant of the call's
   oracle); the message a search builds then carries phi of its offset *)
Theorem yearless_parametric : forall bs (f : file) (phi : N -> Z) dated st fo st' r p st2 r2 p2,
  c_find_sysline dated bs f st fo = (st', r, p) -> c_find_sysline dated bs f (rdS bs phi st) fo = (st2, r2, p2) ->
  (forall n s b, r2 = Found (n, s) -> ss_begin bs s = Some b -> phi b = ss_dt s) ->
  st2 = rdS bs phi st' /\ r2 = rd_res bs phi r /\ p2 = p /\
  (forall n s b, p = QSearch -> r = Found (n, s) -> ss_begin bs s = Some b -> phi b = ss_dt s).
Proof. exact CachesYearParam.find_sysline_rd2. Qed.
Print Assumptions yearless_parametric.

(* the invariant "up to the instant": YI y st = the state re-dated with the year y satisfies the cache invariant of D y
   and nothing dangles.  A find_sysline_year call with the year y keeps it, never panics, and its answer re-dated is the
   spec answer of year y; a message it builds carries the instant of year y *)
Theorem yearless_find_sysline_year : forall dated_y bs (f : file), 0 < bs -> forall y st fo st' r p,
  YI dated_y bs f y st -> c_find_sysline (D dated_y y) bs f st fo = (st', r, p) ->
  YI dated_y bs f y st' /\ r <> Panic /\
  sres_ok (D dated_y y) bs f (rdS bs (phi dated_y f y) st) fo (rd_res bs (phi dated_y f y) r) /\
  sys_step (D dated_y y) bs f (rdS bs (phi dated_y f y) st) (rdS bs (phi dated_y f y) st') (rd_res bs (phi dated_y f y) r) /\
  (forall n s, r = Found (n, s) -> p = QSearch -> rd_ssl bs (phi dated_y f y) s = s).
Proof. exact CachesYearDriver.yi_find. Qed.
Print Assumptions yearless_find_sysline_year.

(* the CHANGE of the year: remove_sysline empties both LRU caches (provenance: from here on every parse uses the new
   year), and with them empty the invariant of one year is the invariant of every year *)
Theorem yearless_year_change : forall dated_y bs (f : file), 0 < bs ->
  (forall y y' l, dated_y (Some y) l = None <-> dated_y (Some y') l = None) -> forall y y' st b,
  YI dated_y bs f y st ->
  YI dated_y bs f y' (c_remove_sysline bs st b) /\ s_lr (c_remove_sysline bs st b) = s_lr st.
Proof. exact CachesYearDriver.yi_remove. Qed.
Print Assumptions yearless_year_change.

(* THE WHOLE REVERSE PASS, any number of year changes, early stop at --dt-after included, from any reader whose
   LineReader can read every block (plain file, tar member, streamed file after disable_drop_data): no call panics, the
   model's defensive outcomes do not occur, and the reader ends in the invariant of the year the pass ended with *)
Theorem yearless_reverse_pass_safe : forall dated_y bs (f : file) tol fa fuel st Y fo, 0 < bs ->
  (forall y y' l, dated_y (Some y) l = None <-> dated_y (Some y') l = None) ->
  lr_inv bs f (s_lr st) ->
  let res := c_year_loop dated_y fuel bs f tol fa (c_clear_syslines st) Y fo None in
  snd res <> Panic /\ snd res <> Done /\
  (snd res = OutOfFuel \/ exists y', snd res = Found y' /\ YI dated_y bs f y' (fst res)).
Proof. exact CachesYearDriver.yearless_reverse_pass_safe. Qed.
Print Assumptions yearless_reverse_pass_safe.

(* (c), first half: a call that check_store answers does not consult the oracle - stage 3 (oracle: the filler year) gets
   the stored messages with the instants the reverse pass gave them; find_sysline changes `syslines` only by inserting
   the message it built (CachesYearParam.find_sysline_frame) *)
Theorem yearless_store_hit_oracle_free : forall (D1 D2 : list N -> option Z) bs (f : file) st fo a stm,
  sr_check_store bs f st fo = (Some a, stm) -> c_find_sysline D1 bs f st fo = c_find_sysline D2 bs f st fo.
Proof. exact CachesYearParam.find_sysline_hit_oracle_free. Qed.
Print Assumptions yearless_store_hit_oracle_free.

(* (b) THE REVERSE PASS IS THE WALK of Model/Year.v.  gwalk = Year.redate / Year.walk with the instant function, the
   tolerance and the early stop as parameters (CachesYearWalk.walk_gwalk: Year.walk = gwalk (with_year off) TOL no-stop);
   inst dated_y f y b = the oracle of year y on the line that begins at b; begins = the offsets at which the messages
   begin (they do not depend on the year).  If the walk over the messages from the last one upwards, fm attempts per
   message, yields l, then the loop of process_missing_year (any tolerance, early stop at --dt-after included) with fuel
   fm * |messages| + 1 ends with Found (the year of the topmost message walked) in the invariant of that year, and
   `syslines` holds at the begin of every message walked a message with the instant the walk gave it
   (stored bs st b (y, t): syslines[b] = s with begin b and instant t).  Every call of the pass is a miss of
   check_store (all that is stored lies at or below the message just accepted), so each message is built with the
   current year; a jump removes it and empties both LRU caches. *)
From S4.Model Require Year.
From S4.Proofs Require Import CachesYearWalk.

Theorem yearless_walk_is_gwalk : forall dated_y bs (f : file) tol fa fm st Y l fuel, 0 < bs ->
  (forall y y' l, dated_y (Some y) l = None <-> dated_y (Some y') l = None) ->
  lr_inv bs f (s_lr st) ->
  let begins := map fst (syslines_at (dated_y (Some Y)) f) in
  gwalk (inst dated_y f) tol (dt_before fa) fm Y None (rev begins) = Some l ->
  (fm * length begins + 1 <= fuel)%nat ->
  let res := c_year_loop dated_y fuel bs f tol fa (c_clear_syslines st) Y (lenN f - 1) None in
  snd res = Found (fin Y l) /\ YI dated_y bs f (fin Y l) (fst res) /\
  Forall2 (stored bs (fst res)) (firstn (length l) (rev begins)) l.
Proof. exact CachesYearWalk.yearless_walk_gwalk. Qed.
Print Assumptions yearless_walk_is_gwalk.

(* ... with calendar years: when the oracle of year y on the i-th message is Year.with_year off y m_i (month, day, time of
   day of the message, zone off), the tolerance is 25 h and there is no --dt-after, the loop computes C11's assign_years:
   it ends with the year of the first message and `syslines` holds every message with the instant assign_years gives it.
   This ties the code-level loop to the model of C11 for every file, block size and reader state. *)
Theorem yearless_walk_is_assign_years : forall dated_y bs (f : file) off msgs fm st Y ys fuel, 0 < bs ->
  (forall y y' l, dated_y (Some y) l = None <-> dated_y (Some y') l = None) ->
  lr_inv bs f (s_lr st) ->
  let begins := map fst (syslines_at (dated_y (Some Y)) f) in
  Forall2 (fun b m => forall y, inst dated_y f y b = Year.with_year off y m) begins msgs ->
  Year.assign_years fm off Y msgs = Some ys ->
  (fm * length msgs + 1 <= fuel)%nat ->
  let res := c_year_loop dated_y fuel bs f Year.TOL None (c_clear_syslines st) Y (lenN f - 1) None in
  snd res = Found (match ys with [] => Y | (y, _) :: _ => y end) /\
  YI dated_y bs f (match ys with [] => Y | (y, _) :: _ => y end) (fst res) /\
  Forall2 (stored bs (fst res)) begins ys.
Proof. exact CachesYearWalk.yearless_walk_assign_years. Qed.
Print Assumptions yearless_walk_is_assign_years.

(* the DRIVER up to stage 3: stages 1 (end) and 2 of c_stream_year - disable_drop_data on a streamed file, clear_syslines,
   the reverse pass with the driver's own fuel 2 |f| + 1 and C11's two attempts per message - hand stage 3 a reader in
   the invariant of the first message's year that holds every message with the instant assign_years gives it; stage 3
   is the window driver with the filler-year oracle on that reader *)
Theorem yearless_driver_stage2 : forall dated_y bs (f : file) off msgs Y ys fb plan st, 0 < bs ->
  (forall y y' l, dated_y (Some y) l = None <-> dated_y (Some y') l = None) ->
  let stream := b_stream (l_blk (s_lr st)) in
  let st1 := if stream then sr_set_lr (lr_set_blk (b_disable_drop (l_blk (s_lr st))) (s_lr st)) st else st in
  lr_inv bs f (s_lr st1) -> 0 < lenN f ->
  let begins := map fst (syslines_at (dated_y (Some Y)) f) in
  Forall2 (fun b m => forall y, inst dated_y f y b = Year.with_year off y m) begins msgs ->
  Year.assign_years 2 off Y msgs = Some ys ->
  exists st', c_stream_year dated_y bs f Year.TOL Y None fb plan st =
                c_stream_win (dated_y None) bs f None fb (if stream then [] else plan) st' /\
              YI dated_y bs f (match ys with [] => Y | (y, _) :: _ => y end) st' /\
              Forall2 (stored bs st') begins ys.
Proof. exact CachesYearWalk.yearless_stage2. Qed.
Print Assumptions yearless_driver_stage2.

(* (c) STAGE 3 ANSWERED FROM THE STORE - yearless_driver_complete: for a file that begins with a message (W4) and without a
   datetime window, for EVERY drop plan and every container (a streamed file gets the empty plan after
   disable_drop_data), the year-less driver emits exactly the spec groups of the file, the i-th with the instant C11's
   assign_years gives the i-th message (sobs = instant and line bytes of an emitted message); no Panic.
   (i)   through the reverse pass every message of the find_sysline LRU cache is a stored one (CachesYearWalk.lruS);
   (ii)  every call of stage 3 is at the begin of a message, which is stored: check_store answers it (hit_some), the
         filler-year oracle is not consulted, the answer is a message of the LRU cache or of `syslines`
         (check_store_src) and carries the stored instant; its structure is the spec's (the state re-dated with the year
         the pass ended with satisfies the cache invariant of that year);
   (iii) drop_data_try(the message before the current one) commutes with the re-dating (drop_try_rd) and removes nothing at
         or after the current message (drop_step): the messages ahead stay stored, no call falls into a dropped range. *)
From S4.Proofs Require Import CachesYearStage3.

Theorem yearless_driver_complete : forall dated_y bs (f : file) off msgs Y ys plan st, 0 < bs ->
  (forall y y' l, dated_y (Some y) l = None <-> dated_y (Some y') l = None) ->
  let stream := b_stream (l_blk (s_lr st)) in
  let st1 := if stream then sr_set_lr (lr_set_blk (b_disable_drop (l_blk (s_lr st))) (s_lr st)) st else st in
  lr_inv bs f (s_lr st1) -> 0 < lenN f ->
  let begins := map fst (syslines_at (dated_y (Some Y)) f) in
  Forall2 (fun b m => forall y, inst dated_y f y b = Year.with_year off y m) begins msgs ->
  Year.assign_years 2 off Y msgs = Some ys ->
  first_dated_offset (dated_y (Some Y)) f = 0 ->
  exists st'' sls, c_stream_year dated_y bs f Year.TOL Y None None plan st = (st'', Found sls) /\
    map (sobs bs f) sls = map (fun gyt => (snd (snd gyt), snd (fst gyt))) (combine (syslines (dated_y (Some Y)) f) ys) /\
    length ys = length (syslines (dated_y (Some Y)) f).
Proof. exact CachesYearStage3.yearless_driver_drops. Qed.
Print Assumptions yearless_driver_complete.

(* ... and with --dt-before alone (no --dt-after): stage 3 is the same scan, cut at the first message whose instant lies
   after the bound (find_sysline_between_datetime_filters answers Done): the driver emits win_scan None fb of the spec
   groups dated by assign_years (win_scan: CachesFwdRunProofs, the selection of streamed_window_driver; with fb = None
   it is the whole list: yearless_driver_complete) *)
Theorem yearless_driver_complete_dt_before : forall dated_y bs (f : file) off msgs Y ys fb plan st, 0 < bs ->
  (forall y y' l, dated_y (Some y) l = None <-> dated_y (Some y') l = None) ->
  let stream := b_stream (l_blk (s_lr st)) in
  let st1 := if stream then sr_set_lr (lr_set_blk (b_disable_drop (l_blk (s_lr st))) (s_lr st)) st else st in
  lr_inv bs f (s_lr st1) -> 0 < lenN f ->
  let begins := map fst (syslines_at (dated_y (Some Y)) f) in
  Forall2 (fun b m => forall y, inst dated_y f y b = Year.with_year off y m) begins msgs ->
  Year.assign_years 2 off Y msgs = Some ys ->
  first_dated_offset (dated_y (Some Y)) f = 0 ->
  exists st'' sls, c_stream_year dated_y bs f Year.TOL Y None fb plan st = (st'', Found sls) /\
    map (sobs bs f) sls =
      win_scan None fb (map (fun gyt => (snd (snd gyt), snd (fst gyt))) (combine (syslines (dated_y (Some Y)) f) ys)) /\
    length ys = length (syslines (dated_y (Some Y)) f).
Proof. exact CachesYearStage3.yearless_driver_before. Qed.
Print Assumptions yearless_driver_complete_dt_before.

(* REFUTED for a reader whose LRU caches are off (latent; the s4 binary runs with them on): stage 3 begins with
   find_sysline(0); when undated lines lead the file the first message is built again with the filler year and keeps the
   instant of the reverse pass only through the parse_datetime / find_sysline LRU caches.  Witness "\n2z\n2b\n", toy
   oracle dy2 (a line that begins with '2' is dated; instant = 1000 * year + second byte; filler year 0), tolerance 10,
   mtime year 7: the walk dates the first message 6122; the driver emits 6122 with the caches on, 122 with them off *)
Theorem yearless_driver_caches_off_refuted :
  gwalk (inst dy2 fyu) 10 (dt_before None) 2 7 None (rev (map fst (syslines_at (dy2 (Some 7%Z)) fyu))) =
    Some [(7%Z, 7098%Z); (6%Z, 6122%Z)] /\
  option_map (map ss_dt) (match snd (c_stream_year dy2 2 fyu 10 7 None None [] (sr_init_b (b_init false)))
                          with Found l => Some l | _ => None end) = Some [6122%Z; 7098%Z] /\
  option_map (map ss_dt) (match snd (c_stream_year dy2 2 fyu 10 7 None None [] (sr_lru_disable (sr_init_b (b_init false))))
                          with Found l => Some l | _ => None end) = Some [122%Z; 7098%Z].
Proof. exact CachesYearWalk.yearless_caches_off_witness. Qed.
Print Assumptions yearless_driver_caches_off_refuted.

(* REFUTED for the block-zero-analysis state of a STREAMED file (W5, genuine on the shipped binary; known finding
   yearless_first_messages_keep_filler_year): the hypothesis `lr_inv bs f (s_lr st1)` of yearless_driver_complete does not
   hold there when a line of the first message begins exactly at the end of block zero and is longer than a block -
   stage 1 reads block 1 and the look-behind drop removes block 0 before disable_drop_data; the reverse pass ends at the
   messages that begin in block 0 (find_line answers Done) and stage 3 dates them with the FILLER year.  Witness
   "2z\nwxyv\n2b\n", oracle dy2, tolerance 10, mtime year 7: gz/bz2/lz4 at block size 3 emit the first message with 122
   instead of 6122; block sizes 4 and 9, a tar member and the plain file emit 6122 (first component: the blocks stored
   after stage 1).  Real witness: corpus/C02/yearless_leading_undated_w4.log as .gz at --blocksz 64 *)
Theorem yearless_driver_streamed_gate_drop_refuted :
  run_fyg (b_open KSeq 3 (lenN fyg)) 3 = ([1], Some [(Some 0, 122%Z); (Some 8, 7098%Z)]) /\
  run_fyg (b_open KSeq 4 (lenN fyg)) 4 = ([0], Some [(Some 0, 6122%Z); (Some 8, 7098%Z)]) /\
  run_fyg (b_open KSeq 9 (lenN fyg)) 9 = ([0], Some [(Some 0, 6122%Z); (Some 8, 7098%Z)]) /\
  snd (run_fyg (b_open KTar 3 (lenN fyg)) 3) = Some [(Some 0, 6122%Z); (Some 8, 7098%Z)] /\
  snd (run_fyg (b_init false) 3) = Some [(Some 0, 6122%Z); (Some 8, 7098%Z)].
Proof. exact CachesYearStage3.yearless_streamed_gate_drop_witness. Qed.
Print Assumptions yearless_driver_streamed_gate_drop_refuted.

(* STILL NOT PROVED (kept _partial): the year-less driver
   - with --dt-after: the pass stops early (covered: yearless_walk_is_gwalk) and stage 3 meets messages the pass did not
     store, which are searched with the filler year - no statement is claimed;
   - on a file that begins with undated lines, caches on: the first call of stage 3, find_sysline(0), is a SEARCH with the
     filler-year oracle that builds the first message again; its instant is the pass's only through the parse_datetime LRU
     cache (one leading byte: the find_sysline LRU cache); with the caches off it is the filler year's
     (yearless_driver_caches_off_refuted, confirmed on the binary built with LRU_CACHE_ENABLE = false).
   The composed program (WP-H) uses yearless_driver_complete (shape of streamed_driver_struct: c_stream_year on a reader
   whose LineReader can read every block, e.g. the gate state of a plain file or of a streamed file after
   disable_drop_data); yearless_reverse_pass_safe gives "no Panic" of the pass in every case. *)
Theorem yearless_driver_partial : forall dated_y bs (f : file) tol fa fuel st Y fo, 0 < bs ->
  (forall y y' l, dated_y (Some y) l = None <-> dated_y (Some y') l = None) ->
  lr_inv bs f (s_lr st) ->
  let res := c_year_loop dated_y fuel bs f tol fa (c_clear_syslines st) Y fo None in
  snd res <> Panic /\ snd res <> Done /\
  (snd res = OutOfFuel \/ exists y', snd res = Found y' /\ YI dated_y bs f y' (fst res)).
Proof. exact CachesYearDriver.yearless_reverse_pass_safe. Qed.
Print Assumptions yearless_driver_partial.

