(* Props/C02.v — property C02 "every message of a text log is printed exactly once, byte for
   byte": statements only; every proof is `exact <lemma>`.
   All statements hold for every block size bs > 0, every file over arbitrary bytes (NUL, CR,
   invalid UTF-8 are ordinary values of N) and every timestamp oracle `dated`. *)
From S4.Base Require Import Bytes Chunk.
From S4.Spec Require Import LinesSpec.
From S4.Model Require Import Lines Syslines.
From S4.Proofs Require Import LinesProofs SyslinesProofs.
Open Scope N_scope.

(* find_line returns the spec line containing fo: fo_next = end+1; the parts are contiguous and
   well formed (`chain`: each part begins where the previous one ends, bi_beg < bi_end <= bs),
   they cover exactly line_beg .. line_end and their bytes are that slice of the file *)
Theorem find_line_correct : forall bs (f : file) fo, 0 < bs -> fo < lenN f ->
  exists ps, find_line_m bs f fo = Found (line_end f fo + 1, ps) /\
             chain bs ps (line_beg f fo) (line_end f fo + 1) /\
             bytes_of bs f ps = slice f (line_beg f fo) (line_end f fo + 1) /\
             line_fo_begin bs ps = Some (line_beg f fo) /\
             line_fo_end bs ps = Some (line_end f fo).
Proof. exact LinesProofs.find_line_correct. Qed.
Print Assumptions find_line_correct.

Theorem find_line_done : forall bs (f : file) fo, lenN f <= fo -> find_line_m bs f fo = Done.
Proof. exact LinesProofs.find_line_done. Qed.
Print Assumptions find_line_done.

(* the same, as an equation between what a caller observes and the spec function *)
Theorem find_line_spec : forall bs (f : file) fo, 0 < bs ->
  obs_line bs f (find_line_m bs f fo) = spec_find_line f fo.
Proof. exact LinesProofs.find_line_spec. Qed.
Print Assumptions find_line_spec.

(* no index panic, no underflow, fuel |f|+1 suffices *)
Theorem find_line_total : forall bs (f : file) fo, 0 < bs ->
  find_line_m bs f fo <> Panic /\ find_line_m bs f fo <> OutOfFuel.
Proof. exact LinesProofs.find_line_total. Qed.
Print Assumptions find_line_total.

(* find_sysline: the spec group containing fo, the first group if fo precedes it, Done iff
   there is none *)
Theorem find_sysline_correct : forall dated bs (f : file) fo, 0 < bs ->
  obs_find_sysline bs f (find_sysline_m dated bs f fo) = spec_find_sysline dated f fo.
Proof. exact SyslinesProofs.find_sysline_correct. Qed.
Print Assumptions find_sysline_correct.

(* stream_complete, part 1: the messages the stage driver hands to the printer are exactly the
   spec groups, in order — none dropped, repeated, truncated, split or merged; the driver's
   fuel |f|+1 suffices (the result is Found) *)
Theorem stream_complete : forall dated bs (f : file), 0 < bs ->
  obs_stream bs f (stream_m dated bs f) = Some (syslines dated f).
Proof. exact SyslinesProofs.stream_groups. Qed.
Print Assumptions stream_complete.

(* stream_complete, part 2: concatenated, they are the file from its first dated line *)
Theorem stream_bytes_suffix : forall dated (f : file),
  stream_bytes dated f = skipnN (first_dated_offset dated f) f.
Proof. exact SyslinesProofs.stream_bytes_suffix. Qed.
Print Assumptions stream_bytes_suffix.

(* printed_bytes: with no decoration stdout is those bytes plus one newline iff something was
   printed and the file lacks a final newline *)
Theorem printed_bytes : forall dated (f : file),
  let s := skipnN (first_dated_offset dated f) f in
  printed dated f = match s with [] => [] | _ => if ends_with_nl s then s else s ++ [NL] end.
Proof. exact SyslinesProofs.printed_bytes. Qed.
Print Assumptions printed_bytes.
