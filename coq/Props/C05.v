(* Props/C05.v — property C05 (compression and archiving are transparent): statements only.
   PARTIAL claim: the decoders (flate2, bzip2-rs, lz4_flex, lzma-rs, tar) are oracles; every
   theorem quantifies over ALL decoders [read] that satisfy the contract R1/R2 of
   Spec/AssembleSpec.v, hence over every internal chunking a compressor setting can produce. *)
From Coq Require Import String.
From S4.Base Require Import Bytes.
From S4.Spec Require Import AssembleSpec.
From S4.Model Require Import Assemble.
From S4.Proofs Require Import AssembleProofs AssembleTheorems.
From S4.Spec Require Import ContainersSpec.
From S4.Model Require Import Containers.
From S4.Proofs Require Import ContainersGz ContainersGlue ContainersTar ContainersExamples.
Open Scope N_scope.

(* spec sanity: chunk lists exactly the blocks, and loses nothing *)
Theorem C05_nth_chunk : forall bs f i, 0 < bs -> nth (N.to_nat i) (chunk bs f) [] = blk bs f i.
Proof. exact nth_chunk. Qed.
Print Assumptions C05_nth_chunk.

Theorem C05_concat_chunk : forall bs f, 0 < bs -> concat (chunk bs f) = f.
Proof. exact concat_chunk. Qed.
Print Assumptions C05_concat_chunk.

(* gz (buf = Some 2056), bz2 (buf = None): for EVERY contract-abiding decoder and every block
   index, the assembled block is block i of chunk bs plain (Done past the end) *)
Theorem assemble_chunk_independent :
  forall (dstate : Type) (read : dstate -> N -> dstate * list N) (remaining : dstate -> list N),
    contract dstate read remaining ->
    forall (buf : option N), buf_ok buf ->
    forall (bs n : N) (d0 : dstate) (plain : list N),
      0 < bs -> remaining d0 = plain -> declared_size_ok n plain ->
      forall i,
        assemble dstate (fill_block dstate read buf) bs n d0 i
        = if (N.to_nat i <? length (chunk bs plain))%nat
          then AOk (nth (N.to_nat i) (chunk bs plain) [])
          else ADone.
Proof. exact assemble_chunk_independent_thm. Qed.
Print Assumptions assemble_chunk_independent.

(* stream shorter than declared: Err (never a wrong block); the last block is always Err *)
Theorem assemble_short_stream :
  forall dstate read remaining, contract dstate read remaining ->
    forall buf, buf_ok buf ->
    forall bs n d0 plain, 0 < bs -> remaining d0 = plain -> len plain < n ->
      (forall i, i <= blockoffset_last n bs ->
         (i * bs + blocksz_at n bs i <= len plain ->
            assemble dstate (fill_block dstate read buf) bs n d0 i = AOk (blk bs plain i)
            /\ len (blk bs plain i) = bs)
         /\ (len plain < i * bs + blocksz_at n bs i ->
            assemble dstate (fill_block dstate read buf) bs n d0 i = AErr EZeroRead))
      /\ assemble dstate (fill_block dstate read buf) bs n d0 (blockoffset_last n bs) = AErr EZeroRead.
Proof. exact assemble_short_stream_thm. Qed.
Print Assumptions assemble_short_stream.

(* stream longer than declared: NOT an error in the code — the file is silently cut at the declared
   size (gzip ISIZE of a multi-member or > 4 GiB file; outside the property's domain, stated as is) *)
Theorem assemble_long_stream_truncates :
  forall dstate read remaining, contract dstate read remaining ->
    forall buf, buf_ok buf ->
    forall bs n d0 plain, 0 < bs -> remaining d0 = plain -> n <= len plain ->
      forall i, assemble dstate (fill_block dstate read buf) bs n d0 i
                = if in_range n bs i then AOk (blk bs (firstn (N.to_nat n) plain) i) else ADone.
Proof. exact assemble_long_stream_thm. Qed.
Print Assumptions assemble_long_stream_truncates.

Theorem assemble_never_wrong :
  forall dstate read remaining, contract dstate read remaining ->
    forall buf, buf_ok buf ->
    forall bs n d0 plain, 0 < bs -> remaining d0 = plain ->
      forall i b, assemble dstate (fill_block dstate read buf) bs n d0 i = AOk b ->
                  b = blk bs (firstn (N.to_nat n) plain) i.
Proof. exact assemble_never_wrong_thm. Qed.
Print Assumptions assemble_never_wrong.

(* lz4: single read per block.  Right only under the extra hypothesis full_reads ... *)
Theorem assemble_lz4_full_reads :
  forall dstate read remaining, contract dstate read remaining -> full_reads dstate read remaining ->
    forall bs n d0 plain, 0 < bs -> remaining d0 = plain -> declared_size_ok n plain ->
      forall i, assemble_lz4 dstate read bs n d0 i
                = if in_range n bs i then AOk (blk bs plain i) else ADone.
Proof. exact assemble_lz4_full_reads_thm. Qed.
Print Assumptions assemble_lz4_full_reads.

(* ... and REFUTED under the contract alone (current code; known finding
   lz4_frame_block_boundary_inside_read_block): a zero-padded block is returned as Found *)
Theorem assemble_lz4_refuted :
  exists (plain : list N) (bs : N) (d0 : iblk_state) (i : N) (b : list N),
    contract iblk_state iblk_read iblk_remaining
    /\ iblk_remaining d0 = plain /\ 0 < bs /\ in_range (len plain) bs i = true
    /\ assemble_lz4 iblk_state iblk_read bs (len plain) d0 i = AOk b
    /\ b <> nth (N.to_nat i) (chunk bs plain) [].
Proof. exact assemble_lz4_refuted_thm. Qed.
Print Assumptions assemble_lz4_refuted.

(* tar member: read_exact per block, all blocks on first use *)
Theorem assemble_tar_member_chunk :
  forall dstate read remaining, contract dstate read remaining ->
    forall bs n d0 plain, 0 < bs -> remaining d0 = plain -> declared_size_ok n plain ->
      forall i, assemble_tar_member dstate read bs n d0 i
                = if in_range n bs i then AOk (blk bs plain i) else ADone.
Proof. exact assemble_tar_member_thm. Qed.
Print Assumptions assemble_tar_member_chunk.

(* xz: the slicing loop = chunk bs plain, plus one harmless empty block past the last index when
   |plain| is a non-zero multiple of bs; sizes add up to |plain| *)
Theorem xz_slices :
  forall bs plain, 0 < bs ->
    exists sl, Assemble.xz_slices bs plain = Some sl
      /\ sl = (if is_nil plain then [] else xz_expected bs plain 0 (S (N.to_nat (len plain / bs))))
      /\ (forall i, (N.to_nat i < length (chunk bs plain))%nat ->
            nth_error sl (N.to_nat i) = Some (i, nth (N.to_nat i) (chunk bs plain) []))
      /\ concat (map snd sl) = plain
      /\ xz_filesz sl = len plain
      /\ length sl = (length (chunk bs plain)
                      + (if negb (is_nil plain) && (len plain mod bs =? 0)%N then 1 else 0))%nat.
Proof. exact xz_slices_thm. Qed.
Print Assumptions xz_slices.

(* tar addressing "archive|member" *)
Theorem tar_member :
  forall (archive member : bytes) (entries : list tar_entry) (idx : nat) (content : list N),
    ~ In SUBPATH_SEP member ->
    nth_error entries idx = Some (member, content) ->
    (forall j e, (j < idx)%nat -> nth_error entries j = Some e -> fst e <> member) ->
    tar_open (archive ++ SUBPATH_SEP :: member) entries = AOk (archive, N.of_nat idx, len content)
    /\ declared_size_ok (len content) content.
Proof. exact tar_member_thm. Qed.
Print Assumptions tar_member.

Theorem tar_member_unique :
  forall (archive member : bytes) (entries : list tar_entry) (idx : nat) (content : list N),
    ~ In SUBPATH_SEP member -> NoDup (map fst entries) ->
    nth_error entries idx = Some (member, content) ->
    tar_open (archive ++ SUBPATH_SEP :: member) entries = AOk (archive, N.of_nat idx, len content).
Proof. exact tar_member_unique_thm. Qed.
Print Assumptions tar_member_unique.

Theorem tar_member_pipe_refuted :
  exists (archive member : bytes) (entries : list tar_entry) (content : list N),
    nth_error entries 0 = Some (member, content) /\ In SUBPATH_SEP member
    /\ tar_open (archive ++ SUBPATH_SEP :: member) entries <> AOk (archive, 0, len content).
Proof. exact tar_member_pipe_refuted_thm. Qed.
Print Assumptions tar_member_pipe_refuted.


(* the look-behind drop: REFUTED that every in-range request is answered with the block when the
   same reader is asked again for an earlier block (known finding fixedstruct_streamed_multi_block);
   with the drop disabled the answers are the blocks *)
Theorem lookbehind_drop_refuted :
  exists (plain : list N) (bs : N) (reqs : list N),
    let n := len plain in
    let fresh := mk_rstate 0 (plain, []) [] in
    (forall i, In i reqs -> in_range n bs i = true)
    /\ read_blocks_m sched_state (fill_block sched_state sched_read (Some GZ_BUF_SZ)) true bs n fresh reqs
       <> map (fun i => AOk (blk bs plain i)) reqs
    /\ read_blocks_m sched_state (fill_block sched_state sched_read (Some GZ_BUF_SZ)) false bs n fresh reqs
       = map (fun i => AOk (blk bs plain i)) reqs.
Proof. exact lookbehind_drop_refuted_thm. Qed.
Print Assumptions lookbehind_drop_refuted.

(* copy loop of decompress_to_ntf (journal / evtx payloads) and the bz2 / lz4 size pre-pass *)
Theorem drain_is_plain :
  forall dstate read remaining, contract dstate read remaining ->
    forall buf d0, 0 < buf ->
      drain dstate read (S (length (remaining d0))) buf d0 [] = AOk (remaining d0)
      /\ prepass_size dstate read (S (length (remaining d0))) buf d0 = AOk (len (remaining d0)).
Proof. exact drain_thm. Qed.
Print Assumptions drain_is_plain.

(* the hypotheses are satisfiable: two concrete decoders meet the contract *)
Theorem contract_satisfiable_sched : contract sched_state sched_read sched_remaining.
Proof. exact sched_read_contract. Qed.
Print Assumptions contract_satisfiable_sched.

Theorem contract_satisfiable_iblk : contract iblk_state iblk_read iblk_remaining.
Proof. exact iblk_read_contract. Qed.
Print Assumptions contract_satisfiable_iblk.


(* ================================================================================================
   WP-J — the container handling s4 does ITSELF (Model/Containers.v): what BlockReader::new derives
   (size, mtime, where the data starts, which tar entry), against the FORMAT encoders of
   Spec/ContainersSpec.v (RFC 1952 gzip member with every optional field; ustar archive).
   Decoders proper and the tar crate's entry list stay oracles.
   ================================================================================================ *)

(* gzip header: for EVERY combination of FTEXT / FHCRC / FEXTRA / FNAME / FCOMMENT and every field content
   (extra: any bytes; name, comment: any bytes but NUL) the parser returns exactly the fields and stops
   exactly on the first byte after the header — or GzTooLong when a name / comment exceeds flate2's
   65535-byte limit (RFC 1952 has none) *)
Theorem gz_parse_encode_total : forall h rest,
  gz_fields_ok h ->
  gz_parse_header (gz_header_bytes h ++ rest)
  = if fits (gf_name h) && fits (gf_comment h) then GOk (hdr_of h, rest) else GErr GzTooLong.
Proof. exact ContainersGz.gz_parse_encode_total. Qed.
Print Assumptions gz_parse_encode_total.

Theorem gz_parse_encode : forall h rest,
  gz_fields_ok h -> gz_within_flate2_limits h ->
  gz_parse_header (gz_header_bytes h ++ rest) = GOk (hdr_of h, rest).
Proof. exact gz_parse_encode_thm. Qed.
Print Assumptions gz_parse_encode.

Theorem gz_long_name_rejected : forall h rest,
  gz_fields_ok h -> ~ gz_within_flate2_limits h ->
  gz_parse_header (gz_header_bytes h ++ rest) = GErr GzTooLong.
Proof. exact gz_long_name_rejected_thm. Qed.
Print Assumptions gz_long_name_rejected.

(* what BlockReader::new derives from one well-formed member, for every payload [plain] and whatever
   the compressor wrote ([deflated]): size = |plain| mod 2^32 (trailer ISIZE, last 8 bytes), mtime =
   MTIME, decoder positioned on the DEFLATE data *)
Theorem gz_new_member : forall h deflated plain,
  gz_fields_ok h -> gz_within_flate2_limits h ->
  let f := gz_member h deflated plain in
  blen f <= GZ_MAX_SZ ->
  gz_new f = COk (mk_gzd (blen plain mod TWO32) (gf_mtime h) (crc32 plain mod TWO32)
                         (Some (hdr_of h)) (deflated ++ gz_trailer plain)).
Proof. exact gz_new_member_thm. Qed.
Print Assumptions gz_new_member.

(* the derived size is right exactly when the data is shorter than 4 GiB (both directions) ... *)
Theorem gz_size_correct_iff : forall h deflated plain d,
  gz_fields_ok h -> gz_within_flate2_limits h ->
  blen (gz_member h deflated plain) <= GZ_MAX_SZ ->
  gz_new (gz_member h deflated plain) = COk d ->
  (gd_filesz d = blen plain <-> blen plain < TWO32).
Proof. exact gz_size_correct_iff_thm. Qed.
Print Assumptions gz_size_correct_iff.

(* ... and REFUTED from 4 GiB on (gzip ISIZE is modulo 2^32; the 512 MiB guard is on the compressed
   size).  Outside the property's quantifier only in that such files are rare; stated as is. *)
Theorem gz_size_4gib_refuted : forall h deflated plain,
  gz_fields_ok h -> gz_within_flate2_limits h ->
  blen (gz_member h deflated plain) <= GZ_MAX_SZ ->
  TWO32 <= blen plain ->
  exists d, gz_new (gz_member h deflated plain) = COk d
            /\ gd_filesz d = blen plain mod TWO32 /\ gd_filesz d <> blen plain.
Proof. exact gz_size_4gib_refuted_thm. Qed.
Print Assumptions gz_size_4gib_refuted.

Theorem gz_4gib_hypotheses_satisfiable :
  exists h deflated plain,
    gz_fields_ok h /\ gz_within_flate2_limits h
    /\ blen (gz_member h deflated plain) <= GZ_MAX_SZ /\ TWO32 <= blen plain.
Proof. exact ContainersGz.gz_4gib_hypotheses_satisfiable. Qed.
Print Assumptions gz_4gib_hypotheses_satisfiable.

(* mtime(): the header's MTIME; 0 = "no time stamp" -> the .gz file's own modification time *)
Theorem gz_mtime : forall h deflated plain d,
  gz_fields_ok h -> gz_within_flate2_limits h ->
  blen (gz_member h deflated plain) <= GZ_MAX_SZ ->
  gz_new (gz_member h deflated plain) = COk d ->
  mtime_of_header (gd_mtime d) = if gf_mtime h =? 0 then MFile else MSecs (gf_mtime h).
Proof. exact gz_mtime_thm. Qed.
Print Assumptions gz_mtime.

(* a header flate2 cannot parse does not fail new: size from the trailer, the file's mtime, every
   block inside the declared size is Err *)
Theorem gz_bad_header : forall (dstate : Type) read mkdec f e bs i,
  gz_parse_header f = GErr e -> 8 <= lenN f -> lenN f <= GZ_MAX_SZ ->
  exists d, gz_new f = COk d /\ gd_mtime d = 0 /\ gd_header d = None
            /\ mtime_of_header (gd_mtime d) = MFile
            /\ gz_read_block dstate read mkdec bs f i
               = COk (if blockoffset_last (gd_filesz d) bs <? i then BDone
                      else if gd_filesz d =? 0 then BDone else BErr).
Proof. exact gz_bad_header_thm. Qed.
Print Assumptions gz_bad_header.

(* whole single-member .gz reader = chunk bs plain, for every header and every contract-abiding
   DEFLATE decoder; composition of gz_new_member with assemble_chunk_independent *)
Theorem gz_single_member_blocks :
  forall (dstate : Type) (read : dstate -> N -> dstate * list N) (remaining : dstate -> list N)
         (mkdec : bytes -> dstate),
    contract dstate read remaining ->
    forall h deflated plain bs,
      gz_fields_ok h -> gz_within_flate2_limits h ->
      blen (gz_member h deflated plain) <= GZ_MAX_SZ ->
      blen plain < TWO32 -> 0 < bs ->
      remaining (mkdec (deflated ++ gz_trailer plain)) = plain ->
      forall i, gz_read_block dstate read mkdec bs (gz_member h deflated plain) i
                = COk (if (N.to_nat i <? length (chunk bs plain))%nat
                       then BFound (nth (N.to_nat i) (chunk bs plain) []) else BDone).
Proof. exact gz_single_member_blocks_thm. Qed.
Print Assumptions gz_single_member_blocks.

(* multi-member gzip a.gz ++ b.gz — OUTSIDE the property's quantifier (single-stream files); what the
   code does: size from the LAST member's trailer, mtime and data from the FIRST member only *)
Theorem gz_multi_member_new :
  forall h1 d1 p1 h2 d2 p2,
    gz_fields_ok h1 -> gz_within_flate2_limits h1 ->
    let f := gz_member h1 d1 p1 ++ gz_member h2 d2 p2 in
    blen f <= GZ_MAX_SZ ->
    gz_new f = COk (mk_gzd (blen p2 mod TWO32) (gf_mtime h1) (crc32 p2 mod TWO32) (Some (hdr_of h1))
                           (d1 ++ gz_trailer p1 ++ gz_member h2 d2 p2)).
Proof. exact gz_multi_member_new_thm. Qed.
Print Assumptions gz_multi_member_new.

Theorem gz_multi_member_blocks :
  forall (dstate : Type) (read : dstate -> N -> dstate * list N) (remaining : dstate -> list N)
         (mkdec : bytes -> dstate),
    contract dstate read remaining ->
    forall h1 d1 p1 h2 d2 p2 bs,
      gz_fields_ok h1 -> gz_within_flate2_limits h1 ->
      let f := gz_member h1 d1 p1 ++ gz_member h2 d2 p2 in
      blen f <= GZ_MAX_SZ -> 0 < bs ->
      remaining (mkdec (d1 ++ gz_trailer p1 ++ gz_member h2 d2 p2)) = p1 ->
      let n := blen p2 mod TWO32 in
      (n <= blen p1 ->
         forall i, gz_read_block dstate read mkdec bs f i
                   = COk (if in_range n bs i then BFound (blk bs (firstn (N.to_nat n) p1) i) else BDone))
      /\ (blen p1 < n -> gz_read_block dstate read mkdec bs f (blockoffset_last n bs) = COk BErr)
      /\ (forall i b, gz_read_block dstate read mkdec bs f i = COk (BFound b) ->
                      b = blk bs (firstn (N.to_nat n) p1) i).
Proof. exact gz_multi_member_blocks_thm. Qed.
Print Assumptions gz_multi_member_blocks.

(* ... hence NOT transparent (outside the quantifier; reproduced on the binary: `cat a.gz b.gz`) *)
Theorem gz_multi_member_refuted :
  exists (h1 h2 : gz_fields) (d1 d2 p1 p2 : bytes) (bs : N) (mkdec : bytes -> sched_state) (i : N),
    gz_fields_ok h1 /\ gz_within_flate2_limits h1 /\ gz_fields_ok h2 /\ gz_within_flate2_limits h2
    /\ (let f := gz_member h1 d1 p1 ++ gz_member h2 d2 p2 in
        blen f <= GZ_MAX_SZ /\ 0 < bs
        /\ sched_remaining (mkdec (d1 ++ gz_trailer p1 ++ gz_member h2 d2 p2)) = p1
        /\ (N.to_nat i < length (chunk bs (p1 ++ p2)))%nat
        /\ gz_read_block sched_state sched_read mkdec bs f i
           <> COk (BFound (nth (N.to_nat i) (chunk bs (p1 ++ p2)) []))).
Proof. exact gz_multi_member_refuted_thm. Qed.
Print Assumptions gz_multi_member_refuted.

(* bz2 / lz4: the size is what the full pre-pass counts = the decoder's output length; bz2 refuses files
   under 12 bytes *)
Theorem bz2_new_size :
  forall (dstate : Type) (read : dstate -> N -> dstate * list N) (remaining : dstate -> list N)
         (mkdec : bytes -> dstate),
    contract dstate read remaining ->
    forall f, bz2_new dstate read mkdec (S (length (remaining (mkdec f)))) f
              = if lenN f <? 12 then CErr CBz2TooSmall else COk (len (remaining (mkdec f))).
Proof. exact bz2_new_thm. Qed.
Print Assumptions bz2_new_size.

Theorem lz4_new_size :
  forall (dstate : Type) (read : dstate -> N -> dstate * list N) (remaining : dstate -> list N)
         (mkdec : bytes -> dstate),
    contract dstate read remaining ->
    forall f, lz4_new dstate read mkdec (S (length (remaining (mkdec f)))) f = COk (len (remaining (mkdec f))).
Proof. exact lz4_new_thm. Qed.
Print Assumptions lz4_new_size.

(* xz: the 14 header bytes s4 inspects itself; one stream then end of input gives the xz_slices blocks
   and filesz = |plain|; any other decoder failure (multi-stream input with lzma-rs 0.3.0: outside the
   quantifier) makes new fail *)
Theorem xz_precheck_ok : forall s0 s1 c0 c1 c2 c3 b0 b1 rest,
  N.land s1 0xF0 = 0 ->
  xz_precheck (XZ_MAGIC ++ [s0; s1; c0; c1; c2; c3; b0; b1] ++ rest) = None.
Proof. exact xz_precheck_ok_thm. Qed.
Print Assumptions xz_precheck_ok.

Theorem xz_new_single_stream : forall bs f plain,
  0 < bs -> xz_precheck f = None ->
  exists sl, Assemble.xz_slices bs plain = Some sl
             /\ xz_new bs f [XzOk plain; XzEofErr] = COk (sl, len plain).
Proof. exact xz_new_single_stream_thm. Qed.
Print Assumptions xz_new_single_stream.

Theorem xz_new_decoder_error : forall bs f outs,
  xz_precheck f = None -> xz_new bs f (XzOtherErr :: outs) = CErr CDecoder.
Proof. exact xz_new_decoder_error_thm. Qed.
Print Assumptions xz_new_decoder_error.

(* tar, for EVERY entry list the crate can report (directories, links, devices, unreadable entries,
   long names already folded in): addressing selects the FIRST entry whose path equals the text after
   the last '|' and keeps its index, header size and mtime *)
Theorem tar_new_selects_first : forall archive member es idx e sz,
  ~ In SUBPATH_SEP member ->
  nth_error es idx = Some (TItem e) -> toe_path e = Some member -> toe_hsize e = Some sz ->
  (forall j it, (j < idx)%nat -> nth_error es j = Some it -> item_path it <> Some member) ->
  tar_new (archive ++ SUBPATH_SEP :: member) es
  = COk (mk_tard archive (N.of_nat idx) sz (match toe_mtime e with Some m => m | None => 0 end)).
Proof. exact tar_new_selects_first_thm. Qed.
Print Assumptions tar_new_selects_first.

(* ... and the member is then read as exactly its data bytes (no padding, nothing of its neighbours) *)
Theorem tar_member_blocks :
  forall (dstate : Type) (read : dstate -> N -> dstate * list N) (remaining : dstate -> list N)
         (mkdec : bytes -> dstate),
    contract dstate read remaining -> (forall data, remaining (mkdec data) = data) ->
    forall archive member es idx e bs,
      ~ In SUBPATH_SEP member -> 0 < bs ->
      nth_error es idx = Some (TItem e) -> toe_path e = Some member ->
      toe_hsize e = Some (len (toe_data e)) ->
      (forall j it, (j < idx)%nat -> nth_error es j = Some it -> item_path it <> Some member) ->
      exists d, tar_new (archive ++ SUBPATH_SEP :: member) es = COk d
        /\ td_path d = archive /\ td_filesz d = len (toe_data e)
        /\ forall i, tar_read_block dstate read mkdec bs es d i
                     = if (N.to_nat i <? length (chunk bs (toe_data e)))%nat
                       then BFound (nth (N.to_nat i) (chunk bs (toe_data e)) []) else BDone.
Proof. exact tar_member_blocks_thm. Qed.
Print Assumptions tar_member_blocks.

(* process_path_tar lists exactly the regular entries (typeflag '0' / NUL) with a readable path and a
   non-zero size, as archive|path *)
Theorem process_path_tar_lists : forall archive es p,
  In (PListed (archive ++ SUBPATH_SEP :: p)) (process_path_tar_m archive es)
  <-> exists e, In (TItem e) es /\ tar_is_file (toe_type e) = true /\ toe_path e = Some p /\ toe_esize e <> 0.
Proof. exact process_path_tar_lists_thm. Qed.
Print Assumptions process_path_tar_lists.

(* the richer tar model agrees with tar_open of Model/Assemble.v *)
Theorem tar_new_refines_tar_open : forall ps es,
  match tar_open ps es with
  | AOk (path, idx, sz) => tar_new ps (map item_of_entry es) = COk (mk_tard path idx sz 0)
  | AErr _ => tar_new ps (map item_of_entry es) = CErr CNoSeparator
  | _ => False
  end.
Proof. exact tar_new_refines_tar_open_thm. Qed.
Print Assumptions tar_new_refines_tar_open.

(* REFUTED (known finding tar_duplicate_member_path): two members with one path are both listed, both
   readers select the first *)
Theorem tar_duplicate_path_refuted :
  exists (archive p : bytes) (e1 e2 : tar_oent),
    let es := [TItem e1; TItem e2] in
    toe_data e1 <> toe_data e2
    /\ process_path_tar_m archive es = [PListed (archive ++ SUBPATH_SEP :: p); PListed (archive ++ SUBPATH_SEP :: p)]
    /\ exists d, tar_new (archive ++ SUBPATH_SEP :: p) es = COk d /\ td_index d = 0 /\ td_filesz d = len (toe_data e1).
Proof. exact tar_duplicate_path_refuted_thm. Qed.
Print Assumptions tar_duplicate_path_refuted.

(* mtime(): header time, 0 -> the container file's; for tar also when the header time is beyond what
   SystemTime / chrono hold (repaired: formerly a panic, finding tar_member_mtime_out_of_range) *)
Theorem mtime_of_header_rule : forall m,
  mtime_of_header m = if m =? 0 then MFile else if I64_MAX <? m then MPanic else MSecs m.
Proof. exact mtime_of_header_thm. Qed.
Print Assumptions mtime_of_header_rule.

Theorem tar_mtime_total : forall m,
  tar_mtime_of_header m = if (m =? 0) || (CHRONO_MAX_SECS <? m + 86400) then MFile else MSecs m.
Proof. exact tar_mtime_total_thm. Qed.
Print Assumptions tar_mtime_total.

Theorem tar_mtime_never_panics : forall m, tar_mtime_of_header m <> MPanic.
Proof. exact tar_mtime_never_panics_thm. Qed.
Print Assumptions tar_mtime_never_panics.

Theorem gz_mtime_never_panics : forall m, m < 2 ^ 32 -> mtime_of_header m <> MPanic.
Proof. exact gz_mtime_never_panics_thm. Qed.
Print Assumptions gz_mtime_never_panics.

(* decompress_to_ntf: the temporary file holds exactly the decoder's output / the member's data *)
Theorem ntf_copy_is_plain :
  forall (dstate : Type) (read : dstate -> N -> dstate * list N) (remaining : dstate -> list N)
         (mkdec : bytes -> dstate),
    contract dstate read remaining ->
    forall src, ntf_copy dstate read mkdec (S (length (remaining (mkdec src)))) src = COk (remaining (mkdec src)).
Proof. exact ntf_copy_thm. Qed.
Print Assumptions ntf_copy_is_plain.

Theorem ntf_tar_member :
  forall (dstate : Type) (read : dstate -> N -> dstate * list N) (remaining : dstate -> list N)
         (mkdec : bytes -> dstate),
    contract dstate read remaining -> (forall data, remaining (mkdec data) = data) ->
    forall archive member es idx e,
      ~ In SUBPATH_SEP member ->
      nth_error es idx = Some (TItem e) -> toe_path e = Some member -> toe_hsize e <> None ->
      (forall j it, (j < idx)%nat -> nth_error es j = Some it -> item_path it <> Some member) ->
      ntf_tar dstate read mkdec (S (length (toe_data e))) (archive ++ SUBPATH_SEP :: member) es
      = COk (Some (toe_data e,
                   let m := match toe_mtime e with Some m => m | None => 0 end in
                   if m =? 0 then None
                   else match seconds_to_systemtime_checked m with Some s => Some (MSecs s) | None => None end)).
Proof. exact ntf_tar_thm. Qed.
Print Assumptions ntf_tar_member.

(* ---- tar FORMAT: the reference entry parser (transcription of the tar crate's next_entry_raw and
   header accessors for plain old / ustar / gnu headers; tied to the crate's own listing by run B)
   inverts the ustar encoder for EVERY list of entries: path (prefix/name), typeflag, size and mtime
   (octal), the position of the data (512-byte header, data rounded up to 512), and exactly the data *)
Theorem tar_ref_encode : forall es,
  Forall tar_ent_plain es -> tar_ref_list (tar_archive es) = ritems_from 0 es.
Proof. exact tar_ref_encode_thm. Qed.
Print Assumptions tar_ref_encode.

Theorem tar_member_data : forall es k e,
  Forall tar_ent_plain es -> nth_error es k = Some e ->
  exists pos, nth_error (tar_ref_list (tar_archive es)) k
              = Some (RItem (tar_path e) (te_type e) (te_size e) (Some (te_mtime e)) pos (te_data e)).
Proof. exact tar_member_data_thm. Qed.
Print Assumptions tar_member_data.

(* from the archive BYTES to the blocks: the member addressed as archive|path (first entry with that
   path) is read as chunk bs (its data) with its header size and mtime, whatever entries surround it *)
Theorem tar_archive_member_blocks :
  forall (dstate : Type) (read : dstate -> N -> dstate * list N) (remaining : dstate -> list N)
         (mkdec : bytes -> dstate),
    contract dstate read remaining -> (forall data, remaining (mkdec data) = data) ->
    forall archive es k e bs,
      Forall tar_ent_plain es -> nth_error es k = Some e ->
      ~ In SUBPATH_SEP (tar_path e) -> 0 < bs ->
      (forall j e', (j < k)%nat -> nth_error es j = Some e' -> tar_path e' <> tar_path e) ->
      let items := map ritem_to_item (tar_ref_list (tar_archive es)) in
      exists d, tar_new (archive ++ SUBPATH_SEP :: tar_path e) items = COk d
        /\ td_index d = N.of_nat k /\ td_filesz d = len (te_data e) /\ td_mtime d = te_mtime e
        /\ forall i, tar_read_block dstate read mkdec bs items d i
                     = if (N.to_nat i <? length (chunk bs (te_data e)))%nat
                       then BFound (nth (N.to_nat i) (chunk bs (te_data e)) []) else BDone.
Proof. exact tar_archive_member_blocks_thm. Qed.
Print Assumptions tar_archive_member_blocks.

(* ... for EVERY member when the member paths are unique (positive side of tar_duplicate_path_refuted) *)
Theorem tar_archive_member_blocks_nodup :
  forall (dstate : Type) (read : dstate -> N -> dstate * list N) (remaining : dstate -> list N)
         (mkdec : bytes -> dstate),
    contract dstate read remaining -> (forall data, remaining (mkdec data) = data) ->
    forall archive es k e bs,
      Forall tar_ent_plain es -> NoDup (map tar_path es) -> nth_error es k = Some e ->
      ~ In SUBPATH_SEP (tar_path e) -> 0 < bs ->
      let items := map ritem_to_item (tar_ref_list (tar_archive es)) in
      exists d, tar_new (archive ++ SUBPATH_SEP :: tar_path e) items = COk d
        /\ td_index d = N.of_nat k /\ td_filesz d = len (te_data e) /\ td_mtime d = te_mtime e
        /\ forall i, tar_read_block dstate read mkdec bs items d i
                     = if (N.to_nat i <? length (chunk bs (te_data e)))%nat
                       then BFound (nth (N.to_nat i) (chunk bs (te_data e)) []) else BDone.
Proof. exact tar_archive_member_blocks_nodup_thm. Qed.
Print Assumptions tar_archive_member_blocks_nodup.
