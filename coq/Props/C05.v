(* Props/C05.v — property C05 (compression and archiving are transparent): statements only.
   PARTIAL claim: the decoders (flate2, bzip2-rs, lz4_flex, lzma-rs, tar) are oracles; every
   theorem quantifies over ALL decoders [read] that satisfy the contract R1/R2 of
   Spec/AssembleSpec.v, hence over every internal chunking a compressor setting can produce. *)
From Coq Require Import String.
From S4.Base Require Import Bytes.
From S4.Spec Require Import AssembleSpec.
From S4.Model Require Import Assemble.
From S4.Proofs Require Import AssembleProofs AssembleTheorems.
Open Scope N_scope.

(* spec sanity: chunk lists exactly the blocks, and loses nothing *)
Theorem C05_nth_chunk : forall bs f i, 0 < bs -> nth (N.to_nat i) (chunk bs f) [] = blk bs f i.
Proof. exact nth_chunk. Qed.
Print Assumptions C05_nth_chunk.

Theorem C05_concat_chunk : forall bs f, 0 < bs -> concat (chunk bs f) = f.
Proof. exact concat_chunk. Qed.
Print Assumptions C05_concat_chunk.

(* gz (buf = Some 2056), bz2 (buf = None): for EVERY contract-abiding decoder and every block
   index, the assembled block is block i of chunk bs plain (Done past the end) *)
Theorem assemble_chunk_independent :
  forall (dstate : Type) (read : dstate -> N -> dstate * list N) (remaining : dstate -> list N),
    contract dstate read remaining ->
    forall (buf : option N), buf_ok buf ->
    forall (bs n : N) (d0 : dstate) (plain : list N),
      0 < bs -> remaining d0 = plain -> declared_size_ok n plain ->
      forall i,
        assemble dstate (fill_block dstate read buf) bs n d0 i
        = if (N.to_nat i <? length (chunk bs plain))%nat
          then AOk (nth (N.to_nat i) (chunk bs plain) [])
          else ADone.
Proof. exact assemble_chunk_independent_thm. Qed.
Print Assumptions assemble_chunk_independent.

(* stream shorter than declared: Err (never a wrong block); the last block is always Err *)
Theorem assemble_short_stream :
  forall dstate read remaining, contract dstate read remaining ->
    forall buf, buf_ok buf ->
    forall bs n d0 plain, 0 < bs -> remaining d0 = plain -> len plain < n ->
      (forall i, i <= blockoffset_last n bs ->
         (i * bs + blocksz_at n bs i <= len plain ->
            assemble dstate (fill_block dstate read buf) bs n d0 i = AOk (blk bs plain i)
            /\ len (blk bs plain i) = bs)
         /\ (len plain < i * bs + blocksz_at n bs i ->
            assemble dstate (fill_block dstate read buf) bs n d0 i = AErr EZeroRead))
      /\ assemble dstate (fill_block dstate read buf) bs n d0 (blockoffset_last n bs) = AErr EZeroRead.
Proof. exact assemble_short_stream_thm. Qed.
Print Assumptions assemble_short_stream.

(* stream longer than declared: NOT an error in the code — the file is silently cut at the declared
   size (gzip ISIZE of a multi-member or > 4 GiB file; outside the property's domain, stated as is) *)
Theorem assemble_long_stream_truncates :
  forall dstate read remaining, contract dstate read remaining ->
    forall buf, buf_ok buf ->
    forall bs n d0 plain, 0 < bs -> remaining d0 = plain -> n <= len plain ->
      forall i, assemble dstate (fill_block dstate read buf) bs n d0 i
                = if in_range n bs i then AOk (blk bs (firstn (N.to_nat n) plain) i) else ADone.
Proof. exact assemble_long_stream_thm. Qed.
Print Assumptions assemble_long_stream_truncates.

Theorem assemble_never_wrong :
  forall dstate read remaining, contract dstate read remaining ->
    forall buf, buf_ok buf ->
    forall bs n d0 plain, 0 < bs -> remaining d0 = plain ->
      forall i b, assemble dstate (fill_block dstate read buf) bs n d0 i = AOk b ->
                  b = blk bs (firstn (N.to_nat n) plain) i.
Proof. exact assemble_never_wrong_thm. Qed.
Print Assumptions assemble_never_wrong.

(* lz4: single read per block.  Right only under the extra hypothesis full_reads ... *)
Theorem assemble_lz4_full_reads :
  forall dstate read remaining, contract dstate read remaining -> full_reads dstate read remaining ->
    forall bs n d0 plain, 0 < bs -> remaining d0 = plain -> declared_size_ok n plain ->
      forall i, assemble_lz4 dstate read bs n d0 i
                = if in_range n bs i then AOk (blk bs plain i) else ADone.
Proof. exact assemble_lz4_full_reads_thm. Qed.
Print Assumptions assemble_lz4_full_reads.

(* ... and REFUTED under the contract alone (current code; known finding
   lz4_frame_block_boundary_inside_read_block): a zero-padded block is returned as Found *)
Theorem assemble_lz4_refuted :
  exists (plain : list N) (bs : N) (d0 : iblk_state) (i : N) (b : list N),
    contract iblk_state iblk_read iblk_remaining
    /\ iblk_remaining d0 = plain /\ 0 < bs /\ in_range (len plain) bs i = true
    /\ assemble_lz4 iblk_state iblk_read bs (len plain) d0 i = AOk b
    /\ b <> nth (N.to_nat i) (chunk bs plain) [].
Proof. exact assemble_lz4_refuted_thm. Qed.
Print Assumptions assemble_lz4_refuted.

(* tar member: read_exact per block, all blocks on first use *)
Theorem assemble_tar_member_chunk :
  forall dstate read remaining, contract dstate read remaining ->
    forall bs n d0 plain, 0 < bs -> remaining d0 = plain -> declared_size_ok n plain ->
      forall i, assemble_tar_member dstate read bs n d0 i
                = if in_range n bs i then AOk (blk bs plain i) else ADone.
Proof. exact assemble_tar_member_thm. Qed.
Print Assumptions assemble_tar_member_chunk.

(* xz: the slicing loop = chunk bs plain, plus one harmless empty block past the last index when
   |plain| is a non-zero multiple of bs; sizes add up to |plain| *)
Theorem xz_slices :
  forall bs plain, 0 < bs ->
    exists sl, Assemble.xz_slices bs plain = Some sl
      /\ sl = (if is_nil plain then [] else xz_expected bs plain 0 (S (N.to_nat (len plain / bs))))
      /\ (forall i, (N.to_nat i < length (chunk bs plain))%nat ->
            nth_error sl (N.to_nat i) = Some (i, nth (N.to_nat i) (chunk bs plain) []))
      /\ concat (map snd sl) = plain
      /\ xz_filesz sl = len plain
      /\ length sl = (length (chunk bs plain)
                      + (if negb (is_nil plain) && (len plain mod bs =? 0)%N then 1 else 0))%nat.
Proof. exact xz_slices_thm. Qed.
Print Assumptions xz_slices.

(* tar addressing "archive|member" *)
Theorem tar_member :
  forall (archive member : bytes) (entries : list tar_entry) (idx : nat) (content : list N),
    ~ In SUBPATH_SEP member ->
    nth_error entries idx = Some (member, content) ->
    (forall j e, (j < idx)%nat -> nth_error entries j = Some e -> fst e <> member) ->
    tar_open (archive ++ SUBPATH_SEP :: member) entries = AOk (archive, N.of_nat idx, len content)
    /\ declared_size_ok (len content) content.
Proof. exact tar_member_thm. Qed.
Print Assumptions tar_member.

Theorem tar_member_unique :
  forall (archive member : bytes) (entries : list tar_entry) (idx : nat) (content : list N),
    ~ In SUBPATH_SEP member -> NoDup (map fst entries) ->
    nth_error entries idx = Some (member, content) ->
    tar_open (archive ++ SUBPATH_SEP :: member) entries = AOk (archive, N.of_nat idx, len content).
Proof. exact tar_member_unique_thm. Qed.
Print Assumptions tar_member_unique.

Theorem tar_member_pipe_refuted :
  exists (archive member : bytes) (entries : list tar_entry) (content : list N),
    nth_error entries 0 = Some (member, content) /\ In SUBPATH_SEP member
    /\ tar_open (archive ++ SUBPATH_SEP :: member) entries <> AOk (archive, 0, len content).
Proof. exact tar_member_pipe_refuted_thm. Qed.
Print Assumptions tar_member_pipe_refuted.


(* the look-behind drop: REFUTED that every in-range request is answered with the block when the
   same reader is asked again for an earlier block (known finding fixedstruct_streamed_multi_block);
   with the drop disabled the answers are the blocks *)
Theorem lookbehind_drop_refuted :
  exists (plain : list N) (bs : N) (reqs : list N),
    let n := len plain in
    let fresh := mk_rstate 0 (plain, []) [] in
    (forall i, In i reqs -> in_range n bs i = true)
    /\ read_blocks_m sched_state (fill_block sched_state sched_read (Some GZ_BUF_SZ)) true bs n fresh reqs
       <> map (fun i => AOk (blk bs plain i)) reqs
    /\ read_blocks_m sched_state (fill_block sched_state sched_read (Some GZ_BUF_SZ)) false bs n fresh reqs
       = map (fun i => AOk (blk bs plain i)) reqs.
Proof. exact lookbehind_drop_refuted_thm. Qed.
Print Assumptions lookbehind_drop_refuted.

(* copy loop of decompress_to_ntf (journal / evtx payloads) and the bz2 / lz4 size pre-pass *)
Theorem drain_is_plain :
  forall dstate read remaining, contract dstate read remaining ->
    forall buf d0, 0 < buf ->
      drain dstate read (S (length (remaining d0))) buf d0 [] = AOk (remaining d0)
      /\ prepass_size dstate read (S (length (remaining d0))) buf d0 = AOk (len (remaining d0)).
Proof. exact drain_thm. Qed.
Print Assumptions drain_is_plain.

(* the hypotheses are satisfiable: two concrete decoders meet the contract *)
Theorem contract_satisfiable_sched : contract sched_state sched_read sched_remaining.
Proof. exact sched_read_contract. Qed.
Print Assumptions contract_satisfiable_sched.

Theorem contract_satisfiable_iblk : contract iblk_state iblk_read iblk_remaining.
Proof. exact iblk_read_contract. Qed.
Print Assumptions contract_satisfiable_iblk.
