(* Props/C13.v — property C13: prepended fields, separators and colour are pure decoration.
   Statements only; every proof is `exact <lemma>`. *)
From S4.Base Require Import Bytes.
From S4.Model Require Import PrintCal Strftime Print Summary.
From S4.Model Require Calendar CliDt StrftimeParse StrftimeRt.
From S4.Proofs Require Import PrintSem PrintVariants PrintStrip SummaryProofs StrftimeProofs.
From S4.Proofs Require CliDtAbsInfra CliDtMiscProofs StrftimeRoundtrip StrftimeGeneric.
Open Scope nat_scope.

(* The 2056-byte buffer of the printer is transparent: stdout items, last colour and the
   returned byte count of the literal buffered execution equal the buffer-free semantics. *)
Theorem C13_buffer_transparent : forall cap p last,
  ends_flushed p = true ->
  let r := exec_buf cap p {| p_out := []; p_buf := []; p_printed := 0; p_last := last |} in
  p_out r = sem_out p last /\ p_printed r = printed_of p /\ p_last r = sem_last p last /\ p_buf r = [].
Proof. exact exec_buf_sem. Qed.
Print Assumptions C13_buffer_transparent.

Theorem C13_print_msg_ends_flushed : forall o m, ends_flushed (print_msg o m) = true.
Proof. exact print_msg_ends_flushed. Qed.
Print Assumptions C13_print_msg_ends_flushed.

(* variants_agree: every dispatched variant (4 kinds x colour x file x date, line parts arbitrary)
   writes exactly what the canonical decoration writes, from every printer state [l] — no exclusion
   since /repo commit e7fb2a14 *)
Theorem C13_variants_agree : forall o m, wf_full m ->
  forall l, sem (print_msg o m) l = sem (decorate o m) l.
Proof. exact variants_agree_peq. Qed.
Print Assumptions C13_variants_agree.

(* regression lemma for the repaired defect (fixedstruct, colour off, file + date): the OLD variant wrote
   date field then file field and did not agree with the canonical decoration; the current one does *)
Theorem C13_old_fixedstruct_variant_refuted :
  wf_full f11_m /\
  sem_out (old_print_fixedstruct_prependfile_prependdate f11_o f11_m) None <> sem_out (decorate f11_o f11_m) None /\
  payload (sem_out (old_print_fixedstruct_prependfile_prependdate f11_o f11_m) None) = [49;57;55;48;58;102;58;120;10]%N /\
  payload (sem_out (print_msg f11_o f11_m) None) = [102;58;49;57;55;48;58;120;10]%N /\
  payload (sem_out (decorate f11_o f11_m) None) = [102;58;49;57;55;48;58;120;10]%N.
Proof. exact old_fixedstruct_variant_refuted. Qed.
Print Assumptions C13_old_fixedstruct_variant_refuted.

(* field order and "only the requested bytes", every kind, every colour setting: the payload written
   for a message is, for each line, file field ++ date field ++ line; the returned count is its length *)
Theorem C13_field_order : forall o m last,
  wf_full m -> m_beg m <= m_end m ->
  payload (sem_out (print_msg o m) last)
    = concat (map (fun l => ((if o_file o then o_ff o else []) ++ (if o_date o then date_field o (m_t m) else [])) ++ l)
                  (flat_lines m))
  /\ printed_of (print_msg o m) = blen (dec_bytes o m).
Proof. exact print_msg_payload. Qed.
Print Assumptions C13_field_order.

(* strip_decorate: deleting SGR sequences, the file field, the date field and the separator
   from a printed message leaves the undecorated message *)
Theorem C13_strip_decorate : forall g o m last del,
  wf_full m -> m_beg m <= m_end m ->
  (o_colour o = true -> sgr_ok g /\ no_esc (prefix o m) /\ Forall no_esc (flat_lines m) /\ no_esc del) ->
  strip o m del (concr g (sem_out (print_msg o m) last ++ obs del)) = Some (plain m).
Proof. exact strip_decorate. Qed.
Print Assumptions C13_strip_decorate.

Example C13_strip_decorate_example :
  let o := {| o_colour := true; o_file := true; o_date := true; o_ff := [102;58]%N;
              o_fmt := default_fmt ++ [58%N]; o_off := 19800%Z |} in
  let m := {| m_kind := KSys; m_t := 1704164645123456789%Z;
              m_lines := [[[50;48;50;52]%N; [32;120;10]%N]; [[32;121;10]%N]]; m_beg := 0; m_end := 4 |} in
  strip o m [124%N] (concr (termcolor_sgr 102 230 102) (sem_out (print_msg o m) None ++ obs [124%N]))
  = Some (plain m).
Proof. exact strip_decorate_example. Qed.
Print Assumptions C13_strip_decorate_example.

Example C13_termcolor_sgr_ok : sgr_ok (termcolor_sgr 102 230 102).
Proof. exact termcolor_sgr_ok. Qed.
Print Assumptions C13_termcolor_sgr_ok.

(* the whole run: for arbitrary sources, options and print events *)
Theorem C13_strip_run : forall c srcs evs, Forall ev_ok evs ->
  strip_msgs (shape_of c (popt_of c srcs evs) evs) (payload (k_stdout (run c srcs evs))) = Some (plain_run evs).
Proof. exact strip_run. Qed.
Print Assumptions C13_strip_run.

Theorem C13_strip_sgr : forall g os, sgr_ok g -> no_esc (payload os) -> strip_sgr (concr g os) = payload os.
Proof. exact strip_sgr_concr. Qed.
Print Assumptions C13_strip_sgr.

(* pad_width (names whose character count equals their display width, e.g. ASCII) *)
Theorem C13_pad_width : forall c srcs evs e, c_align c = true -> In e evs ->
  s_nchars (src_at srcs (e_src e)) = s_width (src_at srcs (e_src e)) ->
  length (s_name (src_at srcs (e_src e))) = s_nchars (src_at srcs (e_src e)) ->
  length (o_ff (popt_of c srcs evs (e_src e))) = prepend_width c srcs (map e_src evs) + length (c_psep c)
  /\ (exists e', In e' evs /\ prepend_width c srcs (map e_src evs) = s_width (src_at srcs (e_src e'))).
Proof. exact pad_width. Qed.
Print Assumptions C13_pad_width.

Theorem C13_unescape_table :
  map (fun ch => unescape [92%N; ch]) [48; 97; 98; 101; 102; 110; 114; 92; 116; 118]%N
  = map (fun v => Some [v]) [0; 7; 8; 27; 12; 10; 13; 92; 9; 11]%N
  /\ unescape [92%N] = None /\ unescape [92%N; 120%N] = None.
Proof. exact unescape_table. Qed.
Print Assumptions C13_unescape_table.

Theorem C13_unescape_plain : forall l, ~ In 92%N l -> unescape l = Some l.
Proof. exact unescape_plain. Qed.
Print Assumptions C13_unescape_plain.

(* default format: date field = formatted instant ++ separator, for every '%'-free separator *)
Theorem C13_date_field_default : forall sep t off, ~ In 37%N sep ->
  strftime (default_fmt ++ sep) t off =
  match strftime default_fmt t off with Some s => Some (s ++ sep) | None => None end.
Proof. exact date_field_default. Qed.
Print Assumptions C13_date_field_default.

Example C13_default_fmt_example :
  strftime default_fmt 1704164645123456789%Z (-12600)%Z
  = Some [50;48;50;52;48;49;48;49;84;50;51;51;52;48;53;46;49;50;51;45;48;51;51;48]%N.
Proof. exact default_fmt_example. Qed.
Print Assumptions C13_default_fmt_example.

(* F12 refuted: '%' in the prepend separator is interpreted in the date field only *)
Theorem C13_prepend_separator_percent_refuted :
  let o := printer_opts f12_cli 0 {| s_name := [97%N]; s_nchars := 1; s_width := 1 |} in
  o_ff o = [97;37;37]%N /\ date_field o 0%Z = [49;57;55;48;37]%N.
Proof. exact prepend_separator_percent_refuted. Qed.
Print Assumptions C13_prepend_separator_percent_refuted.

(* ================================================================== what the datetime field denotes *)
From Coq Require Import String.
Open Scope string_scope.
Open Scope Z_scope.
Import S4.Model.CliDt S4.Model.StrftimeParse S4.Model.StrftimeRt S4.Proofs.CliDtAbsInfra S4.Proofs.StrftimeRoundtrip S4.Proofs.StrftimeGeneric.

(* one calendar, not two transcriptions: the printing side (PrintCal) is the parsing side (Calendar,
   proved equal to the definitional day count in C14/C04) *)
Theorem C13_one_calendar_civil_from_days :
  forall z, PrintCal.civil_from_days z = S4.Model.Calendar.civil_from_days z.
Proof. exact printcal_civil_from_days_eq. Qed.
Print Assumptions C13_one_calendar_civil_from_days.

Theorem C13_one_calendar_days_from_civil :
  forall y m d, 1 <= m <= 12 -> PrintCal.days_from_civil y m d = S4.Model.Calendar.days_from_civil y m d.
Proof. exact printcal_days_from_civil_eq. Qed.
Print Assumptions C13_one_calendar_days_from_civil.

Example C13_days_from_civil_month_hypothesis_needed :
  PrintCal.days_from_civil 2000 15 1 <> S4.Model.Calendar.days_from_civil 2000 15 1.
Proof. exact printcal_days_from_civil_differs_outside. Qed.
Print Assumptions C13_days_from_civil_month_hypothesis_needed.

(* strftime_default_roundtrip: the default field, printed by the model, read back by the model of
   process_dt (all regenerated patterns in order), whatever --tz-offset: the instant truncated to
   the millisecond.  Range: local year 0000..9999 (LOCAL_LO = 0000-01-01, LOCAL_HI = 10000-01-01,
   local seconds), offset a whole number of minutes within a day. *)
Theorem C13_strftime_default_roundtrip :
  forall t off tz,
    off mod 60 = 0 -> -86400 < off < 86400 ->
    LOCAL_LO * 1000000000 <= t + off * 1000000000 < LOCAL_HI * 1000000000 ->
    exists s, strftime default_fmt t off = Some s /\
              m_resolve_abs (classify s) tz = Some (t / 1000000 * 1000000).
Proof. exact default_roundtrip. Qed.
Print Assumptions C13_strftime_default_roundtrip.

Example C13_default_roundtrip_hyps_satisfiable :
  (-12600) mod 60 = 0 /\ -86400 < -12600 < 86400
  /\ LOCAL_LO * 1000000000 <= 1704164645123456789 + (-12600) * 1000000000 < LOCAL_HI * 1000000000.
Proof. exact default_roundtrip_hyps_satisfiable. Qed.
Print Assumptions C13_default_roundtrip_hyps_satisfiable.

(* every instant of the years 0001..9998 UTC (in particular 1970..2099) is in the range, for every offset *)
Theorem C13_default_roundtrip_range :
  forall t off, -86400 < off < 86400 ->
    -62135596800 * 1000000000 <= t < 253370764800 * 1000000000 ->
    LOCAL_LO * 1000000000 <= t + off * 1000000000 < LOCAL_HI * 1000000000.
Proof. exact default_roundtrip_range. Qed.
Print Assumptions C13_default_roundtrip_range.

Example C13_default_roundtrip_pre_1970 :
  strftime default_fmt (-1500000001) 19800 = Some (s2b "19700101T052958.499+0530")
  /\ m_resolve_abs (S4.Proofs.CliDtMiscProofs.cs "19700101T052958.499+0530") 0 = Some (-1501000000)
  /\ (-1500000001) / 1000000 * 1000000 = -1501000000.
Proof. exact default_roundtrip_pre_1970. Qed.
Print Assumptions C13_default_roundtrip_pre_1970.

(* refuted for a zone offset with seconds (finding: %z rounded to the minute, clock fields exact) *)
Theorem C13_strftime_roundtrip_offset_seconds_refuted :
  exists t off s v,
    -86400 < off < 86400 /\ strftime default_fmt t off = Some s /\
    m_resolve_abs (classify s) 0 = Some v /\ v <> t / 1000000 * 1000000 /\ v - t / 1000000 * 1000000 = 15 * 1000000000.
Proof. exact default_roundtrip_refuted_offset_seconds. Qed.
Print Assumptions C13_strftime_roundtrip_offset_seconds_refuted.

Example C13_offset_seconds_rounding :
  strftime default_fmt 1704164645123456789 19815 = Some (s2b "20240102T083420.123+0530")
  /\ strftime default_fmt 1704164645123456789 19845 = Some (s2b "20240102T083450.123+0531")
  /\ strftime default_fmt 1704164645123456789 (-29) = Some (s2b "20240102T030336.123-0000")
  /\ strftime default_fmt 1704164645123456789 (-30) = Some (s2b "20240102T030335.123-0001").
Proof. exact offset_seconds_rounding. Qed.
Print Assumptions C13_offset_seconds_rounding.

(* every complete format of the supported specifiers: print, then parse with the same format *)
Theorem C13_strftime_generic_roundtrip :
  forall fmt its p t off,
    parse_fmt fmt = Some its ->
    rt_ok (expand its) p = true ->
    off mod 60 = 0 -> -86400 < off < 86400 ->
    LOCAL_LO * 1000000000 <= t + off * 1000000000 < LOCAL_HI * 1000000000 ->
    (has NTimestamp (expand its) = true -> 0 <= t) ->
    exists s, strftime fmt t off = Some s /\
      chrono_parse fmt (has_z (expand its)) (if has NTimestamp (expand its) then 0 else off) (classify s)
      = POk (t / result_unit p (expand its) * result_unit p (expand its)).
Proof. exact strftime_generic_roundtrip. Qed.
Print Assumptions C13_strftime_generic_roundtrip.

Example C13_rt_ok_instances :
  (exists its, parse_fmt default_fmt = Some its /\ rt_ok (expand its) 3 = true /\ has_z (expand its) = true
               /\ has NTimestamp (expand its) = false /\ result_unit 3 (expand its) = 1000000)
  /\ (exists its, parse_fmt (s2b "%Y%m%dT%H%M%S%.9f") = Some its /\ rt_ok (expand its) 9 = true /\ has_z (expand its) = false
               /\ has NTimestamp (expand its) = false /\ result_unit 9 (expand its) = 1)
  /\ (exists its, parse_fmt (s2b "%s%.9f") = Some its /\ rt_ok (expand its) 9 = true /\ has_z (expand its) = false
               /\ has NTimestamp (expand its) = true /\ result_unit 9 (expand its) = 1)
  /\ (exists its, parse_fmt (s2b "[%F_%T.%3f] %s|%:z") = Some its /\ rt_ok (expand its) 3 = true /\ has_z (expand its) = true
               /\ has NTimestamp (expand its) = true /\ result_unit 3 (expand its) = 1000000).
Proof. exact rt_ok_instances. Qed.
Print Assumptions C13_rt_ok_instances.

Theorem C13_roundtrip_compact_nanos :
  forall t off, off mod 60 = 0 -> -86400 < off < 86400 ->
    LOCAL_LO * 1000000000 <= t + off * 1000000000 < LOCAL_HI * 1000000000 ->
    exists s, strftime (s2b "%Y%m%dT%H%M%S%.9f") t off = Some s /\
              chrono_parse (s2b "%Y%m%dT%H%M%S%.9f") false off (classify s) = POk t.
Proof. exact roundtrip_compact_nanos. Qed.
Print Assumptions C13_roundtrip_compact_nanos.

Theorem C13_roundtrip_epoch_nanos :
  forall t off, off mod 60 = 0 -> -86400 < off < 86400 -> 0 <= t ->
    LOCAL_LO * 1000000000 <= t + off * 1000000000 < LOCAL_HI * 1000000000 ->
    exists s, strftime (s2b "%s%.9f") t off = Some s /\
              chrono_parse (s2b "%s%.9f") false 0 (classify s) = POk t.
Proof. exact roundtrip_epoch_nanos. Qed.
Print Assumptions C13_roundtrip_epoch_nanos.

(* the classes excluded by rt_ok do fail: %s before 1970, a digit after %s / after %.3f, two
   precisions, %s with date-time but no offset in a zone other than UTC *)
Example C13_roundtrip_refuted_classes :
  strftime (s2b "%s%.9f") (-1500000000) 0 = Some (s2b "-2.500000000")
  /\ chrono_parse (s2b "%s%.9f") false 0 (S4.Proofs.CliDtMiscProofs.cs "-2.500000000") = PErr
  /\ strftime (s2b "%s%f") 1704164645123456789 0 = Some (s2b "1704164645123456789")
  /\ chrono_parse (s2b "%s%f") false 0 (S4.Proofs.CliDtMiscProofs.cs "1704164645123456789") = PErr
  /\ strftime (s2b "%Y%m%d%.3f%H%M%S") 1704164645123456789 0 = Some (s2b "20240102.123030405")
  /\ chrono_parse (s2b "%Y%m%d%.3f%H%M%S") false 0 (S4.Proofs.CliDtMiscProofs.cs "20240102.123030405") = PErr
  /\ strftime (s2b "%F %T%.3f %6f") 1704164645123456789 0 = Some (s2b "2024-01-02 03:04:05.123 123456")
  /\ chrono_parse (s2b "%F %T%.3f %6f") false 0 (S4.Proofs.CliDtMiscProofs.cs "2024-01-02 03:04:05.123 123456") = PErr
  /\ strftime (s2b "%s %F %T") 1704164645000000000 3600 = Some (s2b "1704164645 2024-01-02 04:04:05")
  /\ chrono_parse (s2b "%s %F %T") false 0 (S4.Proofs.CliDtMiscProofs.cs "1704164645 2024-01-02 04:04:05") = PErr.
Proof. exact roundtrip_refuted_classes. Qed.
Print Assumptions C13_roundtrip_refuted_classes.

(* the date field depends on the format, the zone offset and the instant only — not on the message *)
Theorem C13_date_field_depends_on_instant_and_zone :
  forall o o' (m m' : msg),
    o_fmt o = o_fmt o' -> o_off o = o_off o' -> m_t m = m_t m' ->
    date_field o (m_t m) = date_field o' (m_t m').
Proof. exact date_field_depends_on_instant_and_zone. Qed.
Print Assumptions C13_date_field_depends_on_instant_and_zone.
