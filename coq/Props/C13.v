(* Props/C13.v — property C13: prepended fields, separators and colour are pure decoration.
   Statements only; every proof is `exact <lemma>`. *)
From S4.Base Require Import Bytes.
From S4.Model Require Import PrintCal Strftime Print Summary.
From S4.Proofs Require Import PrintSem PrintVariants PrintStrip SummaryProofs StrftimeProofs.
Open Scope nat_scope.

(* The 2056-byte buffer of the printer is transparent: stdout items, last colour and the
   returned byte count of the literal buffered execution equal the buffer-free semantics. *)
Theorem C13_buffer_transparent : forall cap p last,
  ends_flushed p = true ->
  let r := exec_buf cap p {| p_out := []; p_buf := []; p_printed := 0; p_last := last |} in
  p_out r = sem_out p last /\ p_printed r = printed_of p /\ p_last r = sem_last p last /\ p_buf r = [].
Proof. exact exec_buf_sem. Qed.
Print Assumptions C13_buffer_transparent.

Theorem C13_print_msg_ends_flushed : forall o m, ends_flushed (print_msg o m) = true.
Proof. exact print_msg_ends_flushed. Qed.
Print Assumptions C13_print_msg_ends_flushed.

(* variants_agree: every dispatched variant (4 kinds x colour x file x date, line parts arbitrary)
   writes exactly what the canonical decoration writes, from every printer state [l] — no exclusion
   since /repo commit e7fb2a14 *)
Theorem C13_variants_agree : forall o m, wf_full m ->
  forall l, sem (print_msg o m) l = sem (decorate o m) l.
Proof. exact variants_agree_peq. Qed.
Print Assumptions C13_variants_agree.

(* regression lemma for the repaired defect (fixedstruct, colour off, file + date): the OLD variant wrote
   date field then file field and did not agree with the canonical decoration; the current one does *)
Theorem C13_old_fixedstruct_variant_refuted :
  wf_full f11_m /\
  sem_out (old_print_fixedstruct_prependfile_prependdate f11_o f11_m) None <> sem_out (decorate f11_o f11_m) None /\
  payload (sem_out (old_print_fixedstruct_prependfile_prependdate f11_o f11_m) None) = [49;57;55;48;58;102;58;120;10]%N /\
  payload (sem_out (print_msg f11_o f11_m) None) = [102;58;49;57;55;48;58;120;10]%N /\
  payload (sem_out (decorate f11_o f11_m) None) = [102;58;49;57;55;48;58;120;10]%N.
Proof. exact old_fixedstruct_variant_refuted. Qed.
Print Assumptions C13_old_fixedstruct_variant_refuted.

(* field order and "only the requested bytes", every kind, every colour setting: the payload written
   for a message is, for each line, file field ++ date field ++ line; the returned count is its length *)
Theorem C13_field_order : forall o m last,
  wf_full m -> m_beg m <= m_end m ->
  payload (sem_out (print_msg o m) last)
    = concat (map (fun l => ((if o_file o then o_ff o else []) ++ (if o_date o then date_field o (m_t m) else [])) ++ l)
                  (flat_lines m))
  /\ printed_of (print_msg o m) = blen (dec_bytes o m).
Proof. exact print_msg_payload. Qed.
Print Assumptions C13_field_order.

(* strip_decorate: deleting SGR sequences, the file field, the date field and the separator
   from a printed message leaves the undecorated message *)
Theorem C13_strip_decorate : forall g o m last del,
  wf_full m -> m_beg m <= m_end m ->
  (o_colour o = true -> sgr_ok g /\ no_esc (prefix o m) /\ Forall no_esc (flat_lines m) /\ no_esc del) ->
  strip o m del (concr g (sem_out (print_msg o m) last ++ obs del)) = Some (plain m).
Proof. exact strip_decorate. Qed.
Print Assumptions C13_strip_decorate.

Example C13_strip_decorate_example :
  let o := {| o_colour := true; o_file := true; o_date := true; o_ff := [102;58]%N;
              o_fmt := default_fmt ++ [58%N]; o_off := 19800%Z |} in
  let m := {| m_kind := KSys; m_t := 1704164645123456789%Z;
              m_lines := [[[50;48;50;52]%N; [32;120;10]%N]; [[32;121;10]%N]]; m_beg := 0; m_end := 4 |} in
  strip o m [124%N] (concr (termcolor_sgr 102 230 102) (sem_out (print_msg o m) None ++ obs [124%N]))
  = Some (plain m).
Proof. exact strip_decorate_example. Qed.
Print Assumptions C13_strip_decorate_example.

Example C13_termcolor_sgr_ok : sgr_ok (termcolor_sgr 102 230 102).
Proof. exact termcolor_sgr_ok. Qed.
Print Assumptions C13_termcolor_sgr_ok.

(* the whole run: for arbitrary sources, options and print events *)
Theorem C13_strip_run : forall c srcs evs, Forall ev_ok evs ->
  strip_msgs (shape_of c (popt_of c srcs evs) evs) (payload (k_stdout (run c srcs evs))) = Some (plain_run evs).
Proof. exact strip_run. Qed.
Print Assumptions C13_strip_run.

Theorem C13_strip_sgr : forall g os, sgr_ok g -> no_esc (payload os) -> strip_sgr (concr g os) = payload os.
Proof. exact strip_sgr_concr. Qed.
Print Assumptions C13_strip_sgr.

(* pad_width (names whose character count equals their display width, e.g. ASCII) *)
Theorem C13_pad_width : forall c srcs evs e, c_align c = true -> In e evs ->
  s_nchars (src_at srcs (e_src e)) = s_width (src_at srcs (e_src e)) ->
  length (s_name (src_at srcs (e_src e))) = s_nchars (src_at srcs (e_src e)) ->
  length (o_ff (popt_of c srcs evs (e_src e))) = prepend_width c srcs (map e_src evs) + length (c_psep c)
  /\ (exists e', In e' evs /\ prepend_width c srcs (map e_src evs) = s_width (src_at srcs (e_src e'))).
Proof. exact pad_width. Qed.
Print Assumptions C13_pad_width.

Theorem C13_unescape_table :
  map (fun ch => unescape [92%N; ch]) [48; 97; 98; 101; 102; 110; 114; 92; 116; 118]%N
  = map (fun v => Some [v]) [0; 7; 8; 27; 12; 10; 13; 92; 9; 11]%N
  /\ unescape [92%N] = None /\ unescape [92%N; 120%N] = None.
Proof. exact unescape_table. Qed.
Print Assumptions C13_unescape_table.

Theorem C13_unescape_plain : forall l, ~ In 92%N l -> unescape l = Some l.
Proof. exact unescape_plain. Qed.
Print Assumptions C13_unescape_plain.

(* default format: date field = formatted instant ++ separator, for every '%'-free separator *)
Theorem C13_date_field_default : forall sep t off, ~ In 37%N sep ->
  strftime (default_fmt ++ sep) t off =
  match strftime default_fmt t off with Some s => Some (s ++ sep) | None => None end.
Proof. exact date_field_default. Qed.
Print Assumptions C13_date_field_default.

Example C13_default_fmt_example :
  strftime default_fmt 1704164645123456789%Z (-12600)%Z
  = Some [50;48;50;52;48;49;48;49;84;50;51;51;52;48;53;46;49;50;51;45;48;51;51;48]%N.
Proof. exact default_fmt_example. Qed.
Print Assumptions C13_default_fmt_example.

(* F12 refuted: '%' in the prepend separator is interpreted in the date field only *)
Theorem C13_prepend_separator_percent_refuted :
  let o := printer_opts f12_cli 0 {| s_name := [97%N]; s_nchars := 1; s_width := 1 |} in
  o_ff o = [97;37;37]%N /\ date_field o 0%Z = [49;57;55;48;37]%N.
Proof. exact prepend_separator_percent_refuted. Qed.
Print Assumptions C13_prepend_separator_percent_refuted.
