(* Props/C15.v — property C15 (directories and stdin path lists expand to the same run as explicit
   files): statements only.  PARTIAL claim: the filesystem (stat/readdir/readlink/canonicalize)
   and jwalk are oracles — a [tree] with pre-resolved links is what they answer; symlink loops,
   permission errors and races are not exhibited.  The classifier is C16's model.
   Work package L: path STRINGS (lookup_str = the kernel's resolution, rjoin/walk_base = jwalk's
   rendering), stdin at the BYTE level, and the run-level equivalence over program_spec. *)
From Coq Require Import Sorting.Sorted.
From S4.Base Require Import Bytes.
From S4.Model Require Import Classify Walk WalkRun.
From S4.Model Require Program.
From S4.Proofs Require Import WalkProofs WalkLookup WalkStdin WalkRun.
Open Scope N_scope.

(* the walk (DFS pre-order, children sorted by name as jwalk's sort(true) does) lists entries in
   strictly increasing COMPONENT-WISE lexicographic order *)
Theorem walk_sorted : forall t p, names_unique t -> StronglySorted path_lt (map fst (walk p t)).
Proof. exact walk_sorted_thm. Qed.
Print Assumptions walk_sorted.

(* ... which is not the byte order of the joined path strings (names with a byte below '/') *)
Theorem path_order_not_string_order :
  exists p q, path_lt p q /\ bytes_ltb (join q) (join p) = true.
Proof. exact path_order_not_string_order_thm. Qed.
Print Assumptions path_order_not_string_order.

(* walked classification = explicit classification, or the walked-only exclusion *)
Theorem walked_is_explicit_or_excluded :
  forall sfx name junk junk_lead fuel a p,
    classify sfx name junk junk_lead fuel false a p = RFile Unparsable
    \/ classify sfx name junk junk_lead fuel false a p = classify sfx name junk junk_lead fuel true a p.
Proof. exact classify_uat. Qed.
Print Assumptions walked_is_explicit_or_excluded.

(* processed(DIR) is the walk, entry by entry *)
Theorem process_path_of_dir :
  forall sfx name junk junk_lead root_str root uat req t cs,
    lookup req root = Some t -> resolve t = Dir cs ->
    process_path_m sfx name junk junk_lead root_str root uat req
    = flat_map (walked_result sfx name junk junk_lead root_str uat) (walk req t).
Proof. exact process_path_dir. Qed.
Print Assumptions process_path_of_dir.

Theorem process_path_of_file :
  forall sfx name junk junk_lead root_str root uat req t ms,
    lookup req root = Some t -> resolve t = File ms ->
    process_path_m sfx name junk junk_lead root_str root uat req
    = explicit_result sfx name junk junk_lead root_str uat (req, t).
Proof. exact process_path_file. Qed.
Print Assumptions process_path_of_file.

(* ENTRY level (the original statement; the string level is [dir_equiv_explicit] below):
   processed(DIR) = processed(explicit list, in walk order, of the regular files whose own name is
   not of a known non-log type), provided every symlink's name selects the same reader as its
   target's name; the entries left out contribute nothing, one NotSupported or one NotAFile record. *)
Theorem dir_equiv_explicit_entries :
  forall sfx name junk junk_lead root_str uat (E : list (path * tree)),
    (forall e, In e E -> kept sfx name junk junk_lead e = true -> link_agrees sfx name junk junk_lead e) ->
    flat_map (walked_result sfx name junk junk_lead root_str uat) (filter (kept sfx name junk junk_lead) E)
    = flat_map (explicit_result sfx name junk junk_lead root_str uat) (filter (kept sfx name junk junk_lead) E)
    /\ valids (flat_map (walked_result sfx name junk junk_lead root_str uat) E)
       = valids (flat_map (explicit_result sfx name junk junk_lead root_str uat) (filter (kept sfx name junk junk_lead) E))
    /\ (forall e, In e E -> kept sfx name junk junk_lead e = false ->
          walked_result sfx name junk junk_lead root_str uat e = []
          \/ walked_result sfx name junk junk_lead root_str uat e = [PNotSupported (pstr root_str (fst e))]
          \/ walked_result sfx name junk junk_lead root_str uat e = [PNotAFile (pstr root_str (fst e))]).
Proof. exact dir_equiv_explicit_thm. Qed.
Print Assumptions dir_equiv_explicit_entries.

(* ---------------------------------------------------------------- path strings (work package L) *)

(* LOOKUP FROM THE ROOT.  For every entry (p, n) of the walk of the node that the typed string
   names, the path string jwalk renders for that entry (PathBuf::push from the string as typed, or
   from parent().join(file_name()) when the root is a symlink; the same normalisation once more
   for an entry that is itself a symlink) resolves — kernel rules: split at
   '/', "" and "." components, "..", links followed in the middle — to a node c that the walk saw
   as n (the walk sorts and prunes what it reads), at a canonical location whose file name is the
   entry's name. *)
Theorem lookup_walk :
  forall root typed cp0 t0,
    lookup_str root typed = Found cp0 t0 -> names_proper t0 -> names_unique t0 ->
    forall p n, In (p, n) (walk [] t0) ->
      exists cpx c, lookup_str root (entry_str (walk_base typed t0) (p, n)) = Found cpx c
                    /\ sort_tree (prune c) = n /\ last cpx [] = last p [].
Proof. exact lookup_walk_thm. Qed.
Print Assumptions lookup_walk.

(* names for which render/lookup is not the identity (empty, ".", "..", containing '/') and hidden
   names do not occur in walk output; splitting the joined components gives them back *)
Theorem walk_components_proper :
  forall t0 p n,
    names_proper t0 -> names_unique t0 -> In (p, n) (walk [] t0) ->
    p <> [] /\ Forall (fun m => proper m = true) p /\ Forall (fun m => is_hidden m = false) p
    /\ split_slash (join p) = p.
Proof. exact walk_components_proper_thm. Qed.
Print Assumptions walk_components_proper.

Theorem proper_names :
  forall n, proper n = true <-> n <> [] /\ n <> [dot] /\ n <> [dot; dot] /\ has_slash n = false.
Proof. exact proper_spec. Qed.
Print Assumptions proper_names.

(* the walk is complete: every entry beneath (links followed) with no hidden component is listed *)
Theorem walk_complete :
  forall p t c,
    p <> [] -> Forall (fun m => is_hidden m = false) p -> lookup p t = Some c ->
    In (p, sort_tree (prune c)) (walk [] t).
Proof. exact walk_complete_thm. Qed.
Print Assumptions walk_complete.

(* FINDING (jwalk's default skip_hidden, not changed by process_path): a regular file beneath the
   directory whose name starts with '.' is not walked *)
Theorem hidden_file_not_walked_refuted :
  exists t p, names_proper t /\ names_unique t /\ lookup p t = Some (File [])
              /\ ~ In p (map fst (walk [] t)).
Proof. exact hidden_file_not_walked_refuted_thm. Qed.
Print Assumptions hidden_file_not_walked_refuted.

(* the normalisation jwalk applies to the path of a root that is a symlink names the same node *)
Theorem root_normalisation_keeps_target :
  forall root typed, lookup_str root (norm_root typed) = lookup_str root typed.
Proof. exact lookup_norm_root. Qed.
Print Assumptions root_normalisation_keeps_target.

(* THE FULL STATEMENT ON PATH STRINGS: process_path(DIR string) is the walk; process_path over the
   explicit path strings (as rendered, in walk order) of the kept regular files gives the same
   records, string for string; the FileValid records of both coincide; what is left out yields no
   FileValid record.  Hypothesis = negation of the recorded finding class (a symlink's own name
   selects another reader than its target's name). *)
Theorem dir_equiv_explicit :
  forall sfx name junk junk_lead root uat typed cp0 t0 cs,
    lookup_str root typed = Found cp0 t0 -> resolve t0 = Dir cs ->
    names_proper t0 -> names_unique t0 ->
    (forall e, In e (walk [] t0) -> kept sfx name junk junk_lead e = true -> link_agrees sfx name junk junk_lead e) ->
    process_path_s sfx name junk junk_lead root uat typed
    = flat_map (walked_s sfx name junk junk_lead typed t0 uat) (walk [] t0)
    /\ flat_map (process_path_s sfx name junk junk_lead root uat) (explicit_list sfx name junk junk_lead typed t0)
       = flat_map (walked_s sfx name junk junk_lead typed t0 uat) (filter (kept sfx name junk junk_lead) (walk [] t0))
    /\ valids (process_path_s sfx name junk junk_lead root uat typed)
       = valids (flat_map (process_path_s sfx name junk junk_lead root uat) (explicit_list sfx name junk junk_lead typed t0))
    /\ (forall e, In e (walk [] t0) -> kept sfx name junk junk_lead e = false ->
          walked_s sfx name junk junk_lead typed t0 uat e = []
          \/ walked_s sfx name junk junk_lead typed t0 uat e = [PNotSupported (entry_str (walk_base typed t0) e)]
          \/ walked_s sfx name junk junk_lead typed t0 uat e = [PNotAFile (entry_str (walk_base typed t0) e)]).
Proof. exact dir_equiv_explicit_str_thm. Qed.
Print Assumptions dir_equiv_explicit.

(* canonicalize is sound: the canonical location is link-free and holds the node reached *)
Theorem lookup_canonical :
  forall root s cp t cp' t',
    links_ok root root -> is_link root = false ->
    lookup_str root s = Found cp t -> resolve_at cp t = (cp', t') ->
    node_at root cp' = Some t'.
Proof. exact lookup_canonical_thm. Qed.
Print Assumptions lookup_canonical.

(* "x/n/.." names x again when n is a real directory of x ... *)
Theorem dotdot_cancels_real_dir :
  forall root s cp t cp1 cs n nc ds,
    links_ok root root -> is_link root = false ->
    lookup_str root s = Found cp t -> resolve_at cp t = (cp1, Dir cs) ->
    proper n = true -> find (fun nc => beqb (fst nc) n) cs = Some nc -> snd nc = Dir ds ->
    lookup_str root (s ++ slash :: n ++ slash :: [dot; dot]) = Found cp1 (Dir cs).
Proof. exact dotdot_cancels_real_dir_thm. Qed.
Print Assumptions dotdot_cancels_real_dir.

(* ... and not when n is a symlink to a directory elsewhere ("a/l/.." with a/l -> b/d is b) *)
Theorem dotdot_through_link_refuted :
  links_ok dd_tree dd_tree /\ is_link dd_tree = false
  /\ (exists cs, lookup_str dd_tree [97] = Found [[97]] (Dir cs)
                 /\ lookup_str dd_tree [97; 47; 108; 47; 46; 46] <> Found [[97]] (Dir cs))
  /\ (exists f, lookup_str dd_tree [97; 47; 108; 47; 46; 46; 47; 120] = Found [[98]; [120]] f)
  /\ lookup_str dd_tree [97; 47; 120] = NoEnt.
Proof. exact dotdot_through_link_refuted_thm. Qed.
Print Assumptions dotdot_through_link_refuted.

(* a file named explicitly is always attempted, whatever its name: one FileValid record with a
   parsable type (or, for a .tar, its members) *)
Theorem explicit_always_attempted :
  forall sfx name junk junk_lead root_str uat p t ms,
    resolve t = File ms ->
    cls sfx name junk junk_lead true (canon_name (last_name p) t) <> ROutOfFuel ->
    (exists ft, explicit_result sfx name junk junk_lead root_str uat (p, t) = [PValid (pstr root_str p) ft]
                /\ ft <> Unparsable)
    \/ (exists a, cls sfx name junk junk_lead true (canon_name (last_name p) t) = RArchiveTar a
                  /\ explicit_result sfx name junk junk_lead root_str uat (p, t)
                     = tar_results sfx name junk junk_lead uat (pstr root_str p) ms).
Proof. exact explicit_always_attempted_thm. Qed.
Print Assumptions explicit_always_attempted.

(* any split of a path list between argv and stdin gives the same path list, hence (the run being
   flat_map process_path over it) the same processed list *)
Theorem stdin_equiv :
  forall (A : Type) (is_dash : A -> bool) l1 l2 l3 d,
    is_dash d = true ->
    (forall a, In a l1 -> is_dash a = false) -> (forall a, In a l3 -> is_dash a = false) ->
    main_paths A is_dash (l1 ++ d :: l3) l2 = l1 ++ l2 ++ l3
    /\ main_paths A is_dash (l1 ++ l2 ++ l3) [] = l1 ++ filter (fun a => negb (is_dash a)) l2 ++ l3.
Proof. exact stdin_equiv_thm. Qed.
Print Assumptions stdin_equiv.

Theorem stdin_second_dash_ignored :
  forall (A : Type) (is_dash : A -> bool) l1 l2 l3 stdin d d',
    is_dash d = true -> is_dash d' = true -> (forall a, In a l1 -> is_dash a = false) ->
    main_paths A is_dash (l1 ++ d :: l2 ++ d' :: l3) stdin = main_paths A is_dash (l1 ++ d :: l2 ++ l3) stdin.
Proof. exact second_dash_ignored. Qed.
Print Assumptions stdin_second_dash_ignored.

(* ---------------------------------------------------------------- stdin as BYTES (work package L) *)

(* BufRead::lines on "paths joined by \n, with or without a final \n" gives the paths back: nothing
   is trimmed, empty lines are (empty) paths; for all paths that are valid UTF-8, hold no "\n" and
   do not end in "\r" (without the final "\n" the last path must not be empty) *)
Theorem stdin_lines_join :
  forall paths final,
    Forall (fun p => line_safe p = true) paths ->
    (final = false -> last paths [0] <> []) ->
    stdin_lines (join_lines paths final) = paths.
Proof. exact stdin_lines_join_thm. Qed.
Print Assumptions stdin_lines_join.

(* args_of (argv with '-') (stdin bytes) = argv with the paths spliced in *)
Theorem stdin_equiv_bytes :
  forall l1 l2 l3 final,
    (forall a, In a l1 -> is_dash_b a = false) -> (forall a, In a l3 -> is_dash_b a = false) ->
    Forall (fun p => line_safe p = true) l2 ->
    (final = false -> last l2 [0] <> []) ->
    args_of (l1 ++ dash :: l3) (join_lines l2 final) = l1 ++ l2 ++ l3.
Proof. exact stdin_equiv_bytes_thm. Qed.
Print Assumptions stdin_equiv_bytes.

(* CRLF line ends give the same paths (one "\r" before "\n" is removed) ... *)
Theorem stdin_lines_crlf :
  forall paths,
    Forall (fun p => utf8_valid p = true /\ no_nl p) paths ->
    stdin_lines (join_lines (map (fun p => p ++ [cr]) paths) true) = paths.
Proof. exact stdin_lines_crlf_thm. Qed.
Print Assumptions stdin_lines_crlf.

(* ... so a legal path that itself ends in "\r" loses it when a "\n" follows (FINDING) *)
Theorem stdin_trailing_cr_lost :
  forall p, utf8_valid p = true -> no_nl p -> stdin_lines ((p ++ [cr]) ++ [nl]) = [p].
Proof. exact stdin_trailing_cr_lost_thm. Qed.
Print Assumptions stdin_trailing_cr_lost.

Theorem stdin_trailing_cr_refuted :
  exists p, utf8_valid p = true /\ no_nl p /\ stdin_lines (p ++ [nl]) <> [p].
Proof. exact stdin_trailing_cr_refuted_thm. Qed.
Print Assumptions stdin_trailing_cr_refuted.

(* the first line that is not valid UTF-8 ends the list: it and everything after it are dropped *)
Theorem stdin_invalid_truncates :
  forall good bad rest,
    Forall (fun p => line_safe p = true) good ->
    utf8_valid bad = false -> no_nl bad ->
    stdin_lines (flat_map (fun p => p ++ [nl]) good ++ bad ++ nl :: rest) = good.
Proof. exact stdin_invalid_truncates_thm. Qed.
Print Assumptions stdin_invalid_truncates.

Theorem stdin_blanks_kept :
  stdin_lines [32; 97; 32; 10; 10; 9; 98] = [[32; 97; 32]; []; [9; 98]]
  /\ line_safe [32; 97; 32] = true /\ line_safe [] = true /\ line_safe [9; 98] = true
  /\ args_of [[120]; dash; [121]] (join_lines [[32; 97; 32]; []; [9; 98]] false) = [[120]; [32; 97; 32]; []; [9; 98]; [121]].
Proof. exact stdin_blanks_example. Qed.
Print Assumptions stdin_blanks_kept.

(* ---------------------------------------------------------------- the run (work package L) *)

(* `s4 DIR`, `s4 <explicit strings in walk order>` and every argv/stdin split of that list are the
   same run: whatever the rest of the program [prog] computes from the list of opened sources
   (one per FileValid record, in order), and whatever the files hold [file_of] *)
Theorem run_equiv :
  forall sfx name junk junk_lead (file_of : bytes -> ftype -> Program.pfile)
         (R : Type) (prog : list Program.pfile -> R) root typed cp0 t0 cs,
    lookup_str root typed = Found cp0 t0 -> resolve t0 = Dir cs ->
    names_proper t0 -> names_unique t0 ->
    (forall e, In e (walk [] t0) -> kept sfx name junk junk_lead e = true -> link_agrees sfx name junk junk_lead e) ->
    is_dash_b typed = false ->
    run_output sfx name junk junk_lead file_of R prog root [typed] []
    = run_output sfx name junk junk_lead file_of R prog root (explicit_list sfx name junk junk_lead typed t0) []
    /\ forall l1 l2 l3 final,
         explicit_list sfx name junk junk_lead typed t0 = l1 ++ l2 ++ l3 ->
         Forall (fun p => line_safe p = true) l2 ->
         (final = false -> last l2 [0] <> []) ->
         run_output sfx name junk junk_lead file_of R prog root (l1 ++ dash :: l3) (join_lines l2 final)
         = run_output sfx name junk junk_lead file_of R prog root [typed] [].
Proof. exact run_equiv_thm. Qed.
Print Assumptions run_equiv.

(* ... in particular the stdout items and summary totals of the composed program specification
   (Model/Program.v program_spec, C01/C06), for all its oracles and all options *)
Theorem run_equiv_program_spec :
  forall sfx name junk junk_lead (file_of : bytes -> ftype -> Program.pfile)
         (O : spec_oracles) (o : Program.options) root typed cp0 t0 cs,
    lookup_str root typed = Found cp0 t0 -> resolve t0 = Dir cs ->
    names_proper t0 -> names_unique t0 ->
    (forall e, In e (walk [] t0) -> kept sfx name junk junk_lead e = true -> link_agrees sfx name junk junk_lead e) ->
    is_dash_b typed = false ->
    run_output sfx name junk junk_lead file_of _ (spec_prog O o) root [typed] []
    = run_output sfx name junk junk_lead file_of _ (spec_prog O o) root (explicit_list sfx name junk junk_lead typed t0) []
    /\ forall l1 l2 l3 final,
         explicit_list sfx name junk junk_lead typed t0 = l1 ++ l2 ++ l3 ->
         Forall (fun p => line_safe p = true) l2 ->
         (final = false -> last l2 [0] <> []) ->
         run_output sfx name junk junk_lead file_of _ (spec_prog O o) root (l1 ++ dash :: l3) (join_lines l2 final)
         = run_output sfx name junk junk_lead file_of _ (spec_prog O o) root [typed] [].
Proof. exact run_equiv_spec_thm. Qed.
Print Assumptions run_equiv_program_spec.

(* hypotheses are satisfiable *)
Theorem walk_hypotheses_satisfiable :
  names_unique ex_tree
  /\ map fst (walk [] ex_tree)
     = [ [[108]]; [[108]; [113]]; [[115; 117; 98]]; [[115; 117; 98]; [97]]; [[115; 117; 98]; [122]];
         [[115; 117; 98; 33; 120]] ].
Proof. exact walk_example. Qed.
Print Assumptions walk_hypotheses_satisfiable.

Theorem lookup_hypotheses_satisfiable :
  links_ok lk_tree lk_tree /\ names_proper lk_tree /\ names_unique lk_tree
  /\ (exists t0, lookup_str lk_tree [116; 111; 112; 47; 47] = Found [[116; 111; 112]] t0
       /\ map (entry_str (walk_base [116; 111; 112; 47; 47] t0)) (walk [] t0)
          = [ [116; 111; 112; 47; 47; 97; 46; 108; 111; 103];
              [116; 111; 112; 47; 108; 100];
              [116; 111; 112; 47; 47; 108; 100; 47; 112; 46; 108; 111; 103];
              [116; 111; 112; 47; 47; 115; 117; 98];
              [116; 111; 112; 47; 47; 115; 117; 98; 47; 115; 46; 108; 111; 103] ])
  /\ (exists t0 cs, lookup_str lk_tree [46; 47; 116; 111; 112; 47; 46; 47; 108; 100] = Found [[116; 111; 112]; [108; 100]] t0
       /\ resolve t0 = Dir cs
       /\ walk_base [46; 47; 116; 111; 112; 47; 46; 47; 108; 100] t0 = [46; 47; 116; 111; 112; 47; 108; 100]).
Proof. exact lookup_example. Qed.
Print Assumptions lookup_hypotheses_satisfiable.

Theorem run_hypotheses_satisfiable :
  forall sfx name junk junk_lead,
  exists cs,
    lookup_str lk_tree [116; 111; 112] = Found [[116; 111; 112]] lk_top /\ resolve lk_top = Dir cs
    /\ names_proper lk_top /\ names_unique lk_top
    /\ (forall e, In e (walk [] lk_top) -> kept sfx name junk junk_lead e = true -> link_agrees sfx name junk junk_lead e)
    /\ is_dash_b [116; 111; 112] = false
    /\ length (walk [] lk_top) = 5%nat
    /\ Forall (fun p => line_safe p = true)
              (map (entry_str (walk_base [116; 111; 112] lk_top)) (walk [] lk_top)).
Proof. exact run_hypotheses_example. Qed.
Print Assumptions run_hypotheses_satisfiable.
