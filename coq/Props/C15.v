(* Props/C15.v — property C15 (directories and stdin path lists expand to the same run as explicit
   files): statements only.  PARTIAL claim: the filesystem (stat/readdir/readlink/canonicalize)
   and jwalk are oracles — a [tree] with pre-resolved links is what they answer; symlink loops,
   permission errors and races are not exhibited.  The classifier is C16's model. *)
From Coq Require Import Sorting.Sorted.
From S4.Base Require Import Bytes.
From S4.Model Require Import Classify Walk.
From S4.Proofs Require Import WalkProofs.
Open Scope N_scope.

(* the walk (DFS pre-order, children sorted by name as jwalk's sort(true) does) lists entries in
   strictly increasing COMPONENT-WISE lexicographic order *)
Theorem walk_sorted : forall t p, names_unique t -> StronglySorted path_lt (map fst (walk p t)).
Proof. exact walk_sorted_thm. Qed.
Print Assumptions walk_sorted.

(* ... which is not the byte order of the joined path strings (names with a byte below '/') *)
Theorem path_order_not_string_order :
  exists p q, path_lt p q /\ bytes_ltb (join q) (join p) = true.
Proof. exact path_order_not_string_order_thm. Qed.
Print Assumptions path_order_not_string_order.

(* walked classification = explicit classification, or the walked-only exclusion *)
Theorem walked_is_explicit_or_excluded :
  forall sfx name junk junk_lead fuel a p,
    classify sfx name junk junk_lead fuel false a p = RFile Unparsable
    \/ classify sfx name junk junk_lead fuel false a p = classify sfx name junk junk_lead fuel true a p.
Proof. exact classify_uat. Qed.
Print Assumptions walked_is_explicit_or_excluded.

(* processed(DIR) is the walk, entry by entry *)
Theorem process_path_of_dir :
  forall sfx name junk junk_lead root_str root uat req t cs,
    lookup req root = Some t -> resolve t = Dir cs ->
    process_path_m sfx name junk junk_lead root_str root uat req
    = flat_map (walked_result sfx name junk junk_lead root_str uat) (walk req t).
Proof. exact process_path_dir. Qed.
Print Assumptions process_path_of_dir.

Theorem process_path_of_file :
  forall sfx name junk junk_lead root_str root uat req t ms,
    lookup req root = Some t -> resolve t = File ms ->
    process_path_m sfx name junk junk_lead root_str root uat req
    = explicit_result sfx name junk junk_lead root_str uat (req, t).
Proof. exact process_path_file. Qed.
Print Assumptions process_path_of_file.

(* processed(DIR) = processed(explicit list, in walk order, of the regular files whose own name is
   not of a known non-log type), provided every symlink's name selects the same reader as its
   target's name; the entries left out contribute nothing or one NotSupported record.
   _partial: stated on the walk's entries (path, node); that process_path on the explicit path
   string finds that node again (lookup from the root) is not proved. *)
Theorem dir_equiv_explicit_partial :
  forall sfx name junk junk_lead root_str uat (E : list (path * tree)),
    (forall e, In e E -> kept sfx name junk junk_lead e = true -> link_agrees sfx name junk junk_lead e) ->
    flat_map (walked_result sfx name junk junk_lead root_str uat) (filter (kept sfx name junk junk_lead) E)
    = flat_map (explicit_result sfx name junk junk_lead root_str uat) (filter (kept sfx name junk junk_lead) E)
    /\ valids (flat_map (walked_result sfx name junk junk_lead root_str uat) E)
       = valids (flat_map (explicit_result sfx name junk junk_lead root_str uat) (filter (kept sfx name junk junk_lead) E))
    /\ (forall e, In e E -> kept sfx name junk junk_lead e = false ->
          walked_result sfx name junk junk_lead root_str uat e = []
          \/ walked_result sfx name junk junk_lead root_str uat e = [PNotSupported (pstr root_str (fst e))]).
Proof. exact dir_equiv_explicit_thm. Qed.
Print Assumptions dir_equiv_explicit_partial.

(* a file named explicitly is always attempted, whatever its name: one FileValid record with a
   parsable type (or, for a .tar, its members) *)
Theorem explicit_always_attempted :
  forall sfx name junk junk_lead root_str uat p t ms,
    resolve t = File ms ->
    cls sfx name junk junk_lead true (canon_name (last_name p) t) <> ROutOfFuel ->
    (exists ft, explicit_result sfx name junk junk_lead root_str uat (p, t) = [PValid (pstr root_str p) ft]
                /\ ft <> Unparsable)
    \/ (exists a, cls sfx name junk junk_lead true (canon_name (last_name p) t) = RArchiveTar a
                  /\ explicit_result sfx name junk junk_lead root_str uat (p, t)
                     = tar_results sfx name junk junk_lead uat (pstr root_str p) ms).
Proof. exact explicit_always_attempted_thm. Qed.
Print Assumptions explicit_always_attempted.

(* any split of a path list between argv and stdin gives the same path list, hence (the run being
   flat_map process_path over it) the same processed list *)
Theorem stdin_equiv :
  forall (A : Type) (is_dash : A -> bool) l1 l2 l3 d,
    is_dash d = true ->
    (forall a, In a l1 -> is_dash a = false) -> (forall a, In a l3 -> is_dash a = false) ->
    main_paths A is_dash (l1 ++ d :: l3) l2 = l1 ++ l2 ++ l3
    /\ main_paths A is_dash (l1 ++ l2 ++ l3) [] = l1 ++ filter (fun a => negb (is_dash a)) l2 ++ l3.
Proof. exact stdin_equiv_thm. Qed.
Print Assumptions stdin_equiv.

Theorem stdin_second_dash_ignored :
  forall (A : Type) (is_dash : A -> bool) l1 l2 l3 stdin d d',
    is_dash d = true -> is_dash d' = true -> (forall a, In a l1 -> is_dash a = false) ->
    main_paths A is_dash (l1 ++ d :: l2 ++ d' :: l3) stdin = main_paths A is_dash (l1 ++ d :: l2 ++ l3) stdin.
Proof. exact second_dash_ignored. Qed.
Print Assumptions stdin_second_dash_ignored.

(* hypotheses are satisfiable *)
Theorem walk_hypotheses_satisfiable :
  names_unique ex_tree
  /\ map fst (walk [] ex_tree)
     = [ [[108]]; [[108]; [113]]; [[115; 117; 98]]; [[115; 117; 98]; [97]]; [[115; 117; 98]; [122]];
         [[115; 117; 98; 33; 120]] ].
Proof. exact walk_example. Qed.
Print Assumptions walk_hypotheses_satisfiable.
