(* Props/C07.v — property C07 "Malformed input cannot crash, hang, or disturb other sources" (partial).
   Statements only.  What is PROVED here, for all inputs / schedules:
     (1) isolation: a source that fails after delivering k of its messages (k = 0: it fails at
         once) is, on every schedule of the worker/coordinator system, observationally a source
         with exactly those k messages: the other sources' messages are printed exactly as `merge`
         of those sources alone orders them; the run ends (no deadlock, bounded executions);
     (2) the modelled reader cores never reach an explicit Panic outcome (Rust unsigned underflow,
         assert_le!, unwrap on None, slice index) and never run out of fuel (= their loops
         terminate): line reader, datetime search (binary and linear), record walk, classifier;
         and, since the extension round, the readers WITH their caches over arbitrary call
         histories, the regex matcher on arbitrary patterns and texts, record rendering, the
         journal export parser, the event-log drain, the year walk, and block assembly from a
         decoder that delivers less than declared (an error, never a wrong block).
   What is only VALIDATED (checks/c07.py, fault enumeration on the real binary): third-party
   decoders/parsers on hostile bytes, the unsafe struct casts, exit status and promptness. *)
From Coq Require Import List ZArith NArith Bool Arith.
Import ListNotations.
From S4.Model Require Merge Coord.
From S4.Props Require C01 C06.
From S4.Base Require Bytes Chunk.
From S4.Model Require Lines.
From S4.Props Require C02.
From S4.Spec Require WindowSpec.
From S4.Model Require Search.
From S4.Props Require C03.
From S4.Base Require Bytes.
From S4.Model Require Classify.
From S4.Gen Require ClassifyTables.
From S4.Props Require C16.
From S4.Spec Require LinesSpec.
From S4.Model Require Caches.
From S4.Model Require Regex RegexPlan RegexDt.
From S4.Props Require C04.
From S4.Base Require Bytes.
From S4.Model Require Records RecordRender LayoutDetect.
From S4.Gen Require FixedStructTables.
From S4.Props Require C08.
From S4.Spec Require AssembleSpec.
From S4.Model Require Assemble.
From S4.Props Require C05.
From S4.Model Require Journal.
From S4.Props Require C09.
From S4.Model Require Calendar Year.
From S4.Props Require C11.
From S4.Proofs Require CachesRunProofs RecordRenderProofs AssembleProofs AssembleTheorems JournalExport YearProofs.

Module Isolation.
  Import Merge Coord.
  Import C01 C06.

  Theorem C07_failing_source_isolated : forall cap A x B k s,
    well_tagged (A ++ x :: B) ->
    reachable cap (A ++ firstn k x :: B) s -> final s = true ->
    filter (fun m => negb (from_src (length A) m)) (printed s) = merge (A ++ B) /\
    filter (from_src (length A)) (printed s) = firstn k x.
  Proof. exact C06_failing_source_isolated. Qed.
  Print Assumptions C07_failing_source_isolated.

  Theorem C07_no_deadlock : forall cap Ss s,
    (1 <= cap)%nat -> reachable cap Ss s -> final s = false -> exists e s', step cap s e = Some s'.
  Proof. exact C06_no_deadlock. Qed.
  Print Assumptions C07_no_deadlock.

  Theorem C07_executions_bounded : forall cap es s s',
    run cap s es = Some s' -> (length es + mu s' <= mu s)%nat.
  Proof. exact C06_executions_bounded. Qed.
  Print Assumptions C07_executions_bounded.

  Theorem C07_empty_sources_invisible : forall X X', nil_ext X X' -> merge X = merge X'.
  Proof. exact C01_merge_empty_sources. Qed.
  Print Assumptions C07_empty_sources_invisible.
End Isolation.

Module LineReader.
  Import Bytes Chunk.
  Import Lines.
  Import C02.
  Open Scope N_scope.

  Theorem C07_find_line_no_panic : forall bs (f : file) fo, 0 < bs ->
    find_line_m bs f fo <> Panic /\ find_line_m bs f fo <> OutOfFuel.
  Proof. exact find_line_total. Qed.
  Print Assumptions C07_find_line_no_panic.
End LineReader.

Module Search.
  Import WindowSpec.
  Import Search.
  Import C03.
  Open Scope N_scope.

  Theorem C07_bsearch_no_panic : forall (lead : N) (l : layout) (a : option Z) (fo0 : N),
    nondecreasing s_t (groups lead l) = true -> Forall (fun g => 2 <= fst g) l ->
    fo0 <= fsize lead l ->
    forall c, l_bsearch lead l a fo0 <> SPanic c /\ l_bsearch lead l a fo0 <> SDoneErr c /\
              l_bsearch lead l a fo0 <> SOutOfFuel.
  Proof. exact C03_bsearch_no_panic. Qed.
  Print Assumptions C07_bsearch_no_panic.

  Theorem C07_linear_search_total : forall (lead : N) (l : layout) (a : option Z) (fo0 : N),
    Forall (fun g => 1 <= fst g) l ->
    forall c, l_linear lead l a fo0 <> SPanic c /\ l_linear lead l a fo0 <> SDoneErr c /\
              l_linear lead l a fo0 <> SOutOfFuel.
  Proof. exact C03_linear_total. Qed.
  Print Assumptions C07_linear_search_total.
End Search.

Module Classifier.
  Import Bytes.
  Import Classify.
  Import ClassifyTables.
  Import C16.

  Theorem C07_classify_total : forall (uat : bool) (a : fta) (p : bytes),
    classify sfx_table name_table junk junk_lead (S (List.length p)) uat a p <> ROutOfFuel.
  Proof. exact C16_classify_total. Qed.
  Print Assumptions C07_classify_total.
End Classifier.

(* ---- extension round: the newly modelled cores -------------------------------------------------- *)

Module CachedReaders.
  Import Bytes Chunk.
  Import LinesSpec.
  Import Lines Syslines.
  Import Caches.
  Import CachesRunProofs.
  Import C02.
  Open Scope N_scope.

  (* any history of find_line / find_sysline / in-block finds (any offsets, any order, LRU caches
     switched on and off) on any bytes: no call of the cached readers panics *)
  Theorem C07_cached_readers_no_panic : forall dated bs (f : file) ops, 0 < bs -> Forall op_nodrop ops ->
    forallb (fun x => negb (cres_panicked x)) (snd (c_run dated bs f cinit ops)) = true.
  Proof. exact cached_nodrop_no_panic. Qed.
  Print Assumptions C07_cached_readers_no_panic.
End CachedReaders.

Module RegexMatcher.
  Import Regex RegexPlan RegexDt.

  Import C04.

  (* the matcher gives a verdict (match or no match) for every pattern and every text: the fuel
     |text|+1 suffices, no Unknown, no OutOfFuel — hostile text cannot make the model loop *)
  Theorem C07_regex_total : forall r text,
    search r text = NoMatch \/ exists mt, search r text = Match mt.
  Proof. exact C04_regex_total. Qed.
  Print Assumptions C07_regex_total.
End RegexMatcher.

Module Records.
  Import Bytes.
  Import Records RecordRender LayoutDetect.
  Import FixedStructTables.
  Import RecordRenderProofs.
  Import C08.
  Open Scope N_scope.

  (* rendering a record of any table layout never fails and never truncates, whatever the bytes *)
  Theorem C07_as_bytes_never_fails : forall f32txt n items e,
    In (n, items) fixedstruct_render -> (forall b, (length (f32txt b) <= 64)%nat) -> bytes_ok e ->
    as_bytes f32txt print_buffer_cap items as_bytes_tail e = ROk (render f32txt items as_bytes_tail e).
  Proof. exact C08_as_bytes_is_render. Qed.
  Print Assumptions C07_as_bytes_never_fails.
End Records.

Module Assembly.
  Import Bytes.
  Import AssembleSpec.
  Import Assemble.
  Import AssembleProofs AssembleTheorems.

  Import C05.
  Open Scope N_scope.

  (* a truncated or over-long compressed stream: whatever the decoder delivers (within its read
     contract), a block that IS returned is the right block — a short stream is an error, never
     silently different bytes *)
  Theorem C07_assemble_never_wrong :
    forall dstate read remaining, contract dstate read remaining ->
      forall buf, buf_ok buf ->
      forall bs n d0 plain, 0 < bs -> remaining d0 = plain ->
        forall i b, assemble dstate (fill_block dstate read buf) bs n d0 i = AOk b ->
                    b = blk bs (firstn (N.to_nat n) plain) i.
  Proof. exact assemble_never_wrong. Qed.
  Print Assumptions C07_assemble_never_wrong.
End Assembly.

Module JournalExport.
  Import Journal.
  Import JournalExport.

  Import C09.

  Theorem C07_parse_export_terminates : forall s, parse_export s <> POutOfFuel.
  Proof. exact parse_export_fuel_ok. Qed.
  Print Assumptions C07_parse_export_terminates.
End JournalExport.

Module YearWalk.
  Import Calendar Year.
  Import YearProofs.

  Import C11.

  (* the retry loop of the year walk needs at most two attempts per message: it terminates *)
  Theorem C07_year_walk_terminates : forall k off Y msgs,
    Forall wf_msg msgs -> assign_years (2 + k) off Y msgs = assign_years 2 off Y msgs.
  Proof. exact C11_assign_fuel. Qed.
  Print Assumptions C07_year_walk_terminates.
End YearWalk.
