(* Props/C07.v — property C07 "Malformed input cannot crash, hang, or disturb other sources" (partial).
   Statements only.  What is PROVED here, for all inputs / schedules:
     (1) isolation: a source that fails after delivering k of its messages (k = 0: it fails at
         once) is, on every schedule of the worker/coordinator system, observationally a source
         with exactly those k messages: the other sources' messages are printed exactly as `merge`
         of those sources alone orders them; the run ends (no deadlock, bounded executions);
     (2) the modelled reader cores never reach an explicit Panic outcome (Rust unsigned underflow,
         assert_le!, unwrap on None, slice index) and never run out of fuel (= their loops
         terminate): line reader, datetime search (binary and linear), record walk, classifier.
   What is only VALIDATED (checks/c07.py, fault enumeration on the real binary): third-party
   decoders/parsers on hostile bytes, the unsafe struct casts, exit status and promptness. *)
From Coq Require Import List ZArith NArith Bool Arith.
Import ListNotations.
From S4.Model Require Merge Coord.
From S4.Props Require C01 C06.
From S4.Base Require Bytes Chunk.
From S4.Model Require Lines.
From S4.Props Require C02.
From S4.Spec Require WindowSpec.
From S4.Model Require Search.
From S4.Props Require C03.
From S4.Base Require Bytes.
From S4.Model Require Classify.
From S4.Gen Require ClassifyTables.
From S4.Props Require C16.

Module Isolation.
  Import Merge Coord.
  Import C01 C06.

  Theorem C07_failing_source_isolated : forall cap A x B k s,
    well_tagged (A ++ x :: B) ->
    reachable cap (A ++ firstn k x :: B) s -> final s = true ->
    filter (fun m => negb (from_src (length A) m)) (printed s) = merge (A ++ B) /\
    filter (from_src (length A)) (printed s) = firstn k x.
  Proof. exact C06_failing_source_isolated. Qed.
  Print Assumptions C07_failing_source_isolated.

  Theorem C07_no_deadlock : forall cap Ss s,
    (1 <= cap)%nat -> reachable cap Ss s -> final s = false -> exists e s', step cap s e = Some s'.
  Proof. exact C06_no_deadlock. Qed.
  Print Assumptions C07_no_deadlock.

  Theorem C07_executions_bounded : forall cap es s s',
    run cap s es = Some s' -> (length es + mu s' <= mu s)%nat.
  Proof. exact C06_executions_bounded. Qed.
  Print Assumptions C07_executions_bounded.

  Theorem C07_empty_sources_invisible : forall X X', nil_ext X X' -> merge X = merge X'.
  Proof. exact C01_merge_empty_sources. Qed.
  Print Assumptions C07_empty_sources_invisible.
End Isolation.

Module LineReader.
  Import Bytes Chunk.
  Import Lines.
  Import C02.
  Open Scope N_scope.

  Theorem C07_find_line_no_panic : forall bs (f : file) fo, 0 < bs ->
    find_line_m bs f fo <> Panic /\ find_line_m bs f fo <> OutOfFuel.
  Proof. exact find_line_total. Qed.
  Print Assumptions C07_find_line_no_panic.
End LineReader.

Module Search.
  Import WindowSpec.
  Import Search.
  Import C03.
  Open Scope N_scope.

  Theorem C07_bsearch_no_panic : forall (lead : N) (l : layout) (a : option Z) (fo0 : N),
    nondecreasing s_t (groups lead l) = true -> Forall (fun g => 2 <= fst g) l ->
    fo0 <= fsize lead l ->
    forall c, l_bsearch lead l a fo0 <> SPanic c /\ l_bsearch lead l a fo0 <> SDoneErr c /\
              l_bsearch lead l a fo0 <> SOutOfFuel.
  Proof. exact C03_bsearch_no_panic. Qed.
  Print Assumptions C07_bsearch_no_panic.

  Theorem C07_linear_search_total : forall (lead : N) (l : layout) (a : option Z) (fo0 : N),
    Forall (fun g => 1 <= fst g) l ->
    forall c, l_linear lead l a fo0 <> SPanic c /\ l_linear lead l a fo0 <> SDoneErr c /\
              l_linear lead l a fo0 <> SOutOfFuel.
  Proof. exact C03_linear_total. Qed.
  Print Assumptions C07_linear_search_total.
End Search.

Module Classifier.
  Import Bytes.
  Import Classify.
  Import ClassifyTables.
  Import C16.

  Theorem C07_classify_total : forall (uat : bool) (a : fta) (p : bytes),
    classify sfx_table name_table junk junk_lead (S (List.length p)) uat a p <> ROutOfFuel.
  Proof. exact C16_classify_total. Qed.
  Print Assumptions C07_classify_total.
End Classifier.
