(* Props/C18.v — property C18 "No temporary files are left behind, even on Ctrl-C".
   Statements only.  The model (Model/TempFiles.v) is an interleaving model of worker threads,
   the signal handler and main; `run p (init n) evs` is the state after the schedule `evs`
   (any list of events: every interleaving and every signal moment is some list). *)
From Coq Require Import List Bool Arith.
Import ListNotations.
From S4.Model Require Import TempFiles.
From S4.Gen Require Import TempProto.
From S4.Proofs Require Import TempFilesProofs.

(* THE PROPERTY, for the protocol the CURRENT TREE implements (Gen/TempProto.v is regenerated from
   src/readers/filedecompressor.rs and src/bin/s4.rs on every run: [current_proto] is Pfixed since the
   fix commit that creates and lists the file under the registry lock and refuses creation once the
   registry was swept): for every number of sources, every interleaving and every signal moment,
   no temporary file exists when the process has ended.  The proof term is the theorem about
   Pfixed: it type-checks only while the translator still reads that protocol out of the source. *)
Theorem C18_current_tree_exit_clean : forall n evs,
  exited (run current_proto (init n) evs) = true -> files (run current_proto (init n) evs) = 0.
Proof. exact exit_clean_fixed. Qed.
Print Assumptions C18_current_tree_exit_clean.

(* non-vacuity: a schedule with a SIGINT between two workers' creations reaches the exit *)
Theorem C18_current_tree_interrupted_run_exists :
  let evs := [EW 0; EH; EH; EW 1; EH; EM; EM] in
  exited (run current_proto (init 2) evs) = true /\ files (run current_proto (init 2) evs) = 0
  /\ pc (nth 1 (ws (run current_proto (init 2) evs)) w0) = WRefused.
Proof. vm_compute. repeat split; reflexivity. Qed.
Print Assumptions C18_current_tree_interrupted_run_exists.

(* Normal run of the protocol Pcur (the tree between the two fix commits: main sweeps the list): for every number of sources and
   every interleaving without a signal, no temporary file exists when the process ends. *)
Theorem C18_normal_exit_clean : forall n evs,
  no_signal evs = true ->
  exited (run Pcur (init n) evs) = true ->
  files (run Pcur (init n) evs) = 0.
Proof. exact normal_exit_clean_cur. Qed.
Print Assumptions C18_normal_exit_clean.

(* The premises are satisfiable: a two-source run that ends, with a late reader drop. *)
Theorem C18_normal_run_exists :
  let evs := [EW 0; EW 1; EW 0; EW 1; EW 0; EW 1; EM; EW 0; EM] in
  no_signal evs = true /\ exited (run Pcur (init 2) evs) = true /\ files (run Pcur (init 2) evs) = 0.
Proof. exact normal_run_exists. Qed.
Print Assumptions C18_normal_run_exists.

(* F11 (repaired by a fix: commit): the protocol before the fix left a file after a NORMAL run. *)
Theorem C18_normal_exit_leak_old_refuted :
  exists evs, no_signal evs = true /\ exited (run Pold (init 1) evs) = true
              /\ files (run Pold (init 1) evs) = 1.
Proof. exact normal_exit_leak_old_refuted. Qed.
Print Assumptions C18_normal_exit_leak_old_refuted.

(* FULL statement of the property for interrupts:
     forall n evs, exited (run P (init n) evs) = true -> files (run P (init n) evs) = 0.
   It was FALSE of the protocol Pcur (finding F5, repaired by a fix: commit; two witness schedules kept
   as regression lemmas) ... *)
Theorem C18_sigint_leak_cur_refuted_create_register :
  exists evs, exited (run Pcur (init 1) evs) = true /\ files (run Pcur (init 1) evs) = 1.
Proof. exact sigint_leak_cur_refuted_create_register. Qed.
Print Assumptions C18_sigint_leak_cur_refuted_create_register.

Theorem C18_sigint_leak_cur_refuted_create_after_handler :
  exists evs, exited (run Pcur (init 2) evs) = true /\ files (run Pcur (init 2) evs) = 1.
Proof. exact sigint_leak_cur_refuted_create_after_handler. Qed.
Print Assumptions C18_sigint_leak_cur_refuted_create_after_handler.

(* ... and TRUE of the repaired protocol (creation+registration atomic under the registry lock,
   refused once the registry is closed): every n, every schedule, every signal moment. *)
Theorem C18_exit_clean_fixed_protocol : forall n evs,
  exited (run Pfixed (init n) evs) = true -> files (run Pfixed (init n) evs) = 0.
Proof. exact exit_clean_fixed. Qed.
Print Assumptions C18_exit_clean_fixed_protocol.

(* Promptness of the tree BEFORE the fix (finding F5b, repaired by a fix: commit; kept as regression lemmas): while the coordinator is blocked in select (holding the read lock
   the handler needs) and no worker sends, no sequence of handler/main steps reaches the exit ... *)
Theorem C18_prompt_refuted : forall evs,
  no_send evs = true -> pexit (prun false pblocked0 evs) = false.
Proof. exact prompt_refuted. Qed.
Print Assumptions C18_prompt_refuted.

Theorem C18_prompt_starvation_refuted : forall k,
  pexit (prun false pblocked0 (concat (repeat [PWorkerSend; PMain; PHandler] k))) = false.
Proof. exact prompt_starvation_refuted. Qed.
Print Assumptions C18_prompt_starvation_refuted.

(* ... whereas with a select that times out, five steps reach the exit from every state. *)
Theorem C18_prompt_with_timeout : forall s,
  pexit (prun true s [PMain; PHandler; PMain; PHandler; PMain]) = true.
Proof. exact prompt_with_timeout. Qed.
Print Assumptions C18_prompt_with_timeout.

(* PROMPTNESS for the protocol the CURRENT TREE implements ([current_select_has_timeout] and
   [current_handler_flag_first] are regenerated from src/bin/s4.rs on every run; both are true since
   the fix commit that bounds the wait on the channels and makes the handler signal the early exit
   first): once the handler has taken its first step, ANY continuation of the schedule in which main
   is given two steps — whatever the workers do, silent or not — has reached the exit. *)
Theorem C18_current_tree_prompt : forall s evs1 evs2,
  2 <= count_main evs2 ->
  pexit (prun_gen current_select_has_timeout current_handler_flag_first s (evs1 ++ PHandler :: evs2)) = true.
Proof. exact prompt_both_all_schedules. Qed.
Print Assumptions C18_current_tree_prompt.

Theorem C18_current_tree_prompt_example :
  pexit (prun_gen current_select_has_timeout current_handler_flag_first pblocked0
           [PWorkerSilent; PHandler; PWorkerSilent; PMain; PWorkerSilent; PMain]) = true
  /\ count_main [PWorkerSilent; PMain; PWorkerSilent; PMain] = 2.
Proof. exact prompt_both_example. Qed.
Print Assumptions C18_current_tree_prompt_example.

(* the bounded wait ALONE (the handler still asking for the lock first) does not give promptness:
   main leaves its wait and re-enters it before the handler is scheduled, for ever — the starvation
   observed on the tree before the fix *)
Theorem C18_prompt_timeout_alone_starves : forall k,
  pexit (prun_gen true false pblocked0 (concat (repeat [PMain; PMain; PHandler] k))) = false
  /\ hdone (prun_gen true false pblocked0 (concat (repeat [PMain; PMain; PHandler] k))) = false.
Proof. exact prompt_timeout_alone_starves. Qed.
Print Assumptions C18_prompt_timeout_alone_starves.
