(* Props/C01.v — property C01 "Merged output is chronological, with a deterministic tie rule".
   Statements only; every proof is `exact <lemma>`.  The model of the merge is
   Model/Merge.v; Props/C06.v shows that every schedule of the coordinator prints
   exactly [merge srcs]. *)
From Coq Require Import List ZArith Bool Sorted Permutation.
From S4.Model Require Import Merge.
From S4.Proofs Require Import MergeProofs MergeExamples.
Import ListNotations.
Open Scope Z_scope.

(* fuel = total number of messages suffices: merge never runs out of fuel *)
Theorem C01_merge_fuel_enough : forall n Ss,
  (total Ss <= n)%nat -> merge_fuel n Ss = Done (merge Ss).
Proof. exact merge_fuel_enough. Qed.
Print Assumptions C01_merge_fuel_enough.

(* the defining equation: emit the pick, continue with its source advanced *)
Theorem C01_merge_eq : forall Ss,
  merge Ss = match pick Ss with
             | None => []
             | Some (i, m) => m :: merge (pop i Ss)
             end.
Proof. exact merge_eq. Qed.
Print Assumptions C01_merge_eq.

(* the pick is the earliest pending head, the first such source on ties *)
Theorem C01_pick_earliest : forall Ss i m, pick Ss = Some (i, m) -> earliest_at Ss i m.
Proof. exact pick_earliest. Qed.
Print Assumptions C01_pick_earliest.

(* nothing dropped, repeated or reordered within a source *)
Theorem C01_merge_per_source_order : forall Ss,
  well_tagged Ss -> forall i, filter (from_src i) (merge Ss) = nth i Ss [].
Proof. exact merge_per_source_order. Qed.
Print Assumptions C01_merge_per_source_order.

Theorem C01_merge_perm : forall Ss, Permutation (merge Ss) (concat Ss).
Proof. exact merge_perm. Qed.
Print Assumptions C01_merge_perm.

(* at every step k the emitted message is the earliest pending head over the
   sources as they stand after k emissions ([after k Ss]); on equal instants it
   comes from the first such source *)
Theorem C01_merge_earliest_pending : forall k Ss m,
  nth_error (merge Ss) k = Some m -> exists i, earliest_at (after k Ss) i m.
Proof. exact merge_earliest_pending. Qed.
Print Assumptions C01_merge_earliest_pending.

(* [after k Ss] is what it should be: the output splits there, and source j
   holds exactly the messages it has not yet emitted *)
Theorem C01_after_merge : forall k Ss, merge Ss = firstn k (merge Ss) ++ merge (after k Ss).
Proof. exact after_merge. Qed.
Print Assumptions C01_after_merge.

Theorem C01_after_spec : forall Ss k j,
  well_tagged Ss ->
  nth j Ss [] = filter (from_src j) (firstn k (merge Ss)) ++ nth j (after k Ss) [].
Proof. exact after_spec. Qed.
Print Assumptions C01_after_spec.

(* every source chronological => the whole output chronological *)
Theorem C01_merge_sorted : forall Ss, Forall sorted_inst Ss -> sorted_inst (merge Ss).
Proof. exact merge_sorted. Qed.
Print Assumptions C01_merge_sorted.

(* the tie rule in closed form: for chronological sources the output is the stable
   sort by instant of the sources concatenated in the order they were named *)
Theorem C01_merge_is_stable_sort : forall Ss,
  Forall sorted_inst Ss -> merge Ss = stable_sort (concat Ss).
Proof. exact merge_is_stable_sort. Qed.
Print Assumptions C01_merge_is_stable_sort.

(* ... and stable_sort is a stable sort: sorted, a permutation, and the messages of
   any one instant keep their input order *)
Theorem C01_stable_sort_sorted : forall l, sorted_inst (stable_sort l).
Proof. exact stable_sort_sorted. Qed.
Print Assumptions C01_stable_sort_sorted.

Theorem C01_stable_sort_perm : forall l, Permutation (stable_sort l) l.
Proof. exact stable_sort_perm. Qed.
Print Assumptions C01_stable_sort_perm.

Theorem C01_stable_sort_stable : forall k l,
  filter (at_inst k) (stable_sort l) = filter (at_inst k) l.
Proof. exact stable_sort_filter. Qed.
Print Assumptions C01_stable_sort_stable.

(* tie rule, direct form: messages carrying the same instant are printed in source
   order, and within a source in file order *)
Theorem C01_tie_rule : forall k Ss,
  Forall sorted_inst Ss -> filter (at_inst k) (merge Ss) = filter (at_inst k) (concat Ss).
Proof. exact merge_filter_inst. Qed.
Print Assumptions C01_tie_rule.

(* sources with no message (anywhere in the list) change nothing *)
Theorem C01_merge_empty_sources : forall X X', nil_ext X X' -> merge X = merge X'.
Proof. exact merge_nil_ext. Qed.
Print Assumptions C01_merge_empty_sources.

Theorem C01_merge_insert_empty : forall A B, merge (A ++ [] :: B) = merge (A ++ B).
Proof. exact merge_insert_empty. Qed.
Print Assumptions C01_merge_insert_empty.

Theorem C01_merge_remove_empties : forall X, merge (filter nonempty X) = merge X.
Proof. exact merge_remove_empties. Qed.
Print Assumptions C01_merge_remove_empties.

(* sources given as lists of instants are well tagged (the hypotheses above are satisfiable) *)
Theorem C01_tag_srcs_well_tagged : forall X, well_tagged (tag_srcs X).
Proof. exact tag_srcs_well_tagged. Qed.
Print Assumptions C01_tag_srcs_well_tagged.

(* ---- examples: cross- and intra-source ties, non-chronological source, first minimum ---- *)
Example C01_ex_merge_ties :
  view (merge ex_srcs) =
  [(2, 0, 0); (0, 0, 1); (0, 1, 1); (1, 0, 1); (2, 1, 1); (1, 1, 2); (1, 2, 2); (0, 2, 3)].
Proof. exact ex_merge_ties. Qed.
Print Assumptions C01_ex_merge_ties.

Example C01_ex_hypotheses : Forall sorted_inst ex_srcs /\ well_tagged ex_srcs.
Proof. exact (conj ex_sorted ex_well_tagged). Qed.
Print Assumptions C01_ex_hypotheses.

Example C01_ex_unsorted_source :
  view (merge (tag_srcs [[5; 1]; [3]])) = [(1, 0, 3); (0, 0, 5); (0, 1, 1)].
Proof. exact ex_unsorted_source. Qed.
Print Assumptions C01_ex_unsorted_source.

Example C01_ex_first_minimum :
  view (merge (tag_srcs [[7]; [7]; [7]])) = [(0, 0, 7); (1, 0, 7); (2, 0, 7)].
Proof. exact ex_first_minimum. Qed.
Print Assumptions C01_ex_first_minimum.
